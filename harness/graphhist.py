"""Shared driver for the checks that run exact-integer histories on /repo and on Model/GraphP.v
(C01, C07, C09, C10, C12, C14)."""
import concurrent.futures as cf
import glob
import json
import os

import progs
from common import HarnessError, VERIF, eval_cases, parse_coq_list_of_nat, run_impl_parallel


class ObservationFailure(Exception):
    """observing a tensor (reading .grad) raised inside the implementation: a violation in itself"""

    def __init__(self, case, errors):
        Exception.__init__(self, errors[0])
        self.case, self.errors = case, errors


def chunks(xs, n):
    return [xs[i:i + n] for i in range(0, len(xs), n)]


def run_impl_cases(cases, jobs=16, script="prog_impl.py"):
    if not cases:
        return []
    parts = chunks(cases, max(1, (len(cases) + jobs - 1) // jobs))
    res = run_impl_parallel(script, [{"cases": p} for p in parts])
    out = []
    for r in res:
        out.extend(r["results"])
    for c, r in zip(cases, out):
        if "harness_error" in r:
            raise HarnessError("impl runner: " + r["harness_error"])
        if r.get("observe_errors"):
            raise ObservationFailure(c, r["observe_errors"])
    return out


def coq_eval_indices(terms, typ, fn, work, tag, shard=120, header=None):
    """terms: list of Coq term strings of type `typ`; fn: Coq function list typ -> list nat (failing indices)"""
    idx_all = list(range(len(terms)))
    shards = chunks(idx_all, shard)

    def one(k):
        idx = shards[k]
        body = "[\n" + ";\n".join(terms[i] for i in idx) + "]"
        v = (header or progs.HEADER) + "Definition cases : list %s := %s.\nEval vm_compute in (%s cases).\n" % (typ, body, fn)
        out = eval_cases(v, work, name="%s_%d" % (tag, k))
        lists = parse_coq_list_of_nat(out)
        if len(lists) != 1:
            raise HarnessError("unparsable Coq output: " + out[-400:])
        return idx, lists[0]

    res = []
    with cf.ThreadPoolExecutor(max_workers=8) as ex:
        for r in ex.map(one, range(len(shards))):
            res.append(r)
    return res


def model_failing(builders, results, work, tag):
    terms = [progs.coq_gcase(b, r) for b, r in zip(builders, results)]
    bad = []
    for idx, lst in coq_eval_indices(terms, "gcase", "gfailing", work, tag):
        bad.extend(idx[j] for j in lst)
    return sorted(bad)


def coq_classes(terms, typ, fn, work, tag, shard=120, header=None):
    """fn returns one nat per case"""
    out = [None] * len(terms)
    for idx, lst in coq_eval_indices(terms, typ, fn, work, tag, shard, header=header):
        if len(lst) != len(idx):
            raise HarnessError("class list has wrong length")
        for i, c in zip(idx, lst):
            out[i] = c
    return out


def load_corpus(pid):
    out = []
    for f in sorted(glob.glob(os.path.join(VERIF, "corpus", pid, "*.json"))):
        d = json.load(open(f))
        if "stmts" in d:
            out.append(progs.builder_from_stmts(d["stmts"]))
    return out


def hist(xs):
    h = {}
    for x in xs:
        h[x] = h.get(x, 0) + 1
    return {str(k): h[k] for k in sorted(h, key=str)}


def op_histogram(builders):
    h = {}
    for b in builders:
        for s in b.stmts:
            key = s["fn"] if s["op"] == "apply" else s["op"]
            h[key] = h.get(key, 0) + 1
    return h


def exception_histogram(results):
    exc = {}
    for r in results:
        for o in r["outcomes"]:
            if o is not None:
                exc[o] = exc.get(o, 0) + 1
    return exc


def catalogue_sweep(mode, variants, seed, key, replay=None):
    """run the operation catalogue (harness/impl/ops_impl.py) in `mode` for every value of task field `key` in `variants`; -> (tasks, results)"""
    from common import HarnessError, run_impl_parallel
    info = run_impl_parallel("ops_impl.py", [{"list": True}])[0]
    idx = list(range(info["n"])) if replay is None else [replay["catalog_index"]]
    tasks = [{"index": i, "mode": mode, "seed": seed, key: v} for v in variants for i in idx]
    parts = [tasks[i::16] for i in range(16)]
    flat = [t for p in parts for t in p]
    res = []
    for rr in run_impl_parallel("ops_impl.py", [{"tasks": p} for p in parts if p]):
        res.extend(rr["results"])
    for r in res:
        if "harness_error" in r:
            raise HarnessError("ops_impl: " + r["harness_error"])
    return flat, res
