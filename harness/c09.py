"""C09 -- backprop through a partially cleared graph fails loudly, never silently.
Theorems: coq/Props/C09.v.  Tie: histories with several terminals sharing upstream tensors, with backward /
clear_graph / null_grad / new operations / del interleaved, run on /repo and on Model/GraphP.v (exact
integers, outcome of every statement, gradients and bookkeeping after every backward).  Property oracle: for
every backward() that returns normally, the gradients must be those of the computation AS RECORDED (evaluated
with the proved model on the history with all earlier backward/clear statements removed)."""
import json

import graphhist as gh
import progs
from common import HarnessError, known_findings, rng_for


def c9_terms(b, r):
    """one c9case per backward statement that returned normally in the implementation"""
    mindex = progs.model_stmt_index(b)
    snaps = {s["after"]: s["obs"] for s in r["observations"]}
    hist = progs.coq_history(b)
    out = []
    for j, (s, exc) in enumerate(zip(b.stmts, r["outcomes"])):
        if s["op"] != "backward" or exc is not None:
            continue
        obs = snaps.get(j + 1)
        if obs is None:
            continue
        i = mindex[j - 1] if j > 0 else 0
        n_nodes = b.stmt_node_count[j]
        t = None
        for k, nm in b.node_name.items():
            if nm == s["t"]:
                t = k
        seed = "None"
        if s.get("seed") is not None:
            m = b.mstmts[mindex[j] - 1]
            seed = "(Some %s)" % progs.zlist(m[2])
        tob = []
        for k in range(n_nodes):
            nm = b.node_name.get(k)
            o = obs.get(nm) if nm is not None else None
            if o is None:
                tob.append("None")
            else:
                tob.append("(Some %s)" % ("None" if o["grad"] is None else "(Some %s)" % progs.zlist(o["grad"])))
        out.append((j, "(%s, %d%%nat, %d%%nat, %s, [%s])" % (hist, i, t, seed, ";".join(tob))))
    return out


def einsum_retry(b, r):
    """known finding einsum_backward_single_use: EinSum.backward_var zeroes a per-(tensor, label) cache and never resets it, so after a
    backward pass that was ABORTED by InvalidBackprop, a later backward through a graph containing an einsum skips that node's gradient
    contributions: it ends in AssertionError, or in InvalidBackprop again but with different partial gradients.  Predicate: the history
    has an einsum, some backward raised InvalidBackprop, and another backward follows it."""
    has_einsum = any(s["op"] == "apply" and s["fn"] == "einsum" for s in b.stmts)
    if not has_einsum:
        return False
    seen_fail = False
    for s, exc in zip(b.stmts, r["outcomes"]):
        if s["op"] == "backward":
            if seen_fail:
                return True
            if exc == "InvalidBackprop":
                seen_fail = True
    return False


def run(rep, work, tier, seed, props, replay=None):
    rng = rng_for(seed, "C09")
    kf = {f["name"]: f for f in known_findings("C09") if f["status"] == "known"}
    n = 5000 if tier == "thorough" else 700
    builders = gh.load_corpus("C09")
    for f in kf.values():
        if "stmts" in f.get("witness", {}):
            builders.append(progs.builder_from_stmts(f["witness"]["stmts"]))
    if replay is not None:
        builders = [progs.builder_from_stmts(replay["stmts"])] if "stmts" in replay else []    # sweep replays carry a catalogue index instead
        n = 1
    while len(builders) < n:
        builders.append(progs.gen_history(rng))
    results = gh.run_impl_cases([b.case("backward") for b in builders])
    keep = [i for i, r in enumerate(results) if progs.exact_safe(r)]
    discarded = len(builders) - len(keep)
    kb = [builders[i] for i in keep]
    kr = [results[i] for i in keep]

    # 1. faithful correspondence
    retry = [einsum_retry(b, r) for b, r in zip(kb, kr)]
    cmp_idx = [i for i in range(len(kb)) if not retry[i]]
    bad = [cmp_idx[j] for j in gh.model_failing([kb[i] for i in cmp_idx], [kr[i] for i in cmp_idx], work, "c09m")]
    if any(retry):
        if "einsum_backward_single_use" in kf:
            rep.known("einsum_backward_single_use", "after an aborted backward pass, a later backward through an EinSum node skips its gradient contributions "
                                                    "(AssertionError 'tensor with no gradient', or different partial gradients) (%d histories)" % sum(retry))
        else:
            i = [k for k in range(len(kb)) if retry[k]][0]
            rep.violation({"kind": "backward raised AssertionError instead of InvalidBackprop after an aborted pass through an EinSum node",
                           "stmts": kb[i].stmts, "impl_outcomes": kr[i]["outcomes"]})
    # 2. property oracle
    terms, owner = [], []
    for i, (b, r) in enumerate(zip(kb, kr)):
        if retry[i]:
            continue
        for j, t in c9_terms(b, r):
            terms.append(t)
            owner.append((i, j))
    classes = gh.coq_classes(terms, "c9case", "c9classes", work, "c09o", shard=100) if terms else []
    n_known = 0
    viol = []
    for (i, j), c in zip(owner, classes):
        if c == 1:
            n_known += 1
        elif c == 2:
            viol.append((i, j))
    if n_known:
        if "stale_refill" in kf:
            rep.known("stale_refill", "backward() returns normally with gradients that are not those of the recorded computation when a tensor whose "
                                      "creator was cleared has been re-used since (consumer set refilled): %d backward calls in this run" % n_known)
        else:
            i, j = [(o, c) for o, c in zip(owner, classes) if c == 1][0][0]
            rep.violation({"kind": "silent wrong/stale gradients after partial clearing + re-use (stale_refill)", "stmts": kb[i].stmts[:j + 1], "impl": kr[i]})
    # other exception classes out of backward
    for i, (b, r) in enumerate(zip(kb, kr)):
        if retry[i]:
            continue
        for j, (s, exc) in enumerate(zip(b.stmts, r["outcomes"])):
            if s["op"] == "backward" and exc not in (None, "InvalidBackprop"):
                viol.append((i, j))
    viol = sorted(set(viol), key=lambda ij: len(kb[ij[0]].stmts))
    for i, j in viol[:8]:
        rep.violation({"kind": "backward() neither raised InvalidBackprop nor produced the gradients of the recorded computation (and no stale re-use explains it)",
                       "stmts": kb[i].stmts[:j + 1], "backward_stmt": j, "impl_outcomes": kr[i]["outcomes"][:j + 1],
                       "impl_after": [s for s in kr[i]["observations"] if s["after"] == j + 1][:1]})
    bad_sorted = sorted(bad, key=lambda k: len(kb[k].stmts))
    if bad and not viol:
        k = bad_sorted[0]
        rep.violation({"kind": "correspondence Model/GraphP.v <-> implementation no longer holds on a history (outcomes, gradients or creator/consumer bookkeeping differ) "
                               "while the property oracle found nothing wrong", "broken": "correspondence C09: GraphCorr.gcase_ok",
                       "stmts": kb[k].stmts, "impl": kr[k], "n_disagreements": len(bad)}, no_input=True)
    # every operation of the catalogue (incl. the nnet layers, whose backward bypasses backward_var through SkipGradient): one operand is an
    # intermediate shared with a second graph that is back-propagated first; the pass through the operation must then raise InvalidBackprop
    # (or, if it returns, leave exactly the gradient of the recorded forward pass)
    sweep, sweep_hist, sweep_bad, sweep_hist_mode = [], {}, 0, {}
    if replay is None or "catalog_index" in (replay or {}):
        from common import run_impl_parallel
        info = run_impl_parallel("ops_impl.py", [{"list": True}])[0]
        idx = list(range(info["n"])) if replay is None else [replay["catalog_index"]]
        tasks = [{"index": i, "mode": "stale", "seed": seed, "operand": k} for i in idx for k in ((0, 1, 2) if tier == "thorough" else (0, 1))]
        # the same with the shared intermediate updated IN PLACE between the two backward() calls ("whatever happened in between (in-place updates ..."):
        # the tensor then has a creator again (the update) but still no consumer, and the old graph must still refuse
        tasks += [{"index": i, "mode": "stale_ip", "seed": seed, "operand": k} for i in idx for k in ((0, 1, 2) if tier == "thorough" else (0, 1))]
        if replay is not None:
            tasks = [dict(t, operand=replay.get("operand", t["operand"]), seed=replay.get("seed", t["seed"])) for t in tasks if t["mode"] == replay.get("mode", "stale")][:1]
        parts = [tasks[i::16] for i in range(16)]
        flat = [t for p in parts for t in p]
        for rr in run_impl_parallel("ops_impl.py", [{"tasks": p} for p in parts if p]):
            sweep.extend(rr["results"])
        shown = set()
        for t, r in zip(flat, sweep):
            if "harness_error" in r:
                raise HarnessError("ops_impl: " + r["harness_error"])
            sweep_hist[r["outcome"]] = sweep_hist.get(r["outcome"], 0) + 1
            sweep_hist_mode[t["mode"]] = sweep_hist_mode.get(t["mode"], 0) + 1
            if r["outcome"] not in ("InvalidBackprop", "silent-correct", "identity"):
                sweep_bad += 1
                key = t["mode"] + r["label"].split("(")[0].split(" ")[0]
                if key not in shown and len(shown) < 6:
                    shown.add(key)
                    rep.violation({"kind": "operation sweep: back-propagating through %s after the graph of one of its operands was cleared by another backward()%s did not raise InvalidBackprop: %s"
                                           % (r["label"], " and the operand was then updated in place" if t["mode"] == "stale_ip" else "", r["outcome"]),
                                   "catalog_index": t["index"], "operand": t["operand"], "seed": t["seed"], "mode": t["mode"], "result": r})
    # second pass after an aborted one, for every catalogue operation: L = <C, f(.., W, ..)> with W cleared by another backward(); L.backward() aborts
    # (after f's own backward ran), W is re-used, L.backward() again: InvalidBackprop again, or exactly dL/dW of the recorded forward pass
    rt_tasks, rt_res, rt_hist, rt_bad, rt_known = [], [], {}, 0, {}
    if replay is None or "retry_index" in (replay or {}):
        rp = None if replay is None else {"catalog_index": replay["retry_index"]}
        rt_tasks, rt_res = gh.catalogue_sweep("retry", ([0, 1, 2] if tier == "thorough" else [0, 1]) if replay is None else [replay.get("operand", 0)], seed, "operand", rp)
        shown = set()
        for t, r in zip(rt_tasks, rt_res):
            o = r["outcome"]
            rt_hist[o] = rt_hist.get(o, 0) + 1
            if o in ("second-pass-exact", "InvalidBackprop-again", "identity"):
                continue
            if o == "second-pass-raised:AssertionError" and r["label"].startswith("einsum") and "einsum_backward_single_use" in kf:
                rt_known["einsum_backward_single_use"] = rt_known.get("einsum_backward_single_use", 0) + 1
                continue
            if o == "second-pass-raised:AttributeError" and r["label"].startswith("gru") and "gru_second_pass_attribute_error" in kf:
                rt_known["gru_second_pass_attribute_error"] = rt_known.get("gru_second_pass_attribute_error", 0) + 1
                continue
            rt_bad += 1
            key = r["label"].split("(")[0].split(" ")[0]
            if key not in shown and len(shown) < 6:
                shown.add(key)
                rep.violation({"kind": "operation sweep: a second backward() through %s after an aborted pass: %s (the operation consumed per-pass state?)" % (r["label"], o),
                               "retry_index": t["index"], "operand": t["operand"], "seed": t["seed"], "result": r})
        for name, cnt in rt_known.items():
            rep.known(name, "%s (%d catalogue entries in the retry sweep)" % (kf[name]["what"][:150], cnt))
    if not props["ok"]:
        rep.violation({"kind": "proof obligations of Props/C09.v no longer check", "broken": "Props/C09.v", "log": props["log"][-1500:]}, no_input=not viol)

    def nontrivial(b):
        # >= 2 terminals sharing an upstream tensor with a clear between them: two backward/clear statements with an op in between
        kinds = [s["op"] for s in b.stmts]
        return sum(1 for k in kinds if k in ("backward", "clear")) >= 2
    nt = set(progs.canonical(b) for b in kb if nontrivial(b))
    rep.coverage.update({
        "evaluations": len(kb) + len(sweep) + len(rt_res),
        "operation_sweep_outcomes": sweep_hist, "operation_sweep_modes": sweep_hist_mode, "operation_sweep_violations": sweep_bad,
        "retry_sweep_outcomes": rt_hist, "retry_sweep_violations": rt_bad,
        "distinct_nontrivial": len(nt),
        "rule": "histories: 1-3 leaves, 2-7 ops, then 2-7 events drawn from {backward on a non-constant tensor, clear_graph, null_grad, 1-3 new ops on any live tensor "
                "(incl. tensors whose graph was cleared), del}, then a final backward; non-trivial = at least two backward/clear_graph statements; distinct = distinct statement list",
        "samples": [kb[1].stmts if len(kb) > 1 else kb[0].stmts],
        "backward_calls_checked_by_oracle": len(terms),
        "oracle_classes": gh.hist(classes),
        "discarded_not_exact": discarded,
        "traces_validated_against_impl": len(cmp_idx) - len(bad),
        "model_impl_disagreements": len(bad),
        "input_distribution": {"statements": gh.op_histogram(kb), "statement_exceptions": gh.exception_histogram(kr)},
    })
    rep.assumptions += [
        "in-place updates are not part of these histories (Model/GraphP.v has immutable values); the in-place witness of the known finding is replayed separately",
        "L.backward() on a tensor whose OWN graph was already cleared (e.g. calling it twice) is outside the property's scope and skipped by the oracle",
    ]
