"""Pointer-level correspondence for the in-place machinery (Model/Heap.v): histories of leaf / operation / view / in-place (succeeding and
failing, masked and not) / clear_graph statements are run on /repo and, after EVERY statement, the object graph reachable from the tensors
the history holds (creators, variables, bases, view-children, consumer sets, array objects, .base and buffers) is compared inside Coq with
the heap the model computes (HeapCorr.canon: identities replaced by visit numbers)."""
import json
import random

import numpy as np

import graphhist as gh
from common import HarnessError, run_impl_parallel

K = {"unview": 0, "applymask": 1, "getitem": 2, "T": 16, "transpose": 3, "swapaxes": 4, "reshape": 5, "add": 6, "multiply": 7, "exp": 8, "setitem": 9,
     "subtract": 10, "negative": 11, "square": 12, "moveaxis": 14,
     "iadd": 6, "imul": 7, "isub": 10, "add_out": 6, "mul_out": 7, "exp_out": 8, "add_out_where": 6, "mul_out_where": 7}

KEYS = [["..."], [[None, None, None]], [[None, None, -1]], [[1, None, None]], ["...", [0, 2, None]], [0], ["new"], [[None, None, 2]], ["...", -1]]


def key_np(k):
    def one(x):
        if x == "...":
            return Ellipsis
        if x == "new":
            return np.newaxis
        if isinstance(x, list):
            return slice(*x)
        return int(x)
    return tuple(one(x) for x in k)


def bcast_into(src, dst):
    try:
        return np.broadcast_shapes(src, dst) == tuple(dst)
    except ValueError:
        return False


def gen_case(rng, n_stmts, p_fail=0.2, p_clear=0.06, p_back=0.0, p_shape=0.06):
    """returns the list of statements; shapes are tracked with NumPy so that every statement is valid (or fails by design)"""
    shapes, owner, stmts = [], [], []        # per name: shape, is the owner of C-contiguous memory

    def operand(target_shape, allow_raw=True):
        cands = [i for i, s in enumerate(shapes) if bcast_into(s, target_shape)]
        r = rng.random()
        if cands and r < 0.75:
            return rng.choice(cands)
        if r < 0.9 or not allow_raw:
            return {"raw": None}
        return {"raw": list(target_shape)}

    def add_leaf():
        shp = rng.choice([(3, 3), (3, 3), (2, 3), (4,), (2, 2, 2)])
        stmts.append({"s": "leaf", "shape": list(shp)})
        shapes.append(tuple(shp)); owner.append(True)

    add_leaf()
    while len(stmts) < n_stmts:
        r = rng.random()
        i = rng.randrange(len(shapes))
        if r < 0.08:
            add_leaf()
        elif r < 0.38:       # view
            f = rng.choice(["getitem", "getitem", "getitem", "T", "transpose", "swapaxes", "moveaxis", "reshape"])
            s = {"s": "view", "f": f, "par": i}
            a = np.empty(shapes[i])
            if f == "getitem":
                k = rng.choice(KEYS)
                try:
                    out = a[key_np(k)]
                except IndexError:
                    continue
                if out.ndim == 0 or out.size == 0:
                    continue
                s["key"] = k
                shp = out.shape
            elif f in ("T", "transpose"):
                if a.ndim < 2:
                    continue
                shp = a.T.shape
            elif f == "swapaxes":
                if a.ndim < 2:
                    continue
                shp = np.swapaxes(a, 0, -1).shape
            elif f == "moveaxis":
                if a.ndim < 2:
                    continue
                shp = np.moveaxis(a, 0, -1).shape
            else:
                if not owner[i]:
                    continue
                shp = (a.size,) if a.ndim > 1 else ((2, a.size // 2) if a.size % 2 == 0 else None)
                if shp is None:
                    continue
                s["shape"] = list(shp)
            stmts.append(s); shapes.append(tuple(shp))
            owner.append(bool(owner[i]) and (f == "reshape" or (f == "getitem" and s["key"] in (["..."], [[None, None, None]]))))
        elif r < 0.60:       # non-view operation
            f = rng.choice(["add", "multiply", "subtract", "exp", "negative", "square"])
            if f in ("exp", "negative", "square"):
                args = [i]
            else:
                other = operand(shapes[i])
                args = [i, other] if rng.random() < 0.6 else [other, i]
                if rng.random() < 0.15:
                    args = [i, i]
            stmts.append({"s": "op", "f": f, "args": args}); shapes.append(shapes[i]); owner.append(False)   # (layout follows the operands: not nec. C-contiguous)
        elif r < 1.0 - p_clear - p_back - p_shape:      # in-place
            f = rng.choice(["setitem", "setitem", "iadd", "imul", "isub", "add_out", "mul_out", "exp_out", "add_out_where", "mul_out_where"])
            fail = rng.random() < p_fail
            bad = {"raw": [11, 13]}
            s = {"s": "inplace", "f": f, "m": i, "fail": fail}
            if f == "setitem":
                k = rng.choice(KEYS[:5] + [[0]])
                a = np.empty(shapes[i])
                try:
                    sub = a[key_np(k)]
                except IndexError:
                    continue
                if sub.size == 0:
                    continue
                s["key"] = k
                s["args"] = [i, bad if fail else operand(sub.shape)]
            elif f in ("iadd", "imul", "isub"):
                s["args"] = [i, bad if fail else operand(shapes[i])]
            elif f == "exp_out":
                s["args"] = [bad if fail else operand(shapes[i], allow_raw=False)]
                if isinstance(s["args"][0], dict) and not fail:
                    s["args"] = [i]
            else:
                a1 = operand(shapes[i])
                a2 = bad if fail else operand(shapes[i])
                s["args"] = [a1, a2] if rng.random() < 0.5 else [a2, a1]
                if not fail and not any(isinstance(x, int) and shapes[x] == shapes[i] for x in s["args"]):
                    s["args"][0] = i        # the result must fill the target
            stmts.append(s)
        elif r < 1.0 - p_clear - p_back:      # t.shape = newshape (on tensors known to be C-contiguous); fails for a shape of another size
            if not owner[i]:
                continue
            n = int(np.prod(shapes[i]))
            fail = rng.random() < p_fail
            opts = [s2 for s2 in [(n,), (1, n), (n, 1)] + [(d, n // d) for d in (2, 3, 4) if n % d == 0] + [(2, 2, n // 4)] * (n % 4 == 0) if tuple(s2) != tuple(shapes[i])]
            shp = (n + 1,) if fail else rng.choice(opts)
            stmts.append({"s": "setshape", "t": i, "shape": list(shp), "fail": fail})
            if not fail:
                shapes[i] = tuple(shp)
        elif r < 1.0 - p_back:
            stmts.append({"s": "clear", "t": i})
        else:
            stmts.append({"s": "backward", "t": i})
    return stmts


def coq_arg(a):
    return "Some %d" % a if isinstance(a, int) else "None"


def coq_stmt(s):
    k = s["s"]
    if k == "leaf":
        return "NLeaf"
    if k == "op":
        return "NOp %d [%s]" % (K[s["f"]], "; ".join(coq_arg(a) for a in s["args"]))
    if k == "view":
        return "NView %d %d" % (K[s["f"]], s["par"])
    if k == "inplace":
        return "NInplace %d %d [%s] %s %s" % (s["m"], K[s["f"]], "; ".join(coq_arg(a) for a in s["args"]), "true" if s["f"].endswith("_where") else "false",
                                             "true" if s["fail"] else "false")
    if k == "clear":
        return "NClear %d" % s["t"]
    if k == "backward":
        return "NBackward %d" % s["t"]
    if k == "setshape":
        return "NSetShape %d %s" % (s["t"], "true" if s["fail"] else "false")
    raise HarnessError(k)


def coq_canon(c):
    return "[" + "; ".join("[" + "; ".join(str(x) for x in row) + "]" for row in c) + "]"


def coq_case(stmts, obs):
    return "[" + ";\n ".join("(%s, %s, %s)" % (coq_stmt(s), "true" if o["raised"] else "false", coq_canon(o["canon"])) for s, o in zip(stmts, obs)) + "]"


HEADER = "From Coq Require Import List Bool. Import ListNotations.\nFrom MG Require Import Model.Heap Model.HeapCorr.\n"


def run(rep, work, seed, n_cases, n_stmts, replay=None, tag="heap", p_fail=0.2, p_clear=0.06, p_back=0.0, label="pointer-level heap"):
    rng = random.Random(seed * 7919 + 17)
    cases = [gen_case(rng, rng.randrange(4, n_stmts + 1), p_fail=p_fail, p_clear=p_clear, p_back=p_back) for _ in range(n_cases)]
    if replay is not None and "heap_case" in replay:
        cases = [replay["heap_case"]]
    elif replay is not None:
        return {"cases": 0}
    n = max(1, (len(cases) + 15) // 16)
    parts = [cases[i:i + n] for i in range(0, len(cases), n)]
    res = []
    for r in run_impl_parallel("heap_impl.py", [{"cases": p} for p in parts]):
        res.extend(r["results"])
    for c, r in zip(cases, res):
        if "harness_error" in r:
            raise HarnessError("heap runner: %s on %s" % (r["harness_error"], json.dumps(c)))
    n_trunc = 0
    for k2, (c, r) in enumerate(zip(cases, res)):
        if r["obs"] and r["obs"][-1].get("truncated"):
            n_trunc += 1
            r["obs"].pop()
            cases[k2] = c[:len(r["obs"])]
    terms = [coq_case(c, r["obs"]) for c, r in zip(cases, res)]
    bad = []
    for idx, lst in gh.coq_eval_indices(terms, "hcase", "heap_failing", work, tag, shard=60, header=HEADER):
        bad.extend(idx[j] for j in lst)
    first = {}
    if bad:
        fb = gh.coq_classes([terms[i] for i in bad[:6]], "hcase", "heap_first_bad", work, tag + "fb", shard=60, header=HEADER)
        first = {i: k - 1 for i, k in zip(bad[:6], fb)}
    n_v = 0
    for i in bad[:6]:
        n_v += 1
        rep.violation({"kind": label + ": the object graph of the implementation differs from the model Model/Heap.v after some statement (creators, variables, "
                               "bases, view children, consumer sets, arrays) or one side raised and the other did not",
                       "heap_case": cases[i], "raised": [o["raised"] for o in res[i]["obs"]], "first_differing_statement": first.get(i),
                       "statement": cases[i][first[i]] if first.get(i) is not None and 0 <= first[i] < len(cases[i]) else None})
    stray = [(c, r) for c, r in zip(cases, res) if any(o["stray"] for o in r["obs"])]
    for c, r in stray[:3]:
        rep.violation({"kind": label + ": a live tensor / operation sits in a weak collection although nothing the history holds refers to it (leaked placeholder?)",
                       "heap_case": c})
    kinds = {}
    for c, r in zip(cases, res):
        for s, o in zip(c, r["obs"]):
            kk = s["s"] + (":" + s["f"] if "f" in s else "") + (":raised" if o["raised"] else "")
            kinds[kk] = kinds.get(kk, 0) + 1
    return {"cases": len(cases), "histories_cut_at_an_InvalidBackprop": n_trunc, "statements": sum(len(c) for c in cases), "model_mismatches": len(bad), "stray": len(stray), "statement_kinds": kinds,
            "inplace_ok": sum(v for k2, v in kinds.items() if k2.startswith("inplace") and not k2.endswith("raised")),
            "inplace_raised": sum(v for k2, v in kinds.items() if k2.startswith("inplace") and k2.endswith("raised")),
            "max_objects": max((len(o["canon"]) for r in res for o in r["obs"]), default=0)}
