"""C01 -- backward() is the exact total derivative of the recorded computation.
Theorems: coq/Props/C01.v (reverse sweep in the DFS order of collect_all_tensors_and_clear_grads is the
adjoint of forward-mode tangents, for every DAG over the exact op registry; untouched tensors get nothing).
Tie: random DAG programs over the exact registry run on the implementation; forward values, every tensor's
_grad, constant flags, creator/consumer bookkeeping are compared exactly (integers) with Model/GraphP.v."""
import concurrent.futures as cf
import json

import progs
from common import HarnessError, eval_cases, parse_coq_list_of_nat, rng_for, run_impl_parallel


def chunks(xs, n):
    return [xs[i:i + n] for i in range(0, len(xs), n)]


def run_impl_cases(cases, jobs=16):
    parts = chunks(cases, max(1, (len(cases) + jobs - 1) // jobs))
    res = run_impl_parallel("prog_impl.py", [{"cases": p} for p in parts])
    out = []
    for r in res:
        out.extend(r["results"])
    return out


def model_failing(builders, results, work, tag):
    idx_all = list(range(len(builders)))
    shards = chunks(idx_all, 120)

    hyp_out = []

    def one(k):
        idx = shards[k]
        body = "[\n" + ";\n".join(progs.coq_gcase(builders[i], results[i]) for i in idx) + "]"
        # second evaluation: the histories must satisfy the HYPOTHESIS of the history-level theorems (hist_ok of Proofs/EngineP.v), so that
        # Props/C01.v / C02.v speak about exactly the programs that were run
        v = (progs.HEADER + "From MG Require Import Proofs.EngineP.\n"
             "Fixpoint hypfail_from (i : nat) (cs : list gcase) : list nat := match cs with [] => [] | c :: cs' => "
             "if hist_ok g_init (fst (fst c)) then hypfail_from (S i) cs' else i :: hypfail_from (S i) cs' end.\n"
             "Definition cases : list gcase := %s.\nEval vm_compute in (gfailing cases).\nEval vm_compute in (hypfail_from 0 cases).\n" % body)
        out = eval_cases(v, work, name="%s_%d" % (tag, k))
        lists = parse_coq_list_of_nat(out)
        if len(lists) != 2:
            raise HarnessError("unparsable Coq output: " + out[-400:])
        hyp_out.extend(idx[j] for j in lists[1])
        return [idx[j] for j in lists[0]]

    bad = []
    with cf.ThreadPoolExecutor(max_workers=8) as ex:
        for r in ex.map(one, range(len(shards))):
            bad.extend(r)
    model_failing.outside_hypothesis = sorted(hyp_out)
    return sorted(bad)


def terminal_of(b, rng):
    nc = [n for n in b.order if not b.tensors[n].const]
    if not nc:
        return None
    return b.tensors[nc[-1]] if rng.random() < 0.8 else b.tensors[rng.choice(nc)]


def gen_case(rng):
    b = progs.gen_dag_program(rng)
    t = terminal_of(b, rng)
    if t is None:
        return None
    b.backward(t)
    return b


def gen_deep_chain(rng, depth):
    """a recurrence h_k = w * h_(k-1) whose shared factor w is itself a NON-LEAF tensor consumed at every depth:
    the topological order must place w after all of its consumers, however deep the graph is"""
    b = progs.Builder(rng)
    w_raw = b.leaf((2,), [rng.choice([1, -1]), rng.choice([1, -1])])
    h = b.leaf((2,), [rng.randint(1, 3), rng.randint(-3, -1)])
    w = b.apply("multiply", [w_raw, ("array", (2,), [1, 1])])
    for k in range(depth):
        h = b.apply("multiply", [h, w] if k % 2 else [w, h])
    b.backward(h)
    return b


def features(b):
    """what the program exercises (for the distinct_nontrivial rule and the distribution)"""
    uses = {}
    bcast = False
    for m in b.mstmts:
        if m[0] == "app":
            for s in set(m[4]):
                uses[s] = uses.get(s, 0) + m[4].count(s)
            cop = m[3]
            # broadcast reduction: an operand map that hits some position more than once (non-seg)
            for p, mp in cop.args:
                if len(set(mp)) < len(mp):
                    bcast = True
    fan = any(v >= 2 for v in uses.values())
    return fan, bcast


def run(rep, work, tier, seed, props, replay=None):
    rng = rng_for(seed, "C01")
    n = 6000 if tier == "thorough" else 700
    builders = load_corpus("C01")
    if replay is not None:
        builders = [progs.builder_from_stmts(replay["stmts"])]
        n = 1
    if replay is None:
        for depth in ((405, 430, 470) if tier == "quick" else (401, 405, 420, 450, 470, 490)):
            builders.append(gen_deep_chain(rng, depth))
    while len(builders) < n:
        b = gen_case(rng)
        if b is not None:
            builders.append(b)
    results = run_impl_cases([b.case("backward") for b in builders])
    keep = []
    discarded = 0
    for i, (b, r) in enumerate(zip(builders, results)):
        if "harness_error" in r:
            raise HarnessError("impl runner: " + r["harness_error"])
        if not progs.exact_safe(r):
            discarded += 1
            continue
        keep.append(i)
    kb = [builders[i] for i in keep]
    kr = [results[i] for i in keep]
    bad = model_failing(kb, kr, work, "c01")
    outside = list(getattr(model_failing, "outside_hypothesis", []))
    if outside:
        j = sorted(outside, key=lambda j: len(kb[j].stmts))[0]
        rep.violation({"kind": "a generated history does not satisfy the hypothesis hist_ok of the history-level theorems of Props/C01.v (the theorems would not cover it)",
                       "broken": "correspondence C01: hypotheses of C01_backward_adjoint / C01_every_tensor", "stmts": kb[j].stmts, "n": len(outside)}, no_input=True)
    bad_sorted = sorted(bad, key=lambda j: len(kb[j].stmts))
    for j in bad_sorted[:8]:
        rep.violation({"kind": "gradients / graph bookkeeping differ from the proved model (Model/GraphP.v) on an exact-integer program",
                       "seed": seed, "index": keep[j], "stmts": kb[j].stmts, "impl": kr[j],
                       "note": "forward values agree with the model whenever the 'data' fields match; the model's gradients are the total derivative (Props/C01.v)"})
    if not props["ok"]:
        rep.violation({"kind": "proof obligations of Props/C01.v no longer check", "broken": "Props/C01.v", "log": props["log"][-1500:]}, no_input=not bad)
    nt, hist = set(), {}
    for b in kb:
        fan, bc = features(b)
        if fan and bc:
            nt.add(progs.canonical(b))
        for s in b.stmts:
            if s["op"] == "apply":
                hist[s["fn"]] = hist.get(s["fn"], 0) + 1
    exc = {}
    for r in kr:
        for o in r["outcomes"]:
            if o is not None:
                exc[o] = exc.get(o, 0) + 1
    rep.coverage["histories_meeting_theorem_hypotheses"] = len(kb) - len(outside)
    rep.coverage.update({
        "evaluations": len(kb),
        "distinct_nontrivial": len(nt),
        "deep_chain_programs": sum(1 for b in kb if len(b.stmts) > 300),
        "rule": "(plus recurrences of depth 400-490 with a shared non-leaf factor) random DAG programs over the exact op registry (1-4 leaves incl. constants/int/float32, 2-14 ops, shapes <= 3-d, broadcasting, repeated operands, raw arrays and scalars, "
                "constant= overrides, several spellings), one backward() on a non-constant tensor; non-trivial = some tensor is used >= 2 times AND some operand is broadcast/duplicated "
                "(so gradients are accumulated and reduced); distinct = distinct statement list",
        "samples": [kb[0].stmts, kb[len(kb) // 2].stmts] if kb else [],
        "discarded_not_exact": discarded,
        "traces_validated_against_impl": len(kb) - len(bad),
        "model_impl_disagreements": len(bad),
        "input_distribution": {"ops": hist, "statement_exceptions": exc,
                               "program_length_histogram": _hist([len(b.stmts) for b in kb])},
    })
    rep.assumptions += [
        "each MyGrad operation of the exact registry means segment_sum(kernel(gathers)) with index maps computed by NumPy itself on labelled arrays (harness/exactops.py; self-checked against direct NumPy evaluation for every generated op, and the model's forward values are compared with the implementation's)",
        "float64 arithmetic on integers below 2^40 is exact (cases where any observed number is larger or non-integral are discarded and counted)",
        "piecewise-linear ops (abs, relu, maximum, minimum, where) are differentiated with the selection frozen at the evaluation point, ties by the documented zero-gradient convention",
    ]


def load_corpus(pid):
    import glob
    import os

    from common import VERIF

    out = []
    for f in sorted(glob.glob(os.path.join(VERIF, "corpus", pid, "*.json"))):
        out.append(progs.builder_from_stmts(json.load(open(f))["stmts"]))
    return out


def _hist(xs):
    h = {}
    for x in xs:
        h[x] = h.get(x, 0) + 1
    return {str(k): h[k] for k in sorted(h)}
