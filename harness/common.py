"""Shared plumbing of the /verif checks: Coq build, case evaluation inside Coq, running the
implementation, evidence, known findings, violation reporting.

Runs under any python3 >= 3.8 (no third-party imports here).  The implementation side always runs in
a separate /venv/bin/python subprocess with PYTHONPATH=/repo/src.
"""
import fcntl
import hashlib
import json
import os
import random
import re
import shutil
import subprocess
import sys
import time

VERIF = os.path.dirname(os.path.dirname(os.path.abspath(__file__)))
REPO = os.environ.get("VERIF_REPO", "/repo")
COQ = os.path.join(VERIF, "coq")
WORKROOT = os.path.join(VERIF, ".work")
PY = "/venv/bin/python"
GUARD = "RSOKL_MYGRAD_VERIF"

FORBIDDEN = re.compile(
    r"\b(Admitted|admit|Axiom|Axioms|Parameter|Parameters|Conjecture|Conjectures|Admit Obligations|"
    r"Unset Guard Checking|Unset Positivity Checking|Unset Universe Checking|bypass_check|"
    r"type-in-type|impredicative-set)\b"
)


class HarnessError(Exception):
    """Tooling failure (exit status 2, never a VIOLATION line)."""


def impl_env():
    env = dict(os.environ)
    env["PYTHONPATH"] = os.path.join(REPO, "src") + os.pathsep + os.path.join(VERIF, "harness", "impl")
    env["PYTHONHASHSEED"] = "0"
    env[GUARD] = "1"
    env.pop("MYGRAD_MEM_GUARD", None)
    env["NUMBA_DISABLE_JIT"] = env.get("NUMBA_DISABLE_JIT", "0")
    env["OMP_NUM_THREADS"] = "1"
    env["OPENBLAS_NUM_THREADS"] = "1"
    env["PYTHONDONTWRITEBYTECODE"] = "1"
    return env


def sh(cmd, timeout=600, cwd=None, env=None, input=None):
    try:
        p = subprocess.run(cmd, cwd=cwd, env=env, input=input, capture_output=True, text=True, timeout=timeout)
    except subprocess.TimeoutExpired as e:
        out = e.stdout or ""
        if isinstance(out, bytes):
            out = out.decode("utf8", "replace")
        return 124, out, "TIMEOUT after %ss" % timeout
    return p.returncode, p.stdout, p.stderr


# ------------------------------------------------------------------------------------------------
# work directories
# ------------------------------------------------------------------------------------------------
class Work:
    def __init__(self, pid_tag):
        self.dir = os.path.join(WORKROOT, "%s.%d" % (pid_tag, os.getpid()))
        os.makedirs(self.dir, exist_ok=True)

    def path(self, *a):
        return os.path.join(self.dir, *a)

    def cleanup(self):
        shutil.rmtree(self.dir, ignore_errors=True)


# ------------------------------------------------------------------------------------------------
# Coq
# ------------------------------------------------------------------------------------------------
def coq_sources():
    out = []
    for root, _, files in os.walk(COQ):
        for f in files:
            if f.endswith(".v"):
                out.append(os.path.join(root, f))
    return sorted(out)


def hygiene():
    """Fail closed on any escape hatch in the development (comments are stripped first)."""
    bad = []
    for path in coq_sources():
        txt = open(path).read()
        txt = strip_coq_comments(txt)
        for m in FORBIDDEN.finditer(txt):
            bad.append("%s: %s" % (os.path.relpath(path, VERIF), m.group(0)))
    return bad


def strip_coq_comments(txt):
    out = []
    depth = 0
    i = 0
    n = len(txt)
    while i < n:
        if txt.startswith("(*", i):
            depth += 1
            i += 2
        elif txt.startswith("*)", i) and depth > 0:
            depth -= 1
            i += 2
        else:
            if depth == 0:
                out.append(txt[i])
            i += 1
    return "".join(out)


def project_files():
    """All .v files under coq/ in dependency-agnostic order (coq_makefile sorts out the order)."""
    return [os.path.relpath(p, COQ) for p in coq_sources()]


def write_coqproject():
    files = project_files()
    txt = "-Q . MG\n" + "\n".join(files) + "\n"
    path = os.path.join(COQ, "_CoqProject")
    old = open(path).read() if os.path.exists(path) else None
    if old != txt:
        open(path, "w").write(txt)
        return True
    return not os.path.exists(os.path.join(COQ, "Makefile"))


class BuildResult:
    def __init__(self, ok, log, failed_file=None):
        self.ok = ok
        self.log = log
        self.failed_file = failed_file


def build(targets=None, jobs=16, timeout=3000):
    """(Re)build the Coq development (or just the closure of `targets`, paths relative to coq/ ending in .vo)
    under an exclusive lock.  Full .vo build, never -vos."""
    os.makedirs(WORKROOT, exist_ok=True)
    lock = open(os.path.join(WORKROOT, "build.lock"), "w")
    fcntl.flock(lock, fcntl.LOCK_EX)
    try:
        if write_coqproject():
            rc, o, e = sh(["coq_makefile", "-f", "_CoqProject", "-o", "Makefile"], cwd=COQ)
            if rc != 0:
                raise HarnessError("coq_makefile failed: " + o + e)
        cmd = ["make", "-j%d" % jobs, "-k"] + (targets or [])
        rc, o, e = sh(cmd, cwd=COQ, timeout=timeout)
        log = o + e
        if rc == 0:
            return BuildResult(True, log)
        m = re.search(r'File "\./([^"]+)", line', log)
        return BuildResult(False, log, m.group(1) if m else None)
    finally:
        fcntl.flock(lock, fcntl.LOCK_UN)
        lock.close()


def coqc(path, work, timeout=900, extra=()):
    """Compile one file that lives outside the project tree against the built development."""
    cmd = ["coqc", "-Q", COQ, "MG", "-Q", work.dir, "W"] + list(extra) + [path]
    return sh(cmd, cwd=work.dir, timeout=timeout)


_THM = re.compile(r"^\s*(Theorem|Lemma|Corollary|Example|Fact|Proposition)\s+([A-Za-z0-9_']+)", re.M)


def check_props(prop_id, work):
    """Re-compile Props/<id>.v (into the work dir) and report its theorems and their axioms.
    Returns dict(obligations, discharged, theorems=[{name, axioms}], log, ok)."""
    src = os.path.join(COQ, "Props", prop_id + ".v")
    if not os.path.exists(src):
        raise HarnessError("no Props file for " + prop_id)
    txt = strip_coq_comments(open(src).read())
    names = [m.group(2) for m in _THM.finditer(txt)]
    # compile a copy under a different logical name so the project's own .vo is untouched
    dst = work.path("Props_%s_recheck.v" % prop_id)
    shutil.copy(src, dst)
    rc, o, e = coqc(dst, work)
    theorems = []
    if rc == 0:
        # Print Assumptions blocks appear in order
        blocks = re.split(r"(?m)^(?=Closed under the global context|Axioms:)", o)
        blocks = [b for b in blocks if b.strip()]
        for i, nme in enumerate(names):
            ax = []
            if i < len(blocks):
                b = blocks[i]
                if b.startswith("Axioms:"):
                    ax = re.findall(r"(?m)^([A-Za-z0-9_.']+)\s*:", b[len("Axioms:"):])
            theorems.append({"name": nme, "axioms": ax})
    return {
        "obligations": len(names),
        "discharged": len(names) if rc == 0 else 0,
        "theorems": theorems,
        "ok": rc == 0,
        "log": (o + e)[-4000:],
    }


def eval_cases(vtext, work, name="cases", timeout=900):
    """Compile a generated cases file; return the text Coq printed.  The file must `Eval vm_compute`
    (or `Compute`) terms whose printed form the caller parses."""
    path = work.path(name + ".v")
    open(path, "w").write(vtext)
    rc, o, e = coqc(path, work, timeout=timeout)
    if rc != 0:
        raise HarnessError("coqc failed on generated cases %s:\n%s\n%s" % (path, o[-2000:], e[-3000:]))
    return o


def parse_coq_list_of_nat(out):
    """Parse '= [1; 2; 3]\n : list nat' (possibly wrapped) -> [1,2,3] for each Eval in the output."""
    res = []
    for m in re.finditer(r"=\s*(\[[^\]]*\]|nil)\s*:\s*list", out.replace("\n", " ")):
        body = m.group(1)
        if body == "nil" or body == "[]":
            res.append([])
        else:
            res.append([int(x.replace("%nat", "").replace("%Z", "").replace("%N", "").strip("() ")) for x in body.strip("[]").split(";") if x.strip()])
    return res


# ------------------------------------------------------------------------------------------------
# implementation side
# ------------------------------------------------------------------------------------------------
def run_impl(script, payload, timeout=1200, python=PY):
    """Run harness/impl/<script> in a fresh interpreter against /repo/src; JSON in, JSON out."""
    path = os.path.join(VERIF, "harness", "impl", script)
    rc, o, e = sh([python, path], env=impl_env(), input=json.dumps(payload), timeout=timeout, cwd="/")
    if rc != 0:
        raise HarnessError("impl runner %s failed (rc=%s):\n%s\n%s" % (script, rc, o[-2000:], e[-4000:]))
    try:
        return json.loads(o[o.index("\x01JSON\x01") + 6:])
    except Exception:
        raise HarnessError("impl runner %s printed no JSON:\n%s\n%s" % (script, o[-2000:], e[-2000:]))


def run_impl_parallel(script, payloads, timeout=1200, jobs=16):
    """Run several payloads concurrently (each in its own interpreter); results in order."""
    import concurrent.futures as cf

    with cf.ThreadPoolExecutor(max_workers=jobs) as ex:
        futs = [ex.submit(run_impl, script, p, timeout) for p in payloads]
        return [f.result() for f in futs]


# ------------------------------------------------------------------------------------------------
# known findings / violations / evidence
# ------------------------------------------------------------------------------------------------
def known_findings(prop_id):
    path = os.path.join(VERIF, "KNOWN_FINDINGS.json")
    if not os.path.exists(path):
        return []
    data = json.load(open(path))
    return [f for f in data.get("findings", []) if f["property"] == prop_id]


def replay_finding_scripts(rep, prop_id):
    """Every finding of this property that carries a witness script is replayed on /repo:
    known + still failing -> KNOWN-FINDING line; fixed + failing again -> VIOLATION (the defect has returned)."""
    for f in known_findings(prop_id):
        w = f.get("witness")
        if not isinstance(w, dict) or "script" not in w:
            continue
        out = run_impl("script_impl.py", {"script": w["script"]})
        if f["status"] == "known":
            if out["failed"]:
                rep.known(f["name"], f["what"][:200])
        elif out["failed"]:
            rep.violation({"kind": "a defect recorded as fixed has returned: " + f["name"], "script": w["script"], "message": out["msg"], "finding": f})


def canon_hash(obj):
    return hashlib.sha256(json.dumps(obj, sort_keys=True, default=str).encode()).hexdigest()[:16]


def write_replay(prop_id, obj):
    d = os.path.join(VERIF, "replays", prop_id)
    os.makedirs(d, exist_ok=True)
    path = os.path.join(d, canon_hash(obj) + ".json")
    json.dump(obj, open(path, "w"), indent=1, sort_keys=True, default=str)
    return path


class Report:
    """Collects what a check run found; turns it into stdout lines, evidence and an exit status."""

    def __init__(self, prop_id, tier, seed):
        self.prop_id = prop_id
        self.tier = tier
        self.seed = seed
        self.t0 = time.time()
        self.violations = []  # (replay_obj, no_input_found)
        self.known_hits = {}  # name -> what
        self.coverage = {}
        self.assumptions = []
        self.level = "proof"

    def violation(self, replay_obj, no_input=False):
        replay_obj = dict(replay_obj)
        replay_obj.setdefault("property", self.prop_id)
        self.violations.append((replay_obj, no_input))

    def known(self, name, what):
        self.known_hits[name] = what

    def finish(self):
        seen = set()
        n = 0
        for name, what in sorted(self.known_hits.items()):
            print("KNOWN-FINDING: property=%s %s: %s" % (self.prop_id, name, what))
        for obj, no_input in self.violations:
            h = canon_hash(obj)
            if h in seen:
                continue
            seen.add(h)
            n += 1
            if n > 20:
                continue
            path = write_replay(self.prop_id, obj)
            print("VIOLATION property=%s replay=%s%s" % (self.prop_id, path, " no-failing-input-found" if no_input else ""))
        ev = {
            "property_id": self.prop_id,
            "tier": self.tier,
            "seed": self.seed,
            "level": self.level,
            "coverage": self.coverage,
            "assumptions": self.assumptions,
            "wall_s": round(time.time() - self.t0, 2),
            "violations": n,
            "known_findings_reported": sorted(self.known_hits),
        }
        os.makedirs(os.path.join(VERIF, "evidence"), exist_ok=True)
        json.dump(ev, open(os.path.join(VERIF, "evidence", self.prop_id + ".json"), "w"), indent=1, default=str)
        sys.stdout.flush()
        return 1 if n else 0


def file_hashes(paths):
    out = {}
    for p in paths:
        try:
            out[os.path.relpath(p, VERIF)] = hashlib.sha256(open(p, "rb").read()).hexdigest()[:12]
        except OSError:
            pass
    return out


TRUSTED_COMMON = [
    "Coq 8.16.1 kernel (coqc; vm_compute used for finite-lattice theorems and case evaluation; no native_compute)",
    "correspondence harness: case generators, implementation runners under harness/impl, canonicalisation, Coq term printers in harness/*.py",
    "NumPy 2.5.3 kernels, CPython 3.12 reference counting and weakref callbacks are modelled, not verified",
]


def coq_bool(b):
    return "true" if b else "false"


def coq_list(items):
    return "[" + "; ".join(items) + "]"


def coq_Z(n):
    n = int(n)
    return "(%d)%%Z" % n if n < 0 else "%d%%Z" % n


def coq_nat(n):
    return "%d%%nat" % int(n)


def coq_option(x, f=lambda v: v):
    return "None" if x is None else "(Some %s)" % f(x)


def rng_for(seed, *tags):
    h = hashlib.sha256(("%d|" % seed + "|".join(str(t) for t in tags)).encode()).digest()
    return random.Random(int.from_bytes(h[:8], "big"))
