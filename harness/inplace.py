"""View families and in-place updates for the program builders (C04, C05, C06, C13).

Every named tensor belongs to a *family* whose root owns the memory; a member is described by `bmap`, the positions of
its elements in the root's flat buffer (obtained by running NumPy's own indexing on labelled arrays).  The mirrors
(`TInfo.vals`) are real NumPy arrays/views, so "the same statements on NumPy arrays" is literally executed here.

An in-place update of member t is also emitted for the model as its *functional* meaning:
   new_base = keep_mask (.) old_base + scatter(written values)       (one cop, Model/OpsExact.v)
   every live member m := gather(new_base, bmap_m)
so that Model/GraphP.v (and the adjoint theorem) applies to the equivalent purely functional program."""
import json

import numpy as np

import exactops
import progs
from progs import Builder, TInfo


class FBuilder(Builder):
    def __init__(self, rng):
        super().__init__(rng)
        self.fam = {}       # name -> root name
        self.bmap = {}      # name -> int64 array (shape of the tensor) of positions in the root's flat buffer
        self.dead = set()   # names dropped by the caller
        self.inplace_touched = set()   # roots of families that were mutated

    # ---- bookkeeping on creation
    def _register(self, t, parent=None, cop=None, view=False):
        if view and parent is not None:
            self.fam[t.name] = self.fam[parent.name]
            m = np.asarray(cop.args[0][1], dtype=np.int64)
            self.bmap[t.name] = self.bmap[parent.name].ravel()[m].reshape(t.shape)
        else:
            self.fam[t.name] = t.name
            self.bmap[t.name] = np.arange(t.size, dtype=np.int64).reshape(t.shape)

    def leaf(self, *a, **k):
        t = super().leaf(*a, **k)
        self._register(t)
        return t

    def apply(self, fn, operands, params=None, const=None, spell="mg", name=None):
        n_before = len(self.mstmts)
        t = super().apply(fn, operands, params, const, spell, name)
        if t is None:
            return None
        m = self.mstmts[-1]
        view = m[2]
        parent = operands[0] if isinstance(operands[0], TInfo) else None
        if parent is not None and t.vals is parent.vals:
            # NumPy returned the operand itself (np.squeeze with nothing to squeeze): shares memory although MyGrad records no view
            self.identity_views = getattr(self, "identity_views", [])
            self.identity_views.append(t.name)
        self._register(t, parent, m[3], view and parent is not None)
        return t

    def delete(self, names):
        for n in names:
            self.dead.add(n)
        super().delete(names)

    def new_epoch(self):
        """after backward() cleared the graphs of ALL live tensors: a tensor whose creator is gone is, for views taken from now
        on, the owner of its own family (Tensor._op drops the lingering _base of such a tensor)"""
        for n in list(self.fam):
            if n in self.tensors:
                t = self.tensors[n]
                self.fam[n] = n
                self.bmap[n] = np.arange(t.size, dtype=np.int64).reshape(t.shape)
        if hasattr(self, "_root_node"):
            del self._root_node, self._root_const, self._root_shapes

    def members(self, root):
        return [n for n in self.order if n in self.tensors and self.fam.get(n) == root]

    # ---- in-place updates
    def _value_operand(self, v, region_shape):
        """v: TInfo | ("array", shape, vals) | ("scalar", x) -> (json, int64 array broadcast to region, model node, const)"""
        if isinstance(v, TInfo):
            arr, js, node = v.vals, v.name, v.node
        elif v[0] == "array":
            arr = np.asarray(v[2], dtype=np.int64).reshape(v[1])
            js, node = {"array": {"shape": list(v[1]), "vals": exactops.flat(arr), "dtype": "float64"}}, None
        else:
            arr = np.asarray(v[1], dtype=np.int64)
            js, node = {"scalar": float(v[1])}, None
        np.broadcast_to(arr, region_shape)  # raises ValueError if not broadcastable
        return js, arr, node

    def _emit_update(self, t, region_pos, w_node, w_src, keep_all_where=None):
        """functional meaning of writing w (model node w_node, flat) into base positions region_pos (ordered as NumPy assigns):
        w_src[i] = index into w's flat value for region element i"""
        root = self.fam[t.name]
        R = self.tensors.get(root)
        root_node = self._root_node[root] if hasattr(self, "_root_node") and root in self._root_node else (R.node if R is not None else None)
        nbase = int(np.prod(self._root_shape(root), dtype=np.int64))
        # last writer per base position, decided by NumPy itself
        lab = np.full(nbase, -1, dtype=np.int64)
        lab[region_pos] = np.arange(len(region_pos))
        written = lab >= 0
        keep = (~written).astype(np.int64)
        w_src = np.asarray(w_src, dtype=np.int64)
        src = np.where(written, w_src[np.maximum(lab, 0)], 0) if len(w_src) else np.zeros(nbase, dtype=np.int64)
        cop = exactops.Cop(nbase, [(0, list(range(nbase))), (1, [int(i) for i in src])],
                           ("lin", [[int(k) for k in keep], [int(x) for x in written.astype(np.int64)]], [0] * nbase), None)
        root_const = self._root_const[root]
        node = self._new_node()
        self.mstmts.append(("app", root_const, False, cop, [root_node, w_node]))
        self._root_node[root] = node
        self.inplace_touched.add(root)
        self._rederive(root, node)

    def _rederive(self, root, node):
        """the root's current value is now model node `node`: every live member is re-derived from it"""
        for n in self.members(root):
            m = self.tensors[n]
            if n == root:
                for k in [k for k, v in self.node_name.items() if v == n]:
                    del self.node_name[k]
                m.node = node
                self.node_name[node] = n
                continue
            g = exactops.Cop(m.size, [(0, [int(i) for i in self.bmap[n].ravel()])], ("lin", [[1] * m.size], [0] * m.size), None)
            mn = self._new_node()
            self.mstmts.append(("app", m.const, True, g, [node]))
            # the name now denotes the new node
            for k in [k for k, v in self.node_name.items() if v == n]:
                del self.node_name[k]
            m.node = mn
            self.node_name[mn] = n

    def _root_shape(self, root):
        return self._root_shapes[root]

    def _ensure_root_info(self):
        if not hasattr(self, "_root_node"):
            self._root_node, self._root_const, self._root_shapes = {}, {}, {}
        for n in self.order:
            if n in self.fam and self.fam[n] == n and n not in self._root_shapes and n in self.tensors:
                t = self.tensors[n]
                self._root_node[n], self._root_const[n], self._root_shapes[n] = t.node, t.const, t.shape

    def _const_leaf_node(self, flat_vals):
        node = self._new_node()
        self.mstmts.append(("leaf", True, [int(v) for v in flat_vals]))
        return node

    def setitem(self, t, index, v):
        """t[index] = v ; returns False if NumPy rejects the statement (it is then not recorded)"""
        self._ensure_root_info()
        ix = exactops.py_index(index)
        try:
            region = self.bmap[t.name][ix]
            region = np.asarray(region)
            js, arr, vnode = self._value_operand(v, region.shape)
            wb = np.broadcast_to(arr, region.shape)
            if region.size == 0:
                return False
            newvals = t.vals.copy()
            newvals[ix] = wb
            if np.abs(newvals).max() > progs.MAXVAL:
                return False
        except (ValueError, IndexError, TypeError):
            return False
        if self.fam[t.name] not in self.tensors:
            return False   # the memory owner was dropped by the caller: keep the model simple
        if not t.vals.flags.writeable:
            return False                                  # e.g. a broadcast_to view: NumPy refuses (see C13 for failing statements)
        if isinstance(v, TInfo) and np.shares_memory(v.vals, t.vals) and ("array" in json.dumps(index) or "bool" in json.dumps(index)):
            # source and destination overlap and the index is an integer / boolean array: NumPy copies element by element without overlap
            # protection, so its own result depends on the traversal order (MyGrad reads the value before writing); not a defined semantics to mirror
            return False
        t.vals[ix] = wb                                   # the NumPy mirror: all views see it
        self.stmts.append({"op": "setitem", "t": t.name, "index": index, "value": js})
        if vnode is None:
            vnode = self._const_leaf_node(arr.ravel())
        w_src = np.broadcast_to(np.arange(arr.size, dtype=np.int64).reshape(arr.shape), region.shape).ravel()
        self._emit_update(t, region.ravel(), vnode, w_src)
        self._mark()
        return True

    def setshape(self, t, shape):
        """t.shape = shape  (NumPy: in place on the array object; refuses when it would need a copy)"""
        if any(o is not t and o.vals is t.vals for o in self.tensors.values()):
            return False     # an identity "view" (NumPy returned the very same array object): re-shaping it would re-shape its twin's mirror too
        try:
            probe = t.vals.view()
            probe.shape = tuple(shape)
        except (AttributeError, ValueError):
            if int(np.prod(shape, dtype=np.int64)) == t.size:
                # NumPy refuses (the new shape needs a copy): MyGrad must refuse too and change nothing
                self.stmts.append({"op": "setshape", "t": t.name, "shape": [int(d) for d in shape], "expect": "raise"})
                self._mark()
                return True
            return False
        if tuple(probe.shape) == tuple(t.shape):
            return False
        t.vals.shape = probe.shape
        t.shape = tuple(probe.shape)
        self.bmap[t.name] = self.bmap[t.name].reshape(t.shape) if self.bmap[t.name].flags.c_contiguous else np.asarray(self.bmap[t.name]).reshape(-1)[...].reshape(t.shape) if False else self._reshape_map(t)
        self.stmts.append({"op": "setshape", "t": t.name, "shape": [int(d) for d in t.shape]})
        # functional meaning: like every in-place operation the tensor becomes a NEW node (a reshape of its old self);
        # operations recorded before keep the old node, t.grad is w.r.t. the re-shaped tensor
        self._ensure_root_info()
        root = self.fam[t.name]
        if root == t.name:
            ident = exactops.Cop(t.size, [(0, list(range(t.size)))], ("lin", [[1] * t.size], [0] * t.size), None)
            node = self._new_node()
            self.mstmts.append(("app", t.const, True, ident, [self._root_node.get(root, t.node)]))
            self._root_node[root] = node
            self._root_shapes[root] = t.shape
            self._rederive(root, node)
        elif root in self.tensors:
            self._rederive(root, self._root_node.get(root, self.tensors[root].node))
        self._mark()
        return True

    def _reshape_map(self, t):
        # positions follow the array's own element order, which NumPy preserved when it re-shaped the strides in place
        lab = np.empty(t.vals.shape, dtype=np.int64)
        root = self.fam[t.name]
        rt = self.tensors.get(root)
        if rt is None or root == t.name:
            return np.arange(t.size, dtype=np.int64).reshape(t.shape)
        # recover positions by labelling the root buffer
        saved = rt.vals.copy()
        flat_root = rt.vals.reshape(-1) if rt.vals.flags.c_contiguous else None
        try:
            owner = rt.vals
            owner_flat_index = np.arange(owner.size, dtype=np.int64).reshape(owner.shape)
            backup = owner.copy()
            owner[...] = owner_flat_index
            pos = t.vals.copy()
            owner[...] = backup
        finally:
            pass
        return pos.astype(np.int64)

    def fail(self, kind, t):
        """a statement that must raise and leave no trace (no mirror / model effect)"""
        self.stmts.append({"op": "fail", "kind": kind, "t": t.name})
        self._mark()
        return True

    def aug(self, t, fn, v):
        """t <fn>= v   (functional meaning: w = fn(t, v); t[...] = w)"""
        self._ensure_root_info()
        try:
            js, arr, vnode = self._value_operand(v, t.shape)
            operand = v if isinstance(v, TInfo) else (v if v[0] != "array" else ("array", v[1], v[2]))
            out_shape, out, cop, _ = exactops.translate(fn, {}, [(t.shape, t.vals), (tuple(arr.shape), arr)])
        except (ValueError, IndexError, TypeError, KeyError):
            return False
        if tuple(out_shape) != tuple(t.shape) or out.size == 0 or np.abs(out).max() > progs.MAXVAL:
            return False
        if self.fam[t.name] not in self.tensors or not t.vals.flags.writeable:
            return False
        self.stmts.append({"op": "aug", "t": t.name, "fn": fn, "value": js})
        if vnode is None:
            vnode = self._const_leaf_node(arr.ravel())
        wnode = self._new_node()
        self.mstmts.append(("app", None, False, cop, [t.node, vnode]))
        t.vals[...] = out
        self._emit_update(t, self.bmap[t.name].ravel(), wnode, np.arange(t.size, dtype=np.int64))
        self._mark()
        return True

    def out_op(self, t, fn, operands, where=None, where_shape=None):
        """mg.<fn>(*operands, out=t, where=mask)"""
        self._ensure_root_info()
        try:
            ops_sv, js, nodes = [], [], []
            for o in operands:
                j, arr, node = self._value_operand(o, t.shape)
                ops_sv.append((tuple(arr.shape), arr))
                js.append(j)
                nodes.append(node)
            # mg.clip(a, lo, None, out=t) is maximum(a, lo) written into t; mg.clip(a, None, hi, out=t) is minimum(a, hi)
            out_shape, out, cop, _ = exactops.translate({"clip_lo": "maximum", "clip_hi": "minimum"}.get(fn, fn), {}, ops_sv)
        except (ValueError, IndexError, TypeError, KeyError):
            return False
        if tuple(out_shape) != tuple(t.shape) or out.size == 0 or np.abs(out).max() > progs.MAXVAL:
            return False
        if self.fam[t.name] not in self.tensors or not t.vals.flags.writeable:
            return False
        mask = None
        s = {"op": "out", "t": t.name, "fn": fn, "args": js}
        if where is not None:
            wshape = tuple(where_shape) if where_shape is not None else tuple(t.shape)
            small = np.asarray(where, dtype=bool).reshape(wshape)
            mask = np.array(np.broadcast_to(small, t.shape))
            s["where"] = {"mask": [bool(b) for b in small.ravel()], "shape": list(wshape)}
        self.stmts.append(s)
        for i, n in enumerate(nodes):
            if n is None:
                nodes[i] = self._const_leaf_node(ops_sv[i][1].ravel())
        wnode = self._new_node()
        self.mstmts.append(("app", None, False, cop, nodes))
        pos = self.bmap[t.name].ravel()
        srcs = np.arange(t.size, dtype=np.int64)
        if mask is not None:
            sel = mask.ravel()
            pos, srcs = pos[sel], srcs[sel]
            t.vals[mask] = out[mask]
        else:
            t.vals[...] = out
        self._emit_update(t, pos, wnode, srcs)
        self._mark()
        return True


FAIL_KINDS = ["op_shape", "op_axis", "op_matmul", "op_type", "view_index", "view_reshape", "view_transpose", "inplace_index", "inplace_shape",
              "inplace_aug", "inplace_out", "inplace_type", "inplace_setshape", "op_fpe", "inplace_fpe", "op_where_mask", "backward_bad_seed", "norm_matrix",
              "composite_second_step"]

# ------------------------------------------------------------------------------------------------
# generators
# ------------------------------------------------------------------------------------------------
VIEW_FNS = ["getitem", "getitem", "getitem", "reshape", "transpose", "swapaxes", "squeeze", "expand_dims", "ravel", "moveaxis"]


def make_view(b, rng, a):
    fn = rng.choice(VIEW_FNS)
    nd = len(a.shape)
    p = {}
    if fn == "getitem":
        ix = []
        for d in a.shape:
            r = rng.random()
            if r < 0.35:
                ix.append({"slice": [None, None, None]})
            elif r < 0.5 and d > 0:
                ix.append(rng.randrange(-d, d))
            else:
                s0 = rng.randint(-d, d) if d else 0
                ix.append({"slice": [s0 if rng.random() < 0.6 else None, (rng.randint(-d, d) if rng.random() < 0.5 else None), rng.choice([1, 1, 2, -1])]})
        if not ix:
            ix = [{"ellipsis": True}]
        p = {"index": ix}
    elif fn == "reshape":
        p = {"shape": list(progs._rand_reshape(rng, a.shape))}
    elif fn == "transpose":
        p = {"axes": None if rng.random() < 0.5 else rng.sample(range(nd), nd)}
    elif fn == "swapaxes":
        if nd < 1:
            return None
        p = {"a1": rng.randrange(-nd, nd), "a2": rng.randrange(-nd, nd)}
    elif fn == "moveaxis":
        if nd < 1:
            return None
        p = {"src": rng.randrange(-nd, nd), "dst": rng.randrange(-nd, nd)}
    elif fn == "squeeze":
        p = {"axis": None}
    elif fn == "expand_dims":
        p = {"axis": rng.randint(-nd - 1, nd)}
    sp = "method" if fn in ("reshape", "transpose") and rng.random() < 0.5 else "mg"
    const = None
    if fn != "getitem" and a.dtype.startswith("float") and rng.random() < 0.15:
        const = rng.random() < 0.5          # a view whose constant flag is given explicitly (it may differ from its base's); every flag survives every update
    if const is not None:
        b.explicit_const_views = True       # (the exact functional model does not follow constant flags given to views: such histories are compared with NumPy and by the oracles only)
    return b.apply(fn, [a], p, const=const, spell=sp)


def rand_value(b, rng, shape):
    r = rng.random()
    sh = progs.compat_shapes(rng, shape)
    if r < 0.35:
        cands = [x for x in b.tensors.values() if progs._bc(x.shape, shape) and _into(x.shape, shape)]
        if cands:
            return rng.choice(cands)
    if r < 0.75:
        if not _into(sh, shape):
            sh = shape
        return ("array", sh, b.rng_vals(sh))
    return ("scalar", rng.randint(-3, 3))


def _into(s, target):
    try:
        return np.broadcast_shapes(s, target) == tuple(target)
    except ValueError:
        return False


def mutate(b, rng, t):
    r = rng.random()
    if r < 0.06 and t.size > 1 and t.name in b.tensors and not getattr(b, "no_setshape", False):
        opts = [sh for sh in progs.SHAPES + [(t.size,)] if int(np.prod(sh, dtype=np.int64)) == t.size and tuple(sh) != tuple(t.shape)]
        if opts:
            return b.setshape(t, rng.choice(opts))
    if r < 0.5:
        # item assignment: basic / integer-array / boolean index
        kind = rng.random()
        if kind < 0.6 or not t.shape:
            ix = progs.rand_index(rng, t.shape) if t.shape else [{"ellipsis": True}]
            ix = [e for e in ix if not (isinstance(e, dict) and "newaxis" in e)] or [{"ellipsis": True}]
        elif kind < 0.85:
            d = t.shape[0]
            n = rng.randint(1, 3)
            neg = rng.random() < 0.35
            ix = [{"array": [rng.randrange(-d, d) if neg else rng.randrange(d) for _ in range(n)], "shape": [n]}]   # may repeat (also through a negative alias): last write wins
            if rng.random() < 0.4:
                ix[0]["dtype"] = rng.choice(["int32", "int16", "int8"] if neg else ["int32", "int16", "uint8", "uint64", "int8"])   # any integer dtype is an index array for NumPy
            elif rng.random() < 0.3:
                ix[0]["as_list"] = True
            if rng.random() < 0.4:
                ix[0]["lone"] = True
            if rng.random() < 0.25:
                ix[0]["as_tensor"] = True          # ... and so is an integer Tensor
        else:
            mask = [rng.random() < 0.5 for _ in range(t.size)]
            ix = {"bool": mask, "shape": list(t.shape)}
        try:
            region = np.asarray(b.bmap[t.name][exactops.py_index(ix)])
        except (IndexError, ValueError):
            return False
        return b.setitem(t, ix, rand_value(b, rng, region.shape))
    if r < 0.8:
        return b.aug(t, rng.choice(["add", "subtract", "multiply"]), rand_value(b, rng, t.shape))
    fn = rng.choice(["add", "multiply", "subtract", "maximum", "clip_lo", "clip_hi"])
    a1 = rand_value(b, rng, t.shape)
    a2 = rand_value(b, rng, t.shape)
    where, wshape = None, None
    if rng.random() < 0.5 and not fn.startswith("clip"):
        wshape = t.shape
        if rng.random() < 0.4:
            cand = progs.compat_shapes(rng, t.shape)
            if _into(cand, t.shape):
                wshape = cand     # a mask with fewer / unit axes, broadcast against the target
        where = [rng.random() < 0.6 for _ in range(int(np.prod(wshape, dtype=np.int64)))]
    return b.out_op(t, fn, [a1, a2], where, wshape)


def gen_family_history(rng, n_events=None, with_backward=False):
    """one epoch: leaves, views of views, non-view reads, in-place updates on any member, some members dropped"""
    b = FBuilder(rng)
    for _ in range(rng.randint(1, 2)):
        b.leaf(rng.choice([(3,), (4,), (2, 2), (2, 3), (3, 2), (2, 2, 2), (2, 1, 3), ()]), const=rng.random() < 0.1)
    if all(t.const for t in b.tensors.values()):
        b.leaf(rng.choice([(4,), (2, 3)]), const=False)
    if rng.random() < 0.3:
        # an owner that is NOT C-contiguous: a non-view op on a transposed view keeps the (Fortran) layout;
        # views of it whose replay depends on the layout (x.T.reshape(-1)) are then mutated
        x = b.leaf(rng.choice([(2, 3), (3, 2), (2, 2, 2)]), const=False)
        tr = b.apply("transpose", [x], {"axes": None})
        own = b.apply(rng.choice(["positive", "negative", "square"]), [tr], spell="mg")
        if own is not None:
            v1 = b.apply("transpose", [own], {"axes": None})
            v2 = b.apply("reshape", [v1], {"shape": [-1]}, spell=rng.choice(["mg", "method"]))
            for cand in (v2, v1, own):
                if cand is not None and rng.random() < 0.8:
                    mutate(b, rng, cand)
    if rng.random() < 0.15:
        # a view whose constant flag differs from its base's (given explicitly), then updates through the view with every kind of in-place statement,
        # in particular out= with a where= mask: base, view and siblings keep their flags
        cb = rng.random() < 0.6
        x = b.leaf(rng.choice([(4,), (2, 3), (2, 2)]), const=cb)
        fnv = rng.choice(["reshape", "transpose", "swapaxes", "expand_dims"])
        pv = {"reshape": {"shape": [-1]}, "transpose": {"axes": None}, "swapaxes": {"a1": 0, "a2": -1}, "expand_dims": {"axis": 0}}[fnv]
        b.explicit_const_views = True
        v = b.apply(fnv, [x], pv, const=not cb, spell="mg")
        sib = b.apply("getitem", [x], {"index": [{"ellipsis": True}]})
        if v is not None:
            for _ in range(rng.randint(1, 3)):
                tgt = rng.choice([v, v, x] + ([sib] if sib is not None else []))
                if rng.random() < 0.6:
                    a1, a2 = rand_value(b, rng, tgt.shape), rand_value(b, rng, tgt.shape)
                    where = [rng.random() < 0.6 for _ in range(tgt.size)]
                    b.out_op(tgt, rng.choice(["add", "multiply", "subtract"]), [a1, a2], where, tgt.shape)
                else:
                    mutate(b, rng, tgt)
    if rng.random() < 0.2:
        # a view OF A VIEW whose shape is then assigned in place, beside a sibling view; followed by updates through owner / views
        x = b.leaf(rng.choice([(8,), (2, 4), (6,)]), const=rng.random() < 0.1)
        n0 = x.shape[-1]
        step = rng.choice([2, -2, 1, -1])
        v = b.apply("getitem", [x], {"index": ([{"ellipsis": True}] if len(x.shape) > 1 else []) + [{"slice": [None, None, step]}]})
        w = b.apply("getitem", [v], {"index": ([{"ellipsis": True}] if len(x.shape) > 1 else []) + [{"slice": [None, None, rng.choice([-1, 1])]}]}) if v is not None else None
        if rng.random() < 0.5:
            b.apply("getitem", [x], {"index": ([{"ellipsis": True}] if len(x.shape) > 1 else []) + [{"slice": [1, 3, None]}]})
        if w is not None and w.size > 1:
            opts = [sh for sh in progs.SHAPES + [(w.size,), (2, w.size // 2), (w.size // 2, 2), (1, w.size)] if int(np.prod(sh, dtype=np.int64)) == w.size and tuple(sh) != tuple(w.shape)]
            if opts:
                b.setshape(w, rng.choice(opts))
            for cand in (x, v, w):
                if cand is not None and cand.name in b.tensors and rng.random() < 0.8:
                    mutate(b, rng, cand)
    n_events = n_events or rng.randint(3, 12)
    made = 0
    tries = 0
    while made < n_events and tries < n_events * 8:
        tries += 1
        live = [n for n in b.order if n in b.tensors]
        if not live:
            break
        a = b.tensors[rng.choice(live)]
        r = rng.random()
        ok = None
        if r < 0.30:
            ok = make_view(b, rng, a)
        elif r < 0.50:
            progs.grow(b, rng, 1, allow_const_override=False)
            ok = True
        elif r < 0.93:
            ok = mutate(b, rng, a)
        elif len(live) > 2:
            victim = rng.choice(live[1:])
            b.delete([victim])
            ok = True
        if ok:
            made += 1
    return b
