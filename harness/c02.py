"""C02 -- each operation's backward pass is the exact VJP of its own forward pass.
Theorems: coq/Props/C02.v.  (a) Element-wise operations: harness/vjp_translate.py symbolically executes the forward and backward_var of
every element-wise Operation class in /repo on every run and regenerates Gen/VjpScalar.v; Coquelicot proofs (Proofs/VjpP1.v, VjpP2.v)
show, for every class and operand, is_derive (g * forward) at every point of the differentiable domain = backward_var's formula, and
the documented conventions at kinks.  (b) Index / bilinear / piecewise-linear operations: the exact-registry theorem (every registry
operation has an exact VJP over any commutative ring).
Ties to /repo, all on every run:
 1. translator tie: the translated formulas, evaluated with NumPy, against the class itself run through Tensor._op + backward on a grid
    of points (incl. the special points 0, +-1 and singularities) -- forward and every operand's gradient;
 2. RealOps tie: the real-number definitions given to NumPy's functions (Model/RealOps.v) against NumPy on their domains;
 3. exact-integer option sweep: single-operation programs over the exact registry with systematic options (positive / negative / tuple /
    empty axes, keepdims, broadcasting, 0-d, basic and advanced indices, einsum specs, matmul shapes, max/min selection) compared inside
    Coq with the model whose VJPs are proved;
 4. operation catalogue (validation / search, not proof): ~1100 operation x option entries incl. nnet layers and losses -- backward(g)
    against a 4th-order central-difference derivative of MyGrad's own forward."""
import hashlib
import itertools
import json
import os

import numpy as np

import graphhist as gh
import progs
import vjp_translate
from c01 import model_failing, run_impl_cases
from common import COQ, HarnessError, known_findings, rng_for, run_impl_parallel

HANDLES_BROKEN_BUILD = True     # Proofs/VjpP*.v are checked against the REGENERATED Gen/VjpScalar.v

# ------------------------------------------------------------------ evaluation of translated formulas with NumPy
NPF1 = {"absolute": np.abs}
REAL1 = {  # mirror of coq/Model/RealOps.v + Coq's Reals, as NumPy float formulas (checked against NumPy below)
    "exp": np.exp, "log": np.log, "sin": np.sin, "cos": np.cos, "tan": lambda x: np.sin(x) / np.cos(x), "sinh": np.sinh, "cosh": np.cosh,
    "tanh": lambda x: np.sinh(x) / np.cosh(x), "sqrt": np.sqrt, "absolute": np.abs, "arcsin": np.arcsin, "arccos": np.arccos, "arctan": np.arctan,
    "arcsinh": lambda x: np.log(x + np.sqrt(x * x + 1)), "arccosh": lambda x: np.log(x + np.sqrt(x ** 2 - 1)), "arctanh": lambda x: 0.5 * np.log((1 + x) / (1 - x)),
    "cbrt": lambda x: np.where(x > 0, np.exp(np.log(np.abs(x)) / 3), np.where(x == 0, 0.0, -np.exp(np.log(np.abs(x)) / 3))),
    "exp2": lambda x: np.exp(x * np.log(2.0)), "log2": lambda x: np.log(x) / np.log(2.0), "log10": lambda x: np.log(x) / np.log(10.0), "log1p": lambda x: np.log(1 + x),
    "expm1": lambda x: np.exp(x) - 1, "reciprocal": lambda x: 1 / x, "negative": lambda x: -x, "positive": lambda x: x, "square": lambda x: x * x,
    "sinc": lambda x: np.where(x == 0, 1.0, np.sin(np.pi * x) / (np.pi * np.where(x == 0, 1.0, x))),
}
REAL2 = {
    "add": np.add, "subtract": np.subtract, "multiply": np.multiply, "divide": np.divide,
    "power": lambda x, y: np.where(x > 0, np.exp(y * np.log(np.where(x > 0, x, 1.0))), np.where(y == 0, 1.0, 0.0)),
    "logaddexp": lambda a, b: np.log(np.exp(a) + np.exp(b)), "logaddexp2": lambda a, b: np.log(np.exp(a * np.log(2.0)) + np.exp(b * np.log(2.0))) / np.log(2.0),
    "arctan2": lambda y, x: np.where(x > 0, np.arctan(y / np.where(x == 0, 1.0, x)),
                                     np.where(y > 0, np.pi / 2 - np.arctan(x / np.where(y == 0, 1.0, y)),
                                              np.where(y < 0, -np.pi / 2 - np.arctan(x / np.where(y == 0, 1.0, y)), np.where(x < 0, np.pi, 0.0)))),
    "maximum": np.maximum, "minimum": np.minimum,
}
REALOPS_SHA = None   # filled by realops_guard()


def ev(e, env, table1, table2):
    k = e[0]
    if k == "const":
        return np.float64(np.pi) if e[1] == "pi" else np.float64(float(e[1]))
    if k == "var":
        return env[e[1]]
    if k == "neg":
        return -ev(e[1], env, table1, table2)
    if k in ("add", "sub", "mul", "div", "pow"):
        a, b = ev(e[1], env, table1, table2), ev(e[2], env, table1, table2)
        if k == "pow":
            if e[2][0] == "const" and e[2][1] != "pi" and float(e[2][1]) == int(float(e[2][1])) and table1 is not None:
                return np.asarray(a, dtype=np.float64) ** int(float(e[2][1]))
            return table2["power"](np.asarray(a, dtype=np.float64), np.asarray(b, dtype=np.float64))
        return {"add": np.add, "sub": np.subtract, "mul": np.multiply, "div": np.divide}[k](a, b)
    if k == "call":
        if len(e) == 3:
            return table1[e[1]](np.asarray(ev(e[2], env, table1, table2), dtype=np.float64))
        return table2[e[1]](np.asarray(ev(e[2], env, table1, table2), dtype=np.float64), np.asarray(ev(e[3], env, table1, table2), dtype=np.float64))
    if k == "if":
        return np.where(cond(e[1], env, table1, table2), ev(e[2], env, table1, table2), ev(e[3], env, table1, table2))
    raise HarnessError("cannot evaluate %s" % k)


def cond(c, env, t1, t2):
    k = c[0]
    if k == "not":
        return ~cond(c[1], env, t1, t2)
    if k == "truthy":
        return ev(c[1], env, t1, t2) != 0
    a, b = ev(c[1], env, t1, t2), ev(c[2], env, t1, t2)
    return {"lt": np.less, "gt": np.greater, "le": np.less_equal, "ge": np.greater_equal, "eq": np.equal, "ne": np.not_equal}[k](a, b)


NUMPY1 = {n: getattr(np, n) for n in ("exp", "log", "sin", "cos", "tan", "sinh", "cosh", "tanh", "sqrt", "arcsin", "arccos", "arctan", "arcsinh", "arccosh", "arctanh", "cbrt",
                                      "exp2", "log2", "log10", "log1p", "expm1", "reciprocal", "negative", "positive", "square", "sinc", "absolute")}
NUMPY2 = {n: getattr(np, n) for n in ("add", "subtract", "multiply", "divide", "power", "logaddexp", "logaddexp2", "arctan2", "maximum", "minimum")}

GRID = [-3.0, -2.0, -1.5, -1.0, -0.75, -0.5, -0.25, -1e-3, 0.0, 1e-3, 0.25, 0.5, 0.75, 1.0, 1.5, 2.0, 3.0, 0.3333333333333333, -0.3333333333333333, 1e-170, -1e-170, 10.0]


def same(a, b, rtol, atol=1e-300):
    a, b = np.asarray(a, dtype=np.float64), np.asarray(b, dtype=np.float64)
    if a.shape != b.shape:
        return False, None
    ok = (np.isnan(a) & np.isnan(b)) | (a == b) | (np.abs(a - b) <= atol + rtol * np.maximum(np.abs(a), np.abs(b)))
    bad = np.argwhere(~ok)
    return bool(ok.all()), (tuple(int(i) for i in bad[0]) if len(bad) else None)


def scalar_tie(rep, ops, rng):
    """translated formulas (NumPy evaluation) vs the class itself on /repo"""
    tasks, meta = [], []
    for op in ops:
        n = len(op["operands"])
        if n == 1:
            # (np.isclose(x, 0, atol=1e-162) is modelled as x = 0: points inside that tolerance are outside the model)
            pts = [np.array([v for v in GRID if not (any("isclose" in nt for nt in op["notes"]) and 0 < abs(v) < 1e-150)])]
        else:
            P = np.array(list(itertools.product(GRID[:17], repeat=2)))
            pts = [P[:, 0].copy(), P[:, 1].copy()]
        params = [0.7] * len(op["params"])
        g = np.array([rng.choice([-2.5, -1.0, 0.5, 1.0, 3.0]) for _ in range(len(pts[0]))])
        tasks.append({"source": op["source"], "name": op["name"], "operands": [p.tolist() for p in pts], "params": params, "g": g.tolist()})
        meta.append((op, pts, params, g))
    parts = [tasks[i::8] for i in range(8)]
    res = [None] * len(tasks)
    for k, rr in enumerate(run_impl_parallel("c02_impl.py", [{"tasks": p} for p in parts if p])):
        for j, r in enumerate(rr["results"]):
            res[k + 8 * j] = r
    n_pts, bad = 0, []
    with np.errstate(all="ignore"):
        for (op, pts, params, g), r in zip(meta, res):
            if "error" in r:
                bad.append({"kind": "running %s through Tensor._op raised %s" % (op["name"], r["error"]), "op": op["name"]})
                continue
            env = dict(zip(op["operands"], pts))
            env.update(dict(zip(op["params"], [np.float64(p) for p in params])))
            env["g"] = g
            n_pts += len(g)
            fwd = np.broadcast_to(ev(op["fwd"], env, NUMPY1, NUMPY2), g.shape)
            ok, at = same(fwd, r["fwd"], 1e-12)
            if not ok:
                bad.append({"kind": "translated forward formula of %s differs from the implementation at %s" % (op["name"], [float(p[at]) for p in pts]),
                            "op": op["name"], "point": [float(p[at]) for p in pts], "formula": float(fwd[at]), "impl": float(np.asarray(r["fwd"])[at])})
            for i, b in enumerate(op["bwd"]):
                val = np.broadcast_to(ev(b, env, NUMPY1, NUMPY2), g.shape)
                ok, at = same(val, r["grads"][i], 1e-12)
                if not ok:
                    bad.append({"kind": "translated backward formula of %s (operand %d) differs from the gradient the implementation produced at %s" % (op["name"], i, [float(p[at]) for p in pts]),
                                "op": op["name"], "operand": i, "point": [float(p[at]) for p in pts], "g": float(g[at]), "formula": float(val[at]), "impl": float(np.asarray(r["grads"][i])[at])})
    return n_pts, bad


def formula_search(ops):
    """search for a failing input at the level of the translated formulas: backward formula (g = 1) against a 4th-order central-difference
    derivative of the translated forward formula, at smooth interior points (used to attach a concrete input to a broken VJP lemma)"""
    pts1 = np.array([-2.3, -1.7, -1.2, -0.7, -0.45, -0.2, 0.15, 0.3, 0.6, 0.85, 1.3, 1.9, 2.6])
    other = [0.7, -1.4, 2.2]
    found, n = [], 0
    with np.errstate(all="ignore"):
        for op in ops:
            names = op["operands"]
            for i, nm in enumerate(names):
                for o in (other if len(names) == 2 else [None]):
                    env0 = {p: np.float64(0.7) for p in op["params"]}
                    if o is not None:
                        env0[names[1 - i]] = np.full_like(pts1, o)
                    env0["g"] = np.ones_like(pts1)

                    def F(x):
                        e = dict(env0)
                        e[nm] = x
                        return np.broadcast_to(ev(op["fwd"], e, NUMPY1, NUMPY2), x.shape).astype(np.float64)
                    h = 1e-3
                    d1 = (F(pts1 + h) - F(pts1 - h)) / (2 * h)
                    d2 = (F(pts1 + h / 2) - F(pts1 - h / 2)) / h
                    rich = (4 * d2 - d1) / 3
                    e = dict(env0)
                    e[nm] = pts1
                    ana = np.broadcast_to(ev(op["bwd"][i], e, NUMPY1, NUMPY2), pts1.shape).astype(np.float64)
                    smooth = np.isfinite(rich) & np.isfinite(ana) & (np.abs(d1 - d2) <= 1e-5 * (1 + np.abs(rich))) & np.isfinite(F(pts1))
                    n += int(smooth.sum())
                    err = np.abs(ana - rich) / (1 + np.abs(rich))
                    badm = smooth & (err > 1e-8)
                    if badm.any():
                        k = int(np.argmax(np.where(badm, err, 0)))
                        found.append({"kind": "the backward formula of %s (operand %d) read from the source is not the derivative of its forward formula at %s=%r%s: formula %r, derivative %r"
                                              % (op["name"], i, nm, float(pts1[k]), "" if o is None else " (%s=%r)" % (names[1 - i], o), float(ana[k]), float(rich[k])),
                                      "op": op["name"], "operand": i, "point": float(pts1[k]), "other": o, "formula": float(ana[k]), "numeric_derivative": float(rich[k])})
                        break
    return n, found


def realops_tie():
    """the real-number definitions (REAL1/REAL2 mirror Model/RealOps.v) against NumPy's functions on their domains"""
    bad, n = [], 0
    xs = np.array([v for v in np.linspace(-4, 4, 161)] + [1e-3, -1e-3, 0.0])
    doms = {"log": xs > 0, "log2": xs > 0, "log10": xs > 0, "log1p": xs > -1, "sqrt": xs >= 0, "arcsin": np.abs(xs) <= 1, "arccos": np.abs(xs) <= 1, "arccosh": xs >= 1,
            "arctanh": np.abs(xs) < 1, "reciprocal": xs != 0, "tan": np.abs(np.cos(xs)) > 1e-3}
    with np.errstate(all="ignore"):
        for name, f in REAL1.items():
            m = doms.get(name, np.ones_like(xs, dtype=bool))
            a, b = f(xs[m]), NUMPY1[name](xs[m])
            n += int(m.sum())
            ok, at = same(a, b, 1e-11, 1e-13)
            if not ok:
                bad.append({"kind": "Model/RealOps.v gives numpy.%s a meaning that differs from NumPy at x=%r: %r vs %r" % (name, float(xs[m][at]), float(a[at]), float(b[at])), "broken": "Model/RealOps.v"})
        P = np.array(list(itertools.product(np.linspace(-3, 3, 25), repeat=2)))
        A, B = P[:, 0], P[:, 1]
        for name, f in REAL2.items():
            m = np.ones_like(A, dtype=bool)
            if name == "power":
                m = A > 0
            if name == "divide":
                m = B != 0
            if name == "arctan2":
                m = ~((A == 0) & (B <= 0))
            a, b = f(A[m], B[m]), NUMPY2[name](A[m], B[m])
            n += int(m.sum())
            ok, at = same(a, b, 1e-11, 1e-13)
            if not ok:
                bad.append({"kind": "Model/RealOps.v gives numpy.%s a meaning that differs from NumPy at (%r, %r)" % (name, float(A[m][at]), float(B[m][at])), "broken": "Model/RealOps.v"})
    return n, bad


REALOPS_EXPECTED_SHA = "e7753818e8d07c6d"


def realops_guard():
    """REAL1/REAL2 above are a hand-written mirror of Model/RealOps.v: refuse to run if that file changed without the mirror being re-examined"""
    txt = open(os.path.join(COQ, "Model", "RealOps.v")).read()
    sha = hashlib.sha256(txt.encode()).hexdigest()[:16]
    if sha != REALOPS_EXPECTED_SHA:
        raise HarnessError("coq/Model/RealOps.v changed (sha %s): re-examine the NumPy mirror REAL1/REAL2 in harness/c02.py and update REALOPS_EXPECTED_SHA" % sha)


# ------------------------------------------------------------------ lane reductions (Model/VecOps.v)
VECOPS_EXPECTED_SHA = "c64fd09abf471890"


def vecops_guard():
    txt = open(os.path.join(COQ, "Model", "VecOps.v")).read()
    sha = hashlib.sha256(txt.encode()).hexdigest()[:16]
    if sha != VECOPS_EXPECTED_SHA:
        raise HarnessError("coq/Model/VecOps.v changed (sha %s): re-examine the NumPy mirror lane_model() in harness/c02.py and update VECOPS_EXPECTED_SHA" % sha)


def lane_model(fn, lane, g, ddof=0.0, glane=None, y=None, c=1.0):
    """NumPy mirror of the *_bwd definitions of Model/VecOps.v for one lane -> vector of what every element receives"""
    n = len(lane)
    if fn == "sum":
        return np.full(n, g)
    if fn == "mean":
        return np.full(n, g / n)
    m = lane.sum() / n
    if fn == "var":
        return (2.0 / (n - ddof)) * (lane - m) * g
    if fn == "std":
        v = ((lane - m) ** 2).sum() / (n - ddof)
        return (2.0 / (n - ddof)) * (lane - m) * (g / (2 * np.sqrt(v)))
    if fn == "prod":
        nz = int((lane == 0).sum())
        out = np.zeros(n)
        with np.errstate(all="ignore"):
            if nz == 0:
                out = lane.prod() / lane
            elif nz == 1:
                ones = np.where(lane == 0, 1.0, lane)
                out = np.where(lane == 0, ones.prod() / 1.0, lane.prod() / np.where(lane == 0, 1.0, lane))
        return g * out
    if fn == "norm":
        p = ddof          # (the order is passed in the ddof slot)
        sgn = np.sign(lane)
        if p == 1:
            return sgn * g
        if p == 2:
            return lane / np.sqrt((lane ** 2).sum()) * g
        ap = np.where(lane == 0, 0.0 if p != 0 else 1.0, np.abs(lane) ** p)
        apm1 = np.where(lane == 0, 0.0 if p - 1 != 0 else 1.0, np.abs(lane) ** (p - 1))
        return apm1 * sgn * ((ap.sum() ** (1.0 / p)) / ap.sum()) * g
    if fn == "batchnorm_x":
        gamma, eps = c, ddof
        std = np.sqrt(((lane - m) ** 2).sum() / n + eps)
        xn = (lane - m) / std
        return (glane - glane.sum() / n - xn * (glane * xn).sum() / n) / std * gamma
    e = np.exp(lane)
    soft = e / e.sum()
    if fn == "softmax":
        return soft * glane - soft * (soft * glane).sum()
    if fn == "logsoftmax":
        return glane - soft * glane.sum()
    if fn == "softmax_crossentropy":
        return g * ((soft - (np.arange(n) == y)) * c)
    raise HarnessError(fn)


def lane_tie(rng, tier):
    tasks = []
    shapes_axes = [((5,), [None, 0, -1]), ((3, 4), [None, 0, 1, -1, [0, 1]]), ((2, 3, 4), [None, 0, 1, 2, -1, [0, 2], [1, 2], [0, 1, 2], [2, 0]]), ((2, 2, 3, 2), [[1, 3], [0, 2], 2])]
    reps = 3 if tier == "thorough" else 1
    for _ in range(reps):
        for sh, axes in shapes_axes:
            n = int(np.prod(sh))
            for ax in axes:
                for kd in (False, True):
                    for fn in ("sum", "mean", "prod", "var", "std"):
                        for ddof in ((0, 1) if fn in ("var", "std") else (0,)):
                            x = [round(rng.uniform(-2, 2), 3) or 0.5 for _ in range(n)]
                            if fn == "prod":
                                for zi in rng.sample(range(n), rng.choice([0, 1, 2, 3])):
                                    x[zi] = 0.0
                            tasks.append({"kind": "lane", "fn": fn, "shape": list(sh), "axis": ax, "keepdims": kd, "ddof": ddof, "x": x, "gseed": rng.randrange(10 ** 6)})
                if not (isinstance(ax, list) and len(ax) == len(sh)):
                    for fn in ("softmax", "logsoftmax"):
                        x = [round(rng.uniform(-2, 2), 3) for _ in range(n)]
                        tasks.append({"kind": "lane", "fn": fn, "shape": list(sh), "axis": ax, "x": x, "gseed": rng.randrange(10 ** 6)})
        for sh, axes in (((5,), [None, 0]), ((3, 4), [0, 1, -1]), ((2, 3, 4), [0, 1, 2, -2])):
            n = int(np.prod(sh))
            for ax in axes:
                for ordv in (None, 1, 2, 3, 4.5, 0.5, -1.5):
                    for kd in (False, True):
                        x = [round(rng.choice([-1, 1]) * rng.uniform(0.2, 2), 3) for _ in range(n)]
                        tasks.append({"kind": "lane", "fn": "norm", "shape": list(sh), "axis": ax, "keepdims": kd, "ord": ordv, "x": x, "gseed": rng.randrange(10 ** 6)})
        for sh in ((4, 2), (3, 2, 2), (2, 3, 2, 2), (2, 1, 3)):
            C = sh[1]
            for gm, bt in ((True, True), (True, False), (False, True), (False, False)):
                tasks.append({"kind": "lane", "fn": "batchnorm", "shape": list(sh), "axis": None, "x": [round(rng.uniform(-2, 2), 3) for _ in range(int(np.prod(sh)))],
                              "gamma": [round(rng.uniform(0.5, 2), 3) for _ in range(C)] if gm else None, "beta": [round(rng.uniform(-1, 1), 3) for _ in range(C)] if bt else None,
                              "eps": rng.choice([1e-3, 0.1, 1.0]), "gseed": rng.randrange(10 ** 6)})
        for sh, axes in (((5,), [0, -1, None]), ((3, 4), [0, 1, -1]), ((2, 3, 2), [0, 1, 2, -2])):
            for ax in axes:
                x = [round(rng.choice([-1, 1]) * rng.uniform(0.3, 1.8), 3) for _ in range(int(np.prod(sh)))]
                tasks.append({"kind": "lane", "fn": "cumprod", "shape": list(sh), "axis": ax, "x": x, "gseed": rng.randrange(10 ** 6)})
        for N, C in ((1, 3), (3, 4), (4, 2)):
            for hinge in (1.0, 0.0, 0.5, 2.5):
                tasks.append({"kind": "lane", "fn": "multiclass_hinge", "shape": [N, C], "axis": 1, "x": [round(rng.uniform(-2, 2), 3) + 0.00037 * k for k in range(N * C)],
                              "labels": [rng.randrange(C) for _ in range(N)], "hinge": hinge, "gseed": rng.randrange(10 ** 6)})
            for al, ga in ((1.0, 0.0), (0.5, 2.0), (2.0, 0.5), (1.0, 1.0), (0.25, 3.0)):
                probs = np.array([rng.uniform(0.1, 1.0) for _ in range(N * C)]).reshape(N, C)
                probs = (probs / probs.sum(axis=1, keepdims=True)).round(6)
                tasks.append({"kind": "lane", "fn": "focal_loss", "shape": [N, C], "axis": 1, "x": probs.ravel().tolist(), "labels": [rng.randrange(C) for _ in range(N)],
                              "alpha": al, "gamma": ga, "gseed": rng.randrange(10 ** 6)})
        for sh in ((4,), (3, 2)):
            n = int(np.prod(sh))
            for margin in (0.0, 0.5, 2.0):
                for yv in (1, -1, [rng.choice([1, -1]) for _ in range(sh[0])]):
                    tasks.append({"kind": "lane", "fn": "margin_ranking_loss", "shape": list(sh), "axis": None, "x": [round(rng.uniform(-2, 2), 3) for _ in range(n)],
                                  "x2": [round(rng.uniform(-2, 2), 3) + 0.0123 for _ in range(n)], "y": yv, "margin": margin, "gseed": rng.randrange(10 ** 6)})
        for N, C in ((1, 3), (3, 4), (5, 2)):
            tasks.append({"kind": "lane", "fn": "softmax_crossentropy", "shape": [N, C], "axis": 1, "x": [round(rng.uniform(-2, 2), 3) for _ in range(N * C)],
                          "labels": [rng.randrange(C) for _ in range(N)], "gseed": rng.randrange(10 ** 6)})
    # the incoming gradient: drawn here once the output shape is known (computed with NumPy)
    for t in tasks:
        x = np.array(t["x"]).reshape(t["shape"])
        ax = tuple(t["axis"]) if isinstance(t["axis"], list) else t["axis"]
        if t["fn"] in ("softmax", "logsoftmax", "batchnorm", "cumprod"):
            oshape = x.shape if not (t["fn"] == "cumprod" and t["axis"] is None) else (x.size,)
        elif t["fn"] == "norm":
            oshape = np.linalg.norm(x, ord=t.get("ord"), axis=ax, keepdims=t.get("keepdims", False)).shape
        elif t["fn"] in ("softmax_crossentropy", "multiclass_hinge", "margin_ranking_loss"):
            oshape = ()
        elif t["fn"] == "focal_loss":
            oshape = (x.shape[0],)
        else:
            oshape = np.sum(x, axis=ax, keepdims=t.get("keepdims", False)).shape
        rs = np.random.RandomState(t["gseed"])
        t["g"] = np.round(rs.uniform(-2, 2, size=int(np.prod(oshape, dtype=np.int64))), 3).tolist()
    parts = [tasks[i::8] for i in range(8)]
    res = [None] * len(tasks)
    for k, rr in enumerate(run_impl_parallel("c02_impl.py", [{"tasks": p} for p in parts if p])):
        for j, r in enumerate(rr["results"]):
            res[k + 8 * j] = r
    bad, n_lanes = [], 0
    np.seterr(all="ignore")        # degenerate lanes (one element with ddof=1, zero variance) give inf/nan on both sides
    for t, r in zip(tasks, res):
        if "error" in r:
            bad.append({"kind": "lane tie: %s raised %s" % (t["fn"], r["error"]), "task": t})
            continue
        x = np.array(t["x"], dtype=np.float64).reshape(t["shape"])
        nd = x.ndim
        ax = t["axis"]
        if t["fn"] == "cumprod":
            axc = t["axis"]
            X2 = x.reshape(1, -1) if axc is None else np.moveaxis(x, axc, -1).reshape(-1, x.shape[axc])
            G2 = np.array(r["grad"]).reshape(x.shape)
            G2 = G2.reshape(1, -1) if axc is None else np.moveaxis(G2, axc, -1).reshape(X2.shape)
            gin = np.array(t["g"], dtype=np.float64)
            gin = gin.reshape(1, -1) if axc is None else np.moveaxis(gin.reshape(x.shape), axc, -1).reshape(X2.shape)
            for k in range(X2.shape[0]):
                n_lanes += 1
                P = np.cumprod(X2[k])
                want = np.array([(gin[k][i:] * P[i:]).sum() / X2[k][i] for i in range(len(P))])
                if not same(want, G2[k], 1e-10, 1e-12)[0]:
                    bad.append({"kind": "cumprod (axis=%s): the gradient differs from Model/VecOps.v's cumprod_bwd on lane %s" % (axc, X2[k].tolist()), "task": t})
                    break
            continue
        if t["fn"] in ("multiclass_hinge", "focal_loss", "margin_ranking_loss"):
            G = np.array(r["grad"]).reshape(x.shape)
            g = np.array(t["g"], dtype=np.float64)
            okk = True
            if t["fn"] == "multiclass_hinge":
                N = x.shape[0]
                for k in range(N):
                    n_lanes += 1
                    y, h, c = t["labels"][k], t["hinge"], 1.0 / N
                    marg = x[k] - x[k][y] + h
                    stp = np.where((marg > 0) & (np.arange(x.shape[1]) != y), 1.0, 0.0)
                    want = g.reshape(-1)[0] * c * np.where(np.arange(x.shape[1]) == y, -stp.sum(), stp)
                    okk = okk and same(want, G[k], 1e-10, 1e-12)[0]
            elif t["fn"] == "focal_loss":
                for k in range(x.shape[0]):
                    n_lanes += 1
                    y, al, ga = t["labels"][k], t["alpha"], t["gamma"]
                    p = x[k][y]
                    d = -(al / p) if ga == 0 else -al * ((1 - p) ** ga / p - ga * (1 - p) ** (ga - 1) * np.log(p))
                    want = np.where(np.arange(x.shape[1]) == y, g[k] * d, 0.0)
                    okk = okk and same(want, G[k], 1e-10, 1e-12)[0]
            else:
                n_lanes += x.size
                x2 = np.array(t["x2"], dtype=np.float64).reshape(x.shape)
                yv = np.asarray(t["y"], dtype=np.float64)
                yy = np.broadcast_to(yv.reshape((-1,) + (1,) * (x.ndim - 1)) if yv.ndim else yv, x.shape)
                stp = np.where(t["margin"] - yy * (x - x2) > 0, 1.0, 0.0) / x.size
                okk = same(g.reshape(-1)[0] * (-yy) * stp, G, 1e-10, 1e-12)[0] and same(g.reshape(-1)[0] * yy * stp, np.array(r["grad2"]).reshape(x.shape), 1e-10, 1e-12)[0]
            if not okk:
                bad.append({"kind": "%s: the gradients differ from Model/VecOps.v's formulas (hinge_bwd / focal_bwd / margin_bwd_a,b)" % t["fn"], "task": t})
            continue
        if t["fn"] == "batchnorm":
            # lanes = channels (axis 1); every other axis is reduced
            C = x.shape[1]
            Xc = np.moveaxis(x, 1, 0).reshape(C, -1)
            Gc = np.moveaxis(np.array(r["grad"]).reshape(x.shape), 1, 0).reshape(C, -1)
            gin = np.moveaxis(np.array(t["g"], dtype=np.float64).reshape(x.shape), 1, 0).reshape(C, -1)
            for k in range(C):
                n_lanes += 1
                gam = 1.0 if t.get("gamma") is None else t["gamma"][k]
                want = lane_model("batchnorm_x", Xc[k], None, ddof=t["eps"], glane=gin[k], c=gam)
                ok, at = same(want, Gc[k], 1e-9, 1e-11)
                std = np.sqrt(Xc[k].var() + t["eps"])
                xn = (Xc[k] - Xc[k].mean()) / std
                if ok and t.get("gamma") is not None:
                    ok = abs(r["gamma_grad"][k] - float((gin[k] * xn).sum())) <= 1e-9 * (1 + abs(r["gamma_grad"][k]))
                if ok and t.get("beta") is not None:
                    ok = abs(r["beta_grad"][k] - float(gin[k].sum())) <= 1e-9 * (1 + abs(r["beta_grad"][k]))
                if not ok:
                    bad.append({"kind": "batchnorm, channel %d: the gradients differ from Model/VecOps.v's bn_x_bwd / bn_gamma_bwd / bn_beta_bwd" % k, "task": t})
                    break
            continue
        red = tuple(range(nd)) if ax is None else tuple(sorted(a % nd for a in (ax if isinstance(ax, list) else [ax])))
        keep = tuple(i for i in range(nd) if i not in red)
        perm = keep + red
        kshape = tuple(x.shape[i] for i in keep)
        X = np.transpose(x, perm).reshape(int(np.prod(kshape, dtype=np.int64)), -1)
        G = np.transpose(np.array(r["grad"]).reshape(x.shape), perm).reshape(X.shape)
        g = np.array(t["g"], dtype=np.float64)
        if t["fn"] in ("softmax", "logsoftmax"):
            GL = np.transpose(g.reshape(x.shape), perm).reshape(X.shape)
        elif t["fn"] == "softmax_crossentropy":
            GL = None
        else:
            gl = g.reshape(-1)       # output elements in C order of the kept axes = lane order
        for k in range(X.shape[0]):
            n_lanes += 1
            if t["fn"] in ("softmax", "logsoftmax"):
                want = lane_model(t["fn"], X[k], None, glane=GL[k])
            elif t["fn"] == "softmax_crossentropy":
                want = lane_model(t["fn"], X[k], g.reshape(-1)[0], y=t["labels"][k], c=1.0 / X.shape[0])
            elif t["fn"] == "norm":
                want = lane_model("norm", X[k], gl[k], ddof=2.0 if t.get("ord") is None else float(t["ord"]))
            else:
                want = lane_model(t["fn"], X[k], gl[k], ddof=float(t.get("ddof", 0)))
            ok, at = same(want, G[k], 1e-10, 1e-12)
            if not ok:
                bad.append({"kind": "lane reduction %s (axis=%s keepdims=%s ddof=%s): element %s of lane %s received %r, Model/VecOps.v's formula gives %r" % (
                    t["fn"], t["axis"], t.get("keepdims"), t.get("ddof"), at, X[k].tolist(), float(G[k][at]), float(want[at])), "task": t})
                break
    return n_lanes, bad


# ------------------------------------------------------------------ exact registry: systematic single-operation programs
def perm_vals(rng, shape, lo=-4):
    n = int(np.prod(shape, dtype=np.int64))
    v = list(range(lo, lo + n))
    rng.shuffle(v)
    return np.array(v, dtype=np.int64).reshape(shape)


def axes_options(nd):
    if nd == 0:
        return [None]
    out = [None, []]
    out += list(range(-nd, nd))
    for k in range(2, nd + 1):
        for c in itertools.combinations(range(nd), k):
            out.append(list(c))
            out.append([x - nd for x in reversed(c)])
    return out


def single_op_builders(rng, tier):
    B = []

    def prog(leaf_shapes, fn, params, extra=None, distinct=False, spell="mg"):
        b = progs.Builder(rng)
        leaves = [b.leaf(s, perm_vals(rng, s) if distinct else None) for s in leaf_shapes]
        ops = list(leaves) + list(extra or [])
        t = b.apply(fn, ops, params, spell=spell)
        if t is None or t.const:
            return
        seed = b.rng_vals(t.shape, -3, 3)
        b.backward(t, seed)
        b.c02_label = "%s %s" % (fn, json.dumps(params, sort_keys=True))
        B.append(b)
    shapes = [(), (4,), (2, 3), (2, 3, 2), (2, 2, 3, 2), (1, 3), (3, 1, 2)]
    for sh in shapes:
        for ax in axes_options(len(sh)):
            for kd in (False, True):
                for fn in ("sum", "max", "min"):
                    for sp in ("mg", "method"):
                        prog([sh], fn, {"axis": ax, "keepdims": kd}, distinct=fn != "sum", spell=sp)
        for ax in range(-len(sh), len(sh)):
            prog([sh], "cumsum", {"axis": ax})
    for fn in ("add", "subtract", "multiply", "maximum", "minimum"):
        for sa, sb in (((2, 3), (2, 3)), ((2, 3), (3,)), ((3,), (2, 3)), ((2, 1), (1, 3)), ((), (2, 3)), ((2, 3), ()), ((), ()), ((2, 1, 3), (4, 1)), ((1,), (3,)), ((2, 3, 2), (3, 1))):
            prog([sa, sb], fn, {})
            prog([sa], fn, {}, extra=[("array", sb, rng_arr(rng, sb))])
            prog([sb], fn, {}, extra=[("scalar", rng.randint(-3, 3))])
    for fn in ("negative", "positive", "square", "abs", "relu"):
        for sh in shapes:
            prog([sh], fn, {})
    for sh in shapes[1:]:
        nd = len(sh)
        for _ in range(40 if tier == "thorough" else 12):
            prog([sh], "getitem", {"index": progs.rand_index(rng, sh)})
        # integer-array indices on the first axis in every carrier (ndarray of several dtypes, Python list, integer tensor; alone or in a tuple): repeated entries,
        # and entries that differ but address the same item (k and k - d)
        d0 = sh[0]
        if d0 >= 2:
            for vals in ([0, -d0, 1], [d0 - 1, -1], [1, 1 - d0, 0, 0], [-1, 0], [0, 0]):
                for carrier in ({}, {"as_list": True}, {"dtype": "int32"}, {"as_tensor": True}):
                    for lone in (True, False):
                        e = dict({"array": list(vals), "shape": [len(vals)]}, **carrier)
                        if lone:
                            e["lone"] = True
                        prog([sh], "getitem", {"index": [e]})
        prog([sh], "transpose", {"axes": None})
        for p in itertools.permutations(range(nd)):
            prog([sh], "transpose", {"axes": list(p)})
            prog([sh], "transpose", {"axes": [x - nd for x in p]})
        for a1, a2 in itertools.product(range(-nd, nd), repeat=2):
            prog([sh], "swapaxes", {"a1": a1, "a2": a2})
            prog([sh], "moveaxis", {"src": a1, "dst": a2})
        for ax in range(-nd - 1, nd + 1):
            prog([sh], "expand_dims", {"axis": ax})
        ones_ax = [i for i, d in enumerate(sh) if d == 1]
        prog([sh], "squeeze", {"axis": None})
        for i in ones_ax:
            prog([sh], "squeeze", {"axis": i})
            prog([sh], "squeeze", {"axis": i - nd})
        prog([sh], "ravel", {}), prog([sh], "flatten", {})
        n = int(np.prod(sh))
        for tgt in [[n], [-1], [1, n], [n, 1]] + ([[sh[-1], n // sh[-1]]] if sh[-1] else []):
            prog([sh], "reshape", {"shape": tgt})
        prog([sh], "broadcast_to", {"shape": [2] + list(sh)})
        prog([sh], "broadcast_to", {"shape": [3 if d == 1 else d for d in sh]})
        for ax in [None] + list(range(-nd, nd)):
            for rep in (1, 2, 3):
                prog([sh], "repeat", {"repeats": rep, "axis": ax})
            for shift in (-2, -1, 1, 3):
                prog([sh], "roll", {"shift": shift, "axis": ax})
    for sh in ((2, 3), (2, 3, 2), (3,)):
        nd = len(sh)
        for ax in range(-nd, nd):
            prog([sh, sh], "concatenate", {"axis": ax}), prog([sh, sh, sh], "concatenate", {"axis": ax})
        for ax in range(-nd - 1, nd + 1):
            prog([sh, sh], "stack", {"axis": ax})
    for sa, sb in (((2, 3), (3, 2)), ((3,), (3,)), ((2, 3), (3,)), ((3,), (3, 2)), ((2, 2, 3), (3, 2)), ((2, 3), (2, 3, 2)), ((2, 1, 2, 3), (3, 3, 2)), ((1, 3), (3, 1)), ((2, 2, 3), (2, 3, 2))):
        prog([sa, sb], "matmul", {}), prog([sa, sb], "matmul", {}, spell="op")
    for spec, shs in (("ij,jk->ik", [(2, 3), (3, 2)]), ("ij,ij->", [(2, 3), (2, 3)]), ("ii->i", [(3, 3)]), ("ii", [(3, 3)]), ("ij->ji", [(2, 3)]), ("i,i", [(3,), (3,)]),
                      ("...j,j", [(2, 3), (3,)]), ("ij,ij,ij->ij", [(2, 2)] * 3), ("i,j->ij", [(2,), (3,)]), ("ijk,ik->j", [(2, 3, 2), (2, 2)]), ("ij->", [(2, 3)]), ("ij->i", [(2, 3)]),
                      ("i->", [(3,)]), ("...ij,...jk->...ik", [(2, 2, 3), (2, 3, 2)]), ("ij,j->ij", [(2, 3), (3,)]), ("bij,bjk", [(2, 2, 3), (2, 3, 2)]), ("iij->j", [(2, 2, 3)]),
                      ("i,i,i->", [(3,)] * 3), ("ij,kj->ik", [(2, 3), (2, 3)]), ("ijk->kji", [(2, 3, 2)]), ("i...->...", [(2, 3)])):
        prog(shs, "einsum", {"spec": spec})
    for n in (2, 3, 4):
        prog([(2, 3)] * n, "add_sequence", {}), prog([(2, 3)] * n, "multiply_sequence", {})
    for cs, sa, sb in (((2, 3), (2, 3), (2, 3)), ((3,), (2, 3), ()), ((2, 1), (1, 3), (2, 3))):
        for _ in range(3):
            c = [rng.random() < 0.5 for _ in range(int(np.prod(cs)))]
            prog([sa, sb], "where", {"cond": c, "cond_shape": list(cs)})
    # nnet layers that are bilinear / selections: conv_nd (all stride / padding / dilation forms that tile) and max_pool
    for sx, sw, variants in (((1, 1, 5), (1, 1, 2), [dict(stride=1), dict(stride=3), dict(stride=1, padding=1), dict(stride=1, dilation=2), dict(stride=2, padding=2, dilation=2), dict(stride=[1], padding=[1])]),
                             ((2, 2, 4), (3, 2, 2), [dict(stride=2), dict(stride=1, padding=1), dict(stride=1), dict(stride=2, dilation=2)]),
                             ((1, 2, 3, 3), (2, 2, 2, 2), [dict(stride=1), dict(stride=1, padding=1), dict(stride=[1, 1], padding=[1, 0]), dict(stride=1, padding=[0, 1])]),
                             ((1, 1, 4, 3), (1, 1, 2, 1), [dict(stride=[2, 1]), dict(stride=[1, 2]), dict(stride=1, dilation=[2, 1]), dict(stride=1, padding=1, dilation=[2, 2])]),
                             ((1, 1, 3, 3), (1, 1, 3, 3), [dict(stride=1), dict(stride=2, padding=1)]),
                             ((1, 1, 2, 2, 3), (1, 1, 1, 2, 2), [dict(stride=1), dict(stride=[1, 1, 1], padding=[0, 0, 1])])):
        for kw_ in variants:
            prog([sx, sw], "conv_nd", kw_)
            prog([sx], "conv_nd", kw_, extra=[("array", sw, rng_arr(rng, sw))])
    for sx, pool, strides in (((1, 1, 4), [2], [2, 1]), ((2, 2, 5), [3], [1, 2]), ((6,), [2], [2, 1, 4]), ((1, 2, 4, 4), [2, 2], [2, 1, [2, 1], [1, 2]]), ((2, 1, 5, 4), [3, 2], [[2, 1], [1, 2], 2, 1]),
                              ((3, 4, 4), [2, 2], [1, 2]), ((4, 4), [2, 2], [2]), ((2, 3, 4), [2], [2, 1]), ((1, 3, 3, 4), [3, 3, 2], [1, [1, 1, 2]])):
        for st_ in strides:
            prog([sx], "max_pool", {"pool": pool, "stride": st_}, distinct=True)
    # repeated operands (one tensor feeding several operand slots of the same operation)
    for fn in ("add", "multiply", "subtract"):
        b = progs.Builder(rng)
        x = b.leaf((2, 3))
        t = b.apply(fn, [x, x])
        if t is not None:
            b.backward(t, b.rng_vals(t.shape, -3, 3))
            b.c02_label = fn + " same operand"
            B.append(b)
    for spec in ("ij,ij->", "ij,jk->ik"):
        b = progs.Builder(rng)
        x = b.leaf((2, 2))
        t = b.apply("einsum", [x, x], {"spec": spec})
        if t is not None:
            b.backward(t, b.rng_vals(t.shape, -3, 3))
            b.c02_label = "einsum same operand " + spec
            B.append(b)
    return B


def rng_arr(rng, shape):
    n = int(np.prod(shape, dtype=np.int64))
    return [rng.randint(-3, 3) for _ in range(n)]


# ------------------------------------------------------------------ main
def run(rep, work, tier, seed, props, replay=None):
    rng = rng_for(seed, "C02")
    realops_guard()
    tr = vjp_translate.last
    if tr is None:
        vjp_translate.regenerate()
        tr = vjp_translate.last
    ops = json.load(open(os.path.join(os.path.dirname(COQ), "gen", "vjp_scalar.json")))["ops"]
    found = []
    # 1. translator tie
    n_pts, bad1 = scalar_tie(rep, ops, rng)
    n_fs, bad_fs = formula_search(ops)
    # 2. RealOps tie
    n_real, bad2 = realops_tie()
    # 2b. lane reductions vs Model/VecOps.v
    vecops_guard()
    n_lanes, bad2b = lane_tie(rng, tier)
    # 3. exact registry sweep
    builders = single_op_builders(rng, tier) if replay is None or "stmts" not in replay else [progs.builder_from_stmts(replay["stmts"])]
    results = run_impl_cases([b.case("backward") for b in builders])
    keep = []
    for i, r in enumerate(results):
        if "harness_error" in r:
            raise HarnessError("impl runner: " + r["harness_error"])
        if progs.exact_safe(r):
            keep.append(i)
    kb, kr = [builders[i] for i in keep], [results[i] for i in keep]
    bad3 = model_failing(kb, kr, work, "c02")
    outside = list(getattr(model_failing, "outside_hypothesis", []))
    if outside:
        rep.violation({"kind": "a generated single-operation program does not satisfy the hypothesis hist_ok of the history-level theorems (registry theorem would not cover it)",
                       "broken": "correspondence C02: hypotheses of the exact-registry theorems", "stmts": kb[outside[0]].stmts, "n": len(outside)}, no_input=True)
    fn_hist = {}
    for b in kb:
        for s in b.stmts:
            if s["op"] == "apply":
                fn_hist[s["fn"]] = fn_hist.get(s["fn"], 0) + 1
    # 4. catalogue (numeric)
    cat_bad, cat_n, cat_fam, worst = [], 0, {}, 0.0
    if replay is None or "catalog_index" in (replay or {}):
        info = run_impl_parallel("ops_impl.py", [{"list": True}])[0]
        idx = list(range(info["n"])) if replay is None else [replay["catalog_index"]]
        seeds = [seed, seed + 1, seed + 2] if tier == "thorough" else [seed]
        # operand memory layouts: 0 = C-contiguous, 1 = Fortran-ordered, 2 = negative strides, 3 = strided view of a wider buffer
        # 4 / 5 = two operands over ONE ndarray object (two copy=False tensors / a tensor and its own .data): gradients are per tensor, not per array
        layouts = [0, 1, 2, 3, 4, 5] if tier == "thorough" else [0, 1 + seed % 3, 4, 5]
        if replay is not None:
            layouts, seeds = [replay.get("layout", 0)], [replay.get("seed", seed)]
        tasks = [{"index": i, "mode": "vjp", "seed": sd, "layout": lay} for sd in seeds for lay in layouts for i in idx]
        parts = [tasks[i::16] for i in range(16)]
        flat = [t for p in parts for t in p]
        cres = []
        for rr in run_impl_parallel("ops_impl.py", [{"tasks": p} for p in parts if p]):
            cres.extend(rr["results"])
        for t, r in zip(flat, cres):
            if "harness_error" in r:
                cat_bad.append({"kind": "operation catalogue: %s raised: %s" % (r["label"], r["harness_error"].strip().split("\n")[-1][:200]), "catalog_index": t["index"], "seed": t["seed"], "layout": t["layout"]})
                continue
            if r.get("skipped") or (t["layout"] in (4, 5) and r["label"].split("(")[0] in ("maximum", "minimum")):     # (equal operands: a tie, no derivative)
                continue
            cat_n += 1
            cat_fam[r["family"]] = cat_fam.get(r["family"], 0) + 1
            for e in r["errs"]:
                if e.get("shape_mismatch"):
                    cat_bad.append({"kind": "operation catalogue: %s -- gradient of operand %d has shape %s, the operand %s" % (r["label"], e["operand"], e["shape_mismatch"][0], e["shape_mismatch"][1]),
                                    "catalog_index": t["index"], "seed": t["seed"]})
                    continue
                worst = max(worst, e["rel_err"]) if e["rel_err"] < 1e-4 else worst
                if not e["rel_err"] <= 2e-6:
                    cat_bad.append({"kind": "operation catalogue: %s -- backward gives %r for operand %d at %s, the derivative of the forward pass is %r" % (
                        r["label"], e["analytic"], e["operand"], e["at"], e["numeric"]), "catalog_index": t["index"], "seed": t["seed"], "layout": t["layout"], "label": r["label"], "detail": e})
    # ---- report
    kf = {f["name"]: f for f in known_findings("C02") if f["status"] == "known"}
    for item in (bad1 + bad_fs + bad2 + bad2b)[:8]:
        rep.violation(item)
    for j in sorted(bad3, key=lambda j: len(kb[j].stmts))[:6]:
        rep.violation({"kind": "exact-integer single-operation program: gradient differs from the model whose VJP is proved -- " + getattr(kb[j], "c02_label", ""), "stmts": kb[j].stmts, "impl": kr[j]})
    shown = set()
    for item in cat_bad:
        key = item.get("label", item["kind"]).split("(")[0].split(" ")[0]
        if key in shown or len(shown) >= 6:
            continue
        shown.add(key)
        rep.violation(item)
    any_input = bool(bad1 or bad_fs or bad2b or bad3 or cat_bad)
    for p in props.get("translator_problems") or []:
        rep.violation({"kind": "vjp translator: " + p, "broken": "harness/vjp_translate.py"}, no_input=not any_input)
    if not props["ok"]:
        from c11 import broken_lemma
        rep.violation({"kind": "proof obligations of Props/C02.v no longer check over the regenerated Gen/VjpScalar.v: " + broken_lemma(props["log"]),
                       "broken": broken_lemma(props["log"]), "log": props["log"][-1500:], "refused_by_translator": tr["refused"]}, no_input=not any_input)
    rep.coverage.update({
        "evaluations": n_pts + n_real + n_lanes + len(kb) + cat_n,
        "distinct_nontrivial": len(set(progs.canonical(b) for b in kb)) + len(ops) + len(cat_fam),
        "rule": "translator tie: every translated class x grid of points (22 values, 17^2 pairs) incl. 0, +-1, tiny and singular points; exact sweep: one operation per program with systematic options, "
                "distinct permutation values for max/min; catalogue: ~1100 operation x option entries at kink-free points; non-trivial = every exact program (an operation with a non-constant operand "
                "and an explicit seed) + every translated class + every catalogue family; distinct = distinct statement list / class / family",
        "samples": [kb[0].stmts if kb else None],
        "translated_classes": [op["name"] for op in ops], "refused_classes": tr["refused"],
        "translator_tie_points": n_pts, "translator_tie_disagreements": len(bad1),
        "formula_search_points": n_fs, "formula_search_failures": len(bad_fs),
        "realops_points": n_real, "realops_disagreements": len(bad2),
        "lane_reduction_lanes": n_lanes, "lane_reduction_disagreements": len(bad2b),
        "exact_programs": len(kb), "exact_programs_meeting_theorem_hypotheses": len(kb) - len(outside), "exact_discarded": len(builders) - len(kb), "exact_disagreements": len(bad3), "exact_ops": fn_hist,
        "catalogue_entries_run": cat_n, "catalogue_families": cat_fam, "catalogue_disagreements": len(cat_bad), "catalogue_worst_rel_err_below_threshold": worst,
    })
    rep.assumptions += [
        "numpy kernels compute the real functions of Model/RealOps.v / Coq's Reals up to rounding (checked numerically on every run, not proved)",
        "theorems are about real arithmetic; floating-point rounding of the formulas is not modelled",
        "np.isclose(x, 0, atol=1e-162) in Sinc is modelled as x = 0; keyword options of a ufunc class are translated at their defaults (Abs.nan_to_num=True)",
        "operations that are neither element-wise formulas, lane reductions (Model/VecOps.v) nor in the exact registry (cumprod, norm, clip, hard_tanh/leaky_relu/glu compositions, batchnorm, gru, "
        "focal / hinge / margin-ranking / NLL losses) are covered only by the numerical catalogue (4th-order finite differences of MyGrad's own forward, tolerance 2e-6): validation, not proof",
        "Model/VecOps.v is hand-written from the source (not translated); its formulas are compared with the implementation lane by lane on every run",
        "broadcast reduction and where= masking of element-wise gradients (Operation.backward) are covered by the exact registry (broadcasting) and the catalogue (where=)",
    ]
