"""C17 -- tensor construction and conversion: copying, aliasing and dtype rules.
Theorems: coq/Props/C17.v over the decision model Model/Construct.v.  Tie: the complete lattice
{tensor, Tensor, astensor, copy, astype} x {list, ndarray, Tensor (constant / non-constant, plain / with creator / with gradient)} x
source dtype {float, int} x dtype argument {absent, same, other float, other int} x constant {None, True, False} x copy x ndmin is run
on /repo and compared with the model inside Coq (same object? shares memory? dtype kind, constant flag or error, detached?);
implementation oracles: values/dtype, source changes not seen by copies, graph and gradient intact when returned as-is; creation
routines versus NumPy for explicit arguments (float32 defaults of zeros/ones/empty); non-real dtypes rejected while tracking."""
import itertools
import json

import graphhist as gh
from common import HarnessError, known_findings, rng_for, run_impl_parallel


def lattice():
    tasks = []
    for which in ("tensor", "Tensor", "astensor", "copy", "astype"):
        kinds = ["list", "arr", "ten"] if which in ("tensor", "Tensor", "astensor") else ["ten"]
        for kind, fl, dt, dtf, constant, copy, ndmin in itertools.product(kinds, (True, False), ("none", "same", "other"), (True, False), (None, True, False), (True, False), (False, True)):
            if which in ("astensor", "copy") and (copy is False):
                continue     # no copy argument: one value is enough
            if which in ("astensor", "copy", "astype") and ndmin:
                continue
            if which == "copy" and dt != "none":
                continue
            if dt != "other" and dtf is False:
                continue
            if kind == "ten":
                consts = (True, False) if fl else (True,)
                graphs = ("plain", "creator", "grad") if fl else ("plain",)
            else:
                consts, graphs = (True,), ("plain",)
            for c, g in itertools.product(consts, graphs):
                tasks.append({"task": "cell", "which": which, "kind": kind, "float": fl, "const": c, "graph": g, "dt": dt, "dt_float": dtf, "constant": constant, "copy": copy, "ndmin": ndmin})
    return tasks


def coq_cell(t, r):
    which = ["tensor", "Tensor", "astensor", "copy", "astype"].index(t["which"])
    kind = {"list": "SList", "arr": "SArr", "ten": "STen"}[t["kind"]]
    dt = {"none": "DNone", "same": "DSame", "other": "DOther"}[t["dt"]]
    b = lambda x: "true" if x else "false"
    const = t["const"] if t["kind"] == "ten" else True
    carg = "None" if t["constant"] is None else "(Some %s)" % b(t["constant"])
    cin = "(Build_cin %s %s %s %s %s %s %s %s)" % (kind, b(t["float"]), b(const), dt, b(t["dt_float"]), carg, b(t["copy"] if t["which"] not in ("astensor",) else False), b(t["ndmin"]))
    if r["code"] >= 2:
        obs = "(false, false, false, %d, false)" % r["code"]
    else:
        obs = "(%s, %s, %s, %d, %s)" % (b(r["same"]), b(r["shares"]), b(r["float"]), r["code"], b(r["detached"]))
    return "(%d, %s, %s)" % (which, cin, obs)


def creation_tasks():
    T = []
    shapes = [(), 3, (2, 3), (0,)]
    dts = [None, "float64", "float32", "float16", "int32", "int8", "bool"]
    for fn in ("zeros", "ones", "empty"):
        for sh, dt in itertools.product(shapes, dts):
            T.append({"task": "creation", "fn": fn, "args": [list(sh) if isinstance(sh, tuple) else sh], "kw": {} if dt is None else {"dtype": dt}})
    for sh, dt, v in itertools.product(shapes, dts, (2, 2.5, True)):
        T.append({"task": "creation", "fn": "full", "args": [list(sh) if isinstance(sh, tuple) else sh, v], "kw": {} if dt is None else {"dtype": dt}})
    for fn in ("zeros_like", "ones_like", "empty_like", "full_like"):
        for ldt, dt, lt in itertools.product(["float64", "float32", "int32", "bool"], [None, "float32", "int8"], (True, False)):
            T.append({"task": "creation", "fn": fn, "args": [3] if fn == "full_like" else [], "kw": {} if dt is None else {"dtype": dt}, "like_dtype": ldt, "like_tensor": lt})
        # shape= override of the prototype's shape, incl. the falsy spellings (), [] and 0; order= / subok-free keyword routes; also through numpy.<fn>(tensor)
        for shp, lt in itertools.product([4, [4], [], 0, [0], [0, 3], [2, 2], [1]], (True, False)):
            T.append({"task": "creation", "fn": fn, "args": [3] if fn == "full_like" else [], "kw": {"shape": shp}, "like_dtype": "float64", "like_tensor": lt})
            T.append({"task": "creation", "fn": fn, "args": [3] if fn == "full_like" else [], "kw": {"shape": shp, "dtype": "int8"}, "like_dtype": "float32", "like_tensor": lt})
            T.append({"task": "creation", "fn": fn, "args": [3] if fn == "full_like" else [], "kw": {"shape": shp}, "like_dtype": "float64", "like_tensor": True, "via_numpy": True})
    for args in ([5], [2, 7], [1, 10, 3], [0.0, 1.0, 0.25], [5, 0, -1], [3.0]):
        for dt in (None, "float32", "int16", "float64"):
            T.append({"task": "creation", "fn": "arange", "args": args, "kw": {} if dt is None else {"dtype": dt}})
    # arange steps in the TARGET dtype (it is not "generate, then cast"): non-integer start / step with an integer dtype, float steps in half / single precision, bool
    for args in ([0.5, 5, 1.5], [0.2, 3.1, 0.7], [0.5, 4.6], [2.5], [1, 7, 2], [3], [0.1, 1.0, 0.1], [5, 0.5, -1.5]):
        for dt in ("int64", "int32", "int8", "uint8", "float32", "float16", "bool"):
            T.append({"task": "creation", "fn": "arange", "args": args, "kw": {"dtype": dt}})
    # inputs that numpy.asarray re-wraps without copying and that are not plain ndarrays: tensor(x) / Tensor(x) copy by default
    for src, which, copy, dt in itertools.product(("recarray", "subclass", "masked", "memoryview", "array.array", "__array__", "ndarray_view"), ("tensor", "Tensor"), (None, True, False), (None, "same", "other")):
        T.append({"task": "foreign", "src": src, "which": which, "copy": copy, "dtype": dt})
    for args, kw in (([0, 1, 5], {}), ([0.0, 10.0, 11], {"endpoint": False}), ([1, 2, 3], {"dtype": "float32"}), ([0, 1, 1], {}), ([0, 1, 0], {}), ([[0, 1], [2, 3], 4], {"axis": 1})):
        T.append({"task": "creation", "fn": "linspace", "args": args, "kw": kw})
        T.append({"task": "creation", "fn": "logspace", "args": args, "kw": dict(kw, base=2.0)})
    for args, kw in (([1, 1000, 4], {}), ([1.0, 256.0, 9], {"dtype": "float32"}), ([2, 32, 5], {"endpoint": False})):
        T.append({"task": "creation", "fn": "geomspace", "args": args, "kw": kw})
    # endpoints that carry their own precision (NumPy scalars / arrays of a narrow float or an integer dtype): the result dtype is NumPy's
    for edt, arr in itertools.product(("float32", "float16", "int32", "float64"), (False, True)):
        s0 = {"np": edt, "v": [1, 2] if arr else 1}
        s1 = {"np": edt, "v": [4, 16] if arr else 8}
        for kw in ({}, {"endpoint": False}, {"dtype": "float32"}):
            T.append({"task": "creation", "fn": "linspace", "args": [s0, s1, 4], "kw": kw})
            T.append({"task": "creation", "fn": "logspace", "args": [s0, s1, 4], "kw": dict(kw, base=2.0)})
            T.append({"task": "creation", "fn": "geomspace", "args": [s0, s1, 4], "kw": kw})
        T.append({"task": "creation", "fn": "linspace", "args": [s0, 8.0, 4], "kw": {}})
        T.append({"task": "creation", "fn": "arange", "args": [s0, s1] if not arr else [{"np": edt, "v": 5}], "kw": {}})
        T.append({"task": "creation", "fn": "full", "args": [[2], {"np": edt, "v": 3}], "kw": {}})
    for args, kw in (([3], {}), ([2, 3], {}), ([3, 3, 1], {}), ([3], {"k": -1, "dtype": "float32"}), ([0], {}), ([2], {"dtype": "int8"})):
        T.append({"task": "creation", "fn": "eye", "args": args, "kw": kw})
    for n, dt in itertools.product((0, 1, 3), (None, "float32", "int32")):
        T.append({"task": "creation", "fn": "identity", "args": [n], "kw": {} if dt is None else {"dtype": dt}})
    for lay, ten, dt, to, order in itertools.product(("C", "F", "T", "strided", "rows"), (True, False), ("float64", "float32", "int32"), (None, "float64", "float32"), (None, "C", "F")):
        T.append({"task": "asarray", "layout": lay, "tensor": ten, "dtype": dt, "to": to, "order": order})
    for fn in ("zeros", "ones", "full", "arange", "eye"):
        for c in (True, False):
            base = {"zeros": [[2]], "ones": [[2]], "full": [[2], 1.5], "arange": [3.0], "eye": [2]}[fn]
            T.append({"task": "creation", "fn": fn, "args": base, "kw": {"constant": c}})
    return T


def run(rep, work, tier, seed, props, replay=None):
    kf = {f["name"]: f for f in known_findings("C17") if f["status"] == "known"}
    cells = lattice()
    ctasks = creation_tasks()
    tasks = cells + ctasks + [{"task": "nonreal"}]
    if replay is not None and "task" in replay:
        tasks = [replay["task"]]
        cells = [t for t in tasks if t["task"] == "cell"]
        ctasks = [t for t in tasks if t["task"] in ("creation", "asarray", "foreign")]
    n = max(1, (len(tasks) + 15) // 16)
    parts = [tasks[i:i + n] for i in range(0, len(tasks), n)]
    res = []
    for r in run_impl_parallel("c17_impl.py", [{"tasks": p} for p in parts]):
        res.extend(r["results"])
    for t, r in zip(tasks, res):
        if "harness_error" in r:
            raise HarnessError("c17 runner on %s: %s" % (json.dumps(t), r["harness_error"]))
    cres = res[:len(cells)]
    terms = [coq_cell(t, r) for t, r in zip(cells, cres)]
    hdr = "From Coq Require Import List. Import ListNotations.\nFrom MG Require Import Model.ConstRule Model.Construct Model.ConstructCorr.\n"
    bad = []
    if terms:
        for idx, lst in gh.coq_eval_indices(terms, "kcase17", "failing17", work, "c17", shard=800, header=hdr):
            bad.extend(idx[j] for j in lst)
    n_v = 0
    for i in bad[:8]:
        n_v += 1
        rep.violation({"kind": "construction/conversion outcome differs from the decision model Model/Construct.v (same object / shares memory / dtype kind / constant flag or error / detached)",
                       "task": cells[i], "impl": cres[i], "model_case": terms[i]})
    for t, r in zip(cells, cres):
        if r.get("oracle") and n_v < 14:
            n_v += 1
            rep.violation({"kind": "construction oracle: " + r["oracle"][0], "task": t, "impl": r})
    crs = res[len(cells):len(cells) + len(ctasks)]
    cbad = [i for i, r in enumerate(crs) if not r["agree"]]
    for i in cbad[:8]:
        rep.violation({"kind": "creation routine differs from its NumPy namesake: " + str(crs[i]["why"]), "task": ctasks[i], "impl": crs[i]})
    if len(res) > len(cells) + len(ctasks):
        nr = res[-1]
        wrong = {k: v for k, v in nr.items() if (k != "untracked" and v != "TypeError") or (k == "untracked" and v != "accepted")}
        if wrong:
            rep.violation({"kind": "non-real dtypes: expected TypeError while tracking and acceptance under no_autodiff", "task": {"task": "nonreal"}, "impl": nr})
    if not props["ok"]:
        rep.violation({"kind": "proof obligations of Props/C17.v no longer check", "broken": "Props/C17.v", "log": props["log"][-1500:]}, no_input=not (bad or cbad))
    nt = set(json.dumps(t, sort_keys=True) for t in cells if t["dt"] != "none" or t["constant"] is not None or not t["copy"] or t["ndmin"])
    rep.coverage.update({
        "evaluations": len(tasks),
        "distinct_nontrivial": len(nt) + len(ctasks),
        "rule": "the complete lattice described in the module docstring (%d cells) plus %d creation-routine calls; non-trivial = at least one non-default argument; distinct = distinct cell" % (len(cells), len(ctasks)),
        "samples": [cells[100] if len(cells) > 100 else cells[0], ctasks[5] if len(ctasks) > 5 else None],
        "exhaustive": True,
        "lattice_cells": len(cells), "lattice_disagreements": len(bad), "creation_calls": len(ctasks), "creation_disagreements": len(cbad),
        "traces_validated_against_impl": len(cells) - len(bad),
    })
    rep.assumptions += ["source arrays are 1-d of 4 elements (the decision does not depend on the shape); ndmin is exercised as 'ndim + 1'",
                        "creation routines are compared for explicit arguments; the float32 default of zeros/ones/empty is the documented exception"]
