"""The exact-arithmetic operation registry shared by the program generators, the implementation
runner and the Coq term printers.

Every operation is described twice from ONE parameter record:
  * `impl`  : how to call it on MyGrad tensors (interpreted by harness/impl/prog_impl.py), and
  * `cop`   : its meaning as  segment_sum(kernel(gather map_i x_i))  (Model/OpsExact.v), where the index
              maps are obtained by running NumPy's own indexing / broadcasting on labelled index arrays.
`translate(fn, params, operands)` returns (out_shape, out_vals, cop, is_view) and self-checks that the cop
reproduces the direct NumPy evaluation of the same call (so a wrong translation cannot go unnoticed).
Only NumPy is imported here (never mygrad)."""
import itertools

import numpy as np


class Cop:
    def __init__(self, work, args, kern, seg):
        self.work = int(work)
        self.args = args      # list of (operand position, map: list[int])
        self.kern = kern      # ("lin", [coef lists], offset list) | ("mul",)
        self.seg = seg        # None | (n_out, key list)

    def evaluate(self, vals):
        """vals: list of flat integer lists (python ints) per operand position"""
        xs = [[vals[p][j] for j in m] for p, m in self.args]
        if self.kern[0] == "lin":
            w = list(self.kern[2])
            for c, x in zip(self.kern[1], xs):
                w = [wi + ci * xi for wi, ci, xi in zip(w, c, x)]
        else:
            w = [1] * self.work
            for x in xs:
                w = [wi * xi for wi, xi in zip(w, x)]
        if self.seg is None:
            return w
        out = [0] * self.seg[0]
        for k, wi in zip(self.seg[1], w):
            out[k] += wi
        return out


def idx_of(shape):
    return np.arange(int(np.prod(shape, dtype=np.int64)), dtype=np.int64).reshape(shape)


def ones(n):
    return [1] * n


def zeros(n):
    return [0] * n


def flat(a):
    return [int(v) for v in np.asarray(a).ravel()]


# ------------------------------------------------------------------------------------------------
# translations.  operands: list of (shape tuple, int64 ndarray of that shape)
# each returns (out ndarray (int64), Cop, is_view)
# ------------------------------------------------------------------------------------------------
def _bcast_maps(operands):
    shapes = [s for s, _ in operands]
    out_shape = np.broadcast_shapes(*shapes)
    maps = [flat(np.broadcast_to(idx_of(s), out_shape)) for s in shapes]
    return tuple(out_shape), maps


def t_binary(fn, params, operands):
    (sa, a), (sb, b) = operands
    out_shape, (ma, mb) = _bcast_maps(operands)
    n = int(np.prod(out_shape, dtype=np.int64))
    A, B = np.broadcast_to(a, out_shape), np.broadcast_to(b, out_shape)
    if fn == "add":
        return A + B, Cop(n, [(0, ma), (1, mb)], ("lin", [ones(n), ones(n)], zeros(n)), None), False
    if fn == "subtract":
        return A - B, Cop(n, [(0, ma), (1, mb)], ("lin", [ones(n), [-1] * n], zeros(n)), None), False
    if fn == "multiply":
        return A * B, Cop(n, [(0, ma), (1, mb)], ("mul",), None), False
    if fn in ("maximum", "minimum"):
        gt = (A > B) if fn == "maximum" else (A < B)
        lt = (B > A) if fn == "maximum" else (B < A)
        tie = A == B
        out = np.maximum(A, B) if fn == "maximum" else np.minimum(A, B)
        # documented convention: zero gradient to both operands at ties
        return out, Cop(n, [(0, ma), (1, mb)], ("lin", [flat(gt.astype(np.int64)), flat(lt.astype(np.int64))],
                                                 flat(np.where(tie, A, 0))), None), False
    raise KeyError(fn)


def t_unary(fn, params, operands):
    (s, a), = operands
    n = a.size
    m = list(range(n))
    if fn == "negative":
        return -a, Cop(n, [(0, m)], ("lin", [[-1] * n], zeros(n)), None), False
    if fn == "positive":
        return +a, Cop(n, [(0, m)], ("lin", [ones(n)], zeros(n)), None), False
    if fn == "square":
        return a * a, Cop(n, [(0, m), (0, m)], ("mul",), None), False
    if fn == "abs":
        return np.abs(a), Cop(n, [(0, m)], ("lin", [flat(np.sign(a))], zeros(n)), None), False
    if fn == "relu":
        return np.where(a > 0, a, 0), Cop(n, [(0, m)], ("lin", [flat((a > 0).astype(np.int64))], zeros(n)), None), False
    raise KeyError(fn)


def t_where(fn, params, operands):
    cond = np.asarray(params["cond"], dtype=bool).reshape(params["cond_shape"])
    (sa, a), (sb, b) = operands
    out_shape = np.broadcast_shapes(cond.shape, sa, sb)
    n = int(np.prod(out_shape, dtype=np.int64))
    C = np.broadcast_to(cond, out_shape)
    ma = flat(np.broadcast_to(idx_of(sa), out_shape))
    mb = flat(np.broadcast_to(idx_of(sb), out_shape))
    out = np.where(C, np.broadcast_to(a, out_shape), np.broadcast_to(b, out_shape))
    return out, Cop(n, [(0, ma), (1, mb)], ("lin", [flat(C.astype(np.int64)), flat((~C).astype(np.int64))], zeros(n)), None), False


def _axis_tuple(axis, ndim):
    if axis is None:
        return tuple(range(ndim))
    if isinstance(axis, int):
        axis = (axis,)
    return tuple(sorted(a % ndim for a in axis))


def t_sum(fn, params, operands):
    (s, a), = operands
    axis, keepdims = params.get("axis"), bool(params.get("keepdims", False))
    out = np.sum(a, axis=tuple(axis) if isinstance(axis, list) else axis, keepdims=keepdims)
    out = np.asarray(out)
    kd_shape = np.sum(a, axis=tuple(axis) if isinstance(axis, list) else axis, keepdims=True).shape if a.ndim else ()
    n_out = int(out.size)
    key = flat(np.broadcast_to(idx_of(kd_shape), s)) if a.ndim else [0]
    n = a.size
    return out, Cop(n, [(0, list(range(n)))], ("lin", [ones(n)], zeros(n)), (n_out, key)), False


def t_maxmin(fn, params, operands):
    """max / min reduction: the output element IS the (unique) extreme element of its group -> a gather.  Groups with ties are refused
    (which of the tied elements receives the gradient is NumPy's first-occurrence convention, not part of the property)."""
    (s, a), = operands
    axis, keepdims = params.get("axis"), bool(params.get("keepdims", False))
    ax = tuple(axis) if isinstance(axis, list) else axis
    f = np.max if fn == "max" else np.min
    out = np.asarray(f(a, axis=ax, keepdims=keepdims))
    if a.ndim == 0:
        return out, Cop(1, [(0, [0])], ("lin", [[1]], [0]), None), False
    red = _axis_tuple(ax, a.ndim)
    keep = tuple(i for i in range(a.ndim) if i not in red)
    I = idx_of(s)
    perm = keep + red
    kshape = tuple(s[i] for i in keep)
    Z = np.transpose(a, perm).reshape(kshape + (-1,))
    ZI = np.transpose(I, perm).reshape(kshape + (-1,))
    ext = f(Z, axis=-1, keepdims=True)
    if Z.shape[-1] == 0 or np.any(np.sum(Z == ext, axis=-1) != 1):
        raise ValueError("tie")
    k = np.argmax(Z == ext, axis=-1)
    sel = np.take_along_axis(ZI, k[..., None], axis=-1)[..., 0]
    m = flat(sel)
    n = len(m)
    return out, Cop(n, [(0, m)], ("lin", [ones(n)], zeros(n)), None), False


def t_cumsum(fn, params, operands):
    (s, a), = operands
    axis = params["axis"] % a.ndim
    out = np.cumsum(a, axis=axis)
    I = idx_of(s)
    maps, keys = [], []
    for pos in itertools.product(*[range(d) for d in s]):
        for j in range(pos[axis] + 1):
            src = list(pos)
            src[axis] = j
            maps.append(int(I[tuple(src)]))
            keys.append(int(I[pos]))
    n = len(maps)
    return out, Cop(n, [(0, maps)], ("lin", [ones(n)], zeros(n)), (a.size, keys)), False


def _gather_op(f, a):
    """f: the NumPy operation; applied to the labelled index array (-> index map) and to the mirror array
    itself (-> values in their real memory layout, and whether NumPy returns a view)"""
    out_idx = np.asarray(f(idx_of(a.shape)))
    rv = f(a)
    # MyGrad's rule (Tensor._op): a view iff NumPy's result has a base (identity-returning calls such as
    # np.squeeze with nothing to squeeze return the input itself: no base unless the input has one)
    view = isinstance(rv, np.ndarray) and rv.base is not None and rv.size > 0 and np.shares_memory(rv, a)
    m = flat(out_idx)
    n = len(m)
    return (rv if isinstance(rv, np.ndarray) else np.asarray(rv)), Cop(n, [(0, m)], ("lin", [ones(n)], zeros(n)), None), view


def py_index(ix):
    """JSON index description -> python index object"""
    def one(e):
        if isinstance(e, dict):
            if "slice" in e:
                return slice(*e["slice"])
            if "newaxis" in e:
                return None
            if "ellipsis" in e:
                return Ellipsis
            if "array" in e:
                return np.asarray(e["array"], dtype=np.int64).reshape(e.get("shape", [-1]))
            if "bool" in e:
                return np.asarray(e["bool"], dtype=bool).reshape(e["shape"])
        return e
    if isinstance(ix, list):
        return tuple(one(e) for e in ix)
    return one(ix)


def t_gatherlike(fn, params, operands):
    (s, a), = operands
    if fn == "getitem":
        index = py_index(params["index"])
        return _gather_op(lambda x: x[index], a)
    if fn == "reshape":
        return _gather_op(lambda x: x.reshape(params["shape"]), a)
    if fn == "transpose":
        return _gather_op(lambda x: np.transpose(x, params.get("axes")), a)
    if fn == "swapaxes":
        return _gather_op(lambda x: np.swapaxes(x, params["a1"], params["a2"]), a)
    if fn == "moveaxis":
        return _gather_op(lambda x: np.moveaxis(x, params["src"], params["dst"]), a)
    if fn == "squeeze":
        ax = params.get("axis")
        return _gather_op(lambda x: np.squeeze(x, axis=tuple(ax) if isinstance(ax, list) else ax), a)
    if fn == "expand_dims":
        return _gather_op(lambda x: np.expand_dims(x, params["axis"]), a)
    if fn == "broadcast_to":
        return _gather_op(lambda x: np.broadcast_to(x, params["shape"]), a)
    if fn == "ravel":
        return _gather_op(lambda x: np.ravel(x), a)
    if fn == "flatten":
        return _gather_op(lambda x: x.flatten(), a)
    if fn == "repeat":
        return _gather_op(lambda x: np.repeat(x, params["repeats"], axis=params.get("axis")), a)
    if fn == "roll":
        return _gather_op(lambda x: np.roll(x, params["shift"], axis=params.get("axis")), a)
    raise KeyError(fn)


def t_join(fn, params, operands):
    axis = params.get("axis", 0)
    shapes = [s for s, _ in operands]
    vals = [a for _, a in operands]
    # tag every element with (operand, position)
    tags = [np.stack([np.full(s, k, dtype=np.int64), idx_of(s)], axis=-1) for k, s in enumerate(shapes)]
    if fn == "concatenate":
        out = np.concatenate(vals, axis=axis)
        T = np.concatenate(tags, axis=axis if axis >= 0 else axis - 1)
    else:
        out = np.stack(vals, axis=axis)
        T = np.stack(tags, axis=axis if axis >= 0 else axis - 1)
    T = T.reshape(-1, 2)
    n = T.shape[0]
    args, coefs = [], []
    for k in range(len(operands)):
        sel = T[:, 0] == k
        args.append((k, [int(p) if f else 0 for p, f in zip(T[:, 1], sel)]))
        coefs.append([1 if f else 0 for f in sel])
    return out, Cop(n, args, ("lin", coefs, zeros(n)), None), False


def t_einsum(fn, params, operands):
    """explicit-form einsum "ab,bc->ac" (repeated labels inside one operand allowed: diagonals/traces)"""
    spec = params["spec"]
    lhs, rhs = spec.split("->")
    terms = lhs.split(",")
    sizes = {}
    for t, (s, _) in zip(terms, operands):
        for ch, d in zip(t, s):
            if sizes.setdefault(ch, d) != d:
                raise ValueError("inconsistent label sizes")
    labels = sorted(sizes)
    grids = list(itertools.product(*[range(sizes[ch]) for ch in labels]))
    pos = {ch: i for i, ch in enumerate(labels)}
    out_shape = tuple(sizes[ch] for ch in rhs)
    Iout = idx_of(out_shape)
    args = []
    for k, (t, (s, _)) in enumerate(zip(terms, operands)):
        I = idx_of(s)
        args.append((k, [int(I[tuple(g[pos[ch]] for ch in t)]) for g in grids]))
    key = [int(Iout[tuple(g[pos[ch]] for ch in rhs)]) for g in grids]
    out = np.einsum(spec, *[a for _, a in operands])
    n = len(grids)
    view = isinstance(out, np.ndarray) and out.base is not None and out.size > 0 and any(np.shares_memory(out, a) for _, a in operands)
    return np.asarray(out), Cop(n, args, ("mul",), (int(np.prod(out_shape, dtype=np.int64)), key)), view


def t_matmul(fn, params, operands):
    (sa, a), (sb, b) = operands
    out = np.matmul(a, b)
    la = "k" if len(sa) == 1 else ("ik" if len(sa) == 2 else "bik")
    lb = "k" if len(sb) == 1 else ("kj" if len(sb) == 2 else "bkj")
    lo = ("b" if "b" in la + lb else "") + ("i" if "i" in la else "") + ("j" if "j" in lb else "")
    if "b" in la and "b" in lb and sa[0] != sb[0]:
        raise ValueError("unsupported batch broadcast")
    o, cop, _ = t_einsum("einsum", {"spec": "%s,%s->%s" % (la, lb, lo)}, operands)
    assert np.array_equal(o, out)
    return out, cop, False


def t_nary(fn, params, operands):
    shapes = [s for s, _ in operands]
    out_shape, maps = _bcast_maps(operands)
    n = int(np.prod(out_shape, dtype=np.int64))
    B = [np.broadcast_to(a, out_shape) for _, a in operands]
    if fn == "add_sequence":
        return sum(B[1:], B[0]), Cop(n, list(enumerate(maps)), ("lin", [ones(n)] * len(B), zeros(n)), None), False
    out = B[0]
    for x in B[1:]:
        out = out * x
    return out, Cop(n, list(enumerate(maps)), ("mul",), None), False


def _tup(v, n):
    return tuple(int(v) for _ in range(n)) if isinstance(v, (int, np.integer)) else tuple(int(e) for e in v)


def t_conv(fn, params, operands):
    """conv_nd(x, w, stride, padding, dilation): out[n,f,o] = sum_{c,k} xpad[n,c,o*s+k*d] * w[f,c,k]  -- bilinear: a product of gathers, segment-summed
    per output element; terms that fall into the zero padding contribute nothing and are left out.  Reference values by explicit loops."""
    (sx, x), (sw, w) = operands
    nd = len(sx) - 2
    if nd < 1 or len(sw) != len(sx) or sx[1] != sw[1]:
        raise ValueError("shapes")
    S, P, D = _tup(params.get("stride", 1), nd), _tup(params.get("padding", 0), nd), _tup(params.get("dilation", 1), nd)
    X, W = sx[2:], sw[2:]
    O = []
    for xd, wd, s_, p_, d_ in zip(X, W, S, P, D):
        ext = (wd - 1) * d_ + 1
        if s_ < 1 or d_ < 1 or p_ < 0 or xd + 2 * p_ < ext or (xd + 2 * p_ - ext) % s_ or wd * d_ > xd + 2 * p_:
            raise ValueError("no exact tiling (or the dilated-extent gap of the known C16 finding)")
        O.append((xd + 2 * p_ - ext) // s_ + 1)
    N, C, F = sx[0], sx[1], sw[0]
    out_shape = (N, F) + tuple(O)
    Ix, Iw, Io = idx_of(sx), idx_of(sw), idx_of(out_shape)
    mx, mw, key = [], [], []
    out = np.zeros(out_shape, dtype=np.int64)
    for n in range(N):
        for f in range(F):
            for o in itertools.product(*[range(k) for k in O]):
                for c in range(C):
                    for k in itertools.product(*[range(k) for k in W]):
                        pos = tuple(oi * s_ + ki * d_ - p_ for oi, ki, s_, d_, p_ in zip(o, k, S, D, P))
                        if any(q < 0 or q >= xd for q, xd in zip(pos, X)):
                            continue
                        mx.append(int(Ix[(n, c) + pos]))
                        mw.append(int(Iw[(f, c) + k]))
                        key.append(int(Io[(n, f) + o]))
                        out[(n, f) + o] += x[(n, c) + pos] * w[(f, c) + k]
    return out, Cop(len(key), [(0, mx), (1, mw)], ("mul",), (int(out.size), key)), False


def t_maxpool(fn, params, operands):
    """max_pool(x, pool, stride): each output element IS the unique maximum of its window (windows with ties are refused) -> a gather"""
    (s, a), = operands
    pool = tuple(int(p) for p in params["pool"])
    nd = len(pool)
    S = _tup(params.get("stride", 1), nd)
    lead, X = s[:len(s) - nd], s[len(s) - nd:]
    if len(s) < nd:
        raise ValueError("shape")
    O = []
    for xd, pd, s_ in zip(X, pool, S):
        if pd < 1 or s_ < 1 or xd < pd or (xd - pd) % s_:
            raise ValueError("no exact tiling")
        O.append((xd - pd) // s_ + 1)
    I = idx_of(s)
    out = np.zeros(tuple(lead) + tuple(O), dtype=np.int64)
    m = []
    for l in itertools.product(*[range(k) for k in lead]):
        for o in itertools.product(*[range(k) for k in O]):
            sl = tuple(slice(oi * s_, oi * s_ + pd) for oi, s_, pd in zip(o, S, pool))
            win, lab = a[l + sl], I[l + sl]
            mxv = win.max()
            if int((win == mxv).sum()) != 1:
                raise ValueError("tie")
            out[l + o] = mxv
            m.append(int(lab[win == mxv][0]))
    n = len(m)
    return out, Cop(n, [(0, m)], ("lin", [ones(n)], zeros(n)), None), False


TRANSLATORS = {}
TRANSLATORS["conv_nd"] = t_conv
TRANSLATORS["max_pool"] = t_maxpool
for _f in ("add", "subtract", "multiply", "maximum", "minimum"):
    TRANSLATORS[_f] = t_binary
for _f in ("negative", "positive", "square", "abs", "relu"):
    TRANSLATORS[_f] = t_unary
TRANSLATORS["where"] = t_where
TRANSLATORS["sum"] = t_sum
TRANSLATORS["cumsum"] = t_cumsum
TRANSLATORS["max"] = t_maxmin
TRANSLATORS["min"] = t_maxmin
for _f in ("getitem", "reshape", "transpose", "swapaxes", "moveaxis", "squeeze", "expand_dims", "broadcast_to", "ravel", "flatten", "repeat", "roll"):
    TRANSLATORS[_f] = t_gatherlike
for _f in ("concatenate", "stack"):
    TRANSLATORS[_f] = t_join
TRANSLATORS["einsum"] = t_einsum
TRANSLATORS["matmul"] = t_matmul
for _f in ("add_sequence", "multiply_sequence"):
    TRANSLATORS[_f] = t_nary


def translate(fn, params, operands):
    """operands: list of (shape tuple, int64 ndarray).  Returns (out_shape, out ndarray, Cop, is_view)."""
    ops = []
    for s, a in operands:
        a = a if isinstance(a, np.ndarray) and a.dtype == np.int64 and a.shape == tuple(s) else np.asarray(a, dtype=np.int64).reshape(s)
        ops.append((tuple(s), a))
    operands = ops
    out, cop, view = TRANSLATORS[fn](fn, params, operands)
    out = np.asarray(out)
    got = cop.evaluate([flat(a) for _, a in operands])
    if got != flat(out):
        raise AssertionError("translation self-check failed for %s %s" % (fn, params))
    for p, m in cop.args:
        sz = int(np.prod(operands[p][0], dtype=np.int64))
        if len(m) != cop.work or any(j < 0 or j >= max(sz, 1) for j in m):
            raise AssertionError("bad map for %s" % fn)
    return tuple(int(d) for d in out.shape), out, cop, view
