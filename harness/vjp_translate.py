"""Fail-closed `ast` translator for the element-wise (scalar-formula) operations of MyGrad: symbolically executes each Operation
class' forward (`numpy_ufunc = np.f`, or the body of `__call__`) and `backward_var(grad, index)` and produces, per class and operand
index, an expression tree over the reals in  g (incoming gradient), the operands a, b and the operation's real parameters.
Output: coq/Gen/VjpScalar.v  (Definition <Op>_fwd / <Op>_bwd_<i>)  and  .work-independent JSON (gen/vjp_scalar.json) of the same
trees, which harness/c02.py evaluates with NumPy (tie to the implementation) and with mpmath (search for failing inputs).
Anything outside the recognised fragment makes the class `refused` (listed with the reason); Proofs/VjpP.v then fails to find its
definitions and the check reports the broken obligation."""
import ast
import json
import os

from common import COQ, REPO, VERIF

SOURCES = ["math/arithmetic/ops.py", "math/exp_log/ops.py", "math/trigonometric/ops.py", "math/hyperbolic_trig/ops.py", "math/misc/ops.py",
           "nnet/activations/elu.py", "nnet/activations/selu.py", "nnet/activations/sigmoid.py", "nnet/activations/relu.py"]

# classes that are not element-wise formulas (index / linear-algebra ops): handled by the exact-integer registry, not here
NOT_SCALAR = {"MatMul", "AddSequence", "MultiplySequence", "_MaxMin", "Maximum", "Minimum"}   # Maximum/Minimum (mask bookkeeping with out=/where=): exact registry, incl. ties

NP_UNARY = {"exp", "exp2", "expm1", "log", "log2", "log10", "log1p", "sin", "cos", "tan", "sinh", "cosh", "tanh", "arcsin", "arccos", "arctan", "arcsinh", "arccosh", "arctanh",
            "sqrt", "cbrt", "abs", "absolute", "reciprocal", "negative", "positive", "square", "sinc"}
NP_BINARY = {"add", "subtract", "multiply", "divide", "true_divide", "power", "logaddexp", "logaddexp2", "arctan2", "maximum", "minimum", "greater", "less"}


class Refuse(Exception):
    pass


class TensorRef:
    def __init__(self, name):
        self.name = name


class Env:
    def __init__(self, consts, funcs):
        self.loc = {}
        self.selfattr = {}
        self.consts = consts
        self.funcs = funcs       # module-level helper functions (ast.FunctionDef)
        self.variables = None    # list of TensorRef
        self.notes = []


def const(v):
    return ("const", repr(float(v)) if not isinstance(v, str) else v)


def is_const(e, v=None):
    return isinstance(e, tuple) and e[0] == "const" and (v is None or (e[1] != "pi" and float(e[1]) == v))


def ev(node, env, index):
    """expression -> IR | TensorRef | python value (None/bool/int for concrete control)"""
    if isinstance(node, ast.Constant):
        if node.value is None or isinstance(node.value, bool):
            return node.value
        if isinstance(node.value, (int, float)):
            return const(node.value)
        raise Refuse("constant %r" % (node.value,))
    if isinstance(node, ast.Name):
        if node.id == "index":
            return ("pyint", index)
        if node.id in env.loc:
            return env.loc[node.id]
        if node.id in env.consts:
            return const(env.consts[node.id])
        if node.id in env.funcs:
            return ("helper", env.funcs[node.id])
        raise Refuse("unknown name %s" % node.id)
    if isinstance(node, ast.Attribute):
        if isinstance(node.value, ast.Name) and node.value.id == "np":
            if node.attr == "pi":
                return ("const", "pi")
            if node.attr == "nan":
                return ("nan",)
            if node.attr in ("zeros_like",):
                return ("fn", "zeros_like")
            raise Refuse("np.%s as a value" % node.attr)
        if isinstance(node.value, ast.Name) and node.value.id == "self":
            if node.attr == "variables":
                return ("variables",)
            if node.attr in env.selfattr:
                return env.selfattr[node.attr]
            raise Refuse("self.%s is not set by __init__/__call__" % node.attr)
        base = ev(node.value, env, index)
        if isinstance(base, TensorRef):
            if node.attr == "data":
                return ("var", base.name)
            if node.attr == "dtype":
                return ("dtype",)
            raise Refuse("tensor attribute .%s" % node.attr)
        if node.attr == "data" and isinstance(base, tuple) and base[0] == "var":
            raise Refuse(".data of an array")
        raise Refuse("attribute .%s" % node.attr)
    if isinstance(node, ast.Subscript):
        base = ev(node.value, env, index)
        if base == ("variables",):
            k = ev(node.slice, env, index)
            if isinstance(k, tuple) and k[0] == "pyint":
                return env.variables[k[1]]
            if is_const(k):
                return env.variables[int(float(k[1]))]
        raise Refuse("subscript")
    if isinstance(node, ast.UnaryOp):
        v = ev(node.operand, env, index)
        if isinstance(node.op, ast.USub):
            return ("neg", arr(v))
        if isinstance(node.op, ast.UAdd):
            return arr(v)
        if isinstance(node.op, ast.Invert):
            return ("not", cond(v))
        if isinstance(node.op, ast.Not):
            if isinstance(v, bool):
                return not v
            raise Refuse("not on a symbolic value")
    if isinstance(node, ast.BinOp):
        l, r = arr(ev(node.left, env, index)), arr(ev(node.right, env, index))
        ops = {ast.Add: "add", ast.Sub: "sub", ast.Mult: "mul", ast.Div: "div", ast.Pow: "pow"}
        for k, nm in ops.items():
            if isinstance(node.op, k):
                return (nm, l, r)
        raise Refuse("binary operator %s" % type(node.op).__name__)
    if isinstance(node, ast.Compare):
        if len(node.ops) != 1:
            raise Refuse("chained comparison")
        l, r = ev(node.left, env, index), ev(node.comparators[0], env, index)
        op = node.ops[0]
        if isinstance(op, (ast.Is, ast.IsNot)):
            if r is None and (l is None or isinstance(l, tuple)):
                return (l is None) if isinstance(op, ast.Is) else (l is not None)
            raise Refuse("is-comparison")
        if isinstance(l, tuple) and l[0] == "pyint":
            if not is_const(r):
                raise Refuse("index compared with a non-constant")
            rv = int(float(r[1]))
            return {ast.Eq: l[1] == rv, ast.NotEq: l[1] != rv, ast.Lt: l[1] < rv, ast.Gt: l[1] > rv, ast.LtE: l[1] <= rv, ast.GtE: l[1] >= rv}[type(op)]
        names = {ast.Lt: "lt", ast.Gt: "gt", ast.Eq: "eq", ast.NotEq: "ne", ast.LtE: "le", ast.GtE: "ge"}
        return (names[type(op)], arr(l), arr(r))
    if isinstance(node, ast.IfExp):
        c = ev(node.test, env, index)
        if isinstance(c, bool):
            return ev(node.body if c else node.orelse, env, index)
        raise Refuse("conditional expression on a symbolic value")
    if isinstance(node, ast.Call):
        return ev_call(node, env, index)
    if isinstance(node, ast.Tuple):
        return ("tuple", [ev(e, env, index) for e in node.elts])
    if isinstance(node, ast.List):
        return ("list", [ev(e, env, index) for e in node.elts])
    if isinstance(node, ast.Lambda):
        return ("lambda", node)
    if isinstance(node, ast.GeneratorExp):
        # (i.data for i in self.variables)
        g = node.generators[0]
        if len(node.generators) == 1 and not g.ifs and isinstance(g.target, ast.Name) and ev(g.iter, env, index) == ("variables",):
            out = []
            for t in env.variables:
                env.loc[g.target.id] = t
                out.append(ev(node.elt, env, index))
            return ("tuple", out)
        raise Refuse("generator expression")
    raise Refuse("expression %s" % type(node).__name__)


def arr(v):
    """a value used as a real array"""
    if isinstance(v, TensorRef):
        return ("var", v.name)     # a Tensor used in arithmetic/comparison acts through its data
    if isinstance(v, bool):
        return const(1.0 if v else 0.0)
    if isinstance(v, tuple) and v[0] == "pyint":
        return const(v[1])
    if isinstance(v, tuple) and v[0] in ("lt", "gt", "eq", "ne", "le", "ge", "not", "and", "truthy"):
        return ("if", v, const(1.0), const(0.0))
    if isinstance(v, tuple) and v[0] in ("const", "var", "add", "sub", "mul", "div", "pow", "neg", "call", "if"):
        return v
    if isinstance(v, tuple) and v[0] == "nan":
        raise Refuse("NaN in a live branch")
    raise Refuse("value %r used as an array" % (v if not isinstance(v, tuple) else v[0],))


def cond(v):
    if isinstance(v, tuple) and v[0] in ("lt", "gt", "eq", "ne", "le", "ge", "not", "and"):
        return v
    if isinstance(v, tuple) and v[0] == "if" and is_const(v[2], 1.0) and is_const(v[3], 0.0):
        return v[1]
    return ("truthy", arr(v))


def apply_callable(f, x, env, index):
    if isinstance(f, tuple) and f[0] == "fn" and f[1] == "zeros_like":
        return const(0.0)
    if isinstance(f, tuple) and f[0] == "lambda":
        lam = f[1]
        if len(lam.args.args) != 1:
            raise Refuse("lambda arity")
        saved = dict(env.loc)
        env.loc[lam.args.args[0].arg] = x
        try:
            return arr(ev(lam.body, env, index))
        finally:
            env.loc = saved
    if isinstance(f, tuple) and f[0] == "helper":
        return call_helper(f[1], [x], env, index)
    return arr(f)      # a constant value


def call_helper(fn, args, env, index):
    if len(fn.args.args) != len(args):
        raise Refuse("helper arity")
    saved = dict(env.loc)
    env.loc = {a.arg: v for a, v in zip(fn.args.args, args)}
    try:
        r = run_body(fn.body, env, index)
    finally:
        env.loc = saved
    if r is None:
        raise Refuse("helper %s does not return" % fn.name)
    return r


def ev_call(node, env, index):
    f = node.func
    kws = {k.arg: k.value for k in node.keywords}
    if isinstance(f, ast.Attribute) and isinstance(f.value, ast.Name) and f.value.id == "np":
        name = f.attr
        args = [ev(a, env, index) for a in node.args]
        if name in NP_UNARY and len(args) == 1 and not (set(kws) - {"out"}):
            return ("call", {"abs": "absolute"}.get(name, name), arr(args[0]))
        if name in NP_BINARY and len(args) == 2 and not kws:
            if name in ("greater", "less"):
                return ({"greater": "gt", "less": "lt"}[name], arr(args[0]), arr(args[1]))
            return ("call", {"true_divide": "divide"}.get(name, name), arr(args[0]), arr(args[1]))
        if name == "asarray" and len(args) == 1:
            return arr(args[0])
        if name == "where" and len(args) == 3 and not kws:
            return ("if", cond(args[0]), arr(args[1]), arr(args[2]))
        if name == "logical_not" and len(args) == 1 and not kws:
            return ("not", cond(args[0]))
        if name == "isclose" and len(args) >= 2:
            env.notes.append("np.isclose(x, c, ...) is modelled as x = c")
            return ("eq", arr(args[0]), arr(args[1]))
        if name == "select" and len(args) == 2 and not kws:
            cs, vs = args
            if cs[0] == "list" and vs[0] == "list" and len(cs[1]) == len(vs[1]):
                out = const(0.0)
                for c, v in reversed(list(zip(cs[1], vs[1]))):
                    out = ("if", cond(c), arr(v), out)
                return out
        if name == "piecewise" and len(args) == 3 and not kws:
            x, cs, vs = args
            if cs[0] == "list" and vs[0] == "list" and len(cs[1]) == len(vs[1]):
                out = const(0.0)
                for c, v in reversed(list(zip(cs[1], vs[1]))):
                    out = ("if", cond(c), apply_callable(v, arr(x), env, index), out)
                return out
        raise Refuse("np.%s(...) with %d arguments / keywords %s" % (name, len(args), sorted(kws)))
    if isinstance(f, ast.Name) and f.id in env.funcs:
        return call_helper(env.funcs[f.id], [ev(a, env, index) for a in node.args], env, index)
    raise Refuse("call of %s" % ast.dump(f)[:60])


def assign(target, value, env, index):
    if isinstance(target, ast.Name):
        env.loc[target.id] = value
    elif isinstance(target, ast.Attribute) and isinstance(target.value, ast.Name) and target.value.id == "self":
        if target.attr == "variables":
            if not (isinstance(value, tuple) and value[0] == "tuple" and all(isinstance(v, TensorRef) for v in value[1])):
                raise Refuse("self.variables is not a tuple of the call's tensors")
            env.variables = value[1]
        else:
            env.selfattr[target.attr] = value
    elif isinstance(target, (ast.Tuple, ast.List)):
        if value == ("variables",):
            vals = env.variables
        elif isinstance(value, tuple) and value[0] in ("tuple", "list"):
            vals = value[1]
        else:
            raise Refuse("unpacking")
        if len(vals) != len(target.elts):
            raise Refuse("unpacking arity")
        for t, v in zip(target.elts, vals):
            assign(t, v, env, index)
    else:
        raise Refuse("assignment target")


def run_body(body, env, index):
    for st in body:
        if isinstance(st, ast.Expr) and isinstance(st.value, ast.Constant) and isinstance(st.value.value, str):
            continue
        if isinstance(st, ast.Assign) and len(st.targets) == 1:
            assign(st.targets[0], ev(st.value, env, index), env, index)
        elif isinstance(st, ast.AnnAssign) and st.value is not None:
            assign(st.target, ev(st.value, env, index), env, index)
        elif isinstance(st, ast.AugAssign):
            cur = ev(st.target, env, index)
            ops = {ast.Add: "add", ast.Sub: "sub", ast.Mult: "mul", ast.Div: "div"}
            if type(st.op) not in ops:
                raise Refuse("augmented operator")
            assign(st.target, (ops[type(st.op)], arr(cur), arr(ev(st.value, env, index))), env, index)
        elif isinstance(st, ast.Expr) and isinstance(st.value, ast.Call):
            c = st.value
            out = [k.value for k in c.keywords if k.arg == "out"]
            if out and isinstance(out[0], ast.Name) and isinstance(c.func, ast.Attribute) and isinstance(c.func.value, ast.Name) and c.func.value.id == "np":
                env.loc[out[0].id] = ev_call(c, env, index)
            elif isinstance(c.func, ast.Attribute) and isinstance(c.func.value, ast.Call) and isinstance(c.func.value.func, ast.Name) and c.func.value.func.id == "super":
                continue
            else:
                raise Refuse("expression statement")
        elif isinstance(st, ast.If):
            c = ev(st.test, env, index)
            if not isinstance(c, bool):
                raise Refuse("branch on a symbolic condition")
            r = run_body(st.body if c else st.orelse, env, index)
            if r is not None:
                return r
        elif isinstance(st, ast.Return):
            if st.value is None:
                raise Refuse("bare return")
            return arr(ev(st.value, env, index))
        elif isinstance(st, ast.Assert) or isinstance(st, ast.Pass):
            continue
        elif isinstance(st, ast.Raise):
            raise Refuse("reaches a raise statement")
        else:
            raise Refuse("statement %s" % type(st).__name__)
    return None


def translate_class(cls, consts, funcs, bases_info):
    """-> dict(name, operands, params, fwd, bwd=[...], notes)"""
    methods = {n.name: n for n in cls.body if isinstance(n, ast.FunctionDef)}
    attrs = {}
    for n in cls.body:
        if isinstance(n, ast.Assign) and len(n.targets) == 1 and isinstance(n.targets[0], ast.Name):
            attrs[n.targets[0].id] = n.value
    base_names = [b.id if isinstance(b, ast.Name) else getattr(b, "attr", "?") for b in cls.bases]
    env = Env(consts, funcs)
    params = []
    if "__init__" in methods:
        for st in methods["__init__"].body:
            if isinstance(st, ast.Assign) and len(st.targets) == 1 and isinstance(st.targets[0], ast.Attribute) and isinstance(st.targets[0].value, ast.Name) \
                    and st.targets[0].value.id == "self" and isinstance(st.value, ast.Constant):
                env.selfattr[st.targets[0].attr] = st.value.value if st.value.value is None or isinstance(st.value.value, bool) else const(st.value.value)
    ufunc = attrs.get("numpy_ufunc")
    if ufunc is not None:
        if not (isinstance(ufunc, ast.Attribute) and isinstance(ufunc.value, ast.Name) and ufunc.value.id == "np"):
            raise Refuse("numpy_ufunc is not np.<name>")
        n_in = 1 if "UnaryUfunc" in base_names else 2 if ("BinaryUfunc" in base_names or "_MaxMin" in base_names) else None
        if n_in is None:
            raise Refuse("numpy_ufunc on an unknown base class %s" % base_names)
        env.variables = [TensorRef(nm) for nm in ("a", "b")[:n_in]]
        fwd = ("call", {"true_divide": "divide"}.get(ufunc.attr, ufunc.attr)) + tuple(("var", t.name) for t in env.variables)
        if "__call__" in methods:
            # keyword-only options with defaults are evaluated at their defaults (e.g. Abs.nan_to_num=True)
            m = methods["__call__"]
            for a, d in zip(m.args.kwonlyargs, m.args.kw_defaults):
                if d is None or not isinstance(d, ast.Constant):
                    raise Refuse("__call__ option %s without a constant default" % a.arg)
                env.loc[a.arg] = d.value if isinstance(d.value, bool) or d.value is None else const(d.value)
                env.notes.append("option %s evaluated at its default %r" % (a.arg, d.value))
            for st in m.body:
                if isinstance(st, ast.Assign):
                    assign(st.targets[0], ev(st.value, env, 0), env, 0)
                elif isinstance(st, ast.Return):
                    break
                else:
                    raise Refuse("statement in a ufunc's __call__")
    else:
        if "__call__" not in methods:
            raise Refuse("no numpy_ufunc and no __call__")
        m = methods["__call__"]
        if m.args.vararg or m.args.kwarg or m.args.kwonlyargs:
            raise Refuse("__call__ with *args/**kwargs")
        names = [a.arg for a in m.args.args[1:]]
        for nm in names:
            env.loc[nm] = TensorRef(nm)
        # which of them are tensors is decided by self.variables; the others are real parameters
        fwd = run_body(m.body, env, 0)
        if fwd is None or env.variables is None:
            raise Refuse("__call__ does not set self.variables / return")
        tens = [t.name for t in env.variables]
        params = [nm for nm in names if nm not in tens]
        # parameters were bound as TensorRef: used in arithmetic they act as plain reals (arr maps them to ("var", name))
    if "backward_var" not in methods:
        raise Refuse("no backward_var")
    bw = methods["backward_var"]
    bwd = []
    for i in range(len(env.variables)):
        e2 = Env(consts, funcs)
        e2.variables = env.variables
        e2.selfattr = dict(env.selfattr)
        e2.loc = {"grad": ("var", "g")}
        r = run_body(bw.body, e2, i)
        if r is None:
            raise Refuse("backward_var(index=%d) does not return" % i)
        bwd.append(r)
        env.notes += e2.notes
    return {"name": cls.name, "operands": [t.name for t in env.variables], "params": params, "fwd": fwd, "bwd": bwd, "notes": sorted(set(env.notes))}


def module_items(path):
    tree = ast.parse(open(path).read())
    consts, funcs, classes = {}, {}, []
    for n in tree.body:
        if isinstance(n, ast.Assign) and len(n.targets) == 1 and isinstance(n.targets[0], ast.Name) and isinstance(n.value, ast.Constant) and isinstance(n.value.value, (int, float)):
            consts[n.targets[0].id] = n.value.value
        elif isinstance(n, ast.FunctionDef):
            funcs[n.name] = n
        elif isinstance(n, ast.ClassDef):
            classes.append(n)
    return consts, funcs, classes


def resolve_inheritance(classes):
    """Maximum/Minimum inherit backward_var from _MaxMin and set `_comparison = staticmethod(np.greater)`"""
    by_name = {c.name: c for c in classes}
    out = []
    for c in classes:
        parents = [b.id for b in c.bases if isinstance(b, ast.Name) and b.id in by_name]
        if parents:
            p = by_name[parents[0]]
            merged = ast.ClassDef(name=c.name, bases=p.bases, keywords=[], body=[n for n in p.body if not (isinstance(n, ast.FunctionDef) and n.name == "_comparison")] + c.body, decorator_list=[])
            out.append(merged)
        else:
            out.append(c)
    return out


# ------------------------------------------------------------------ Coq printing
COQ_FN1 = {"exp": "exp", "log": "ln", "sin": "sin", "cos": "cos", "tan": "tan", "sinh": "sinh", "cosh": "cosh", "tanh": "tanh", "sqrt": "sqrt", "absolute": "Rabs",
           "arcsin": "asin", "arccos": "acos", "arctan": "atan", "arcsinh": "arcsinh", "arccosh": "np_arccosh", "arctanh": "np_arctanh", "cbrt": "np_cbrt", "exp2": "np_exp2",
           "log2": "np_log2", "log10": "np_log10", "log1p": "np_log1p", "expm1": "np_expm1", "reciprocal": "Rinv", "negative": "Ropp", "positive": "np_positive", "square": "Rsqr",
           "sinc": "np_sinc"}
COQ_FN2 = {"add": "Rplus", "subtract": "Rminus", "multiply": "Rmult", "divide": "Rdiv", "power": "np_power", "logaddexp": "np_logaddexp", "logaddexp2": "np_logaddexp2",
           "arctan2": "np_arctan2", "maximum": "Rmax", "minimum": "Rmin"}


def coq_const(s):
    if s == "pi":
        return "PI"
    v = float(s)
    if v == int(v) and abs(v) < 10 ** 9:
        return str(int(v)) if v >= 0 else "(- %d)" % int(-v)
    r = repr(abs(v))
    if "e" in r or "inf" in r or "nan" in r:
        raise Refuse("constant %s has no decimal literal" % s)
    return r if v >= 0 else "(- %s)" % r


def coq_cond(c, yes, no):
    k = c[0]
    if k == "not":
        return coq_cond(c[1], no, yes)
    if k == "truthy":
        return "(if Req_EM_T %s 0 then %s else %s)" % (coq(c[1]), no, yes)
    a, b = coq(c[1]), coq(c[2])
    if k == "lt":
        return "(if Rlt_dec %s %s then %s else %s)" % (a, b, yes, no)
    if k == "gt":
        return "(if Rlt_dec %s %s then %s else %s)" % (b, a, yes, no)
    if k == "le":
        return "(if Rle_dec %s %s then %s else %s)" % (a, b, yes, no)
    if k == "ge":
        return "(if Rle_dec %s %s then %s else %s)" % (b, a, yes, no)
    if k == "eq":
        return "(if Req_EM_T %s %s then %s else %s)" % (a, b, yes, no)
    if k == "ne":
        return "(if Req_EM_T %s %s then %s else %s)" % (a, b, no, yes)
    raise Refuse("condition %s" % k)


def coq(e):
    k = e[0]
    if k == "const":
        return coq_const(e[1])
    if k == "var":
        return e[1]
    if k == "neg":
        return "(- %s)" % coq(e[1])
    if k in ("add", "sub", "mul", "div"):
        return "(%s %s %s)" % (coq(e[1]), {"add": "+", "sub": "-", "mul": "*", "div": "/"}[k], coq(e[2]))
    if k == "pow":
        if is_const(e[2]) and e[2][1] != "pi" and float(e[2][1]) == int(float(e[2][1])) and 0 <= float(e[2][1]) <= 64:
            return "(%s ^ %d)" % (coq(e[1]), int(float(e[2][1])))
        return "(np_power %s %s)" % (coq(e[1]), coq(e[2]))
    if k == "call":
        if len(e) == 3:
            if e[1] not in COQ_FN1:
                raise Refuse("no real-number meaning recorded for np.%s" % e[1])
            return "(%s %s)" % (COQ_FN1[e[1]], coq(e[2]))
        if e[1] not in COQ_FN2:
            raise Refuse("no real-number meaning recorded for np.%s" % e[1])
        return "(%s %s %s)" % (COQ_FN2[e[1]], coq(e[2]), coq(e[3]))
    if k == "if":
        return coq_cond(e[1], coq(e[2]), coq(e[3]))
    raise Refuse("cannot print %s" % k)


def jsonable(e):
    if isinstance(e, tuple):
        return [jsonable(x) for x in e]
    return e


def regenerate():
    ops, refused = [], {}
    for rel in SOURCES:
        path = os.path.join(REPO, "src", "mygrad", rel)
        try:
            consts, funcs, classes = module_items(path)
        except (OSError, SyntaxError) as e:
            refused[rel] = "cannot parse: %s" % e
            continue
        for cls in resolve_inheritance(classes):
            if cls.name in NOT_SCALAR or cls.name.startswith("_"):
                continue
            try:
                op = translate_class(cls, consts, funcs, None)
                for e in [op["fwd"]] + op["bwd"]:
                    coq(e)      # printable?
                op["source"] = rel
                ops.append(op)
            except Refuse as r:
                refused[cls.name] = "%s: %s" % (rel, r)
    L = ["(* GENERATED on every run by harness/vjp_translate.py from /repo/src/mygrad (ast of each class' forward and backward_var) -- do not edit.",
         "   <Op>_fwd: the forward formula; <Op>_bwd_<i> g ...: what backward_var(g, i) returns, element-wise. *)",
         "From Coq Require Import Reals. From MG Require Import Model.RealOps. Open Scope R_scope.", ""]
    for op in ops:
        args = " ".join(op["params"] + op["operands"])
        L.append("(* %s  (%s)%s *)" % (op["name"], op["source"], "".join("  [" + n + "]" for n in op["notes"])))
        L.append("Definition %s_fwd (%s : R) : R := %s." % (op["name"], args, coq(op["fwd"])))
        for i, b in enumerate(op["bwd"]):
            L.append("Definition %s_bwd_%d (g %s : R) : R := %s." % (op["name"], i, args, coq(b)))
        L.append("")
    for k, v in sorted(refused.items()):
        L.append("(* REFUSED %s -- %s *)" % (k, v.replace("*)", "* )")))
    txt = "\n".join(L) + "\n"
    path = os.path.join(COQ, "Gen", "VjpScalar.v")
    if not os.path.exists(path) or open(path).read() != txt:
        open(path, "w").write(txt)
    os.makedirs(os.path.join(VERIF, "gen"), exist_ok=True)
    jpath = os.path.join(VERIF, "gen", "vjp_scalar.json")
    jtxt = json.dumps({"ops": [dict(op, fwd=jsonable(op["fwd"]), bwd=[jsonable(b) for b in op["bwd"]]) for op in ops], "refused": refused}, indent=1, sort_keys=True)
    if not os.path.exists(jpath) or open(jpath).read() != jtxt:
        open(jpath, "w").write(jtxt)
    global last
    last = {"ops": ops, "refused": refused}
    return []


last = None

if __name__ == "__main__":
    regenerate()
    print(open(os.path.join(COQ, "Gen", "VjpScalar.v")).read())
