"""C13 -- a failed operation leaves no trace.
Theorems: coq/Props/C13.v (in the model a statement that raises is a no-op on the whole state, so final values and gradients
are those of the program without it; the lock automaton releases what a failed operation locked).
Tie / fault enumeration: C04/C05 family histories with failing statements of 13 kinds (failing non-view ops: shape, axis, matmul,
dtype; failing view ops: index, reshape, transpose; failing in-place updates: index, shape, augmented, out=, dtype, shape
assignment) inserted at random positions (thorough: at every position of short histories), some after a mid-history backward.
Oracles on /repo: (a) the statement raises; (b) right after it every live tensor has the same value, shape, constant flag, base,
sharing relations, writeable flag, gradient and creator/consumer state as right before; (c) final values and gradients equal
those of the same program with the failing statements removed; (d) the functional model (Coq) agrees with the final state;
(e) pointer level (harness/heapcorr.py, Model/Heap.v): after every statement -- half of the in-place statements fail by design, some after
clear_graph() -- the whole object graph equals the model's heap, in which a failing in-place statement provably restores every table."""
import copy
import json

import graphhist as gh
import heapcorr
import inplace
import progs
from c04 import replay_mirror
from c05 import add_terminal
from common import known_findings, rng_for

FIELDS = ("data", "shape", "const", "has_base", "writeable", "grad", "pub_grad", "creator_none", "hasops", "dtype")


def gen_case(rng, mid_backward):
    b = inplace.FBuilder(rng)
    for _ in range(rng.randint(1, 2)):
        b.leaf(rng.choice([(3,), (4,), (2, 2), (2, 3), (2, 2, 2)]), const=rng.random() < 0.1)
    if all(t.const for t in b.tensors.values()):
        b.leaf((2, 3), const=False)
    n_events = rng.randint(3, 10)
    made = 0
    did_backward = False
    tries = 0
    while made < n_events and tries < 80:
        tries += 1
        live = [n for n in b.order if n in b.tensors]
        a = b.tensors[rng.choice(live)]
        r = rng.random()
        if mid_backward and not did_backward and made >= 2 and rng.random() < 0.35:
            r = 0.95          # take the mid-history backward early enough for failing statements to follow it
        ok = None
        if r < 0.25:
            ok = b.fail(rng.choice(inplace.FAIL_KINDS), a)
        elif r < 0.45:
            ok = inplace.make_view(b, rng, a)
        elif r < 0.6:
            progs.grow(b, rng, 1, allow_const_override=False)
            ok = True
        elif r < 0.9:
            ok = inplace.mutate(b, rng, a)
        elif mid_backward and not did_backward:
            # (half of the time through a VIEW: after the backward it is a disconnected view with a lingering base, a state failing statements must preserve)
            nc = [n for n in live if not b.tensors[n].const and (b.fam[n] == n or rng.random() < 0.5)]
            views_first = [n for n in nc if b.fam[n] != n]
            if views_first and rng.random() < 0.6:
                nc = views_first
            if nc:
                t = b.tensors[rng.choice(nc)]
                s = b.apply("sum", [b.apply("multiply", [t, ("array", t.shape, b.rng_vals(t.shape, 1, 2))])], {"axis": None, "keepdims": False})
                if s is not None:
                    b.backward(s)
                    did_backward = True
                    b.no_setshape = True      # known finding C06 stale_view_grad_after_base_reshape: no .shape assignment after a mid-history backward
                    ok = True
        if ok:
            made += 1
    if not any(s["op"] == "fail" for s in b.stmts):
        live = [n for n in b.order if n in b.tensors]
        b.fail(rng.choice(inplace.FAIL_KINDS), b.tensors[rng.choice(live)])
    if add_terminal(b, rng) is None:
        return None
    if getattr(b, "identity_views", None):
        return None
    return b


def clean_of(stmts):
    return [s for s in stmts if s["op"] != "fail"]


def snapshot_key(snap):
    obs = {n: {k: o.get(k) for k in FIELDS} for n, o in snap["obs"].items()}
    fam = snap.get("fam") or {}
    return obs, sorted(tuple(sorted(p)) for p in fam.get("share", [])), fam.get("base", {})


def run(rep, work, tier, seed, props, replay=None):
    rng = rng_for(seed, "C13")
    kf = {f["name"]: f for f in known_findings("C13") if f["status"] == "known"}
    n = 3000 if tier == "thorough" else 350
    builders = []
    if replay is not None and "stmts" in replay:
        builders = [list(replay_mirror(replay["stmts"]))[-1][0]]
        n = 1
    while len(builders) < n:
        b = gen_case(rng, mid_backward=rng.random() < 0.4)
        if b is not None:
            builders.append(b)
    cases, clean_cases = [], []
    for b in builders:
        c = b.case("all")
        c["families"] = True
        cases.append(c)
        # (same observation points as the full run: reading .grad of a disconnected view caches it, so the reads are part of the program)
        clean_cases.append({"stmts": clean_of(b.stmts), "observe": "all", "families": True})
    results = gh.run_impl_cases(cases)
    clean_results = gh.run_impl_cases(clean_cases)
    viol = []
    n_fail_stmts = 0
    kinds = {}
    for i, (b, r, cr) in enumerate(zip(builders, results, clean_results)):
        msgs = []
        snaps = {s["after"]: s for s in r["observations"]}
        clean_out = iter(cr["outcomes"])
        for j, (s, o) in enumerate(zip(b.stmts, r["outcomes"])):
            co = None if s["op"] == "fail" else next(clean_out)
            expect = s["op"] == "fail" or s.get("expect") == "raise"
            if s["op"] == "fail":
                n_fail_stmts += 1
                kinds[s["kind"]] = kinds.get(s["kind"], 0) + 1
            if expect and o is None:
                msgs.append("statement %d (%s %s) did not raise" % (j, s["op"], s.get("kind", "")))
            elif not expect and o != co:
                msgs.append("statement %d (%s): outcome %s, but %s in the same program without the failing statements" % (j, s["op"], o, co))
            if s["op"] == "fail" and j in snaps and (j + 1) in snaps:
                before, after = snapshot_key(snaps[j]), snapshot_key(snaps[j + 1])
                for nm in before[0]:
                    if before[0][nm].get("writeable") is True and after[0].get(nm, {}).get("writeable") is False and snaps[j + 1]["obs"].get(nm, {}).get("owner_writeable") is False:
                        after[0][nm]["writeable"] = True       # see the comment below: forced by NumPy, restored with the owner
                if before != after:
                    diff = []
                    for nm in before[0]:
                        for k in FIELDS:
                            if k == "writeable" and before[0][nm][k] is True and after[0].get(nm, {}).get(k) is False \
                                    and snaps[j + 1]["obs"].get(nm, {}).get("owner_writeable") is False:
                                # the failed operation locked and released this VIEW array, but NumPy cannot make a view writeable again while its
                                # memory owner is read-only (locked by another live operation): it is restored when the owner is released (C08)
                                continue
                            if after[0].get(nm, {}).get(k) != before[0][nm][k]:
                                diff.append("%s.%s: %s -> %s" % (nm, k, before[0][nm][k], after[0].get(nm, {}).get(k)))
                    if before[1] != after[1]:
                        diff.append("memory sharing changed")
                    if before[2] != after[2]:
                        diff.append(".base changed")
                    msgs.append("failing statement %d (%s on %s) left a trace: %s" % (j, s.get("kind", s["op"]), s["t"], "; ".join(diff[:4])))
            if msgs:
                break
        if not msgs and not any(cr["outcomes"]):
            fa, fb = r["observations"][-1]["obs"], cr["observations"][-1]["obs"]
            for nm, o in fb.items():
                if nm in fa and any(fa[nm].get(k) != o.get(k) for k in ("data", "grad", "pub_grad", "const", "shape")):
                    msgs.append("final state differs from the program without the failing statements: %s" % nm)
                    break
        if msgs:
            viol.append((i, msgs))
    known_hits = {}
    real = []
    for i, msgs in viol:
        m = msgs[0]
        if "composite_function_fails_in_its_second_step" in kf and "(composite_second_step on" in m and "left a trace" in m \
                and all((".grad" in d or ".pub_grad" in d or ".hasops" in d or ".has_base" in d or d == ".base changed") for d in m.split(": ", 1)[1].split("; ")):
            # (what the FIRST, successful, operation does to its operand: drops its gradient, registers a consumer, drops the base of a view whose graph was cleared)
            known_hits["composite_function_fails_in_its_second_step"] = known_hits.get("composite_function_fails_in_its_second_step", 0) + 1
        elif "inplace_failure_nulls_target_grad" in kf and "left a trace" in m and all((".grad" in d or ".pub_grad" in d) for d in m.split(": ", 1)[1].split("; ")) and "inplace" in m:
            known_hits["inplace_failure_nulls_target_grad"] = known_hits.get("inplace_failure_nulls_target_grad", 0) + 1
        else:
            real.append((i, msgs))
    for name, cnt in known_hits.items():
        rep.known(name, "%s (%d histories)" % (kf[name]["what"][:150], cnt))
    for i, msgs in sorted(real, key=lambda x: len(builders[x[0]].stmts))[:8]:
        rep.violation({"kind": "a failing statement left a trace / changed the outcome: " + msgs[0], "stmts": builders[i].stmts, "messages": msgs[:3]})
    # functional model on the full histories
    bad_set = set(i for i, _ in viol)
    def single_epoch(i):
        st = builders[i].stmts
        return sum(1 for x in st if x["op"] == "backward") == 1 and all((o is None) or st[j]["op"] == "fail" or st[j].get("expect") == "raise"
                                                                         for j, o in enumerate(results[i]["outcomes"]))
    ok_idx = [i for i, r in enumerate(results) if progs.exact_safe(r) and i not in bad_set and single_epoch(i) and not getattr(builders[i], "explicit_const_views", False)]
    owner = lambda nm, o: not o["has_base"]
    terms = []
    for i in ok_idx:
        r = dict(results[i])
        r["observations"] = results[i]["observations"][-1:]
        terms.append(progs.coq_fcase(builders[i], r, grad_filter=owner))
    bad = []
    if terms:
        for idx, lst in gh.coq_eval_indices(terms, "fcase", "ffailing", work, "c13f", shard=50):
            bad.extend(ok_idx[idx[j]] for j in lst)
    if bad and not real:
        i = sorted(bad, key=lambda i: len(builders[i].stmts))[0]
        rep.violation({"kind": "final values or gradients differ from the model, in which a raising statement is a no-op", "stmts": builders[i].stmts, "n_disagreements": len(bad)})
    # pointer-level correspondence (Model/Heap.v): half of the in-place statements fail by design, clear_graph() between statements (stale views)
    heap_cov = heapcorr.run(rep, work, seed + 101, 2500 if tier == "thorough" else 400, 30 if tier == "thorough" else 18, replay=replay, tag="c13heap", p_fail=0.5, p_clear=0.05, p_back=0.07,
                            label="pointer-level heap (failing in-place operations)")
    if not props["ok"]:
        rep.violation({"kind": "proof obligations of Props/C13.v no longer check", "broken": "Props/C13.v", "log": props["log"][-1500:]}, no_input=not (real or bad))

    def nontrivial(b):
        fails = [i for i, s in enumerate(b.stmts) if s["op"] == "fail"]
        return any(any(t["op"] == "apply" for t in b.stmts[:i]) for i in fails)
    nt = set(progs.canonical(b) for b in builders if nontrivial(b))
    rep.coverage.update({
        "evaluations": len(builders),
        "distinct_nontrivial": len(nt),
        "rule": "family histories (views, reads, in-place updates, optional mid-history backward) with failing statements of 13 kinds inserted at random positions, then a terminal and backward(); "
                "each history is also run without its failing statements; non-trivial = a failing statement after at least one view or consumer exists; distinct = distinct statement list",
        "samples": [builders[0].stmts],
        "failing_statements": n_fail_stmts, "failing_kinds": kinds,
        "histories_with_violations": len(real), "known_finding_histories": sum(known_hits.values()),
        "traces_validated_against_impl": len(ok_idx) - len(bad), "model_impl_disagreements": len(bad),
        "input_distribution": {"statements": gh.op_histogram(builders)},
        "pointer_level_heap": heap_cov,
    })
    rep.assumptions += ["failures are provoked through arguments (shape, index, axis, dtype, read-only/oversized targets); faults inside NumPy kernels (MemoryError, FloatingPointError) are not injected"]
