"""C04 -- views and in-place updates mirror NumPy's memory semantics (one graph epoch).
Theorems: coq/Props/C04.v (buffer semantics of writes through index maps; the functional meaning used for gradients equals it).
Tie: histories of view creation (basic indexing incl. negative steps/newaxis/ellipsis, reshape, transposes, squeeze/expand_dims, ravel,
views of views), non-view operations, in-place updates on any member (item assignment with basic / integer-array (repeated) / boolean
indices and broadcast values, augmented assignment, ufunc out= with and without where=), members dropped mid-history, run on /repo:
after EVERY statement each live tensor is compared with the NumPy mirror obtained by executing the same statements on arrays
(values, pairwise shares_memory, .base, object identity, constant flag), and with the functional model evaluated in Coq.
Pointer level: harness/heapcorr.py compares, after every statement, the whole object graph (creators, variables, bases, view children,
consumer sets, array objects) with the heap computed by Model/Heap.v -- the transcription of _in_place_op / DuplicatingGraph."""
import json

import numpy as np

import graphhist as gh
import heapcorr
import inplace
import progs
from common import known_findings, rng_for


def mirror_relations(b, names):
    share = set()
    for i, a in enumerate(names):
        for c in names[i + 1:]:
            if np.shares_memory(b.tensors[a].vals, b.tensors[c].vals):
                share.add((a, c))
    base = {}
    for n in names:
        root = b.fam[n]
        base[n] = None if root == n else (root if root in b.tensors else "internal")
    return share, base


def replay_mirror(stmts):
    """rebuild the builder statement by statement, yielding the mirror state after each statement"""
    rng = __import__("random").Random(0)
    b = inplace.FBuilder(rng)
    for s in stmts:
        k = s["op"]
        if k == "leaf":
            b.leaf(tuple(s["shape"]), s["vals"], const=bool(s.get("const")), dtype=s.get("dtype", "float64"), name=s["name"])
        elif k == "apply":
            ops = []
            for a in s["args"]:
                if isinstance(a, str):
                    ops.append(b.tensors[a])
                elif "array" in a:
                    ops.append(("array", tuple(a["array"]["shape"]), a["array"]["vals"]))
                else:
                    ops.append(("scalar", int(a["scalar"])))
            t = b.apply(s["fn"], ops, s.get("params", {}), const=s.get("const"), spell=s.get("spell", "mg"), name=s["name"])
            assert t is not None, s
        elif k in ("setitem", "aug", "out"):
            t = b.tensors[s["t"]]

            def val(a):
                if isinstance(a, str):
                    return b.tensors[a]
                if "array" in a:
                    return ("array", tuple(a["array"]["shape"]), a["array"]["vals"])
                return ("scalar", int(a["scalar"]))
            if k == "setitem":
                ok = b.setitem(t, s["index"], val(s["value"]))
            elif k == "aug":
                ok = b.aug(t, s["fn"], val(s["value"]))
            else:
                ok = b.out_op(t, s["fn"], [val(a) for a in s["args"]], s["where"]["mask"] if s.get("where") else None, s["where"]["shape"] if s.get("where") else None)
            assert ok, s
        elif k == "setshape":
            if s.get("expect") == "raise":
                b.stmts.append(dict(s))
                b._mark()
            else:
                assert b.setshape(b.tensors[s["t"]], s["shape"]), s
        elif k == "fail":
            b.fail(s["kind"], b.tensors[s["t"]])
        elif k == "del":
            b.delete(s["names"])
        elif k == "backward":
            seed = s.get("seed")
            b.backward(b.tensors[s["t"]], None if seed is None else np.asarray(seed["vals"], dtype=np.int64).reshape(seed["shape"]), non_owning=bool(seed and seed.get("non_owning")))
            if s.get("new_epoch"):
                b.new_epoch()
        elif k == "clear":
            b.clear(b.tensors[s["t"]])
        elif k == "null_grad":
            b.null_grad(b.tensors[s["t"]])
        names = [n for n in b.order if n in b.tensors]
        share, base = mirror_relations(b, names)
        yield b, {n: [int(v) for v in b.tensors[n].vals.ravel()] for n in names}, share, base, {n: b.tensors[n].const for n in names}


def oracle(stmts, result):
    """compare the implementation with the NumPy mirror after every statement; returns a list of messages"""
    msgs = []
    snaps = {s["after"]: s for s in result["observations"]}
    for i, (b, vals, share, base, consts) in enumerate(replay_mirror(stmts)):
        snap = snaps.get(i + 1)
        if snap is None:
            continue
        obs, fam = snap["obs"], snap["fam"]
        for n, v in vals.items():
            if n not in obs:
                msgs.append("after statement %d: tensor %s is missing" % (i, n))
                continue
            if obs[n]["shape"] != list(b.tensors[n].shape):
                msgs.append("after statement %d (%s): %s has shape %s, NumPy gives %s" % (i, stmts[i]["op"], n, obs[n]["shape"], list(b.tensors[n].shape)))
            if obs[n]["data"] != v:
                msgs.append("after statement %d (%s): %s holds %s, NumPy gives %s" % (i, stmts[i]["op"], n, obs[n]["data"], v))
            if obs[n]["const"] != consts[n]:
                msgs.append("after statement %d: constant flag of %s changed" % (i, n))
        if fam is not None:
            got = set(tuple(sorted(p)) for p in fam["share"])
            want = set(tuple(sorted(p)) for p in share)
            if got != want:
                msgs.append("after statement %d (%s): tensors sharing memory %s, NumPy arrays %s" % (i, stmts[i]["op"], sorted(got ^ want), "differ"))
            for n, bn in base.items():
                if n in fam["base"] and fam["base"][n] != bn:
                    msgs.append("after statement %d: %s.base is %s, the memory owner is %s" % (i, n, fam["base"][n], bn))
        if msgs:
            break
    if result.get("identity_lost"):
        msgs.append("a tensor object lost its identity: %s" % result["identity_lost"])
    return msgs


def run(rep, work, tier, seed, props, replay=None):
    rng = rng_for(seed, "C04")
    kf = {f["name"]: f for f in known_findings("C04") if f["status"] == "known"}
    n = 4000 if tier == "thorough" else 500
    builders = []
    if replay is not None and "stmts" in replay:
        builders = [list(replay_mirror(replay["stmts"]))[-1][0]]
        n = 1
    while len(builders) < n:
        builders.append(inplace.gen_family_history(rng))
    cases = []
    for b in builders:
        c = b.case("all")
        c["families"] = True
        cases.append(c)
    results = gh.run_impl_cases(cases)
    viol, known_hits = [], 0
    for i, (b, r) in enumerate(zip(builders, results)):
        msgs = []
        exc = [(j, o) for j, o in enumerate(r["outcomes"]) if o is not None and b.stmts[j].get("expect") != "raise"]
        silent = [j for j, o in enumerate(r["outcomes"]) if o is None and b.stmts[j].get("expect") == "raise"]
        if exc:
            msgs.append("statement %d (%s) raised %s" % (exc[0][0], b.stmts[exc[0][0]]["op"], exc[0][1]))
        elif silent:
            msgs.append("statement %d (%s to %s) is refused by NumPy (it would need a copy) but MyGrad accepted it" % (silent[0], b.stmts[silent[0]]["op"], b.stmts[silent[0]].get("shape")))
        else:
            msgs = oracle(b.stmts, r)
        if msgs:
            if getattr(b, "identity_views", None) and "identity_returning_view" in kf:
                known_hits += 1
            else:
                viol.append((i, msgs))
    if known_hits:
        rep.known("identity_returning_view", "a view-capable op for which NumPy returns its input object itself (np.squeeze with nothing to squeeze) is not recorded as a view: "
                                             "the result shares memory with its operand but has no base, and in-place updates diverge from NumPy (%d histories)" % known_hits)
    for i, msgs in sorted(viol, key=lambda x: len(builders[x[0]].stmts))[:8]:
        rep.violation({"kind": "MyGrad differs from the same statements on NumPy arrays: " + msgs[0], "stmts": builders[i].stmts, "messages": msgs[:4]})
    # functional model (values only here; gradients are C05)
    ok_idx = [i for i, r in enumerate(results) if progs.exact_safe(r) and not any(o is not None and builders[i].stmts[j].get("expect") != "raise" for j, o in enumerate(r["outcomes"]))
              and not getattr(builders[i], "identity_views", None)]
    terms = [progs.coq_fcase(builders[i], results[i]) for i in ok_idx]
    bad = []
    if terms:
        for idx, lst in gh.coq_eval_indices(terms, "fcase", "ffailing", work, "c04f", shard=60):
            bad.extend(ok_idx[idx[j]] for j in lst)
    if bad and not viol:
        i = sorted(bad, key=lambda i: len(builders[i].stmts))[0]
        rep.violation({"kind": "values differ from the functional model (Model/GraphP.v run on the functional meaning of the in-place updates) although they agree with the NumPy mirror",
                       "broken": "correspondence C04: GraphCorr.fcase_ok", "stmts": builders[i].stmts, "n_disagreements": len(bad)}, no_input=True)
    # pointer-level correspondence (Model/Heap.v): one graph epoch (no clear_graph), mostly succeeding in-place operations
    heap_cov = heapcorr.run(rep, work, seed, 2500 if tier == "thorough" else 400, 30 if tier == "thorough" else 18, replay=replay, tag="c04heap", p_fail=0.1, p_clear=0.0)
    if not props["ok"]:
        rep.violation({"kind": "proof obligations of Props/C04.v no longer check", "broken": "Props/C04.v", "log": props["log"][-1500:]}, no_input=not viol)

    def nontrivial(b):
        muts = [s for s in b.stmts if s["op"] in ("setitem", "aug", "out")]
        return len(muts) >= 1 and len(set(b.fam.values())) < len(b.fam)
    nt = set(progs.canonical(b) for b in builders if nontrivial(b))
    rep.coverage.update({
        "evaluations": len(builders),
        "distinct_nontrivial": len(nt),
        "rule": "family histories: 1-2 leaves (0-d to 3-d), 3-12 events drawn from {view of any live member, non-view op, in-place update of any live member (setitem basic/int-array/bool, augmented, out= with/without where=), del}; "
                "non-trivial = >= 1 mutation on a family with >= 2 live members; distinct = distinct statement list",
        "samples": [builders[0].stmts],
        "statements_compared_with_numpy_mirror": sum(len(b.stmts) for b in builders),
        "known_finding_cases": known_hits,
        "traces_validated_against_impl": len(ok_idx) - len(bad),
        "model_impl_disagreements": len(bad),
        "input_distribution": {"statements": gh.op_histogram(builders), "index_kinds": _index_hist(builders)},
        "pointer_level_heap": heap_cov,
    })
    rep.assumptions += ["leaves are created by copy (mg.tensor(array)); tensors over overlapping user arrays (copy=False) are outside the property",
                        "histories whose views carry an explicit constant flag are compared with the NumPy mirror and the flag oracle; the exact functional model does not follow such flags"]


def _index_hist(builders):
    h = {}
    for b in builders:
        for s in b.stmts:
            if s["op"] == "setitem":
                ix = s["index"]
                k = "bool" if isinstance(ix, dict) else ("int_array" if any(isinstance(e, dict) and "array" in e for e in ix) else "basic")
                h[k] = h.get(k, 0) + 1
    return h
