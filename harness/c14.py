"""C14 -- seeding backward; shape/dtype of every stored gradient.
Theorems: coq/Props/C14.v (L.backward() == L.sum().backward(), L.backward(g) == (L*g).sum().backward() on the history
model, for every reachable state; seed acceptance == 'g broadcasts INTO L'; reduce_broadcast restores the variable's shape).
Tie: (1) complete lattice of (L shape, seed shape) pairs and of (grad shape, variable shape) pairs against the shape model
in Coq; (2) exact-integer programs with non-scalar terminals run in four seedings on /repo (the identities themselves) and
against Model/GraphP.v; (3) implementation oracle: every stored gradient is an ndarray of the tensor's shape and dtype
(all generated programs incl. float32/0-d, and the nnet layers/losses in float16/32/64)."""
import copy
import itertools
import json

import numpy as np

import graphhist as gh
from graphhist import catalogue_sweep as gh_sweep
import progs
from common import HarnessError, known_findings, rng_for, run_impl_parallel


def all_shapes():
    out = [()]
    for nd in (1, 2, 3):
        for s in itertools.product((1, 2, 3), repeat=nd):
            out.append(s)
    out += [(0,), (2, 0), (0, 3)]
    return out


def nl(xs):
    return "[" + ";".join(str(x) for x in xs) + "]"


def run_tasks(tasks):
    n = max(1, (len(tasks) + 15) // 16)
    parts = [tasks[i:i + n] for i in range(0, len(tasks), n)]
    res = []
    for r in run_impl_parallel("c14_impl.py", [{"tasks": p} for p in parts]):
        res.extend(r["results"])
    for r in res:
        if "harness_error" in r:
            raise HarnessError(r["harness_error"])
    return res


def seeded_variants(b, t, g):
    """statement lists for the four seedings of terminal t of builder b (b has no backward yet)"""
    base = copy.deepcopy(b.stmts)
    A = base + [{"op": "backward", "t": t.name, "seed": None}]
    B = base + [{"op": "apply", "name": "zz_s", "fn": "sum", "args": [t.name], "params": {"axis": None, "keepdims": False}, "const": None, "spell": "mg"},
                {"op": "backward", "t": "zz_s", "seed": None}]
    gd = {"shape": list(g.shape), "vals": [int(v) for v in g.ravel()], "dtype": "float64"}
    C = base + [{"op": "backward", "t": t.name, "seed": gd}]
    D = base + [{"op": "apply", "name": "zz_m", "fn": "multiply", "args": [t.name, {"array": gd}], "params": {}, "const": None, "spell": "mg"},
                {"op": "apply", "name": "zz_s", "fn": "sum", "args": ["zz_m"], "params": {"axis": None, "keepdims": False}, "const": None, "spell": "mg"},
                {"op": "backward", "t": "zz_s", "seed": None}]
    return A, B, C, D


def run(rep, work, tier, seed, props, replay=None):
    rng = rng_for(seed, "C14")
    kf = {f["name"]: f for f in known_findings("C14") if f["status"] == "known"}
    shapes = all_shapes()
    # ---------------- (1) shape lattices
    seed_tasks = [{"kind": "seed", "sL": list(a), "sg": list(b)} for a in shapes for b in shapes]
    for a in shapes[:14]:
        for kind in ("tensor", "list", "scalar", "int_array", "f32_array"):
            for dt in ("float64", "float32", "float16"):
                seed_tasks.append({"kind": "seed", "sL": list(a), "sg": list(a) if kind != "scalar" else [], "seed_kind": kind, "dtype": dt})
    red_tasks = [{"kind": "reduce", "g": list(a), "v": list(b)} for a in shapes for b in shapes]
    layer_tasks = [{"kind": "layer", "layer": l, "dtype": dt, "seed": i, "pad": i % 2}
                   for i, (l, dt) in enumerate(itertools.product(
                       ["conv", "max_pool", "batchnorm", "gru", "softmax", "logsoftmax", "sigmoid_etc", "softmax_crossentropy", "focal", "hinge", "margin_ranking", "nll"],
                       ["float64", "float32", "float16"]))]
    # mixed precision inside one layer (e.g. float32 biases with float64 weights): every gradient still has ITS tensor's dtype
    layer_tasks += [{"kind": "layer", "layer": l, "dtype": "float64", "seed": 100 + i, "pad": i % 2, "mixed": mx}
                    for i, (l, mx) in enumerate(itertools.product(["conv", "batchnorm", "gru", "margin_ranking"], [1, 2]))]
    layer_tasks += [{"kind": "layer", "layer": l, "dtype": dt, "seed": i}
                    for l in ("setshape", "setshape_untracked", "setshape_view", "setshape_untracked_view", "setshape_of_view", "setshape_untracked_of_view") for dt in ("float64", "float32") for i in range(4)]
    if replay is not None and "task" in replay:
        seed_tasks, red_tasks, layer_tasks = [], [], []
        {"seed": seed_tasks, "reduce": red_tasks, "layer": layer_tasks}[replay["task"]["kind"]].append(replay["task"])
    res = run_tasks(seed_tasks + red_tasks + layer_tasks)
    sres, rres, lres = res[:len(seed_tasks)], res[len(seed_tasks):len(seed_tasks) + len(red_tasks)], res[len(seed_tasks) + len(red_tasks):]
    hdr = "From Coq Require Import List. Import ListNotations.\nFrom MG Require Import Model.Seed Model.SeedCorr.\n"
    plain = [i for i, t in enumerate(seed_tasks) if "seed_kind" not in t]
    sterms = ["(%s, %s, %s)" % (nl(seed_tasks[i]["sL"]), nl(seed_tasks[i]["sg"]), "true" if sres[i]["accepted"] else "false") for i in plain]
    sbad = []
    for idx, lst in gh.coq_eval_indices(sterms, "scase", "sfailing", work, "c14s", shard=800, header=hdr):
        sbad.extend(plain[idx[j]] for j in lst)
    rterms = ["(%s, %s, %s)" % (nl(t["g"]), nl(t["v"]), "None" if r["shape"] is None else "(Some %s)" % nl(r["shape"])) for t, r in zip(red_tasks, rres)]
    rbad = []
    for idx, lst in gh.coq_eval_indices(rterms, "rcase", "rfailing", work, "c14r", shard=800, header=hdr):
        rbad.extend(idx[j] for j in lst)
    n_viol = 0
    for i in sbad[:5]:
        n_viol += 1
        rep.violation({"kind": "backward(g): acceptance of the seed differs from 'g broadcasts into L' (Model/Seed.v seed_accept)", "task": seed_tasks[i], "impl": sres[i]})
    for i, (t, r) in enumerate(zip(seed_tasks, sres)):
        if r["oracle"] and n_viol < 12:
            n_viol += 1
            rep.violation({"kind": "seeded backward: " + r["oracle"][0], "task": t, "impl": r})
        if "seed_kind" in t and not r["accepted"] and n_viol < 12:
            n_viol += 1
            rep.violation({"kind": "a seed of L's own shape (or a scalar) was rejected", "task": t, "impl": r})
    for i in rbad[:5]:
        n_viol += 1
        rep.violation({"kind": "reduce_broadcast returns a different shape than Model/Seed.v reduce_shape", "task": red_tasks[i], "impl": rres[i]})
    gru_hits = 0
    for t, r in zip(layer_tasks, lres):
        if r["exc"]:
            if t["layer"] == "gru" and t["dtype"] == "float16":
                continue  # numba kernels reject float16: a loud refusal
            n_viol += 1
            rep.violation({"kind": "layer raised", "task": t, "impl": r})
        for msg in r["oracle"]:
            if t["layer"] == "gru" and "shape" in msg and "gru_hidden_grad_shape" in kf:
                gru_hits += 1
            else:
                n_viol += 1
                rep.violation({"kind": "stored gradient does not have its tensor's type/shape/dtype: " + msg, "task": t, "impl": r})
    if gru_hits:
        rep.known("gru_hidden_grad_shape", "GRUnit.backward stores a (T,N,D) gradient on the (T+1,N,D) hidden-state tensor (%d layer runs)" % gru_hits)

    # ---------------- (2) the identities on exact-integer programs
    n_prog = 1500 if tier == "thorough" else 220
    quads = []
    builders = []
    if replay is not None and "stmts" in replay:
        builders = [progs.builder_from_stmts(replay["stmts"])]
        quads = []
        n_prog = 0
    while len(quads) < n_prog:
        b = progs.gen_dag_program(rng)
        nc = [nm for nm in b.order if not b.tensors[nm].const and b.tensors[nm].size > 1]
        if not nc:
            continue
        t = b.tensors[rng.choice(nc[-4:])]
        gs = progs.compat_shapes(rng, t.shape)
        try:
            if np.broadcast_shapes(gs, t.shape) != t.shape:
                gs = t.shape
        except ValueError:
            gs = t.shape
        g = np.asarray([rng.randint(-2, 3) for _ in range(int(np.prod(gs, dtype=np.int64)))], dtype=np.int64).reshape(gs)
        quads.append((b, t, seeded_variants(b, t, g)))
    cases = []
    for b, t, vs in quads:
        for v in vs:
            cases.append({"stmts": v, "observe": "end"})
    # 0-d heavy programs: scalars that receive gradient from several consumers (accumulation path on 0-d arrays)
    zero_d = []
    while len(zero_d) < (600 if tier == "thorough" else 150) and replay is None:
        b = progs.Builder(rng)
        for _ in range(rng.randint(1, 3)):
            b.leaf(rng.choice([(), (), (), (1,), (2,), (1, 1)]), const=rng.random() < 0.1, dtype=rng.choice(["float64", "float64", "float32"]))
        if all(t.const for t in b.tensors.values()):
            b.leaf((), const=False)
        progs.grow(b, rng, rng.randint(2, 8))
        nc = [nm for nm in b.order if not b.tensors[nm].const]
        if not nc:
            continue
        b.backward(b.tensors[nc[-1]])
        zero_d.append(b)
    results = gh.run_impl_cases(cases + [b.case("end") for b in zero_d])
    zres = results[len(cases):]
    results = results[:len(cases)]
    ident_bad = []
    inv_bad = []
    for qi, (b, t, vs) in enumerate(quads):
        rs = results[4 * qi:4 * qi + 4]
        if not all(progs.exact_safe(r) for r in rs):
            continue
        obs = [r["observations"][-1]["obs"] for r in rs]
        names = [nm for nm in obs[0] if nm in b.tensors]
        for (i, j, what) in ((0, 1, "L.backward() vs L.sum().backward()"), (2, 3, "L.backward(g) vs (L*g).sum().backward()")):
            if rs[i]["outcomes"][-1] != rs[j]["outcomes"][-1]:
                ident_bad.append((qi, what, "outcomes differ"))
                continue
            for nm in names:
                if obs[i][nm]["grad"] != obs[j][nm]["grad"]:
                    ident_bad.append((qi, what, nm))
                    break
        for r in rs:
            for nm, o in r["observations"][-1]["obs"].items():
                if o["grad"] is not None and (not o["grad_is_ndarray"] or o["grad_shape"] != o["shape"] or o["grad_dtype"] != o["dtype"]):
                    inv_bad.append((qi, nm, o, quads[qi][2][0]))
    for b, r in zip(zero_d, zres):
        for nm, o in r["observations"][-1]["obs"].items():
            if o["grad"] is not None and (not o["grad_is_ndarray"] or o["grad_shape"] != o["shape"] or o["grad_dtype"] != o["dtype"]):
                inv_bad.append((None, nm, o, b.stmts))
    for qi, what, nm in ident_bad[:5]:
        rep.violation({"kind": "seeding identity broken: " + what, "tensor": nm, "variants": quads[qi][2]})
    for qi, nm, o, st in sorted(inv_bad, key=lambda x: len(x[3]))[:5]:
        rep.violation({"kind": "stored gradient is not an ndarray of its tensor's shape and dtype", "tensor": nm, "observed": {k: o[k] for k in ("grad_is_ndarray", "grad_shape", "shape", "grad_dtype", "dtype")},
                       "stmts": st})
    # model correspondence of the seeded runs (variants A and C)
    mb, mr = [], []
    for qi, (b, t, vs) in enumerate(quads):
        for vi in (0, 2):
            r = results[4 * qi + vi]
            if progs.exact_safe(r):
                mb.append(progs.builder_from_stmts(vs[vi]))
                mr.append(r)
    bad = gh.model_failing(mb, mr, work, "c14m") if mb else []
    if bad and not (ident_bad or inv_bad or n_viol):
        k = sorted(bad, key=lambda k: len(mb[k].stmts))[0]
        rep.violation({"kind": "seeded backward differs from Model/GraphP.v", "stmts": mb[k].stmts, "impl": mr[k]})
    # every operation of the catalogue with uniform float32 and MIXED operand precisions: each stored gradient is an ndarray of its tensor's shape and dtype
    gt_tasks, gt_res, gt_bad, gt_known = [], [], 0, 0
    if replay is None or "catalog_index" in (replay or {}):
        gt_tasks, gt_res = gh_sweep("gradtype", ([0, 1, 2, 3, 4] if tier == "thorough" else [0, 1, 2]) if replay is None else [replay.get("mix", 0)], seed, "mix", replay)
        shown = set()
        for t, r in zip(gt_tasks, gt_res):
            for m in r.get("msgs", []):
                if r["label"].startswith("gru") and m.startswith("result: .grad has") and "gru_hidden_grad_shape" in kf:
                    gt_known += 1
                    continue
                if r["label"].startswith("gru") and "NotImplementedError: float16" in m:
                    continue        # numba has no float16: the GRU layer refuses it loudly
                gt_bad += 1
                key = r["label"].split("(")[0].split(" ")[0]
                if key not in shown and len(shown) < 6:
                    shown.add(key)
                    rep.violation({"kind": "operation sweep: %s -- %s" % (r["label"], m), "catalog_index": t["index"], "mix": t["mix"], "seed": t["seed"]})
        if gt_known and "gru_hidden_grad_shape" in kf:
            rep.known("gru_hidden_grad_shape", "GRUnit.backward stores a (T,N,D) gradient on the (T+1,N,D) hidden-state tensor (%d catalogue runs)" % gt_known)
    if not props["ok"]:
        rep.violation({"kind": "proof obligations of Props/C14.v no longer check", "broken": "Props/C14.v", "log": props["log"][-1500:]},
                      no_input=not (ident_bad or inv_bad or n_viol or bad))
    nontrivial = set(json.dumps(t, sort_keys=True) for t in seed_tasks if t["sg"] != t["sL"]) | set(json.dumps(v[2]) for _, _, v in quads)
    rep.coverage.update({
        "evaluations": len(seed_tasks) + len(red_tasks) + len(layer_tasks) + len(cases) + len(zero_d) + len(gt_res),
        "operation_gradtype_sweep": {"entries_x_mixes": len(gt_res), "messages": gt_bad, "known_finding_hits": gt_known},
        "zero_d_programs": len(zero_d),
        "distinct_nontrivial": len(nontrivial),
        "rule": "lattices: all pairs of shapes of rank <= 3 over extents {1,2,3} (plus three empty shapes) for (L, seed) and for (gradient, variable) -- complete; seed kinds {array, Tensor, list, scalar, int, float32} x "
                "{f64,f32,f16}; 12 nnet layers/losses x 3 float dtypes; exact-integer programs with a non-scalar terminal in 4 seedings; non-trivial = seed shape differs from L's shape, or a program with an explicit seed; distinct = distinct cell / program",
        "samples": [seed_tasks[77], quads[0][2][2] if quads else None],
        "exhaustive": False,
        "exhaustive_note": "the two shape lattices (%d and %d cells) are complete for rank <= 3, extents <= 3; programs are sampled" % (len(plain), len(red_tasks)),
        "seed_lattice_disagreements": len(sbad), "reduce_lattice_disagreements": len(rbad),
        "identity_quadruples": len(quads), "identity_failures": len(ident_bad), "invariant_failures": len(inv_bad),
        "model_impl_disagreements": len(bad),
        "traces_validated_against_impl": len(plain) - len(sbad) + len(red_tasks) - len(rbad) + len(mb) - len(bad),
    })
    rep.assumptions += ["dtype of gradients is checked on the implementation only (Model/GraphP.v is dtype-free)",
                        "GRU in float16 is refused by its numba kernels (loud), not counted"]
