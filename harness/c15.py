"""C15 -- no_autodiff / mem_guard scopes.  Theorems: coq/Props/C15.v over Model/Scopes.v.
Tie to /repo: every scope program (exhaustive up to a size, plus random deep ones) is run on the real
manager objects and its ghost trace is compared, inside Coq, with the model's trace; the direct property
oracle (restoration at every block exit, op-gate probes) runs on the implementation alone."""
import concurrent.futures as cf
import json

from common import HarnessError, TRUSTED_COMMON, coq_bool, coq_list, eval_cases, parse_coq_list_of_nat, rng_for, run_impl_parallel

MGRS = ["na", "off", "on"]
MGR_COQ = {"na": "NoAutodiff", "off": "GuardOff", "on": "GuardOn"}
ATOMS = [["obs"], ["raise"], ["on"], ["off"]]

_enum_cache = {}


def enum(n):
    """all programs with exactly n nodes"""
    if n in _enum_cache:
        return _enum_cache[n]
    if n == 1:
        res = [list(a) for a in ATOMS]
    else:
        res = []
        for p in enum(n - 1):
            for m in MGRS:
                res.append(["with", m, p])
            res.append(["try", p])
        for i in range(1, n - 1):
            for p in enum(i):
                for q in enum(n - 1 - i):
                    res.append(["seq", p, q])
    _enum_cache[n] = res
    return res


def decorate_forms(p, rng):
    """randomly turn with-blocks into decorated calls (same model statement)"""
    k = p[0]
    if k == "with":
        return ["decor" if rng.random() < 0.4 else "with", p[1], decorate_forms(p[2], rng)]
    if k == "seq":
        return ["seq", decorate_forms(p[1], rng), decorate_forms(p[2], rng)]
    if k == "try":
        return ["try", decorate_forms(p[1], rng)]
    return p


def rand_prog(rng, depth):
    r = rng.random()
    if depth <= 0 or r < 0.12:
        return list(rng.choice(ATOMS + [["obs"]]))
    if r < 0.55:
        return [rng.choice(["with", "decor"]), rng.choice(MGRS), rand_prog(rng, depth - 1)]
    if r < 0.65:
        return ["try", rand_prog(rng, depth - 1)]
    return ["seq", rand_prog(rng, depth - 1), rand_prog(rng, depth - 1)]


def depth_of(p):
    k = p[0]
    if k in ("with", "decor"):
        return 1 + depth_of(p[2])
    if k == "seq":
        return max(depth_of(p[1]), depth_of(p[2]))
    if k == "try":
        return depth_of(p[1])
    return 0


def has(p, kind):
    k = p[0]
    if k == kind:
        return True
    if k in ("with", "decor"):
        return has(p[2], kind)
    if k == "seq":
        return has(p[1], kind) or has(p[2], kind)
    if k == "try":
        return has(p[1], kind)
    return False


def size_of(p):
    k = p[0]
    if k in ("with", "decor"):
        return 1 + size_of(p[2])
    if k == "seq":
        return 1 + size_of(p[1]) + size_of(p[2])
    if k == "try":
        return 1 + size_of(p[1])
    return 1


def coq_prog(p):
    k = p[0]
    if k == "skip":
        return "Skip"
    if k == "seq":
        return "(Seq %s %s)" % (coq_prog(p[1]), coq_prog(p[2]))
    if k in ("with", "decor"):
        return "(With %s %s)" % (MGR_COQ[p[1]], coq_prog(p[2]))
    if k == "raise":
        return "Raise"
    if k == "try":
        return "(Try %s)" % coq_prog(p[1])
    if k == "on":
        return "TurnOn"
    if k == "off":
        return "TurnOff"
    if k == "obs":
        return "Obs"
    raise ValueError(k)


def coq_obsx(o):
    t, g, d, n, gate = o
    gt = "None" if gate is None else "(Some (%s, %s))" % (coq_bool(gate[0]), coq_bool(gate[1]))
    return "(%s, %s, (%d, %d, %d), (%d, %d, %d), %s)" % (coq_bool(t), coq_bool(g), d[0], d[1], d[2], n[0], n[1], n[2], gt)


def coq_case(p, res):
    if res["error"] is not None:
        exp = "None"
    else:
        exp = "(Some (%s, %s, %s))" % (coq_bool(res["raised"]), coq_list([coq_obsx(o) for o in res["trace"]]), coq_obsx(res["final"]))
    return "(%s, %s)" % (coq_prog(p), exp)


def chunks(xs, n):
    return [xs[i:i + n] for i in range(0, len(xs), n)]


def model_failing(progs, results, work):
    """indices of cases where Model/Scopes.v and the implementation disagree (evaluated inside Coq)"""
    shards = chunks(list(range(len(progs))), 400)

    def one(k):
        idx = shards[k]
        body = coq_list([coq_case(progs[i], results[i]) for i in idx])
        v = ("From Coq Require Import List. Import ListNotations.\n"
             "From MG Require Import Model.Scopes Model.ScopesCorr.\n"
             "Definition cases : list (prog * option (bool * list obs_x * obs_x)) := %s.\n"
             "Eval vm_compute in (failing cases).\n" % body)
        out = eval_cases(v, work, name="c15_cases_%d" % k)
        lists = parse_coq_list_of_nat(out)
        if len(lists) != 1:
            raise HarnessError("unparsable Coq output: " + out[-500:])
        return [idx[j] for j in lists[0]]

    bad = []
    with cf.ThreadPoolExecutor(max_workers=8) as ex:
        for r in ex.map(one, range(len(shards))):
            bad.extend(r)
    return sorted(bad)


def run_programs(progs):
    parts = chunks(progs, max(1, (len(progs) + 15) // 16))
    res = run_impl_parallel("c15_impl.py", [{"programs": part} for part in parts])
    out = []
    for r in res:
        out.extend(r["results"])
    return out


def nontrivial(p):
    return depth_of(p) >= 2 or has(p, "raise")


def run(rep, work, tier, seed, props, replay=None):
    rng = rng_for(seed, "C15")
    if replay is not None:
        progs = [replay["program"]]
        exhaustive_to = 0
    else:
        exhaustive_to = 6 if tier == "thorough" else 5
        n_random = 6000 if tier == "thorough" else 600
        progs = []
        for n in range(1, exhaustive_to + 1):
            progs.extend(decorate_forms(p, rng) for p in enum(n))
        for i in range(n_random):
            progs.append(rand_prog(rng, rng.randint(3, 9)))
        # corpus first
        progs = load_corpus() + progs
    results = run_programs(progs)
    bad = model_failing(progs, results, work)
    oracle_bad = [i for i, r in enumerate(results) if r["oracle"] or r["error"]]

    for i in oracle_bad[:10]:
        rep.violation({"kind": "property oracle failed on the implementation", "program": progs[i],
                       "oracle": results[i]["oracle"], "error": results[i]["error"], "impl": results[i],
                       "replay_cmd": "./check C15 --replay <this file>"})
    if bad and not oracle_bad:
        # correspondence broke but the oracle saw nothing on these cases: search harder, then report
        extra = [rand_prog(rng, rng.randint(4, 11)) for _ in range(4000)]
        extra_res = run_programs(extra)
        hits = [i for i, r in enumerate(extra_res) if r["oracle"] or r["error"]]
        if hits:
            i = hits[0]
            rep.violation({"kind": "property oracle failed on the implementation (found by search after the correspondence broke)",
                           "program": extra[i], "oracle": extra_res[i]["oracle"], "impl": extra_res[i]})
        else:
            i = min(bad, key=lambda j: size_of(progs[j]))
            rep.violation({"kind": "correspondence Model/Scopes.v (run) <-> mygrad ContextTracker no longer holds",
                           "broken": "correspondence C15: Scopes.run vs implementation trace", "program": progs[i],
                           "impl": results[i], "n_disagreements": len(bad)}, no_input=True)
    # every operation of the catalogue, tracked vs inside no_autodiff, with uniform and mixed operand precisions: same values, same dtype, nothing recorded
    ut_tasks, ut_res, ut_bad = [], [], 0
    if replay is None or "catalog_index" in (replay or {}):
        from graphhist import catalogue_sweep
        ut_tasks, ut_res = catalogue_sweep("untracked", ([4, 0, 1, 2] if tier == "thorough" else [4, 1]) if replay is None else [replay.get("mix", 4)], seed, "mix", replay)
        shown = set()
        for t, r in zip(ut_tasks, ut_res):
            for m in r.get("msgs", []):
                ut_bad += 1
                key = r["label"].split("(")[0].split(" ")[0]
                if key not in shown and len(shown) < 6:
                    shown.add(key)
                    rep.violation({"kind": "operation sweep: %s -- %s" % (r["label"], m), "catalog_index": t["index"], "mix": t["mix"], "seed": t["seed"]})
    if not props["ok"]:
        rep.violation({"kind": "proof obligations of Props/C15.v no longer check", "broken": "Props/C15.v", "log": props["log"][-1500:]},
                      no_input=not oracle_bad)

    canon = set(json.dumps(p) for p in progs)
    nt = set(json.dumps(p) for p in progs if nontrivial(p))
    hist = {}
    for p in progs:
        d = depth_of(p)
        hist[d] = hist.get(d, 0) + 1
    rep.coverage.update({
        "evaluations": len(progs) + len(ut_res),
        "operation_untracked_sweep": {"entries_x_mixes": len(ut_res), "messages": ut_bad},
        "distinct_nontrivial": len(nt),
        "distinct": len(canon),
        "rule": "scope programs over {with/decorated-call x 3 managers, try, raise, seq, turn_on/off, obs}: all programs of <= %d nodes "
                "plus seeded random programs of depth <= 9; non-trivial = nesting depth >= 2 or contains an exception; distinct = distinct program text" % exhaustive_to,
        "exhaustive": False,
        "exhaustive_note": "complete up to %d nodes; the property itself is unbounded and is decided by the theorems" % exhaustive_to,
        "samples": [progs[len(progs) // 3], progs[-1]],
        "traces_validated_against_impl": len(progs) - len(bad),
        "model_impl_disagreements": len(bad),
        "oracle_failures": len(oracle_bad),
        "input_distribution": {"nesting_depth_histogram": hist,
                               "with_exception": sum(1 for p in progs if has(p, "raise")),
                               "with_turn": sum(1 for p in progs if has(p, "on") or has(p, "off")),
                               "with_decorator_form": sum(1 for p in progs if has(p, "decor")),
                               "obs_probes": sum(1 for p in progs if has(p, "obs"))},
    })
    rep.assumptions += [
        "a decorated call is `with self: f()` (ContextTracker.__call__), so both spellings map to the model's With",
        "exceptions are modelled as a raised flag; only the harness's own exception class is thrown",
        "single-threaded use of the process-wide switches",
    ]


def load_corpus():
    import glob
    import os

    from common import VERIF

    out = []
    for f in sorted(glob.glob(os.path.join(VERIF, "corpus", "C15", "*.json"))):
        out.append(json.load(open(f))["program"])
    return out
