"""C12 -- operations never modify their inputs, and gradients are never aliased.
Theorems: coq/Props/C12.v (on the history model: no statement changes the value of an existing tensor; backward leaves all values
untouched; gradients are values, one per tensor).  Implementation oracle on /repo over (a) exact-integer programs incl. views, in-place
targets, integer/boolean index arrays, explicit seeds (owning and non-owning) and (b) the nnet layers and losses:
 * every caller-owned array (raw array operands, index arrays, the seed gradient and the array it is a view of) is bit-identical after
   every statement (explicit out= / in-place targets excepted),
 * backward() changes no tensor's data,
 * after backward(), two tensors' gradients share memory only if the tensors themselves share memory, and no gradient shares memory
   with any tensor's data."""
import itertools
import json

import numpy as np

import exactops
import graphhist as gh
import inplace
import progs
from c04 import replay_mirror
from c05 import add_terminal
from common import HarnessError, known_findings, rng_for, run_impl_parallel


def gen_case(rng):
    b = inplace.gen_family_history(rng) if rng.random() < 0.6 else inplace.FBuilder(rng)
    if not b.tensors:
        for _ in range(rng.randint(1, 3)):
            b.leaf(rng.choice(progs.SHAPES[:14]), const=rng.random() < 0.15)
        progs.grow(b, rng, rng.randint(2, 10), allow_const_override=False)
    if getattr(b, "identity_views", None):
        return None
    live = [n for n in b.order if n in b.tensors and not b.tensors[n].const and b.tensors[n].size > 0]
    if not live:
        return None
    if rng.random() < 0.5:
        if add_terminal(b, rng) is None:
            return None
    else:
        t = b.tensors[rng.choice(live[-4:])]
        seed = b.rng_vals(t.shape, -2, 2)
        b.backward(t, seed, non_owning=rng.random() < 0.4)
    return b


def oracle(b, r):
    msgs = []
    for i, what in r.get("owned_modified", []):
        msgs.append("statement %d (%s) modified a caller-owned array: %s" % (i, b.stmts[i]["op"], what))
    snaps = {s["after"]: s for s in r["observations"]}
    for j, s in enumerate(b.stmts):
        if s["op"] == "backward" and j in snaps and (j + 1) in snaps and r["outcomes"][j] is None:
            before, after = snaps[j]["obs"], snaps[j + 1]["obs"]
            for n in before:
                if n in after and before[n]["data"] != after[n]["data"]:
                    msgs.append("backward() changed the data of %s" % n)
    fam = r["observations"][-1].get("fam")
    if fam:
        dshare = set(tuple(sorted(p)) for p in fam["share"])
        for p in fam["grad_share"]:
            if tuple(sorted(p)) not in dshare:
                msgs.append("the gradients of %s and %s share memory although the tensors do not" % tuple(p))
        if fam["grad_aliases_data"]:
            msgs.append("a gradient shares memory with tensor data: %s" % fam["grad_aliases_data"])
    return msgs


def run(rep, work, tier, seed, props, replay=None):
    rng = rng_for(seed, "C12")
    n = 4000 if tier == "thorough" else 500
    builders = []
    if replay is not None and "stmts" in replay:
        builders = [list(replay_mirror(replay["stmts"]))[-1][0]]
        n = 1
    if replay is None:
        # index OBJECTS are the caller's too: integer-array indices with negative / repeated entries in every carrier, read (and written through) then back-propagated
        for sh, vals, carrier, write in itertools.product([(4,), (3, 2)], ([-1, 0], [0, -2, 1], [1, 1, -1]), ({}, {"dtype": "int32"}, {"as_tensor": True}, {"as_list": True}), (False, True)):
            b = inplace.FBuilder(rng)
            x = b.leaf(sh, const=False)
            w = b.apply("multiply", [x, ("array", sh, b.rng_vals(sh, -2, 2))])
            ix = [dict({"array": list(vals), "shape": [len(vals)], "lone": True}, **carrier)]
            if write:
                region = np.asarray(b.bmap[w.name][exactops.py_index(ix)])
                if not b.setitem(w, ix, ("array", tuple(region.shape), b.rng_vals(region.shape, -2, 2))):
                    continue
            g = b.apply("getitem", [w], {"index": ix})
            if g is None or add_terminal(b, rng) is None:
                continue
            builders.append(b)
    while len(builders) < n:
        b = gen_case(rng)
        if b is not None:
            builders.append(b)
    cases = []
    for b in builders:
        c = b.case("all")
        c["families"] = True
        cases.append(c)
    results = gh.run_impl_cases(cases)
    viol = []
    for i, (b, r) in enumerate(zip(builders, results)):
        msgs = oracle(b, r)
        if msgs:
            viol.append((i, msgs))
    for i, msgs in sorted(viol, key=lambda x: len(builders[x[0]].stmts))[:8]:
        rep.violation({"kind": msgs[0], "stmts": builders[i].stmts, "messages": msgs[:4]})
    # nnet layers: reuse the C14 layer runner (it checks that the seed array is not modified) and add input checksums there
    layer_tasks = [{"kind": "layer", "layer": l, "dtype": dt, "seed": i, "pad": i % 2}
                   for i, (l, dt) in enumerate((l, dt) for l in ["conv", "max_pool", "batchnorm", "gru", "softmax", "logsoftmax", "sigmoid_etc", "softmax_crossentropy", "focal", "hinge", "margin_ranking", "nll"]
                                               for dt in ["float64", "float32"])]
    lres = []
    if replay is None:
        parts = [layer_tasks[i::8] for i in range(8)]
        for rr in run_impl_parallel("c14_impl.py", [{"tasks": p} for p in parts]):
            lres.extend(rr["results"])
        flat_tasks = [t for p in parts for t in p]
        for t, r in zip(flat_tasks, lres):
            for msg in r.get("oracle", []):
                if "modified" in msg or "input" in msg:
                    rep.violation({"kind": "nnet layer: " + msg, "task": t})
    # every operation of the catalogue (harness/impl/ops_impl.py: ~1100 operation x option entries): inputs / seed untouched, no gradient aliasing, copies own their gradient
    sweep, sweep_bad, sweep_skipped = [], 0, 0
    if replay is None or "catalog_index" in (replay or {}):
        info = run_impl_parallel("ops_impl.py", [{"list": True}])[0]
        idx = list(range(info["n"])) if replay is None else [replay["catalog_index"]]
        variants = [0, 1, 2, 3, 4] if tier == "thorough" else [0, 1, 3, 4]
        seeds = [seed, seed + 1] if tier == "thorough" else [seed]
        tasks = [{"index": i, "mode": "alias", "variant": v, "seed": sd} for v in variants for sd in seeds for i in idx]
        parts = [tasks[i::16] for i in range(16)]
        flat = [t for p in parts for t in p]
        for rr in run_impl_parallel("ops_impl.py", [{"tasks": p} for p in parts if p]):
            sweep.extend(rr["results"])
        shown = set()
        for t, r in zip(flat, sweep):
            if "harness_error" in r:
                raise HarnessError("ops_impl: " + r["harness_error"])
            if r.get("skipped"):
                sweep_skipped += 1
            for m in r.get("msgs", []):
                sweep_bad += 1
                key = (r["label"].split("(")[0].split(" ")[0], m)
                if key not in shown and len(shown) < 8:
                    shown.add(key)
                    rep.violation({"kind": "operation sweep: %s -- %s" % (m, r["label"]), "catalog_index": t["index"], "variant": t["variant"], "seed": t["seed"], "label": r["label"]})
    if not props["ok"]:
        rep.violation({"kind": "proof obligations of Props/C12.v no longer check", "broken": "Props/C12.v", "log": props["log"][-1500:]}, no_input=not viol)

    def nontrivial(b):
        owned = sum(1 for s in b.stmts for a in (s.get("args", []) + ([s.get("value")] if s.get("value") is not None else [])) if isinstance(a, dict) and "array" in a)
        owned += sum(1 for s in b.stmts if s["op"] == "backward" and s.get("seed"))
        return owned >= 1 and len([s for s in b.stmts if s["op"] == "apply"]) >= 2
    nt = set(progs.canonical(b) for b in builders if nontrivial(b))
    rep.coverage.update({
        "evaluations": len(builders) + len(lres) + len(sweep),
        "operation_sweep": {"entries_x_variants": len(sweep), "skipped": sweep_skipped, "messages": sweep_bad,
                            "variants": "0: tensor operands + owning seed; 1: first operand a caller-owned raw array, tensors built with copy=False, non-owning seed; 2: float32; 3: default seed on a 0-d terminal (its gradient must not be shared between unrelated backward() calls); 4: memory guarding off"},
        "distinct_nontrivial": len(nt),
        "rule": "family histories (views, reads, in-place updates, index arrays) or plain DAG programs, then either a terminal + backward() or backward(seed) on an intermediate with an owning or non-owning seed; "
                "plus 12 nnet layers/losses x 2 dtypes; non-trivial = >= 1 caller-owned array and >= 2 operations; distinct = distinct statement list",
        "samples": [builders[0].stmts],
        "caller_owned_arrays_checked": sum(sum(1 for s in b.stmts for a in (s.get("args", []) + ([s.get("value")] if s.get("value") is not None else [])) if isinstance(a, dict) and "array" in a) for b in builders),
        "histories_with_violations": len(viol),
        "input_distribution": {"statements": gh.op_histogram(builders)},
    })
    rep.assumptions += ["aliasing is a property of memory: it is decided by np.shares_memory on the implementation, not by the (value-level) Coq model"]
