"""C03 -- forward results agree with NumPy in value, shape and dtype.
Theorem: coq/Props/C03.v (the scalar-casting rule of Tensor._op gives NumPy's NEP-50 result dtype on the complete lattice
ufunc x dtype x Python-scalar kind, on tables regenerated from the installed NumPy).  Tie: (1) the dtype each Python scalar was
actually cast to (read from the recorded operation) is compared with the model's rule in Coq; (2) exhaustive/random
differential on the implementation: every registered ufunc, sequential function, shape function, Tensor method and operator
with a NumPy namesake, over operand kinds x dtypes x shapes/layouts x options x tracking on/off, compared bitwise with the
NumPy call on the underlying arrays (value, shape, dtype, out= targets, inputs untouched)."""
import itertools
import json

import graphhist as gh
from common import HarnessError, known_findings, rng_for, run_impl_parallel

UNARY = {"absolute": "any", "negative": "any", "positive": "any", "square": "any", "reciprocal": "pos", "exp": "unit", "exp2": "unit", "expm1": "unit",
         "log": "pos", "log2": "pos", "log10": "pos", "log1p": "pos", "sqrt": "pos", "cbrt": "any", "sin": "any", "cos": "any", "tan": "unit",
         "arcsin": "unit", "arccos": "unit", "arctan": "any", "sinh": "unit", "cosh": "unit", "tanh": "any", "arcsinh": "any", "arccosh": "gt1", "arctanh": "unit"}
BINARY = {"add": "any", "subtract": "any", "multiply": "any", "divide": "pos", "power": "pos", "maximum": "any", "minimum": "any",
          "logaddexp": "unit", "logaddexp2": "unit", "arctan2": "pos"}
DTS = ["bool", "int8", "int32", "int64", "uint8", "float16", "float32", "float64"]
FDT = ["float16", "float32", "float64"]
SHAPES1 = [([], "C"), ([0], "C"), ([3], "C"), ([3], "strided"), ([2, 3], "F"), ([2, 3], "T"), ([2, 1, 3], "C")]
BPAIRS = [([3], [3]), ([2, 3], [3]), ([2, 1], [1, 3]), ([], [2, 2]), ([0], [0]), ([2, 3], [2, 3])]
DTC = {"bool": "Bool_", "int8": "I8", "int16": "I16", "int32": "I32", "int64": "I64", "uint8": "U8", "uint16": "U16", "uint32": "U32",
       "uint64": "U64", "float16": "F16", "float32": "F32", "float64": "F64"}


def T(dtype, shape, layout="C", const=None):
    return {"kind": "tensor", "dtype": dtype, "shape": shape, "layout": layout, "const": const}


def gen_tasks(rng, tier):
    tasks = []
    full = tier == "thorough"
    # ---- unary ufuncs
    for fn, dom in UNARY.items():
        for dt in DTS:
            if fn in ("negative", "positive") and dt == "bool":
                continue
            for shape, lay in (SHAPES1 if full or dt in ("float32", "int8") else SHAPES1[:4]):
                for track in (True, False):
                    for spell in ("mg", "np"):
                        if not full and rng.random() < 0.55:
                            continue
                        tasks.append({"fn": fn, "group": "unary", "operands": [T(dt, shape, lay)], "domain": dom, "track": track, "spell": spell, "seed": len(tasks)})
        for dt in FDT:
            tasks.append({"fn": fn, "group": "unary", "operands": [T(dt, [3])], "domain": dom, "opts": {"dtype": "float64"}, "track": True, "spell": "mg", "seed": len(tasks)})
            for okind in ("ndarray", "tensor"):
                tasks.append({"fn": fn, "group": "unary", "operands": [T(dt, [3])], "domain": dom, "track": True, "spell": rng.choice(["mg", "np"]), "seed": len(tasks),
                              "opts": {"out": {"kind": okind, "shape": [3], "dtype": "float64"}, "where": {"mask": [True, False, True], "shape": [3]}}})
                tasks.append({"fn": fn, "group": "unary", "operands": [T(dt, [2, 3])], "domain": dom, "track": rng.random() < 0.7, "spell": "mg", "seed": len(tasks),
                              "opts": {"out": {"kind": okind, "shape": [2, 3], "dtype": dt}}})
    # ---- binary ufuncs: tensor x tensor, all dtype pairs on a 1-d operand; shape classes on a dtype subset
    for fn, dom in BINARY.items():
        for d1, d2 in itertools.product(DTS, DTS):
            if not full and rng.random() < 0.5:
                continue
            tasks.append({"fn": fn, "group": "binary", "operands": [T(d1, [3]), T(d2, [3])], "domain": dom, "track": True, "spell": rng.choice(["mg", "np"]), "seed": len(tasks)})
        for (s1, s2), d1, d2 in itertools.product(BPAIRS, ["float32", "int8", "float64"], ["float32", "float64"]):
            tasks.append({"fn": fn, "group": "binary", "operands": [T(d1, s1, rng.choice(["C", "strided"])), T(d2, s2)], "domain": dom, "track": rng.random() < 0.7,
                          "spell": rng.choice(["mg", "np"]), "seed": len(tasks)})
        # Python scalars / NumPy scalars / raw arrays next to a tensor, both orders
        for dt in DTS:
            for sk in ("pyint", "pyfloat", "pybool"):
                for order in (0, 1):
                    ops = [T(dt, [3]), {"kind": sk}]
                    if order:
                        ops = ops[::-1]
                    tasks.append({"fn": fn, "group": "binary_scalar", "operands": ops, "domain": dom, "track": True, "spell": "mg", "seed": len(tasks), "scalar": [dt, sk]})
                    if fn in ("add", "subtract", "multiply", "divide", "power") and (full or rng.random() < 0.4):
                        tasks.append({"fn": fn, "group": "binary_scalar", "operands": ops, "domain": dom, "track": rng.random() < 0.5, "spell": "op", "seed": len(tasks), "scalar_op": True})
            tasks.append({"fn": fn, "group": "binary", "operands": [T(dt, [3]), {"kind": "npscalar", "dtype": "float32"}], "domain": dom, "track": True, "spell": "mg", "seed": len(tasks)})
            tasks.append({"fn": fn, "group": "binary", "operands": [{"kind": "array", "dtype": "float32", "shape": [3]}, T(dt, [3])], "domain": dom, "track": True, "spell": "np", "seed": len(tasks)})
        for dt in FDT:
            tasks.append({"fn": fn, "group": "binary", "operands": [T(dt, [3]), T(dt, [3])], "domain": dom, "opts": {"dtype": "float64"}, "track": True, "spell": "mg", "seed": len(tasks)})
            for okind in ("ndarray", "tensor"):
                tasks.append({"fn": fn, "group": "binary", "operands": [T(dt, [3]), T("float64", [3])], "domain": dom, "track": True, "spell": rng.choice(["mg", "np"]), "seed": len(tasks),
                              "opts": {"out": {"kind": okind, "shape": [3], "dtype": "float64"}, "where": {"mask": [True, False, True], "shape": [3]}}})
                for spell in ("mg", "np"):
                    tasks.append({"fn": fn, "group": "binary", "operands": [T(dt, [3]), T(dt, [3])], "domain": dom, "track": True, "spell": spell, "seed": len(tasks),
                                  "opts": {"out": {"kind": okind, "shape": [3], "dtype": "float64"}, "where": {"mask": [True, False, True], "shape": [3]}, "dtype": "float64"}})
                tasks.append({"fn": fn, "group": "binary", "operands": [T(dt, [3]), T(dt, [3])], "domain": dom, "track": True, "spell": "mg", "seed": len(tasks),
                              "opts": {"where": {"mask": [True, False, True], "shape": [3]}, "dtype": "float64"}})
    # operators
    for fn in ("add", "subtract", "multiply", "divide", "power", "matmul"):
        for d1, d2 in itertools.product(["float32", "float64", "int8", "int64"], ["float32", "float64", "int32"]):
            sh = ([2, 2], [2, 2]) if fn == "matmul" else ([3], [3])
            tasks.append({"fn": fn, "group": "operator", "operands": [T(d1, sh[0]), T(d2, sh[1])], "domain": "pos", "track": rng.random() < 0.7, "spell": "op", "seed": len(tasks)})
    for fn in ("negative", "positive"):
        for dt in DTS[1:]:
            tasks.append({"fn": fn, "group": "operator", "operands": [T(dt, [3])], "track": True, "spell": "op", "seed": len(tasks)})
    # ---- sequential functions
    AXES = {0: [None, 0, -1, []], 1: [None, 0, -1, []], 2: [None, 0, 1, -1, [0, 1], [1], []], 3: [None, 1, [0, 2], -2]}      # (NumPy accepts axis=0 / -1 for a 0-d operand)
    for fn in ("sum", "mean", "prod", "max", "min", "amax", "amin", "var", "std", "cumsum", "cumprod"):
        for dt in ["float32", "float64", "int8", "int64", "float16", "bool"]:
            for shape in ([], [3], [2, 3], [2, 1, 3]):
                for axis in AXES[len(shape)]:
                    if fn in ("cumsum", "cumprod") and (axis is None or isinstance(axis, list)):
                        if axis is not None:
                            continue
                    for kd in ((False, True) if fn not in ("cumsum", "cumprod") else (None,)):
                        if not full and shape and rng.random() < 0.5:
                            continue
                        opts = {"axis": axis}
                        if kd is not None:
                            opts["keepdims"] = kd
                        if fn in ("var", "std") and rng.random() < 0.5:
                            opts["ddof"] = 1
                        if fn in ("max", "min", "amax", "amin") and axis == []:
                            pass
                        spell = rng.choice(["mg", "np", "method"]) if fn not in ("amax", "amin") else "np"
                        tasks.append({"fn": fn, "group": "sequential", "operands": [T(dt, shape, rng.choice(["C", "F", "strided"]))], "opts": opts, "track": rng.random() < 0.7,
                                      "spell": spell, "seed": len(tasks), "domain": "pos"})
    # ---- shape / joining functions
    sh = [2, 3]
    SF = [("reshape", [[3, 2]], {}), ("reshape", [[-1]], {}), ("squeeze", [], {}), ("ravel", [], {}), ("expand_dims", [1], {}), ("broadcast_to", [[2, 2, 3]], {}),
          ("transpose", [], {}), ("transpose", [[1, 0]], {}), ("moveaxis", [0, 1], {}), ("swapaxes", [0, 1], {}), ("roll", [1], {}), ("roll", [1, 0], {}), ("repeat", [2], {}),
          ("repeat", [2, 1], {}), ("atleast_1d", [], {}), ("atleast_2d", [], {}), ("atleast_3d", [], {}), ("clip", [1, 2], {}), ("clip", [None, 2], {})]
    for (fn, args, opts), dt, lay, track in itertools.product(SF, ["float32", "float64", "int8"], ["C", "F", "strided"], (True, False)):
        if not full and rng.random() < 0.4:
            continue
        spells = ["mg", "np"] + (["method"] if fn in ("reshape", "transpose", "squeeze", "ravel", "swapaxes", "clip") else [])
        tasks.append({"fn": fn, "group": "shape", "operands": [T(dt, sh, lay)], "args": args, "opts": opts, "track": track, "spell": rng.choice(spells), "seed": len(tasks)})
    for fn in ("concatenate", "stack"):
        for dt1, dt2, axis in itertools.product(["float32", "float64", "int8"], ["float32", "float64"], (0, 1, -1)):
            tasks.append({"fn": fn, "group": "join", "operands": [T(dt1, [2, 3]), T(dt2, [2, 3])], "opts": {"axis": axis}, "track": rng.random() < 0.7, "spell": rng.choice(["mg", "np"]), "seed": len(tasks)})
    for spec, shapes in (("ij,jk->ik", ([2, 3], [3, 2])), ("ii->i", ([3, 3],)), ("ij,ij->", ([2, 3], [2, 3])), ("i,j->ij", ([2], [3])), ("ijk->kji", ([2, 1, 3],))):
        for dt in ("float32", "float64"):
            tasks.append({"fn": "einsum", "group": "einsum", "spec": spec, "operands": [T(dt, s) for s in shapes], "track": rng.random() < 0.7, "spell": rng.choice(["mg", "np"]), "seed": len(tasks)})
    for dt in ("float32", "float64"):
        for shapes in (([2, 3], [3, 2]), ([3], [3]), ([2, 2, 3], [3, 2]), ([3], [3, 2])):
            tasks.append({"fn": "matmul", "group": "matmul", "operands": [T(dt, shapes[0]), T(dt, shapes[1])], "track": rng.random() < 0.7, "spell": rng.choice(["mg", "np"]), "seed": len(tasks)})
        for o in (None, 1, 2):
            for axis in (None, 0, 1):
                if axis is None and o is not None:
                    continue  # matrix norms are refused with NotImplementedError (a loud refusal, not a parity question)
                if o is None and axis is None:
                    pass
                tasks.append({"fn": "norm", "group": "norm", "operands": [T(dt, [2, 3])], "opts": {"ord": o, "axis": axis} if axis is not None else {"ord": o}, "track": True,
                              "spell": "np" if rng.random() < 0.5 else "mg_norm", "seed": len(tasks), "domain": "pos"})
        tasks.append({"fn": "where", "group": "where", "operands": [{"kind": "array", "dtype": "float64", "shape": [3]}, T(dt, [3]), T("float64", [3])], "track": True, "spell": rng.choice(["mg", "np"]), "seed": len(tasks)})
        # the condition handed over as it is (boolean / integer / float mask), one branch a bare Python scalar: the result dtype is NumPy's
        for cdt, sc, order in itertools.product(["bool", "int64", "uint8", "float64"], [{"kind": "pyfloat", "val": 0.5}, {"kind": "pyint", "val": 0}], (0, 1)):
            branches = [T(dt, [3]), sc] if order == 0 else [sc, T(dt, [3])]
            tasks.append({"fn": "where", "group": "where_raw", "raw_condition": True, "operands": [{"kind": "array", "dtype": cdt, "shape": [3]}] + branches, "track": rng.random() < 0.7,
                          "spell": rng.choice(["mg", "np"]), "seed": len(tasks)})
        tasks.append({"fn": "T", "group": "shape", "operands": [T(dt, [2, 3])], "track": True, "spell": "method", "seed": len(tasks)})
    # ---- vector norms of every order, for every dtype NumPy accepts, tracked or not
    for dt, o, axis, track in itertools.product(["float16", "float32", "float64", "int8", "int64", "bool", "uint8"], [None, 1, 2, 3, 0.5, "inf", "-inf"], (None, 0, 1, -1), (True, False)):      # (ord=0 is refused loudly: not differentiable)
        shape = [2, 3] if axis is not None else [4]
        opts = {"ord": o}
        if axis is not None:
            opts["axis"] = axis
        tasks.append({"fn": "norm", "group": "norm", "operands": [T(dt, shape)], "opts": opts, "track": track, "spell": "np" if rng.random() < 0.5 else "mg_norm", "seed": len(tasks), "domain": "pos"})
    # ---- comparisons and the constant-only ufuncs next to a Python scalar: the scalar is "weak" (it is compared / divided in the tensor's precision).  The values are
    #      chosen so that the precision matters: float32(0.1) != 0.1
    near = [0.1, 0.2, 0.30000001192092896]
    for fn in ("greater", "less", "greater_equal", "less_equal", "equal", "not_equal"):
        for dt, sc, order, spell in itertools.product(["float16", "float32", "float64", "int8"], [{"kind": "pyfloat", "val": 0.1}, {"kind": "pyint", "val": 0}, {"kind": "npscalar", "dtype": "float64", "val": 0.1}],
                                                      (0, 1), ("np", "op")):
            ops = [dict(T(dt, [3]), vals=near), sc]
            tasks.append({"fn": fn, "group": "compare", "operands": ops[::-1] if order else ops, "track": rng.random() < 0.7, "spell": spell, "seed": len(tasks)})
    for fn in ("floor_divide", "remainder", "mod", "fmod"):
        for dt, sc, order in itertools.product(["float16", "float32", "float64", "int8", "uint8", "int64"], [{"kind": "pyfloat", "val": 0.1}, {"kind": "pyint", "val": 3}], (0, 1)):
            ops = [dict(T(dt, [3], const=True), vals=[7, 8.5, 2] if dt.startswith("float") else [7, 8, 2]), sc]
            for spell in ("np", "op") if fn == "floor_divide" else ("np",):
                tasks.append({"fn": fn, "group": "const_only", "operands": ops[::-1] if order else ops, "track": True, "spell": spell, "seed": len(tasks)})
    # ---- dtype= next to a Python scalar: the scalar is converted to the REQUESTED precision, not rounded to the tensor's first
    for fn in ("add", "subtract", "multiply", "divide", "maximum", "arctan2", "power"):
        for dt, sc, order in itertools.product(["float16", "float32", "int8"], [{"kind": "pyfloat", "val": 0.1}, {"kind": "pyint", "val": 3}], (0, 1)):
            ops = [dict(T(dt, [3]), vals=[0.1, 0.7, 1.3] if dt != "int8" else [1, 2, 3]), sc]
            for odt in ("float64", "float32"):
                tasks.append({"fn": fn, "group": "dtype_scalar", "operands": ops[::-1] if order else ops, "opts": {"dtype": odt}, "track": rng.random() < 0.7, "spell": rng.choice(["mg", "np"]), "seed": len(tasks)})
    # ---- functions that convert every operand to an array first (a Python scalar is then an ordinary float64 / int64 operand)
    for dt in ("float16", "float32", "int8"):
        for sc in ({"kind": "pyfloat", "val": 1.5}, {"kind": "pyint", "val": 2}):
            for order in (0, 1):
                ops = [T(dt, []), sc]
                tasks.append({"fn": "stack", "group": "join_scalar", "operands": ops[::-1] if order else ops, "track": rng.random() < 0.7, "spell": rng.choice(["mg", "np"]), "seed": len(tasks)})
            tasks.append({"fn": "einsum", "group": "join_scalar", "spec": "i,->i", "operands": [T(dt, [3]), sc], "track": True, "spell": rng.choice(["mg", "np"]), "seed": len(tasks)})
    # ---- joining with axis=None flattens in index order whatever the memory layout
    for fn, lay1, lay2, dt in itertools.product(("concatenate",), ("C", "F", "T", "strided"), ("C", "F", "T"), ("float32", "float64")):
        tasks.append({"fn": fn, "group": "join", "operands": [T(dt, [2, 3], lay1), T("float64", [3, 2], lay2)], "opts": {"axis": None}, "track": rng.random() < 0.7, "spell": rng.choice(["mg", "np"]), "seed": len(tasks)})
    for lay1, lay2, axis in itertools.product(("F", "T", "strided"), ("C", "F"), (0, 1, -1, 2)):
        for fn in ("concatenate", "stack"):
            if fn == "concatenate" and axis == 2:
                continue
            tasks.append({"fn": fn, "group": "join", "operands": [T("float32", [2, 3], lay1), T("float64", [2, 3], lay2)], "opts": {"axis": axis}, "track": rng.random() < 0.7, "spell": rng.choice(["mg", "np"]), "seed": len(tasks)})
    return tasks


def run_tasks(tasks):
    # mygrad's norm lives in mg.linalg
    for t in tasks:
        if t.get("spell") == "mg_norm":
            t["spell"] = "np"
    n = max(1, (len(tasks) + 15) // 16)
    parts = [tasks[i:i + n] for i in range(0, len(tasks), n)]
    res = []
    for r in run_impl_parallel("c03_impl.py", [{"tasks": p} for p in parts]):
        res.extend(r["results"])
    for t, r in zip(tasks, res):
        if "harness_error" in r:
            raise HarnessError("c03 runner on %s: %s" % (json.dumps(t), r["harness_error"]))
    return res


def run(rep, work, tier, seed, props, replay=None):
    rng = rng_for(seed, "C03")
    kf = {f["name"]: f for f in known_findings("C03") if f["status"] == "known"}
    tasks = [replay["task"]] if replay is not None and "task" in replay else gen_tasks(rng, tier)
    res = run_tasks(tasks)
    bad = [i for i, r in enumerate(res) if not r["agree"]]
    # casting-rule correspondence (tracked binary ufunc with one Python scalar)
    terms, owner = [], []
    PYK = {"pyint": "PyInt", "pyfloat": "PyFloat", "pybool": "PyBool"}
    for i, (t, r) in enumerate(zip(tasks, res)):
        if t.get("scalar") and r.get("cast") and not r["mg_exc"]:
            dt, sk = t["scalar"]
            pos = [j for j, o in enumerate(t["operands"]) if o["kind"] == sk][0]
            got = r["cast"][pos]
            if got in DTC and dt in DTC:
                terms.append("(%s, %s, %s)" % (DTC[dt], PYK[sk], DTC[got]))
                owner.append(i)
    hdr = "From Coq Require Import List. Import ListNotations.\nFrom MG Require Import Model.Dtype Gen.NumpyTables Model.DtypeRules.\n"
    cast_bad = []
    if terms:
        for idx, lst in gh.coq_eval_indices(terms, "castcase", "castfailing", work, "c03c", shard=1000, header=hdr):
            cast_bad.extend(owner[idx[j]] for j in lst)
    def pow_shortcut(t, r):
        # the ** shortcut (exponent == 1 -> Positive, == 2 -> Square) is taken before the operand types are looked at: a float exponent on an
        # integer/bool base keeps the integer dtype; a bool exponent (True == 1) on a bool base ends in numpy.positive, which has no bool loop
        symptom = r["why"] and (r["why"].startswith("dtype") or (r["why"].startswith("only MyGrad raised") and ("'positive'" in r["why"] or "'square'" in r["why"])))
        return bool(t["fn"] == "power" and t.get("spell") == "op" and symptom
                    and any(o["kind"] in ("pyfloat", "pybool") for o in t["operands"]) and t["operands"][0].get("dtype", "f")[0] in "biu")
    weak = [i for i in bad if pow_shortcut(tasks[i], res[i])]
    other = [i for i in bad if i not in set(weak)]
    if weak:
        if "pow_shortcut_dtype" in kf:
            rep.known("pow_shortcut_dtype", "int_or_bool_tensor ** 2.0 keeps the integer dtype (Square shortcut), NumPy gives float64 (%d cells)" % len(weak))
        else:
            for i in weak[:4]:
                rep.violation({"kind": "result dtype differs from NumPy's: " + res[i]["why"], "task": tasks[i], "impl": res[i]})
    for i in sorted(other, key=lambda i: len(json.dumps(tasks[i])))[:10]:
        rep.violation({"kind": "MyGrad differs from NumPy on the same call: " + str(res[i]["why"]), "task": tasks[i], "impl": res[i]})
    if cast_bad and not (weak or other):
        i = cast_bad[0]
        rep.violation({"kind": "the dtype Tensor._op cast a Python scalar to differs from the modelled rule (np.result_type of the operands)", "broken": "correspondence C03: DtypeRules.castcase_ok",
                       "task": tasks[i], "impl": res[i], "n_disagreements": len(cast_bad)}, no_input=True)
    if not props["ok"]:
        rep.violation({"kind": "Props/C03.v no longer checks against the regenerated NumPy tables (or a translator problem: %s)" % props.get("translator_problems"),
                       "broken": "Props/C03.v", "log": props["log"][-1500:]}, no_input=not bad)
    groups, both_raise = {}, 0
    for t, r in zip(tasks, res):
        groups[t["group"]] = groups.get(t["group"], 0) + 1
        if r["mg_exc"] and r["np_exc"]:
            both_raise += 1
    nt = set(json.dumps(t, sort_keys=True) for t in tasks if len(set(o.get("dtype", o["kind"]) for o in t["operands"])) >= 2 or t.get("opts"))
    rep.coverage.update({
        "evaluations": len(tasks),
        "distinct_nontrivial": len(nt),
        "rule": "calls: 26 unary + 10 binary registered ufuncs, operators, 11 sequential functions, 19 shape/joining configurations, einsum, matmul, norm, where; operand kinds {Tensor, ndarray, NumPy scalar, Python int/float/bool} "
                "x 8 dtypes x shapes {0-d, empty, 1-d, strided, F-ordered, transposed, broadcast pairs} x options {axis forms, keepdims, ddof, dtype, out= ndarray/Tensor, where=} x tracking on/off x spelling; "
                "non-trivial = >= 2 distinct operand dtypes/kinds or any option; distinct = distinct call description",
        "samples": [tasks[3], tasks[len(tasks) // 2]],
        "calls_by_group": groups, "both_sides_raise": both_raise,
        "disagreements_with_numpy": len(bad), "cast_rule_cells_compared": len(terms), "cast_rule_disagreements": len(cast_bad),
        "traces_validated_against_impl": len(terms) - len(cast_bad),
        "exhaustive": False,
        "exhaustive_note": "the (ufunc, dtype, Python-scalar kind, order) lattice is complete for the 8 sampled dtypes; other dimensions are %s" % ("complete products" if tier == "thorough" else "seeded samples of the products"),
    })
    rep.assumptions += ["values are compared bitwise with NaN == NaN; for where= without out= only the selected positions are compared",
                        "functions refuse unsupported keyword options with TypeError (loud); only options in each function's signature are generated"]
