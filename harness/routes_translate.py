"""Fail-closed `ast` translator: reads the routing of MyGrad's public entry points from /repo's SOURCE and prints it as Coq
(coq/Gen/Routes.v):
  * Tensor operator dunders (tensor_base.py): which Operation class, operand order, plain or in-place;
  * functions decorated with @ufunc_creator(Op) under mygrad/math: which Operation class;
and from the imported module the run-time dispatch tables (which mygrad function a NumPy ufunc / function is overridden by, the
bool-only / constant-only / no-diff sets).  Anything it does not recognise makes it refuse (the check then reports it)."""
import ast
import glob
import os

from common import COQ, REPO, HarnessError, run_impl


class Refuse(Exception):
    pass


NON_ARITH = {"__setitem__", "__getitem__"}   # indexing dunders: covered by C04/C06, their operands are not (self, other)


def op_calls(fn):
    """Operation classes named as first argument of `<x>._op(...)` calls in the body of fn"""
    ops = []
    for node in ast.walk(fn):
        if isinstance(node, ast.Call) and isinstance(node.func, ast.Attribute) and node.func.attr == "_op" and node.args:
            if not isinstance(node.args[0], ast.Name):
                raise Refuse("%s: first argument of _op is not a class name" % fn.name)
            ops.append(node.args[0].id)
    return ops


def method_routes(path):
    tree = ast.parse(open(path).read())
    cls = [n for n in tree.body if isinstance(n, ast.ClassDef) and n.name == "Tensor"][0]
    out = {}
    for fn in cls.body:
        if isinstance(fn, ast.FunctionDef) and not fn.name.startswith("_"):
            ops = sorted(set(op_calls(fn)))
            if len(ops) > 1:
                raise Refuse("Tensor.%s routes to several operation classes %s" % (fn.name, ops))
            if ops:
                out[fn.name] = ops[0]
    return out


def function_routes(root):
    out = {}
    for path in sorted(glob.glob(os.path.join(root, "**", "*.py"), recursive=True)):
        tree = ast.parse(open(path).read())
        for fn in tree.body:
            if isinstance(fn, ast.FunctionDef) and not fn.name.startswith("_"):
                ops = sorted(set(op_calls(fn)))
                if len(ops) > 1:
                    raise Refuse("%s routes to several operation classes %s" % (fn.name, ops))
                if ops:
                    if fn.name in out and out[fn.name] != ops[0]:
                        raise Refuse("two functions named %s route differently" % fn.name)
                    out[fn.name] = ops[0]
    return out


def dunder_routes(path):
    tree = ast.parse(open(path).read())
    cls = [n for n in tree.body if isinstance(n, ast.ClassDef) and n.name == "Tensor"]
    if len(cls) != 1:
        raise Refuse("class Tensor not found exactly once in %s" % path)
    out = {}
    for fn in cls[0].body:
        if not isinstance(fn, ast.FunctionDef) or not (fn.name.startswith("__") and fn.name.endswith("__")) or fn.name in NON_ARITH:
            continue
        routes = []
        for node in ast.walk(fn):
            if isinstance(node, ast.Call) and isinstance(node.func, ast.Attribute) and isinstance(node.func.value, ast.Name) and node.func.value.id == "self" \
                    and node.func.attr in ("_op", "_in_place_op"):
                if not node.args or not isinstance(node.args[0], ast.Name):
                    raise Refuse("%s: first argument of %s is not a class name" % (fn.name, node.func.attr))
                opc = node.args[0].id
                order = []
                for a in node.args[1:]:
                    if isinstance(a, ast.Name) and a.id in ("self", "other"):
                        order.append(0 if a.id == "self" else 1)
                    else:
                        raise Refuse("%s: unexpected operand expression %s" % (fn.name, ast.dump(a)[:60]))
                extra = sorted(k.arg for k in node.keywords)
                routes.append((opc, order, node.func.attr == "_in_place_op", extra))
        if routes:
            out[fn.name] = routes
    return out


def ufunc_creator_routes(root):
    out = {}
    for path in sorted(glob.glob(os.path.join(root, "math", "**", "funcs.py"), recursive=True)):
        tree = ast.parse(open(path).read())
        for fn in tree.body:
            if isinstance(fn, ast.FunctionDef):
                for d in fn.decorator_list:
                    if isinstance(d, ast.Call) and isinstance(d.func, ast.Name) and d.func.id == "ufunc_creator":
                        if len(d.args) != 1 or not isinstance(d.args[0], ast.Name):
                            raise Refuse("%s: unexpected @ufunc_creator arguments" % fn.name)
                        if fn.name in out:
                            raise Refuse("%s registered twice" % fn.name)
                        out[fn.name] = d.args[0].id
    return out


def isinstance_types(fn, argname):
    """class names X in `isinstance(<argname>, X)` tests inside fn (tuples flattened)"""
    out = []
    for node in ast.walk(fn):
        if isinstance(node, ast.Call) and isinstance(node.func, ast.Name) and node.func.id == "isinstance" and len(node.args) == 2 \
                and isinstance(node.args[0], ast.Name) and node.args[0].id == argname:
            t = node.args[1]
            for e in (t.elts if isinstance(t, ast.Tuple) else [t]):
                out.append(ast.unparse(e))
    return sorted(set(out))


def array_ufunc_structure(path):
    """Shape of Tensor.__array_ufunc__ and _as_constant_array, read from the source."""
    tree = ast.parse(open(path).read())
    cls = [n for n in tree.body if isinstance(n, ast.ClassDef) and n.name == "Tensor"][0]
    fn = [n for n in cls.body if isinstance(n, ast.FunctionDef) and n.name == "__array_ufunc__"]
    if len(fn) != 1:
        raise Refuse("Tensor.__array_ufunc__ not found")
    fn = fn[0]
    params = [a.arg for a in fn.args.args]
    if params[:3] != ["self", "ufunc", "method"]:
        raise Refuse("__array_ufunc__ signature %s" % params)
    info = {"honours_method_registered": False, "honours_method_fallback": False, "casters": [], "else_notimplemented": False, "constonly_to_valueerror": False}
    for node in ast.walk(fn):
        if isinstance(node, ast.Call) and isinstance(node.func, ast.Call) and isinstance(node.func.func, ast.Name) and node.func.func.id == "getattr" and len(node.func.args) == 2:
            tgt, meth = node.func.args
            if isinstance(meth, ast.Name) and meth.id == "method":
                if isinstance(tgt, ast.Subscript) and isinstance(tgt.value, ast.Name) and tgt.value.id == "_REGISTERED_UFUNC" and isinstance(tgt.slice, ast.Name) and tgt.slice.id == "ufunc":
                    info["honours_method_registered"] = True
                if isinstance(tgt, ast.Name) and tgt.id == "ufunc":
                    info["honours_method_fallback"] = True
        if isinstance(node, ast.If) and isinstance(node.test, ast.Compare) and len(node.test.ops) == 1 and isinstance(node.test.ops[0], ast.In) \
                and isinstance(node.test.left, ast.Name) and node.test.left.id == "ufunc" and isinstance(node.test.comparators[0], ast.Name):
            table = node.test.comparators[0].id
            cast = [st.value.id for st in node.body if isinstance(st, ast.Assign) and isinstance(st.targets[0], ast.Name) and st.targets[0].id == "caster" and isinstance(st.value, ast.Name)]
            if len(cast) != 1:
                raise Refuse("__array_ufunc__: branch for %s does not set caster to a name" % table)
            if table not in [t for t, _ in info["casters"]]:
                info["casters"].append((table, cast[0]))
            if node.orelse and not isinstance(node.orelse[0], ast.If):
                r = node.orelse[0]
                info["else_notimplemented"] = isinstance(r, ast.Return) and isinstance(r.value, ast.Name) and r.value.id == "NotImplemented"
        if isinstance(node, ast.ExceptHandler) and isinstance(node.type, ast.Name) and node.type.id == "_ConstantOnly":
            info["constonly_to_valueerror"] = any(isinstance(st, ast.Raise) and isinstance(st.exc, ast.Call) and isinstance(st.exc.func, ast.Name) and st.exc.func.id == "ValueError" for st in node.body)
    ca = [n for n in tree.body if isinstance(n, ast.FunctionDef) and n.name == "_as_constant_array"]
    raises = False
    if len(ca) == 1:
        for node in ast.walk(ca[0]):
            if isinstance(node, ast.If) and isinstance(node.test, ast.Compare) and isinstance(node.test.ops[0], ast.Is) and ast.unparse(node.test.left).endswith(".constant") \
                    and isinstance(node.test.comparators[0], ast.Constant) and node.test.comparators[0].value is False:
                raises = any(isinstance(st, ast.Raise) and "_ConstantOnly" in ast.unparse(st) for st in node.body)
    info["const_caster_raises_on_nonconstant"] = raises
    return info


def coq_str(s):
    return '"%s"' % s


def regenerate():
    problems = []
    try:
        dun = dunder_routes(os.path.join(REPO, "src", "mygrad", "tensor_base.py"))
        ufc = ufunc_creator_routes(os.path.join(REPO, "src", "mygrad"))
        mth = method_routes(os.path.join(REPO, "src", "mygrad", "tensor_base.py"))
        fnr = function_routes(os.path.join(REPO, "src", "mygrad"))
        tb_path = os.path.join(REPO, "src", "mygrad", "tensor_base.py")
        aus = array_ufunc_structure(tb_path)
        tcls = [n for n in ast.parse(open(tb_path).read()).body if isinstance(n, ast.ClassDef) and n.name == "Tensor"][0]
        shortcut_types = {fn.name: isinstance_types(fn, "other") for fn in tcls.body if isinstance(fn, ast.FunctionDef) and fn.name in dun and len(dun[fn.name]) > 1}
    except (Refuse, SyntaxError, OSError) as e:
        return ["routes translator refused: %s" % e], None
    rt = run_impl("routes_impl.py", {})
    L = ["(* GENERATED on every run by harness/routes_translate.py from /repo/src/mygrad (ast of tensor_base.py and math/**/funcs.py) and from the",
         "   imported dispatch tables -- do not edit. *)",
         "From Coq Require Import List String. Import ListNotations. Open Scope string_scope.", ""]
    # (dunder, [(opclass, operand order (0 = self, 1 = other), in_place)])  -- the LAST route of a method is its default route
    L.append("Definition dunder_routes : list (string * list (string * list nat * bool)) := [")
    L.append(";\n".join('  (%s, [%s])' % (coq_str(k), "; ".join('(%s, [%s], %s)' % (coq_str(o), "; ".join(str(i) for i in order), "true" if ip else "false") for o, order, ip, _ in v))
                        for k, v in sorted(dun.items())))
    L.append("].")
    L.append("Definition ufunc_routes : list (string * string) := [")
    L.append(";\n".join('  (%s, %s)' % (coq_str(k), coq_str(v)) for k, v in sorted(ufc.items())))
    L.append("].")
    for nm, d in (("method_routes", mth), ("function_routes", fnr)):
        L.append("Definition %s : list (string * string) := [" % nm)
        L.append(";\n".join('  (%s, %s)' % (coq_str(k), coq_str(v)) for k, v in sorted(d.items())))
        L.append("].")
    b = lambda x: "true" if x else "false"
    L.append("(* structure of Tensor.__array_ufunc__ / _as_constant_array, read from the source *)")
    L.append("Definition au_honours_method_registered : bool := %s." % b(aus["honours_method_registered"]))
    L.append("Definition au_honours_method_fallback : bool := %s." % b(aus["honours_method_fallback"]))
    L.append("Definition au_fallback_casters : list (string * string) := [%s]." % "; ".join("(%s, %s)" % (coq_str(t), coq_str(c)) for t, c in aus["casters"]))
    L.append("Definition au_else_notimplemented : bool := %s." % b(aus["else_notimplemented"]))
    L.append("Definition au_constonly_becomes_valueerror : bool := %s." % b(aus["constonly_to_valueerror"]))
    L.append("Definition const_caster_raises_on_nonconstant : bool := %s." % b(aus["const_caster_raises_on_nonconstant"]))
    L.append("(* operators with several routes: the types of `other` for which a shortcut route may be taken *)")
    L.append("Definition shortcut_operand_types : list (string * list string) := [%s]." % "; ".join("(%s, [%s])" % (coq_str(k), "; ".join(coq_str(x) for x in v)) for k, v in sorted(shortcut_types.items())))
    L.append("Definition np_func_override : list (string * string) := [   (* numpy function -> mygrad function it is overridden by *)")
    L.append(";\n".join('  (%s, %s)' % (coq_str(k), coq_str(v)) for k, v in sorted(rt["np_func"].items())))
    L.append("].")
    # run-time tables
    L.append("Definition np_ufunc_override : list (string * (string * string)) := [   (* numpy ufunc -> (mygrad function name, its Operation class) *)")
    L.append(";\n".join('  (%s, (%s, %s))' % (coq_str(k), coq_str(v[0]), coq_str(v[1])) for k, v in sorted(rt["np_ufunc"].items())))
    L.append("].")
    L.append("Definition mg_public_ufunc : list (string * string) := [   (* mygrad.<name> -> Operation class of that ufunc object *)")
    L.append(";\n".join('  (%s, %s)' % (coq_str(k), coq_str(v)) for k, v in sorted(rt["mg_ufunc"].items())))
    L.append("].")
    for nm in ("bool_only", "const_only", "no_diff"):
        L.append("Definition %s_set : list string := [%s]." % (nm, "; ".join(coq_str(x) for x in sorted(rt[nm]))))
    txt = "\n".join(L) + "\n"
    path = os.path.join(COQ, "Gen", "Routes.v")
    old = open(path).read() if os.path.exists(path) else None
    if old != txt:
        open(path, "w").write(txt)
    return problems, {"dunders": dun, "ufuncs": ufc, "methods": mth, "functions": fnr, "runtime": rt}
