"""C11 implementation runner: runs ONE operation on the same operands through every public spelling (mygrad function, NumPy
function/ufunc on tensors, Tensor method, Python operator, augmented / out= forms) and returns a signature per spelling:
exception class, tensor-or-array, dtype, shape, value bits, constant flag, and the gradient every operand receives for a fixed
incoming gradient.  The harness compares the signatures of a group."""
import operator
import warnings

from implbase import *  # noqa: F401,F403
from implbase import emit, mg, np, read_payload, reset_global_state

warnings.filterwarnings("ignore")
np.seterr(all="ignore")

BINOPS = {"add": operator.add, "subtract": operator.sub, "multiply": operator.mul, "divide": operator.truediv, "true_divide": operator.truediv,
          "power": operator.pow, "matmul": operator.matmul}
IBINOPS = {"add": operator.iadd, "subtract": operator.isub, "multiply": operator.imul, "divide": operator.itruediv, "true_divide": operator.itruediv,
           "power": operator.ipow}
UNOPS = {"negative": operator.neg, "positive": operator.pos}
CONST_ONLY_OPS = {"floor_divide": operator.floordiv, "remainder": operator.mod, "divmod": divmod}


def make_values(shape, dtype, seed, domain):
    rs = np.random.RandomState(seed)
    n = int(np.prod(shape, dtype=np.int64))
    dt = np.dtype(dtype)
    if dt.kind == "b":
        v = rs.randint(0, 2, size=n).astype(bool)
    elif dt.kind in "iu":
        v = rs.randint(1, 5, size=n).astype(dt)
    else:
        if domain == "pos":
            v = rs.rand(n) * 3 + 0.25
        elif domain == "unit":
            v = rs.rand(n) * 1.6 - 0.8
        elif domain == "gt1":
            v = rs.rand(n) * 3 + 1.25
        else:
            v = rs.randn(n) * 2
        v = v.astype(dt)
    return v.reshape(shape)


def build(o, i, seed, domain):
    k = o["kind"]
    if k in ("pyint", "pyfloat", "pybool"):
        return o["val"]
    if k == "npscalar":
        return np.dtype(o["dtype"]).type(o["val"])
    arr = make_values(tuple(o["shape"]), o["dtype"], seed * 11 + i, domain)
    if "val" in o:
        arr = np.full(tuple(o["shape"]), o["val"], dtype=o["dtype"])
    if o.get("layout") == "F" and arr.ndim >= 2:
        arr = np.asfortranarray(arr)
    if o.get("layout") == "strided" and arr.ndim >= 1:
        big = np.zeros(arr.shape[:-1] + (2 * arr.shape[-1],), dtype=arr.dtype)
        big[..., ::2] = arr
        arr = big[..., ::2]
    if k == "array":
        return arr
    if k == "list":
        return arr.tolist()
    kw = {}
    if o.get("const") is not None:
        kw["constant"] = o["const"]
    return mg.tensor(arr, **kw)


def bits(a):
    a = np.asarray(a)
    if a.dtype.kind == "f":
        a = a + a.dtype.type(0)      # -0.0 and +0.0 are the same value
    return [np.ascontiguousarray(a).tobytes().hex(), str(a.dtype), list(a.shape)]


def fix(v):
    if isinstance(v, list):
        return tuple(fix(x) for x in v)
    return v


def signature(fn_call, task, spelling):
    """build fresh operands, run the spelled call, observe"""
    reset_global_state()
    seed, dom = task.get("seed", 0), task.get("domain", "any")
    leaves = [build(o, i, seed, dom) for i, o in enumerate(task["operands"])]
    ops = list(leaves)
    inplace = task.get("mode") == "inplace"
    if inplace and task.get("target_nonleaf", True):
        ops[0] = +leaves[0]                 # the target of the update is an intermediate tensor
    extra = {}
    if "out" in task:
        o = task["out"]
        base = make_values(tuple(o["shape"]), o["dtype"], seed + 99, "any")
        extra["out"] = mg.tensor(base, constant=o.get("const")) if o["kind"] == "tensor" else base
    if "where" in task:
        extra["where"] = np.asarray(task["where"]["mask"], dtype=bool).reshape(task["where"]["shape"])
    if "dtype" in task:
        extra["dtype"] = task["dtype"]
    sig = {"exc": None}
    try:
        r = fn_call(ops, extra)
    except Exception as e:
        sig["exc"] = type(e).__name__
        return sig
    if isinstance(r, (tuple, list)) and task.get("multi"):
        sig["is_tensor"] = [isinstance(x, mg.Tensor) for x in r]
        sig["value"] = [bits(x.data if isinstance(x, mg.Tensor) else x) for x in r]
        sig["const"] = [bool(x.constant) if isinstance(x, mg.Tensor) else None for x in r]
        r = r[0]
    else:
        sig["is_tensor"] = isinstance(r, mg.Tensor)
        sig["value"] = bits(r.data if isinstance(r, mg.Tensor) else r) if r is not None else None
        sig["const"] = bool(r.constant) if isinstance(r, mg.Tensor) else None
    if "out" in extra:
        tgt = extra["out"]
        sig["out_target"] = bits(tgt.data if isinstance(tgt, mg.Tensor) else tgt)
        sig["returns_out"] = (r is tgt)
    if inplace:
        sig["target_value"] = bits(ops[0].data)
        sig["returns_target"] = (r is ops[0]) if task.get("check_identity", True) else None
    if isinstance(r, mg.Tensor) and not r.constant and r.dtype.kind == "f":
        g = make_values(r.shape, "float64", seed + 5, "any").astype(r.dtype)
        try:
            r.backward(g)
            sig["grads"] = [bits(o.grad) if isinstance(o, mg.Tensor) and o.grad is not None else None for o in leaves]
            if isinstance(extra.get("out"), mg.Tensor):
                sig["out_grad"] = bits(extra["out"].grad) if extra["out"].grad is not None else None
        except Exception as e:
            sig["grads"] = "raised:" + type(e).__name__
    return sig


def opt_kw(task):
    kw = {}
    for k, v in task.get("kw", {}).items():
        kw[k] = fix(v)
    return kw


def spellings_ufunc(task):
    fn, n = task["fn"], len(task["operands"])
    kw = opt_kw(task)
    sp = {}
    mode = task.get("mode", "plain")
    mgf, npf = getattr(mg, fn), getattr(np, fn)
    if mode == "plain":
        sp["mg"] = lambda ops, ex: mgf(*ops, **kw, **ex)
        sp["np"] = lambda ops, ex: npf(*ops, **kw, **ex)
        if task.get("mg_only_kw") and fn == "absolute":
            del sp["np"]          # NumPy's own ufunc refuses the keyword before it dispatches
            sp["mg_abs"] = lambda ops, ex: mg.abs(*ops, **kw, **ex)
            if "out" in task:
                sp["mg_out_tuple"] = lambda ops, ex: mgf(*ops, **kw, **{k: ((v,) if k == "out" else v) for k, v in ex.items()})
        if "where" in task and "out" in task:
            # the mask handed over as a (constant, boolean) tensor / as a nested list: the same call
            sp["mg_where_tensor"] = lambda ops, ex: mgf(*ops, **kw, **{k: (mg.tensor(v) if k == "where" else v) for k, v in ex.items()})
            sp["np_where_tensor"] = lambda ops, ex: npf(*ops, **kw, **{k: (mg.tensor(v) if k == "where" else v) for k, v in ex.items()})
            sp["mg_where_list"] = lambda ops, ex: mgf(*ops, **kw, **{k: (v.tolist() if k == "where" else v) for k, v in ex.items()})
        plain = not kw and not any(k in task for k in ("out", "where", "dtype"))
        if plain and n == 2 and fn in BINOPS:
            sp["operator"] = lambda ops, ex: BINOPS[fn](*ops)
            if isinstance_spec(task["operands"][0], "tensor"):
                sp["dunder"] = lambda ops, ex: getattr(ops[0], DUNDER[fn][0])(ops[1])
            if isinstance_spec(task["operands"][1], "tensor"):
                sp["rdunder"] = lambda ops, ex: getattr(ops[1], DUNDER[fn][1])(ops[0])
        if plain and n == 1 and fn in UNOPS:
            sp["operator"] = lambda ops, ex: UNOPS[fn](ops[0])
        if plain and n == 1 and fn == "absolute":
            sp["mg_abs"] = lambda ops, ex: mg.abs(ops[0])
            sp["np_abs"] = lambda ops, ex: np.abs(ops[0])
        if plain and n == 1 and fn == "square":
            sp["pow2"] = lambda ops, ex: ops[0] ** 2
        if plain and n == 1 and fn == "positive":
            sp["pow1"] = lambda ops, ex: ops[0] ** 1
    else:   # x <op>= y  /  f(x, y, out=x)
        sp["mg_out"] = lambda ops, ex: mgf(*ops, **kw, out=ops[0])
        if task.get("mg_only_kw"):
            sp["mg_abs_out"] = lambda ops, ex: mg.abs(*ops, **kw, out=ops[0])
            sp["mg_out_tuple"] = lambda ops, ex: mgf(*ops, **kw, out=(ops[0],))
        else:
            sp["np_out"] = lambda ops, ex: npf(*ops, **kw, out=ops[0])
        if n == 2 and fn in IBINOPS and not kw:
            sp["augmented"] = lambda ops, ex: IBINOPS[fn](ops[0], ops[1])
            if all(o.get("dtype", "float64") == "float64" for o in task["operands"]):
                sp["setitem"] = lambda ops, ex: set_all(ops[0], mgf(*ops))      # same rounding only when nothing is cast
    return sp


def set_all(x, v):
    x[...] = v
    return x


DUNDER = {"add": ("__add__", "__radd__"), "subtract": ("__sub__", "__rsub__"), "multiply": ("__mul__", "__rmul__"), "divide": ("__truediv__", "__rtruediv__"),
          "true_divide": ("__truediv__", "__rtruediv__"), "power": ("__pow__", "__rpow__"), "matmul": ("__matmul__", "__rmatmul__")}


def isinstance_spec(o, kind):
    return o["kind"] == kind


def spellings_func(task):
    """numpy function overrides: mygrad.f / numpy.f / Tensor.f"""
    fn = task["fn"]
    kw = opt_kw(task)
    args = [fix(a) for a in task.get("args", [])]
    n = len(task["operands"])
    sp = {}
    mgname = task.get("mg_name", fn)
    mgf = mg.linalg.norm if fn == "norm" else getattr(mg, mgname)
    npf = np.linalg.norm if fn == "norm" else getattr(np, fn)
    style = task.get("style", "first")
    if style == "first":        # f(t, *args, **kw)
        sp["mg"] = lambda ops, ex: mgf(*ops, *args, **kw)
        sp["np"] = lambda ops, ex: npf(*ops, *args, **kw)
        if fn == "transpose" and len(args) == 1 and not kw:
            # numpy.transpose names its second parameter
            sp["np_axes_kw"] = lambda ops, ex: npf(ops[0], axes=args[0])
            sp["mg_axes_kw"] = lambda ops, ex: mgf(ops[0], axes=args[0])
        meth = task.get("method", mgname)
        if meth and hasattr(mg.Tensor, meth) and n == 1:
            sp["method"] = lambda ops, ex: getattr(ops[0], meth)(*args, **kw)
            if task.get("method_star") and len(args) == 1 and isinstance(args[0], tuple):
                sp["method_star"] = lambda ops, ex: getattr(ops[0], meth)(*args[0], **kw)
        if task.get("property"):
            sp["property"] = lambda ops, ex: getattr(ops[0], task["property"])
    elif style == "seq":        # f([t0, t1, ...], **kw)
        sp["mg"] = lambda ops, ex: mgf(list(ops), *args, **kw)
        sp["np"] = lambda ops, ex: npf(list(ops), *args, **kw)
        sp["mg_tuple"] = lambda ops, ex: mgf(tuple(ops), *args, **kw)
    elif style == "einsum":
        sp["mg"] = lambda ops, ex: mgf(task["spec"], *ops, **kw)
        sp["np"] = lambda ops, ex: npf(task["spec"], *ops, **kw)
    elif style == "where":
        cond = lambda ops: (ops[0].data if isinstance(ops[0], mg.Tensor) else np.asarray(ops[0])) > 0
        sp["mg"] = lambda ops, ex: mgf(cond(ops), ops[1], ops[2])
        sp["np"] = lambda ops, ex: npf(cond(ops), ops[1], ops[2])
        sp["np_tensor_cond"] = lambda ops, ex: npf(mg.tensor(cond(ops)), ops[1], ops[2])
    return sp


def nodiff(task):
    """non-differentiable routes: result must be a plain array equal to NumPy's on the underlying arrays; const-only ufuncs must raise on
    non-constant tensors"""
    reset_global_state()
    fn = task["fn"]
    seed = task.get("seed", 0)
    leaves = [build(o, i, seed, task.get("domain", "any")) for i, o in enumerate(task["operands"])]
    arrs = [x.data if isinstance(x, mg.Tensor) else x for x in leaves]
    f = getattr(np, fn)
    kw = opt_kw(task)
    args = [fix(a) for a in task.get("args", [])]
    how = task.get("how", "np")
    res = {"exc": None, "np_exc": None}
    try:
        if how == "np":
            r = f(*leaves, *args, **kw)
        else:
            r = CONST_ONLY_OPS[fn](*leaves)
    except Exception as e:
        res["exc"] = type(e).__name__
        res["msg"] = str(e)[:100]
        r = None
    try:
        ref = f(*arrs, *args, **kw)
    except Exception as e:
        res["np_exc"] = type(e).__name__
        ref = None
    if r is not None:
        rs = r if isinstance(r, tuple) else (r,)
        refs = ref if isinstance(ref, tuple) else (ref,)
        res["any_tensor"] = any(isinstance(x, mg.Tensor) for x in rs)
        res["types"] = [type(x).__name__ for x in rs]
        res["equal"] = ref is not None and len(rs) == len(refs) and all(
            (np.asarray(a).dtype == np.asarray(b).dtype and np.asarray(a).shape == np.asarray(b).shape and bool(np.array_equal(np.asarray(a), np.asarray(b), equal_nan=np.asarray(a).dtype.kind == "f")))
            if not isinstance(a, (bool, np.dtype, type)) and not isinstance(b, (bool, np.dtype, type)) else (a == b) for a, b in zip(rs, refs))
    return res


def spellings_ufunc_method(task):
    """numpy.<ufunc>.<method>(tensors) / mygrad.<ufunc>.<method>(tensors) / NumPy on the underlying arrays"""
    fn, meth = task["fn"], task["method"]
    margs = [fix(a) for a in task.get("margs", [])]
    kw = opt_kw(task)
    unwrap = lambda ops: [o.data if isinstance(o, mg.Tensor) else o for o in ops]
    return {"mg": lambda ops, ex: getattr(getattr(mg, fn), meth)(*ops, *margs, **kw),
            "np": lambda ops, ex: getattr(getattr(np, fn), meth)(*ops, *margs, **kw),
            "numpy_on_arrays": lambda ops, ex: getattr(getattr(np, fn), meth)(*unwrap(ops), *margs, **kw)}


def run_task(task):
    if task["family"] == "nodiff":
        return nodiff(task)
    if task["family"] == "ufunc_method":
        return {"spellings": {name: signature(call, task, name) for name, call in spellings_ufunc_method(task).items()}}
    sp = spellings_ufunc(task) if task["family"] == "ufunc" else spellings_func(task)
    return {"spellings": {name: signature(call, task, name) for name, call in sp.items()}}


def main():
    payload = read_payload()
    out = []
    for t in payload["tasks"]:
        try:
            out.append(run_task(t))
        except Exception:
            import traceback
            out.append({"harness_error": traceback.format_exc()[-900:]})
    emit({"results": out})


main()
