"""Run-time dispatch tables of MyGrad (what NumPy ufuncs / functions are overridden by)."""
from implbase import *  # noqa: F401,F403
from implbase import emit, mg, np, read_payload
import mygrad.tensor_base as tb

read_payload()
np_ufunc, mg_ufunc = {}, {}
for u, f in tb._REGISTERED_UFUNC.items():
    opc = getattr(f, "_wrapped_op", None)
    opc = opc.__name__ if opc is not None else type(f).__name__
    np_ufunc[u.__name__] = [getattr(f, "__name__", str(f)), opc]
for name in dir(mg):
    f = getattr(mg, name)
    if f in tb._REGISTERED_UFUNC.values():
        opc = getattr(f, "_wrapped_op", None)
        mg_ufunc[name] = opc.__name__ if opc is not None else type(f).__name__
np_func = {f.__name__: getattr(g, "__name__", str(g)) for f, g in tb._REGISTERED_DIFFERENTIABLE_NUMPY_FUNCS.items()}
emit({"np_func": np_func, "np_ufunc": np_ufunc, "mg_ufunc": mg_ufunc,
      "bool_only": [u.__name__ for u in tb._REGISTERED_BOOL_ONLY_UFUNC],
      "const_only": [u.__name__ for u in tb._REGISTERED_CONST_ONLY_UFUNC],
      "no_diff": [f.__name__ for f in tb._REGISTERED_NO_DIFF_NUMPY_FUNCS]})
