"""C10 implementation runner: the constant-flag decision lattice (constructors, operations, copy/astype)."""
from implbase import *  # noqa: F401,F403
from implbase import _track, emit, exn_class, mg, np, read_payload, reset_global_state

DT = {"bool": np.bool_, "int8": np.int8, "int32": np.int32, "int64": np.int64, "uint8": np.uint8,
      "float16": np.float16, "float32": np.float32, "float64": np.float64, "complex64": np.complex64}


def outcome(f):
    try:
        t = f()
    except TypeError:
        return "TypeError"
    except ValueError:
        return "ValueError"
    except Exception as e:
        return "Other:" + type(e).__name__
    return bool(t.constant)


def make(kind, const):
    arr = np.ones(3, dtype=DT[kind])
    if kind.startswith("float"):
        return mg.tensor(arr, constant=const)
    return mg.tensor(arr)


def alias_const(t):
    """a CONSTANT tensor that wraps the very array of a non-constant tensor x (astensor(x, constant=True) / tensor(x.data, copy=False, constant=True)) used
    next to x in one operation: x's gradient must be what it is with a plain copy of the array in the constant's place"""
    reset_global_state()
    fns = {"multiply": lambda a, b: mg.multiply(a, b), "add": lambda a, b: mg.add(a, b), "einsum_i,i->": lambda a, b: mg.einsum("i,i->", a, b),
           "einsum_ij,ij->ij": lambda a, b: mg.einsum("ij,ij->ij", a, b), "einsum_ij,ij->": lambda a, b: mg.einsum("ij,ij->", a, b),
           "matmul": lambda a, b: mg.matmul(a, b.T if b.ndim == 2 else b), "maximum": lambda a, b: mg.maximum(a, b), "multiply_sequence": lambda a, b: mg.multiply_sequence(a, b, a),
           "stack": lambda a, b: mg.stack([a, b]), "where": lambda a, b: mg.where(np.array([True, False, True, True][: a.shape[-1]]), a, b)}
    f = fns[t["fn"]]
    shape = (3,) if "ij" not in t["fn"] and t["fn"] != "matmul" else (2, 3)
    vals = np.arange(1.0, 1 + int(np.prod(shape))).reshape(shape) * 0.5

    def grad_with(make_const):
        x = mg.tensor(vals.copy())
        c = make_const(x)
        out = f(x, c) if t["order"] == 0 else f(c, x)
        out.backward(np.ones(out.shape) * 1.5 if out.shape else 1.5)
        return x.grad.copy(), (c.grad if isinstance(c, mg.Tensor) else None)
    makers = {"astensor": lambda x: mg.astensor(x, constant=True), "tensor_nocopy": lambda x: mg.tensor(x.data, constant=True, copy=False), "view": lambda x: mg.tensor(x.data[...], constant=True, copy=False)}
    g_alias, cg = grad_with(makers[t["alias"]])
    g_ref, _ = grad_with(lambda x: x.data.copy())
    if cg is not None:
        return "constant alias holds a gradient"
    if not np.allclose(g_alias, g_ref):
        return "x.grad is %s with the constant alias and %s with a plain copy of the array" % (g_alias.ravel()[:4].tolist(), g_ref.ravel()[:4].tolist())
    return "ok"


def const_view(t):
    """a view made CONSTANT explicitly (view op with constant=True) of a non-constant tensor, possibly with a non-constant view of its own: it never exposes a gradient --
    neither when it took part in the differentiated program, nor after the gradient of its child view has been read (which may fill internal caches)"""
    reset_global_state()
    x = mg.tensor(np.arange(1.0, 7.0).reshape(2, 3))
    mk = {"reshape": lambda a, c: mg.reshape(a, (3, 2) if a.shape == (2, 3) else (2, 3), constant=c), "transpose": lambda a, c: mg.transpose(a, constant=c),
          "swapaxes": lambda a, c: mg.swapaxes(a, 0, 1, constant=c), "expand_dims": lambda a, c: mg.expand_dims(a, 0, constant=c), "ravel": lambda a, c: mg.ravel(a, constant=c)}
    c = mk[t["fn"]](x, True)
    v = mk[t["fn2"]](c, False) if c.ndim == 2 or t["fn2"] in ("expand_dims", "ravel") else mg.ravel(c, constant=False)
    L = (x * x).sum()
    if t["c_in_graph"]:
        L = L + (c * 2.0).sum()
    if t["v_in_graph"]:
        L = L + (v * 3.0).sum()
    bad = []
    if t["read_before"]:
        if c.grad is not None:
            bad.append("before backward")
    L.backward()
    for k in range(2):
        if t["order"] == 0:
            _ = v.grad
        if c.grad is not None:
            bad.append("after backward (read %d, child read first: %s)" % (k, t["order"] == 0))
        _ = v.grad
    if not c.constant:
        bad.append("flag lost")
    if v.constant or (v.base is not None and x.grad is not None and v.grad is None):
        bad.append("the non-constant child view has no gradient")
    return "ok" if not bad else "constant view exposes a gradient / flags: " + "; ".join(bad)


def task(t):
    if t.get("what") == "alias_const":
        return alias_const(t)
    if t.get("what") == "const_view":
        return const_view(t)
    reset_global_state()
    k = t["kind"]
    track = t["track"]
    arg = t["arg"]
    what = t["what"]

    def body():
        if what == "tensor":
            return outcome(lambda: mg.tensor(np.ones(3, dtype=DT[k]), constant=arg))
        if what == "Tensor":
            return outcome(lambda: mg.Tensor(np.ones(3, dtype=DT[k]), constant=arg))
        if what == "astensor":
            return outcome(lambda: mg.astensor(np.ones(3, dtype=DT[k]), constant=arg))
        if what == "op":
            # binary op whose output kind is the promotion of the operand kinds
            a = make(t["ka"], t["ca"])
            b = make(t["kb"], t["cb"])
            fn = {"add": mg.add, "multiply": mg.multiply, "maximum": mg.maximum}[t["fn"]]
            return outcome(lambda: fn(a, b, constant=arg))
        if what == "view_op":
            a = make(t["ka"], t["ca"])
            return outcome(lambda: mg.reshape(a, (3, 1), constant=arg))
        if what == "sum":
            a = make(t["ka"], t["ca"])
            return outcome(lambda: mg.sum(a, constant=arg))
        if what == "pow_op":
            a = make(t["ka"], t["ca"])
            pw = mg.tensor(float(t["pval"]), constant=t["cb"])
            return outcome(lambda: a ** pw)
        if what == "out_target":
            z = make("float64", t["cz"])
            x = make(t["ka"], t["ca"])
            return outcome(lambda: mg.multiply(x, 2.0, out=z, constant=arg))
        if what == "atleast_multi":
            # multi-argument atleast_kd: every returned tensor obeys constant= (when given), whatever its number of dimensions
            a = mg.tensor(np.ones((2, 2, 2), dtype=DT[t["ka"]]), constant=t["ca"]) if t["ka"].startswith("float") else mg.tensor(np.ones((2, 2, 2), dtype=DT[t["ka"]]))
            b = make(t["ka"], t["ca"])
            f = getattr(mg, "atleast_%dd" % t["k"])
            return outcome(lambda: f(a, b, constant=arg)[t["which"]])
        if what == "out_array_binary":
            x = make(t["ka"], t["ca"])
            return outcome(lambda: mg.multiply(x, 2.0, out=np.zeros(3), constant=arg))
        if what == "out_array_unary":
            x = make(t["ka"], t["ca"])
            return outcome(lambda: mg.negative(x, out=np.zeros(3), constant=arg))
        if what == "out_array_where":
            x = make(t["ka"], t["ca"])
            return outcome(lambda: mg.add(x, 1.0, out=np.zeros(3), where=np.array([True, False, True]), constant=arg))
        if what == "out_where_target":
            z = make("float64", t["cz"])
            x = make(t["ka"], t["ca"])
            return outcome(lambda: mg.multiply(x, 2.0, out=z, where=np.array([True, False, True]), constant=arg))
        if what == "out_unary_target":
            z = make("float64", t["cz"])
            x = make(t["ka"], t["ca"])
            return outcome(lambda: mg.negative(x, out=z, constant=arg))
        if what == "out_where_unary_target":
            z = make("float64", t["cz"])
            x = make(t["ka"], t["ca"])
            return outcome(lambda: mg.negative(x, out=z, where=np.array([False, True, True]), constant=arg))
        if what == "out_np_where_target":
            z = make("float64", t["cz"])
            x = make(t["ka"], t["ca"])
            return outcome(lambda: np.multiply(x, 2.0, out=z, where=np.array([True, False, True])))
        if what == "iadd_target":
            z = make("float64", t["cz"])
            x = make(t["ka"], t["ca"])

            def f():
                zz = z
                zz += x
                return zz
            return outcome(f)
        if what == "setitem_target":
            z = make("float64", t["cz"])
            x = make(t["ka"], t["ca"])

            def g():
                z[:2] = x[:2]
                return z
            return outcome(g)
        if what == "copy":
            a = make(t["ka"], t["ca"])
            return outcome(lambda: a.copy(constant=arg))
        if what == "astype":
            a = make(t["ka"], t["ca"])
            return outcome(lambda: a.astype(DT[k], constant=arg))
        raise ValueError(what)

    if track:
        return body()
    with mg.no_autodiff:
        return body()


def main():
    payload = read_payload()
    out = []
    for t in payload["tasks"]:
        try:
            out.append(task(t))
        except Exception as e:
            out.append("HARNESS:" + repr(e))
    reset_global_state()
    emit({"results": out})


main()
