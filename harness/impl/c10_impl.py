"""C10 implementation runner: the constant-flag decision lattice (constructors, operations, copy/astype)."""
from implbase import *  # noqa: F401,F403
from implbase import _track, emit, exn_class, mg, np, read_payload, reset_global_state

DT = {"bool": np.bool_, "int8": np.int8, "int32": np.int32, "int64": np.int64, "uint8": np.uint8,
      "float16": np.float16, "float32": np.float32, "float64": np.float64, "complex64": np.complex64}


def outcome(f):
    try:
        t = f()
    except TypeError:
        return "TypeError"
    except ValueError:
        return "ValueError"
    except Exception as e:
        return "Other:" + type(e).__name__
    return bool(t.constant)


def make(kind, const):
    arr = np.ones(3, dtype=DT[kind])
    if kind.startswith("float"):
        return mg.tensor(arr, constant=const)
    return mg.tensor(arr)


def alias_const(t):
    """a CONSTANT tensor that wraps the very array of a non-constant tensor x (astensor(x, constant=True) / tensor(x.data, copy=False, constant=True)) used
    next to x in one operation: x's gradient must be what it is with a plain copy of the array in the constant's place"""
    reset_global_state()
    fns = {"multiply": lambda a, b: mg.multiply(a, b), "add": lambda a, b: mg.add(a, b), "einsum_i,i->": lambda a, b: mg.einsum("i,i->", a, b),
           "einsum_ij,ij->ij": lambda a, b: mg.einsum("ij,ij->ij", a, b), "einsum_ij,ij->": lambda a, b: mg.einsum("ij,ij->", a, b),
           "matmul": lambda a, b: mg.matmul(a, b.T if b.ndim == 2 else b), "maximum": lambda a, b: mg.maximum(a, b), "multiply_sequence": lambda a, b: mg.multiply_sequence(a, b, a),
           "stack": lambda a, b: mg.stack([a, b]), "where": lambda a, b: mg.where(np.array([True, False, True, True][: a.shape[-1]]), a, b)}
    f = fns[t["fn"]]
    shape = (3,) if "ij" not in t["fn"] and t["fn"] != "matmul" else (2, 3)
    vals = np.arange(1.0, 1 + int(np.prod(shape))).reshape(shape) * 0.5

    def grad_with(make_const):
        x = mg.tensor(vals.copy())
        c = make_const(x)
        out = f(x, c) if t["order"] == 0 else f(c, x)
        out.backward(np.ones(out.shape) * 1.5 if out.shape else 1.5)
        return x.grad.copy(), (c.grad if isinstance(c, mg.Tensor) else None)
    makers = {"astensor": lambda x: mg.astensor(x, constant=True), "tensor_nocopy": lambda x: mg.tensor(x.data, constant=True, copy=False), "view": lambda x: mg.tensor(x.data[...], constant=True, copy=False)}
    g_alias, cg = grad_with(makers[t["alias"]])
    g_ref, _ = grad_with(lambda x: x.data.copy())
    if cg is not None:
        return "constant alias holds a gradient"
    if not np.allclose(g_alias, g_ref):
        return "x.grad is %s with the constant alias and %s with a plain copy of the array" % (g_alias.ravel()[:4].tolist(), g_ref.ravel()[:4].tolist())
    return "ok"


def task(t):
    if t.get("what") == "alias_const":
        return alias_const(t)
    reset_global_state()
    k = t["kind"]
    track = t["track"]
    arg = t["arg"]
    what = t["what"]

    def body():
        if what == "tensor":
            return outcome(lambda: mg.tensor(np.ones(3, dtype=DT[k]), constant=arg))
        if what == "Tensor":
            return outcome(lambda: mg.Tensor(np.ones(3, dtype=DT[k]), constant=arg))
        if what == "astensor":
            return outcome(lambda: mg.astensor(np.ones(3, dtype=DT[k]), constant=arg))
        if what == "op":
            # binary op whose output kind is the promotion of the operand kinds
            a = make(t["ka"], t["ca"])
            b = make(t["kb"], t["cb"])
            fn = {"add": mg.add, "multiply": mg.multiply, "maximum": mg.maximum}[t["fn"]]
            return outcome(lambda: fn(a, b, constant=arg))
        if what == "view_op":
            a = make(t["ka"], t["ca"])
            return outcome(lambda: mg.reshape(a, (3, 1), constant=arg))
        if what == "sum":
            a = make(t["ka"], t["ca"])
            return outcome(lambda: mg.sum(a, constant=arg))
        if what == "pow_op":
            a = make(t["ka"], t["ca"])
            pw = mg.tensor(float(t["pval"]), constant=t["cb"])
            return outcome(lambda: a ** pw)
        if what == "out_target":
            z = make("float64", t["cz"])
            x = make(t["ka"], t["ca"])
            return outcome(lambda: mg.multiply(x, 2.0, out=z, constant=arg))
        if what == "atleast_multi":
            # multi-argument atleast_kd: every returned tensor obeys constant= (when given), whatever its number of dimensions
            a = mg.tensor(np.ones((2, 2, 2), dtype=DT[t["ka"]]), constant=t["ca"]) if t["ka"].startswith("float") else mg.tensor(np.ones((2, 2, 2), dtype=DT[t["ka"]]))
            b = make(t["ka"], t["ca"])
            f = getattr(mg, "atleast_%dd" % t["k"])
            return outcome(lambda: f(a, b, constant=arg)[t["which"]])
        if what == "out_array_binary":
            x = make(t["ka"], t["ca"])
            return outcome(lambda: mg.multiply(x, 2.0, out=np.zeros(3), constant=arg))
        if what == "out_array_unary":
            x = make(t["ka"], t["ca"])
            return outcome(lambda: mg.negative(x, out=np.zeros(3), constant=arg))
        if what == "out_array_where":
            x = make(t["ka"], t["ca"])
            return outcome(lambda: mg.add(x, 1.0, out=np.zeros(3), where=np.array([True, False, True]), constant=arg))
        if what == "out_where_target":
            z = make("float64", t["cz"])
            x = make(t["ka"], t["ca"])
            return outcome(lambda: mg.multiply(x, 2.0, out=z, where=np.array([True, False, True]), constant=arg))
        if what == "out_unary_target":
            z = make("float64", t["cz"])
            x = make(t["ka"], t["ca"])
            return outcome(lambda: mg.negative(x, out=z, constant=arg))
        if what == "out_where_unary_target":
            z = make("float64", t["cz"])
            x = make(t["ka"], t["ca"])
            return outcome(lambda: mg.negative(x, out=z, where=np.array([False, True, True]), constant=arg))
        if what == "out_np_where_target":
            z = make("float64", t["cz"])
            x = make(t["ka"], t["ca"])
            return outcome(lambda: np.multiply(x, 2.0, out=z, where=np.array([True, False, True])))
        if what == "iadd_target":
            z = make("float64", t["cz"])
            x = make(t["ka"], t["ca"])

            def f():
                zz = z
                zz += x
                return zz
            return outcome(f)
        if what == "setitem_target":
            z = make("float64", t["cz"])
            x = make(t["ka"], t["ca"])

            def g():
                z[:2] = x[:2]
                return z
            return outcome(g)
        if what == "copy":
            a = make(t["ka"], t["ca"])
            return outcome(lambda: a.copy(constant=arg))
        if what == "astype":
            a = make(t["ka"], t["ca"])
            return outcome(lambda: a.astype(DT[k], constant=arg))
        raise ValueError(what)

    if track:
        return body()
    with mg.no_autodiff:
        return body()


def main():
    payload = read_payload()
    out = []
    for t in payload["tasks"]:
        try:
            out.append(task(t))
        except Exception as e:
            out.append("HARNESS:" + repr(e))
    reset_global_state()
    emit({"results": out})


main()
