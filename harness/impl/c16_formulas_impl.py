"""C16, second half: batchnorm, gru, softmax / logsoftmax and the losses against their DOCUMENTED formulas evaluated naively, element by
element, in plain Python floats (math.exp / math.log / math.tanh), for sweeps of shapes and of every option the functions take."""
import itertools
import math
import warnings

from implbase import *  # noqa: F401,F403
from implbase import emit, mg, np, read_payload, reset_global_state

import mygrad.nnet.activations as A
import mygrad.nnet.layers as L
import mygrad.nnet.losses as LS

warnings.filterwarnings("ignore")


def close(a, b, tol=1e-10):
    a, b = np.asarray(a, dtype=np.float64), np.asarray(b, dtype=np.float64)
    return a.shape == b.shape and bool(np.all(np.abs(a - b) <= tol * (1 + np.abs(b))))


def sig(v):
    return 1.0 / (1.0 + math.exp(-v))


def naive_softmax(x, axes):
    """softmax over the axes `axes` (tuple) of x, by explicit loops"""
    out = np.zeros_like(x)
    keep = [i for i in range(x.ndim) if i not in axes]
    for kidx in itertools.product(*[range(x.shape[i]) for i in keep]):
        pos = []
        for ridx in itertools.product(*[range(x.shape[i]) for i in axes]):
            full = [0] * x.ndim
            for i, v in zip(keep, kidx):
                full[i] = v
            for i, v in zip(axes, ridx):
                full[i] = v
            pos.append(tuple(full))
        den = sum(math.exp(x[p]) for p in pos)
        for p in pos:
            out[p] = math.exp(x[p]) / den
    return out


def naive_gru(X, Uz, Wz, bz, Ur, Wr, br, Uh, Wh, bh, s0):
    T, N, C = X.shape
    D = Wz.shape[0]
    S = np.zeros((T + 1, N, D))
    S[0] = s0
    for t in range(T):
        for n in range(N):
            z = [sig(sum(X[t, n, c] * Uz[c, d] for c in range(C)) + sum(S[t, n, e] * Wz[e, d] for e in range(D)) + bz[d]) for d in range(D)]
            r = [sig(sum(X[t, n, c] * Ur[c, d] for c in range(C)) + sum(S[t, n, e] * Wr[e, d] for e in range(D)) + br[d]) for d in range(D)]
            h = [math.tanh(sum(X[t, n, c] * Uh[c, d] for c in range(C)) + sum(r[e] * S[t, n, e] * Wh[e, d] for e in range(D)) + bh[d]) for d in range(D)]
            for d in range(D):
                S[t + 1, n, d] = (1 - z[d]) * h[d] + z[d] * S[t, n, d]
    return S


def run(seed):
    rs = np.random.RandomState(seed)
    fails, n = [], 0

    def chk(label, got, want, tol=1e-10):
        nonlocal n
        n += 1
        got = got.data if isinstance(got, mg.Tensor) else got
        if not close(got, want, tol):
            fails.append("%s: MyGrad gives %s, the documented formula gives %s" % (label, np.asarray(got).ravel()[:4].tolist(), np.asarray(want).ravel()[:4].tolist()))
    # ---- softmax / logsoftmax
    for sh in ((4,), (3, 4), (2, 3, 2)):
        x = rs.randn(*sh) * 2
        axes_opts = [-1, 0, None] + ([1, (0, 1)] if len(sh) >= 2 else []) + ([(0, 2), 2, -2] if len(sh) == 3 else [])
        for ax in axes_opts:
            axes = tuple(range(len(sh))) if ax is None else tuple(sorted(a % len(sh) for a in (ax if isinstance(ax, tuple) else (ax,))))
            want = naive_softmax(x, axes)
            chk("softmax%s axis=%s" % (sh, ax), A.softmax(x, axis=ax), want)
            chk("logsoftmax%s axis=%s" % (sh, ax), A.logsoftmax(x, axis=ax), np.log(want))
    chk("softmax default axis", A.softmax(np.array([[1.0, 2.0], [0.5, -1.0]])), naive_softmax(np.array([[1.0, 2.0], [0.5, -1.0]]), (1,)))
    # ---- batchnorm
    for sh in ((4, 2), (3, 2, 2), (2, 3, 2, 2), (5, 1)):
        x = rs.randn(*sh) * 2 + 1
        C = sh[1]
        for eps, use_g, use_b in itertools.product((1e-8, 0.01, 1.0), (False, True), (False, True)):
            g = rs.rand(C) + 0.5 if use_g else None
            b = rs.randn(C) if use_b else None
            want = np.zeros_like(x)
            for c in range(C):
                idx = [p for p in itertools.product(*[range(d) for d in sh]) if p[1] == c]
                mean = sum(x[p] for p in idx) / len(idx)
                var = sum((x[p] - mean) ** 2 for p in idx) / len(idx)
                for p in idx:
                    y = (x[p] - mean) / math.sqrt(var + eps)
                    want[p] = (g[c] if use_g else 1.0) * y + (b[c] if use_b else 0.0)
            chk("batchnorm%s eps=%s gamma=%s beta=%s" % (sh, eps, use_g, use_b), L.batchnorm(x, gamma=g, beta=b, eps=eps), want, 1e-9)
    # ---- gru
    for T, N, C, D in ((3, 2, 2, 3), (1, 1, 1, 1), (4, 1, 3, 2), (2, 3, 1, 2)):
        X = rs.randn(T, N, C)
        P = [rs.randn(*s) * 0.7 for s in [(C, D), (D, D), (D,)] * 3]
        for s0 in (None, rs.randn(N, D), np.full((N, D), 0.5)):
            want = naive_gru(X, *P, np.zeros((N, D)) if s0 is None else s0)
            chk("gru T=%d N=%d C=%d D=%d s0=%s" % (T, N, C, D, "None" if s0 is None else "given"), L.gru(X, *P, s0=s0), want, 1e-9)
            if s0 is not None:
                chk("gru s0 as a constant tensor", L.gru(X, *P, s0=mg.tensor(s0, constant=True)), want, 1e-9)
    # ---- losses
    for N, C in ((1, 3), (4, 3), (3, 5), (2, 2)):
        x = rs.randn(N, C) * 2
        y = rs.randint(0, C, size=N)
        soft = naive_softmax(x, (1,))
        chk("softmax_crossentropy (%d,%d)" % (N, C), LS.softmax_crossentropy(x, y), -sum(math.log(soft[i, y[i]]) for i in range(N)) / N)
        logp = np.log(soft)
        chk("negative_log_likelihood", LS.negative_log_likelihood(logp, y), -sum(logp[i, y[i]] for i in range(N)) / N)
        w = rs.rand(C) + 0.5
        chk("negative_log_likelihood weights", LS.negative_log_likelihood(logp, y, weights=w), -sum(logp[i, y[i]] * w[y[i]] for i in range(N)) / N)
        for hinge in (1.0, 0.0, 0.5, 2.5):
            want = sum(sum(max(0.0, x[i, j] - x[i, y[i]] + hinge) for j in range(C) if j != y[i]) for i in range(N)) / N
            chk("multiclass_hinge hinge=%s" % hinge, LS.multiclass_hinge(x, y, hinge=hinge), want)
            chk("multiclass_hinge hinge=%s positional" % hinge, LS.multiclass_hinge(x, y, hinge), want)
        for al, ga in ((1, 0), (0.5, 2), (2.0, 0.5), (1, 1), (0.25, 3)):
            per = [-al * (1 - soft[i, y[i]]) ** ga * math.log(soft[i, y[i]]) for i in range(N)]
            r1 = LS.softmax_focal_loss(x, y, alpha=al, gamma=ga)
            r2 = LS.focal_loss(soft, y, alpha=al, gamma=ga)
            for lab, r in (("softmax_focal_loss", r1), ("focal_loss", r2)):
                chk("%s alpha=%s gamma=%s" % (lab, al, ga), r, np.array(per) if np.asarray(r.data).ndim else sum(per) / N)
    for sh in ((4,), (3, 2), (1,)):
        a, b = rs.randn(*sh), rs.randn(*sh)
        for margin in (0.0, 0.5, 2.0):
            for yv in (1, -1, np.where(rs.rand(sh[0]) < 0.5, 1, -1)):       # y: a scalar or one sign per datum (row)
                yy = np.broadcast_to(np.asarray(yv).reshape((-1,) + (1,) * (len(sh) - 1)) if np.ndim(yv) else np.asarray(yv), sh)
                want = sum(max(0.0, margin - yy[p] * (a[p] - b[p])) for p in itertools.product(*[range(d) for d in sh])) / a.size
                chk("margin_ranking_loss%s margin=%s" % (sh, margin), LS.margin_ranking_loss(a, b, yv, margin), want)
                chk("margin_ranking_loss%s margin=%s keyword" % (sh, margin), LS.margin_ranking_loss(a, b, yv, margin=margin), want)
    return {"checked": n, "fails": fails}


def main():
    payload = read_payload()
    out = []
    for s in payload["seeds"]:
        reset_global_state()
        try:
            out.append(run(s))
        except Exception:
            import traceback
            out.append({"harness_error": traceback.format_exc()[-1500:]})
    emit({"results": out})


main()
