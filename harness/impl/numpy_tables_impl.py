"""Reads NumPy's own type-resolution tables (and MyGrad's registry of binary ufuncs) at run time."""
import warnings

from implbase import *  # noqa: F401,F403
from implbase import emit, mg, np, read_payload
import mygrad.tensor_base as tb

warnings.filterwarnings("ignore")
np.seterr(all="ignore")
DT = ["bool", "int8", "int16", "int32", "int64", "uint8", "uint16", "uint32", "uint64", "float16", "float32", "float64"]
PY = {"PyBool": True, "PyInt": 2, "PyFloat": 2.0}


def res(f):
    try:
        d = str(np.asarray(f()).dtype)
        return d if d in DT else None
    except Exception:
        return None


read_payload()
binary = sorted(u.__name__ for u in tb._REGISTERED_UFUNC if u.nin == 2 and u.__name__ != "matmul")
out = {"dtypes": DT, "binary": binary, "strong": {}, "weak_r": {}, "weak_l": {}, "rt": {}, "unary": {}}
for name in binary:
    u = getattr(np, name)
    out["strong"][name] = [[res(lambda: u(np.ones(2, d1), np.ones(2, d2))) for d2 in DT] for d1 in DT]
    out["weak_r"][name] = [[res(lambda: u(np.ones(2, d), v)) for v in PY.values()] for d in DT]
    out["weak_l"][name] = [[res(lambda: u(v, np.ones(2, d))) for v in PY.values()] for d in DT]
out["rt"] = [[res(lambda: np.empty(0, np.result_type(np.ones(2, d), v))) for v in PY.values()] for d in DT]
unary = sorted(u.__name__ for u in tb._REGISTERED_UFUNC if u.nin == 1)
for name in unary:
    u = getattr(np, name)
    out["unary"][name] = [res(lambda: u(np.ones(2, d))) for d in DT]
emit(out)
