"""C03 / C11 implementation runner: calls a MyGrad function (in a given spelling) and the NumPy namesake on the
underlying arrays with the same operands and options, and compares value (bitwise, NaN == NaN), shape and dtype.
Also reports the dtype every operand tensor of the recorded operation was cast to (for the casting-rule model), the
constant flag, and -- on request -- the gradients sent to the operands."""
import warnings

from implbase import *  # noqa: F401,F403
from implbase import emit, exn_class, mg, np, read_payload, reset_global_state

warnings.filterwarnings("ignore")
np.seterr(all="ignore")


def make_values(shape, dtype, seed, domain):
    rs = np.random.RandomState(seed)
    n = int(np.prod(shape, dtype=np.int64))
    dt = np.dtype(dtype)
    if dt.kind == "b":
        v = rs.randint(0, 2, size=n).astype(bool)
    elif dt.kind in "iu":
        lo = 1 if domain in ("pos", "unit") else (-4 if dt.kind == "i" else 0)
        v = rs.randint(lo, 5, size=n).astype(dt)
    else:
        if domain == "pos":
            v = (rs.rand(n) * 3 + 0.25)
        elif domain == "unit":
            v = (rs.rand(n) * 1.6 - 0.8)
        elif domain == "gt1":
            v = (rs.rand(n) * 3 + 1.25)
        else:
            v = rs.randn(n) * 2
        v = v.astype(dt)
    return v.reshape(shape)


def layout(a, lay):
    if lay == "F" and a.ndim >= 2:
        return np.asfortranarray(a)
    if lay == "strided" and a.ndim >= 1 and a.shape[-1] > 0:
        big = np.zeros(a.shape[:-1] + (2 * a.shape[-1],), dtype=a.dtype)
        big[..., ::2] = a
        return big[..., ::2]
    if lay == "T" and a.ndim >= 2:
        return np.ascontiguousarray(a.T).T
    return a


def build_operand(o, i, seed, domain):
    k = o["kind"]
    if k == "pyint":
        return o.get("val", 2), o.get("val", 2)
    if k == "pyfloat":
        return o.get("val", 2.0), o.get("val", 2.0)
    if k == "pybool":
        return o.get("val", True), o.get("val", True)
    if k == "npscalar":
        v = np.dtype(o["dtype"]).type(o.get("val", 2))
        return v, v
    if "vals" in o:
        arr = layout(np.asarray(o["vals"], dtype=np.float64).astype(o["dtype"]).reshape(tuple(o["shape"])), o.get("layout", "C"))
    else:
        arr = layout(make_values(tuple(o["shape"]), o["dtype"], seed * 7 + i, domain), o.get("layout", "C"))
    if k == "array":
        return arr.copy(order="K") if False else arr, arr
    kw = {}
    if o.get("const") is not None and np.dtype(o["dtype"]).kind == "f":
        kw["constant"] = o["const"]
    t = mg.tensor(arr, copy=False, **kw) if o.get("layout", "C") != "C" else mg.tensor(arr, **kw)
    return t, arr


def same(a, b):
    a, b = np.asarray(a), np.asarray(b)
    if a.shape != b.shape or a.dtype != b.dtype:
        return False
    if a.dtype.kind in "fc":
        return bool(np.array_equal(a, b, equal_nan=True))
    return bool(np.array_equal(a, b))


def get_fn(ns, name):
    if name == "norm":
        return ns.linalg.norm
    return getattr(ns, name)


OPS = {"add": lambda a, b: a + b, "subtract": lambda a, b: a - b, "multiply": lambda a, b: a * b, "divide": lambda a, b: a / b,
       "power": lambda a, b: a ** b, "matmul": lambda a, b: a @ b, "negative": lambda a: -a, "positive": lambda a: +a,
       "greater": lambda a, b: a > b, "less": lambda a, b: a < b, "greater_equal": lambda a, b: a >= b, "less_equal": lambda a, b: a <= b,
       "equal": lambda a, b: a == b, "not_equal": lambda a, b: a != b, "floor_divide": lambda a, b: a // b}
ROPS = {"add", "subtract", "multiply", "divide", "power", "matmul"}


def call(side, t, ops):
    """side: 'mg' or 'np'; returns the raw result"""
    fn, spell, opts = t["fn"], t.get("spell", "mg"), dict(t.get("opts", {}))
    ns = mg if (side == "mg" and spell == "mg") else np
    kw = {}
    for k in ("axis", "keepdims", "ddof", "dtype", "ord"):
        if k in opts:
            v = opts[k]
            if k == "ord" and v in ("inf", "-inf"):
                v = np.inf if v == "inf" else -np.inf
            kw[k] = tuple(v) if isinstance(v, list) else v
    extra = t.get("args", [])
    extra = [tuple(e) if isinstance(e, list) else e for e in extra]
    if "constant" in opts and side == "mg" and spell == "mg":
        kw["constant"] = opts["constant"]
    if spell == "op":
        return OPS[fn](*ops)
    if spell == "method":
        tgt = ops[0]
        name = {"amax": "max", "amin": "min"}.get(fn, fn)
        if name == "T":
            return tgt.T
        return getattr(tgt, name)(*ops[1:], *extra, **kw)
    f = get_fn(ns, fn)
    if fn in ("concatenate", "stack"):
        return f(list(ops), *extra, **kw)
    if fn == "einsum":
        return f(t["spec"], *ops, **kw)
    if fn == "where" and t.get("raw_condition"):
        return f(ops[0], ops[1], ops[2])
    if fn == "where":
        return f(ops[0] > 0 if not isinstance(ops[0], mg.Tensor) else ops[0].data > 0, ops[1], ops[2], **({"constant": kw["constant"]} if "constant" in kw else {}))
    return f(*ops, *extra, **kw)


def run_task(t):
    reset_global_state()
    seed = t.get("seed", 0)
    dom = t.get("domain", "any")
    pairs = [build_operand(o, i, seed, dom) for i, o in enumerate(t["operands"])]
    mg_ops = [p[0] for p in pairs]
    np_ops = [p[1] for p in pairs]
    before = [np.array(p[1], copy=True) if isinstance(p[1], np.ndarray) else None for p in pairs]
    opts = t.get("opts", {})
    res = {"agree": True, "why": None, "mg_exc": None, "np_exc": None, "dtype": None, "np_dtype": None, "cast": None, "const": None, "is_tensor": None}
    # out= / where=
    mg_kw, np_kw = {}, {}
    if "out" in opts:
        oshape, odt = tuple(opts["out"]["shape"]), opts["out"]["dtype"]
        base = make_values(oshape, odt, seed + 99, "any")
        np_out = base.copy()
        mg_out = mg.tensor(base.copy()) if opts["out"]["kind"] == "tensor" else base.copy()
        mg_kw["out"], np_kw["out"] = mg_out, np_out
    if "where" in opts:
        m = np.asarray(opts["where"]["mask"], dtype=bool).reshape(opts["where"]["shape"])
        mg_kw["where"], np_kw["where"] = m, m

    def do(side, ops, kw2):
        if kw2:
            ns = mg if (side == "mg" and t.get("spell", "mg") == "mg") else np
            kw = {}
            if "dtype" in opts:
                kw["dtype"] = opts["dtype"]
            return get_fn(ns, t["fn"])(*ops, **kw, **kw2)
        return call(side, t, ops)

    def run_side(side, ops, kw2):
        try:
            if side == "mg" and not t.get("track", True):
                with mg.no_autodiff:
                    return do(side, ops, kw2), None
            return do(side, ops, kw2), None
        except Exception as e:
            return None, exn_class(e) + ":" + str(e)[:100]

    np_r, np_e = run_side("np", np_ops, np_kw)
    mg_r, mg_e = run_side("mg", mg_ops, mg_kw)
    res["mg_exc"], res["np_exc"] = mg_e, np_e
    if mg_e or np_e:
        if bool(mg_e) != bool(np_e):
            res["agree"] = False
            res["why"] = "only %s raised: %s" % ("MyGrad" if mg_e else "NumPy", mg_e or np_e)
        return res
    res["is_tensor"] = isinstance(mg_r, mg.Tensor)
    mg_a = mg_r.data if isinstance(mg_r, mg.Tensor) else mg_r
    if isinstance(mg_r, (list, tuple)):
        mg_a = [x.data if isinstance(x, mg.Tensor) else x for x in mg_r]
        ok = isinstance(np_r, (list, tuple)) and len(mg_a) == len(np_r) and all(same(a, b) for a, b in zip(mg_a, np_r))
        if not ok:
            res["agree"], res["why"] = False, "list results differ"
        return res
    a, b = np.asarray(mg_a), np.asarray(np_r)
    res["dtype"], res["np_dtype"] = str(a.dtype), str(b.dtype)
    if a.dtype != b.dtype:
        res["agree"], res["why"] = False, "dtype %s, NumPy gives %s" % (a.dtype, b.dtype)
    elif a.shape != b.shape:
        res["agree"], res["why"] = False, "shape %s, NumPy gives %s" % (a.shape, b.shape)
    else:
        if "where" in opts and "out" not in opts:
            m = np.broadcast_to(np.asarray(opts["where"]["mask"], dtype=bool).reshape(opts["where"]["shape"]), a.shape)
            okv = same(np.where(m, a, 0), np.where(m, b, 0))
        else:
            okv = same(a, b)
        if not okv:
            res["agree"], res["why"] = False, "values differ from NumPy's"
    if "out" in opts and res["agree"]:
        tgt = mg_kw["out"].data if isinstance(mg_kw["out"], mg.Tensor) else mg_kw["out"]
        if not same(tgt, np_kw["out"]):
            res["agree"], res["why"] = False, "out= target differs from NumPy's after the call"
    for p, b0 in zip(pairs, before):
        if b0 is not None and not same(p[1], b0) and "out" not in opts:
            res["agree"], res["why"] = False, "an input array was modified"
    if isinstance(mg_r, mg.Tensor):
        res["const"] = bool(mg_r.constant)
        if mg_r.creator is not None:
            res["cast"] = [str(v.dtype) for v in mg_r.creator.variables]
    # gradients (C11): every non-constant operand's gradient for a fixed seed gradient
    if t.get("grads") and isinstance(mg_r, mg.Tensor) and not mg_r.constant:
        g = make_values(mg_r.shape, "float64", seed + 5, "any").astype(mg_r.dtype)
        try:
            mg_r.backward(g)
            res["grads"] = [None if not isinstance(o, mg.Tensor) or o.grad is None else [o.grad.tobytes().hex(), str(o.grad.dtype), list(o.grad.shape)] for o in mg_ops]
        except Exception as e:
            res["grads"] = "raised:" + exn_class(e)
        res["value"] = [np.asarray(mg_a).tobytes().hex(), str(np.asarray(mg_a).dtype), list(np.asarray(mg_a).shape)]
    elif t.get("grads") and isinstance(mg_r, mg.Tensor):
        res["grads"] = "constant"
        res["value"] = [np.asarray(mg_a).tobytes().hex(), str(np.asarray(mg_a).dtype), list(np.asarray(mg_a).shape)]
    return res


def main():
    payload = read_payload()
    out = []
    for t in payload["tasks"]:
        try:
            out.append(run_task(t))
        except Exception:
            import traceback
            out.append({"harness_error": traceback.format_exc()[-900:]})
    emit({"results": out})


main()
