"""Catalogue of MyGrad's differentiable operations with their option combinations, and two runners over it:
  mode "vjp"   -- analytic gradients of <g, f(x)> from backward(g) against a 4th-order (Richardson) central-difference estimate of
                  MyGrad's OWN forward pass, at points kept away from kinks (validation / search for failing inputs; not a proof);
  mode "alias" -- C12 oracle for every operation: inputs, index arrays and the seed are bit-identical afterwards, backward() changes no
                  data, gradients of different tensors never share memory (nor with data, nor with the seed), copies own their gradient.
The catalogue is code (closures), enumerated deterministically; the harness addresses entries by index."""
import itertools
import warnings

from implbase import *  # noqa: F401,F403
from implbase import emit, mg, np, read_payload, reset_global_state

import mygrad.nnet.activations as A
import mygrad.nnet.layers as L
import mygrad.nnet.losses as LS

warnings.filterwarnings("ignore")
np.seterr(all="ignore")

GRID = 0.41


def values(shape, seed, domain, k):
    """distinct values on a jittered grid, away from 0 and from each other (no ties, no kinks); operand k gets its own offset"""
    n = int(np.prod(shape, dtype=np.int64))
    rs = np.random.RandomState(seed * 31 + k)
    perm = rs.permutation(n)
    off = [0.13, 0.29, 0.07, 0.19, 0.23, 0.11, 0.17, 0.31, 0.05, 0.27, 0.09, 0.21][k % 12]
    base = (perm - (n - 1) / 2.0) * GRID + off
    if domain == "pos":
        v = 0.3 + (perm + 1) * (2.7 / (n + 1)) + off / 10
    elif domain == "unit":
        v = 0.15 + (perm + 1) * (0.65 / (n + 1)) + off / 50        # (0.15, 0.8], alternating sign: away from 0 and from +-1
        v = v * np.where(perm % 2 == 0, 1.0, -1.0)
    elif domain == "gt1":
        v = 1.3 + (perm + 1) * (2.5 / (n + 1)) + off / 10
    elif domain == "absgt1":
        v = (1.3 + (perm + 1) * (2.0 / (n + 1))) * np.where(perm % 2 == 0, 1.0, -1.0)
    elif domain == "small":
        v = base / max(1.0, n / 6.0)
    elif domain == "prob":
        v = rs.rand(n) * 0.8 + 0.1
    else:
        v = base
        if n > 12:
            v = base * (12.0 / n) + off * (1 - 12.0 / n)
            # keep the spacing >= 0.05 for larger operands
    return np.asarray(v, dtype=np.float64).reshape(shape)


class Entry:
    def __init__(self, family, label, shapes, fn, domains=None, note=None, only=None, prep=None):
        self.family, self.label, self.shapes, self.fn = family, label, [tuple(s) for s in shapes], fn
        self.domains = domains or ["any"] * len(shapes)
        self.note = note
        self.only = only      # None = every mode; otherwise the set of modes the entry is meant for
        self.prep = prep      # optional in-place edit of the generated operand arrays (e.g. plant exact zeros)


def operand_arrays(e, seed, dtype=None):
    arrays = [values(s, seed, d, k) for k, (s, d) in enumerate(zip(e.shapes, e.domains))]
    if e.prep is not None:
        e.prep(arrays)
    return [a.astype(dtype) for a in arrays] if dtype is not None else arrays


def _plant(pos_list):
    def f(arrays):
        for k, ix, v in pos_list:
            arrays[k][ix] = v
    return f


def catalog():
    E = []

    def add(family, label, shapes, fn, domains=None, only=None, prep=None):
        E.append(Entry(family, label, shapes, fn, domains, only=only, prep=prep))

    # ---- unary element-wise
    un = {"absolute": "any", "arccos": "unit", "arccosh": "gt1", "arcsin": "unit", "arcsinh": "any", "arctan": "any", "arctanh": "unit", "cbrt": "any", "cos": "any", "cosh": "small",
          "exp": "small", "exp2": "small", "expm1": "small", "log": "pos", "log10": "pos", "log1p": "pos", "log2": "pos", "negative": "any", "positive": "any", "reciprocal": "pos",
          "sin": "any", "sinh": "small", "sqrt": "pos", "square": "any", "tan": "unit", "tanh": "any",
          "sinc": "any", "cot": "unit", "sec": "unit", "csc": "unit", "coth": "any", "sech": "any", "csch": "any", "arccot": "any", "arcsec": "absgt1", "arccsc": "absgt1",
          "arccoth": "absgt1", "arccsch": "any"}
    for name, dom in sorted(un.items()):
        f = getattr(mg, name)
        for sh in ((), (3,), (2, 3), (2, 1, 2)):
            add("unary", "%s%s" % (name, sh), [sh], (lambda f: lambda x: f(x))(f), [dom])
        add("unary", "%s where" % name, [(2, 3)], (lambda f: lambda x: f(x, where=np.array([True, False, True]), out=mg.zeros((2, 3), dtype="float64")) if name in UFUNCS else f(x))(f), [dom])
        sing = {"log": 0.0, "log2": 0.0, "log10": 0.0, "sqrt": 0.0, "reciprocal": 0.0, "cbrt": 0.0, "log1p": -1.0, "arcsin": 1.0, "arccos": -1.0, "arctanh": 1.0, "arccosh": 1.0}
        if name in sing and name in UFUNCS:
            # f(x, where=x_is_safe): the masked-out elements sit at a point where the derivative formula is not finite; they get gradient 0, not NaN
            add("unary", "%s where, masked-out elements at a singular point" % name, [(2, 3)],
                (lambda f: lambda x: f(x, where=np.array([True, False, True]), out=mg.zeros((2, 3), dtype="float64")))(f), [dom],
                prep=_plant([(0, (0, 1), sing[name]), (0, (1, 1), sing[name])]), only={"vjp", "alias", "gradtype"})
        add("unary", "%s strided" % name, [(2, 6)], (lambda f: lambda x: f(x[:, ::2]))(f), [dom])
        add("unary", "%s transposed" % name, [(3, 2)], (lambda f: lambda x: f(x.T))(f), [dom])
    for name, f, dom in (("relu", A.relu, "any"), ("sigmoid", A.sigmoid, "any"), ("tanh_act", A.tanh, "any"), ("selu", A.selu, "any"), ("soft_sign", A.soft_sign, "any"),
                         ("elu0.7", lambda x: A.elu(x, 0.7), "any"), ("elu2", lambda x: A.elu(x, 2.0), "any"), ("leaky_relu0.1", lambda x: A.leaky_relu(x, 0.1), "any"),
                         ("leaky_relu2", lambda x: A.leaky_relu(x, 2.0), "any"), ("hard_tanh", lambda x: A.hard_tanh(x), "any"),
                         ("hard_tanh_bounds", lambda x: A.hard_tanh(x, lower_bound=-0.5875, upper_bound=0.8475), "any")):
        for sh in ((), (4,), (2, 3)):
            add("activation", "%s%s" % (name, sh), [sh], f, [dom])
    for axis in (-1, 0, 1):
        add("activation", "glu axis=%d" % axis, [(2, 4) if axis != 0 else (4, 2)], (lambda ax: lambda x: A.glu(x, axis=ax))(axis))
    for axis in (-1, 0, 1, None, (0, 1)):
        add("activation", "softmax axis=%s" % (axis,), [(3, 4)], (lambda ax: lambda x: A.softmax(x, axis=ax))(axis))
        add("activation", "logsoftmax axis=%s" % (axis,), [(3, 4)], (lambda ax: lambda x: A.logsoftmax(x, axis=ax))(axis))
    add("activation", "softmax 1d", [(4,)], lambda x: A.softmax(x))
    add("activation", "logsoftmax 3d axis=1", [(2, 3, 2)], lambda x: A.logsoftmax(x, axis=1))

    # ---- binary element-wise with broadcasting
    bi = {"add": ("any", "any"), "subtract": ("any", "any"), "multiply": ("any", "any"), "divide": ("any", "pos"), "power": ("pos", "any"), "maximum": ("any", "any"),
          "minimum": ("any", "any"), "logaddexp": ("any", "any"), "logaddexp2": ("any", "any"), "arctan2": ("any", "any")}
    for name, doms in sorted(bi.items()):
        f = getattr(mg, name)
        for sa, sb in (((2, 3), (2, 3)), ((2, 3), (3,)), ((3,), (2, 3)), ((2, 1), (1, 3)), ((), (2, 3)), ((2, 3), ()), ((), ()), ((2, 1, 3), (4, 1)), ((1,), (3,))):
            add("binary", "%s%s%s" % (name, sa, sb), [sa, sb], (lambda f: lambda a, b: f(a, b))(f), list(doms))
        if name not in ("maximum", "minimum"):      # f(a, a) is a tie everywhere: zero gradient by convention (exact registry)
            add("binary", "%s same operand" % name, [(2, 3)], (lambda f: lambda a: f(a, a))(f), ["pos"])
        add("binary", "%s where" % name, [(2, 3), (3,)], (lambda f: lambda a, b: f(a, b, where=np.array([[True, False, True], [False, False, True]]), out=mg.zeros((2, 3), dtype="float64")))(f), list(doms))
        add("binary", "%s scalar right" % name, [(2, 3)], (lambda f: lambda a: f(a, 1.7))(f), [doms[0]])
        add("binary", "%s scalar left" % name, [(2, 3)], (lambda f: lambda b: f(1.7, b))(f), [doms[1]])
    add("binary", "divide where, masked-out divisor is zero", [(2, 3), (3,)], lambda a, b: mg.divide(a, b, where=np.array([True, False, True]), out=mg.zeros((2, 3), dtype="float64")), ["any", "pos"],
        prep=_plant([(1, (1,), 0.0)]), only={"vjp", "alias", "gradtype"})
    add("binary", "power where, masked-out base is zero", [(2, 3), (3,)], lambda a, b: mg.power(a, b, where=np.array([[True, False, True], [True, False, True]]), out=mg.zeros((2, 3), dtype="float64")), ["pos", "unit"],
        prep=_plant([(0, (0, 1), 0.0), (0, (1, 1), 0.0)]), only={"vjp", "alias", "gradtype"})
    # where= WITHOUT out=: masked-out positions of the result are uninitialised memory, so these entries are used for the aliasing oracle only
    for name in ("add", "subtract", "multiply", "maximum"):
        f = getattr(mg, name)
        add("binary", "%s where-no-out" % name, [(2, 3), (3,)], (lambda f: lambda a, b: f(a, b, where=np.array([[True, False, True], [False, False, True]])))(f), only={"alias", "gradtype"})
        add("binary", "%s where-no-out broadcast mask" % name, [(2, 3), (2, 3)], (lambda f: lambda a, b: f(a, b, where=np.array([True, False, True])))(f), only={"alias", "gradtype"})
    for name in ("positive", "negative", "exp"):
        f = getattr(mg, name)
        add("unary", "%s where-no-out" % name, [(2, 3)], (lambda f: lambda a: f(a, where=np.array([True, False, True])))(f), only={"alias", "gradtype"})
    add("binary", "power int exponent 3", [(2, 3)], lambda a: mg.power(a, 3))
    add("binary", "power ** 2 negative base", [(2, 3)], lambda a: a ** 2)
    add("binary", "power ** -1", [(2, 3)], lambda a: a ** -1)
    add("binary", "power 2 ** x", [(2, 3)], lambda b: 2.0 ** b)
    for n in (2, 3, 4):
        add("nary", "add_sequence n=%d" % n, [(2, 3)] * n, lambda *xs: mg.add_sequence(*xs))
        add("nary", "multiply_sequence n=%d" % n, [(2, 3)] * n, lambda *xs: mg.multiply_sequence(*xs))
    add("nary", "add_sequence broadcast", [(2, 3), (3,), ()], lambda *xs: mg.add_sequence(*xs))
    add("nary", "multiply_sequence broadcast", [(2, 3), (3,), ()], lambda *xs: mg.multiply_sequence(*xs))
    add("nary", "multiply_sequence with a zero", [(2, 3), (2, 3)], lambda a, b: mg.multiply_sequence(a, b, np.array([[0.0, 1.0, 2.0], [1.0, 0.0, 3.0]])))

    # ---- reductions
    shapes_axes = [((4,), [None, 0, -1, (0,), ()]),
                   ((2, 3), [None, 0, 1, -1, -2, (0, 1), (1, 0), (-1,), ()]),
                   ((2, 3, 2), [None, 0, 1, 2, -1, (0, 1), (1, 2), (0, 2), (2, 0), (0, 1, 2), (-1, 0), ()]),
                   ((2, 2, 3, 2), [(0, 2), (1, 2), (0, 1, 2), (1, 3), 2, None]),
                   ((), [None])]
    for name, dom in (("sum", "any"), ("mean", "any"), ("prod", "any"), ("max", "any"), ("min", "any"), ("var", "any"), ("std", "any")):
        f = getattr(mg, name)
        for sh, axes in shapes_axes:
            for ax in axes:
                for kd in (False, True):
                    if name in ("var", "std") and ((ax == () and sh != ()) or sh == ()):
                        continue        # degenerate: zero variance (std has no derivative there)
                    add("reduce", "%s%s axis=%s keepdims=%s" % (name, sh, ax, kd), [sh], (lambda f, ax, kd: lambda x: f(x, axis=ax, keepdims=kd))(f, ax, kd), [dom])
        add("reduce", "%s method" % name, [(2, 3)], (lambda name: lambda x: getattr(x, name)(axis=1))(name), [dom])
    for name in ("var", "std"):
        f = getattr(mg, name)
        for ddof in (0, 1, 2):
            add("reduce", "%s ddof=%d" % (name, ddof), [(3, 4)], (lambda f, d: lambda x: f(x, axis=1, ddof=d))(f, ddof))
            add("reduce", "%s ddof=%d all" % (name, ddof), [(3, 4)], (lambda f, d: lambda x: f(x, ddof=d))(f, ddof))
    add("reduce", "prod with a zero", [(2, 3)], lambda x: mg.prod(x * np.array([[1.0, 0.0, 1.0], [1.0, 1.0, 1.0]]), axis=1))
    add("reduce", "prod with two zeros", [(2, 3)], lambda x: mg.prod(x * np.array([[0.0, 0.0, 1.0], [1.0, 1.0, 1.0]]), axis=1))
    for name in ("cumsum", "cumprod"):
        f = getattr(mg, name)
        for sh, axes in (((4,), [None, 0, -1]), ((2, 3), [None, 0, 1, -1, -2]), ((2, 3, 2), [None, 0, 1, 2, -1, -3])):
            for ax in axes:
                add("reduce", "%s%s axis=%s" % (name, sh, ax), [sh], (lambda f, ax: lambda x: f(x, axis=ax))(f, ax))
    add("reduce", "cumprod with a zero", [(2, 3)], lambda x: mg.cumprod(x * np.array([[1.0, 0.0, 1.0], [1.0, 1.0, 1.0]]), axis=1))
    # exact zeros IN THE OPERAND ITSELF (the zero-patching branches of prod / cumprod work on copies of the operand's data)
    add("reduce", "cumprod operand with zeros", [(2, 3)], lambda x: mg.cumprod(x, axis=1), prep=_plant([(0, (0, 1), 0.0), (0, (1, 0), 0.0)]))
    add("reduce", "cumprod operand with zeros axis=None", [(2, 3)], lambda x: mg.cumprod(x), prep=_plant([(0, (0, 2), 0.0)]))
    add("reduce", "prod operand with a zero", [(2, 3)], lambda x: mg.prod(x, axis=1), prep=_plant([(0, (0, 1), 0.0)]))
    add("reduce", "prod operand with two zeros", [(2, 3)], lambda x: mg.prod(x, axis=1), prep=_plant([(0, (0, 1), 0.0), (0, (0, 2), 0.0)]))
    add("nary", "multiply_sequence operand with a zero", [(2, 3), (2, 3)], lambda a, b: mg.multiply_sequence(a, b, a), prep=_plant([(0, (0, 1), 0.0)]))

    # ---- linear algebra
    for sa, sb in (((2, 3), (3, 2)), ((3,), (3,)), ((2, 3), (3,)), ((3,), (3, 2)), ((2, 2, 3), (3, 2)), ((2, 3), (2, 3, 2)), ((2, 1, 2, 3), (3, 3, 2)), ((1, 3), (3, 1))):
        add("linalg", "matmul%s%s" % (sa, sb), [sa, sb], lambda a, b: mg.matmul(a, b))
    add("linalg", "matmul same operand", [(3, 3)], lambda a: a @ a)
    for spec, shapes in (("ij,jk->ik", [(2, 3), (3, 2)]), ("ij,ij->", [(2, 3), (2, 3)]), ("ii->i", [(3, 3)]), ("ii", [(3, 3)]), ("ij->ji", [(2, 3)]), ("i,i", [(3,), (3,)]),
                         ("...j,j", [(2, 3), (3,)]), ("ij,ij,ij->ij", [(2, 2)] * 3), ("i,j->ij", [(2,), (3,)]), ("ijk,ik->j", [(2, 3, 2), (2, 2)]), ("ij->", [(2, 3)]),
                         ("ij->i", [(2, 3)]), ("i->", [(3,)]), ("...ij,...jk->...ik", [(2, 2, 3), (2, 3, 2)]), ("ij,j->ij", [(2, 3), (3,)]), ("bij,bjk", [(2, 2, 3), (2, 3, 2)]),
                         ("iij->j", [(2, 2, 3)]), ("i,i,i->", [(3,)] * 3)):
        add("linalg", "einsum %s" % spec, shapes, (lambda spec: lambda *xs: mg.einsum(spec, *xs))(spec))
    add("linalg", "einsum ij,ij-> same operand", [(2, 3)], lambda a: mg.einsum("ij,ij->", a, a))
    add("linalg", "einsum i,i->i same operand", [(3,)], lambda a: mg.einsum("i,i->i", a, a))
    add("linalg", "einsum optimize", [(2, 3), (3, 2), (2, 2)], lambda a, b, c: mg.einsum("ij,jk,kl->il", a, b, c, optimize=True))
    add("linalg", "multi_matmul", [(2, 3), (3, 2), (2, 2)], lambda a, b, c: mg.multi_matmul([a, b, c]))
    add("linalg", "multi_matmul 1d last", [(2, 3), (3, 2), (2,)], lambda a, b, c: mg.multi_matmul([a, b, c]))
    add("linalg", "multi_matmul 1d first", [(3,), (3, 2), (2, 2)], lambda a, b, c: mg.multi_matmul([a, b, c]))
    add("linalg", "multi_matmul 1d both", [(3,), (3, 2), (2,)], lambda a, b, c: mg.multi_matmul([a, b, c]))
    add("linalg", "multi_matmul 4 operands", [(2, 3), (3, 2), (2, 4), (4, 2)], lambda a, b, c, d: mg.multi_matmul([a, b, c, d]))
    add("linalg", "multi_matmul 5 operands 1d last", [(2, 3), (3, 2), (2, 4), (4, 2), (2,)], lambda a, b, c, d, e_: mg.multi_matmul([a, b, c, d, e_]))
    add("linalg", "multi_matmul 2 operands", [(2, 3), (3, 2)], lambda a, b: mg.multi_matmul([a, b]))
    for ordv in (None, 1, 2, 3, 4.5, 0.5, -1, -2):
        for ax, kd in ((None, False), (0, False), (1, False), (-1, True), (1, True)):
            if ordv is not None and ax is None:
                continue
            add("linalg", "norm ord=%s axis=%s keepdims=%s" % (ordv, ax, kd), [(3, 4)], (lambda o, ax, kd: lambda x: mg.linalg.norm(x, ord=o, axis=ax, keepdims=kd))(ordv, ax, kd))
    # an all-zero lane: the gradient is nan by definition (no vjp comparison), but nothing may be written into any tensor's data
    for ordv in (1, 2, 3):
        for kd in (False, True):
            add("linalg", "norm ord=%s zero lane keepdims=%s" % (ordv, kd), [(3, 4)], (lambda o, kd: lambda x: mg.linalg.norm(x, ord=o, axis=1, keepdims=kd))(ordv, kd),
                only={"alias", "release", "const"}, prep=_plant([(0, (1, slice(None)), 0.0)]))
    add("linalg", "norm 1d ord=3", [(4,)], lambda x: mg.linalg.norm(x, ord=3))
    add("linalg", "norm 1d", [(4,)], lambda x: mg.linalg.norm(x))
    add("linalg", "norm 3d axis=1 ord=3", [(2, 3, 2)], lambda x: mg.linalg.norm(x, ord=3, axis=1))

    # ---- indexing
    idxs = [("basic", lambda: (slice(None), 1)), ("slice step", lambda: (slice(None, None, 2),)), ("negative step", lambda: (slice(None, None, -1), slice(1, None))),
            ("ellipsis", lambda: (Ellipsis, 0)), ("newaxis", lambda: (None, 1, None)), ("int array", lambda: (np.array([0, 2, 2, 1]),)), ("int arrays pair", lambda: (np.array([0, 2, 2]), np.array([1, 1, 3]))),
            ("repeated index", lambda: (np.array([1, 1, 1]),)), ("bool mask", lambda: (np.array([True, False, True]),)), ("bool full", lambda: (np.arange(12).reshape(3, 4) % 3 == 0,)),
            ("mixed", lambda: (np.array([0, 2]), slice(1, 3))), ("mixed2", lambda: (slice(0, 2), np.array([3, 0, 3]))), ("broadcast idx", lambda: (np.array([[0], [2]]), np.array([1, 3]))),
            ("scalar", lambda: (1, 2)), ("list index", lambda: ([0, 2],)), ("neg ints", lambda: (np.array([-1, -3]), -1))]
    for lab, mk in idxs:
        add("index", "getitem %s" % lab, [(3, 4)], (lambda mk: lambda x: x[mk()])(mk))
    for lab, mk in idxs:
        # setitem: gradient flows to the value and to the untouched part of the target
        def f(x, v, mk=mk):
            y = +x
            ix = mk()
            tgt = y.data[ix]
            y[ix] = mg.broadcast_to(v, tgt.shape) if tgt.shape != () else v.reshape(())
            return y
        if lab in ("repeated index", "int array", "int arrays pair", "mixed2", "neg ints"):
            continue     # repeated positions: NumPy's last-write-wins makes d/dvalue depend on order (conventions in C04)
        add("index", "setitem %s" % lab, [(3, 4), ()], f)
    add("index", "setitem slice value array", [(3, 4), (4,)], lambda x, v: _set(+x, (slice(0, 2),), v))
    add("index", "setitem bool value array", [(3, 4), (4,)], lambda x, v: _set(+x, (np.arange(12).reshape(3, 4) % 3 == 0,), v))
    add("index", "where", [(2, 3), (2, 3)], lambda a, b: mg.where(np.array([[True, False, True], [False, False, True]]), a, b))
    add("index", "where int condition", [(2, 3), (2, 3)], lambda a, b: mg.where(np.array([[1, 0, 2], [0, 0, -3]]), a, b))
    add("index", "where float condition", [(2, 3), (2, 3)], lambda a, b: mg.where(np.array([[0.5, 0.0, 2.0], [0.0, 0.0, -1.5]]), a, b))
    add("index", "where list condition", [(2, 3), (2, 3)], lambda a, b: mg.where([[1, 0, 1], [0, 0, 1]], a, b))
    add("index", "where tensor condition", [(2, 3), (2, 3)], lambda a, b: mg.where(mg.tensor([[1, 0, 2], [0, 0, 3]]), a, b))
    add("index", "where via numpy", [(2, 3), (2, 3)], lambda a, b: np.where(np.array([[1, 0, 2], [0, 0, -3]]), a, b))
    add("index", "where broadcast", [(2, 3), ()], lambda a, b: mg.where(np.array([True, False, True]), a, b))
    add("index", "where scalar", [(2, 3)], lambda a: mg.where(np.array([True, False, True]), a, 2.0))
    for lo, hi in ((-0.5875, 0.8475), (None, 0.8475), (-0.5875, None)):
        add("index", "clip %s %s" % (lo, hi), [(3, 4)], (lambda lo, hi: lambda x: mg.clip(x, lo, hi))(lo, hi))
    add("index", "clip array bounds", [(3, 4)], lambda x: mg.clip(x, np.full((4,), -0.5875), np.full((3, 1), 0.8475)))
    add("index", "clip tensor bounds", [(3, 4), (4,)], lambda x, b: mg.clip(x, None, b))

    # ---- shape manipulation
    add("shape", "reshape", [(2, 3)], lambda x: x.reshape(3, 2))
    add("shape", "reshape -1", [(2, 3)], lambda x: mg.reshape(x, (-1,)))
    add("shape", "reshape of transposed", [(2, 3)], lambda x: x.T.reshape(2, 3))
    add("shape", "reshape 0-d", [()], lambda x: x.reshape(1, 1))
    add("shape", "ravel", [(2, 3)], lambda x: mg.ravel(x.T))
    add("shape", "flatten", [(2, 3)], lambda x: x.flatten())
    add("shape", "squeeze", [(1, 3, 1)], lambda x: mg.squeeze(x))
    add("shape", "squeeze axis", [(1, 3, 1)], lambda x: mg.squeeze(x, axis=-1))
    add("shape", "expand_dims", [(2, 3)], lambda x: mg.expand_dims(x, 1))
    add("shape", "expand_dims -1", [(2, 3)], lambda x: mg.expand_dims(x, -1))
    add("shape", "broadcast_to", [(3,)], lambda x: mg.broadcast_to(x, (2, 2, 3)))
    add("shape", "broadcast_to from (2,1)", [(2, 1)], lambda x: mg.broadcast_to(x, (3, 2, 4)))
    for k in (1, 2, 3):
        add("shape", "atleast_%dd" % k, [()], (lambda k: lambda x: getattr(mg, "atleast_%dd" % k)(x))(k))
        add("shape", "atleast_%dd 1d" % k, [(3,)], (lambda k: lambda x: getattr(mg, "atleast_%dd" % k)(x))(k))
    add("shape", "transpose", [(2, 3, 2)], lambda x: x.transpose(2, 0, 1))
    add("shape", "transpose neg", [(2, 3, 2)], lambda x: mg.transpose(x, (-1, 0, 1)))
    add("shape", "T", [(2, 3)], lambda x: x.T)
    add("shape", "swapaxes", [(2, 3, 2)], lambda x: mg.swapaxes(x, 0, -1))
    add("shape", "moveaxis", [(2, 3, 2)], lambda x: mg.moveaxis(x, 0, -1))
    add("shape", "moveaxis multi", [(2, 3, 2)], lambda x: mg.moveaxis(x, (0, 1), (-1, 0)))
    for sh, ax in (((4,), None), ((2, 3), 0), ((2, 3), 1), ((2, 3), None), ((2, 3), (0, 1))):
        add("shape", "roll%s axis=%s" % (sh, ax), [sh], (lambda ax: lambda x: mg.roll(x, 1 if not isinstance(ax, tuple) else (1, -2), axis=ax))(ax))
    for rep, ax in ((2, None), (2, 0), (3, 1), ([1, 2, 0], 1), ([2, 1], 0), (0, 0)):
        add("shape", "repeat %s axis=%s" % (rep, ax), [(2, 3)], (lambda rep, ax: lambda x: mg.repeat(x, rep, axis=ax))(rep, ax))
    for ax in (0, 1, -1, None):
        add("shape", "concatenate axis=%s" % ax, [(2, 3), (2, 3), (2, 3)], (lambda ax: lambda *xs: mg.concatenate(xs, axis=ax))(ax))
        if ax is not None:
            add("shape", "stack axis=%s" % ax, [(2, 3), (2, 3)], (lambda ax: lambda *xs: mg.stack(xs, axis=ax))(ax))
    add("shape", "concatenate uneven", [(1, 3), (2, 3)], lambda a, b: mg.concatenate([a, b]))
    add("shape", "concatenate same operand", [(2, 3)], lambda a: mg.concatenate([a, a], axis=1))
    add("shape", "stack axis=2", [(2, 3), (2, 3)], lambda a, b: mg.stack([a, b], axis=2))
    add("shape", "sliding_window_view", [(5,)], lambda x: x[np.arange(3)[:, None] + np.arange(3)[None, :]])

    # ---- nnet layers and losses
    for (xs, ws, kw) in (((1, 1, 5), (1, 1, 2), dict(stride=1)), ((2, 2, 5), (3, 2, 3), dict(stride=2)), ((1, 2, 4, 4), (2, 2, 2, 2), dict(stride=1, padding=1)),
                         ((1, 1, 6), (1, 1, 2), dict(stride=1, dilation=2)), ((1, 2, 5, 4), (1, 2, 3, 2), dict(stride=(2, 1), padding=(1, 0))), ((1, 1, 3, 3, 3), (1, 1, 2, 2, 2), dict(stride=1))):
        add("layer", "conv_nd x%s w%s %s" % (xs, ws, kw), [xs, ws], (lambda kw: lambda x, w: L.conv_nd(x, w, **kw))(kw))
    for xs, pool, st in (((1, 1, 4), (2,), 2), ((2, 2, 5), (2,), 1), ((1, 2, 4, 4), (2, 2), 2), ((2, 1, 5, 4), (3, 2), (2, 1)), ((2, 3, 4), (2,), 2), ((3, 4, 4), (2, 2), 1)):
        add("layer", "max_pool x%s pool%s stride=%s" % (xs, pool, st), [xs], (lambda pool, st: lambda x: L.max_pool(x, pool, st))(pool, st))
    add("layer", "batchnorm", [(3, 2)], lambda x: L.batchnorm(x, eps=1e-3))
    add("layer", "batchnorm gamma beta", [(3, 2), (2,), (2,)], lambda x, g, b: L.batchnorm(x, gamma=g, beta=b, eps=1e-3))
    add("layer", "batchnorm 4d", [(2, 2, 2, 2), (2,), (2,)], lambda x, g, b: L.batchnorm(x, gamma=g, beta=b, eps=1e-2))
    add("layer", "batchnorm gamma only", [(3, 2), (2,)], lambda x, g: L.batchnorm(x, gamma=g, eps=1e-3))
    T_, N_, C_, D_ = 3, 2, 2, 3
    gshapes = [(T_, N_, C_)] + [(C_, D_), (D_, D_), (D_,)] * 3
    add("layer", "gru", gshapes, lambda X, *p: L.gru(X, *p), ["small"] * 10)
    add("layer", "gru s0", gshapes, lambda X, *p: L.gru(X, *p, s0=np.full((N_, D_), 0.3)), ["small"] * 10)
    # bp_lim truncates back-propagation on purpose: not a VJP, not in the catalogue
    labels = lambda: np.array([1, 0, 2])
    add("loss", "softmax_crossentropy", [(3, 4)], lambda x: LS.softmax_crossentropy(x, labels()))
    add("loss", "negative_log_likelihood", [(3, 4)], lambda x: LS.negative_log_likelihood(A.logsoftmax(x), labels()))
    add("loss", "negative_log_likelihood weights", [(3, 4)], lambda x: LS.negative_log_likelihood(A.logsoftmax(x), labels(), weights=np.array([0.5, 1.0, 2.0, 1.5])))
    add("loss", "multiclass_hinge", [(3, 4)], lambda x: LS.multiclass_hinge(x, labels()))
    add("loss", "multiclass_hinge 0.5", [(3, 4)], lambda x: LS.multiclass_hinge(x, labels(), hinge=0.5))
    for al, ga in ((1, 0), (0.5, 2), (2, 0.5), (1, 1)):
        add("loss", "softmax_focal_loss a=%s g=%s" % (al, ga), [(3, 4)], (lambda al, ga: lambda x: LS.softmax_focal_loss(x, labels(), alpha=al, gamma=ga))(al, ga))
        add("loss", "focal_loss a=%s g=%s" % (al, ga), [(3, 4)], (lambda al, ga: lambda x: LS.focal_loss(A.softmax(x), labels(), alpha=al, gamma=ga))(al, ga))
    add("loss", "margin_ranking_loss", [(4,), (4,)], lambda a, b: LS.margin_ranking_loss(a, b, np.array([1, -1, 1, -1]), margin=0.5))
    add("loss", "margin_ranking_loss 2d scalar y", [(3, 2), (3, 2)], lambda a, b: LS.margin_ranking_loss(a, b, 1, margin=0.3))
    return E


LAST_TERMINALS = []

UFUNCS = {"absolute", "arccos", "arccosh", "arcsin", "arcsinh", "arctan", "arctanh", "cbrt", "cos", "cosh", "exp", "exp2", "expm1", "log", "log10", "log1p", "log2", "negative",
          "positive", "reciprocal", "sin", "sinh", "sqrt", "square", "tan", "tanh"}


def _set(y, ix, v):
    y[ix] = v
    return y


# ------------------------------------------------------------------------------------------------
def forward_value(e, arrays, g):
    with mg.no_autodiff:
        out = e.fn(*[mg.tensor(a) for a in arrays])
    return float(np.sum(np.asarray(out.data if isinstance(out, mg.Tensor) else out, dtype=np.float64) * g))


def numeric_grad(e, arrays, g, k, h=2e-3):
    """Richardson-extrapolated central differences of phi(x) = <g, f(x)> w.r.t. operand k"""
    x = arrays[k]
    num = np.zeros(x.shape, dtype=np.float64)
    it = np.nditer(x, flags=["multi_index"])
    for _ in it:
        ix = it.multi_index
        def D(hh):
            ap = [a.copy() for a in arrays]
            am = [a.copy() for a in arrays]
            ap[k][ix] += hh
            am[k][ix] -= hh
            return (forward_value(e, ap, g) - forward_value(e, am, g)) / (2 * hh)
        d1, d2 = D(h), D(h / 2)
        num[ix] = (4 * d2 - d1) / 3
    return num


def relayout(a, layout):
    """same values, another memory layout: 1 = Fortran order, 2 = negative strides, 3 = every other element of a wider buffer"""
    if a.ndim == 0 or layout == 0:
        return a.copy()
    if layout == 1:
        return np.asfortranarray(a) if a.ndim >= 2 else np.ascontiguousarray(a[::-1])[::-1]
    if layout == 2:
        sl = (slice(None, None, -1),) * a.ndim
        return np.ascontiguousarray(a[sl])[sl]
    big = np.zeros(a.shape[:-1] + (2 * a.shape[-1],), dtype=a.dtype)
    big[..., ::2] = a
    return big[..., ::2]


def run_vjp(e, seed, layout=0):
    reset_global_state()
    arrays = operand_arrays(e, seed)
    if layout in (4, 5):
        # two operands over ONE ndarray object: 4 = two tensors (copy=False) wrapping the same array, 5 = a tensor and its own .data passed raw
        if len(arrays) < 2 or arrays[0].shape != arrays[1].shape or arrays[0].dtype != arrays[1].dtype or arrays[0].dtype.kind != "f":
            return {"label": e.label, "family": e.family, "layout": layout, "skipped": "no two float operands of one shape", "errs": []}
        arrays = [arrays[0], arrays[0].copy()] + list(arrays[2:])
        x0 = mg.tensor(arrays[0].copy(), copy=False)
        xs = [x0, mg.tensor(x0.data, copy=False) if layout == 4 else x0.data] + [mg.tensor(a.copy(), copy=False) for a in arrays[2:]]
        try:
            out = e.fn(*xs)
        except Exception as ex:
            return {"label": e.label, "family": e.family, "layout": layout, "skipped": "raises on equal operands: " + type(ex).__name__, "errs": []}
    else:
        xs = [mg.tensor(relayout(a, layout), copy=False) for a in arrays]
        out = e.fn(*xs)
    if not isinstance(out, mg.Tensor) or out.constant:
        return {"label": e.label, "family": e.family, "layout": layout, "skipped": "constant result", "errs": []}
    res = {"label": e.label, "family": e.family, "out_shape": list(out.shape), "sizes": [int(a.size) for a in arrays], "layout": layout}
    rs = np.random.RandomState(seed + 7)
    g = rs.randn(*out.shape) if out.shape else np.asarray(rs.randn())
    g = np.asarray(g, dtype=np.float64)
    out.backward(g.copy())
    errs = []
    for k, x in enumerate(xs):
        if not isinstance(x, mg.Tensor):
            continue
        ana = x.grad
        num = numeric_grad(e, arrays, g, k)
        if ana is None:
            ana = np.zeros_like(num)
            res.setdefault("none_grads", []).append(k)
        if ana.shape != num.shape:
            errs.append({"operand": k, "shape_mismatch": [list(ana.shape), list(num.shape)]})
            continue
        scale = max(1.0, float(np.max(np.abs(num))) if num.size else 1.0)
        err = float(np.max(np.abs(ana - num))) / scale if num.size else 0.0
        if not np.all(np.isfinite(ana)) or not np.all(np.isfinite(num)):
            err = float("inf")
        errs.append({"operand": k, "rel_err": err, "at": [int(i) for i in np.unravel_index(int(np.argmax(np.abs(ana - num))), num.shape)] if num.size else [],
                     "analytic": float(ana.flat[int(np.argmax(np.abs(ana - num)))]) if num.size else None, "numeric": float(num.flat[int(np.argmax(np.abs(ana - num)))]) if num.size else None})
    res["errs"] = errs
    return res


def run_alias(e, seed, variant):
    """variant: 0 all tensors + owning seed; 1 first operand a raw array, non-owning seed; 2 float32, read-only seed copy"""
    reset_global_state()
    dt = np.float32 if variant == 2 else np.float64
    if variant == 4:
        mg.turn_memory_guarding_off()      # nothing is locked: an operation that scribbles on its operands in backward() is not stopped by NumPy
    arrays = operand_arrays(e, seed, dt)
    msgs = []
    owned = [a.copy() for a in arrays]
    snap = [a.copy() for a in owned]
    xs = []
    for k, a in enumerate(owned):
        if variant == 1 and k == 0 and len(owned) > 1:
            xs.append(a)                   # a caller-owned raw array operand
        else:
            xs.append(mg.tensor(a, copy=False) if variant == 1 else mg.tensor(a))
    try:
        out = e.fn(*xs)
    except Exception as ex:
        return {"label": e.label, "skipped": type(ex).__name__}
    if not isinstance(out, mg.Tensor) or out.constant:
        return {"label": e.label, "skipped": "constant"}
    for k, (a, s) in enumerate(zip(owned, snap)):
        if not np.array_equal(a, s, equal_nan=True):
            msgs.append("evaluating the operation modified input %d" % k)
    if variant == 3:
        # no explicit seed: L.backward() on a 0-d terminal; its gradient must be its own array (not shared with earlier terminals)
        L = out if out.ndim == 0 else out.sum()
        try:
            L.backward()
        except Exception as ex:
            return {"label": e.label, "msgs": ["backward() raised %s: %s" % (type(ex).__name__, str(ex)[:80])]}
        for prev in LAST_TERMINALS:
            if prev.grad is not None and L.grad is not None and np.shares_memory(prev.grad, L.grad):
                msgs.append("the gradient of a terminal tensor shares memory with the gradient of the terminal of an earlier, unrelated backward()")
        if L.grad is not None:
            before = [p.grad.copy() for p in LAST_TERMINALS if p.grad is not None]
            L.grad[...] = 7.0
            after = [p.grad for p in LAST_TERMINALS if p.grad is not None]
            if any(not np.array_equal(b, a) for b, a in zip(before, after)):
                msgs.append("editing one terminal's .grad in place changed another terminal's .grad")
            L.grad[...] = 1.0
        LAST_TERMINALS.append(L)
        del LAST_TERMINALS[:-3]
        return {"label": e.label, "family": e.family, "msgs": sorted(set(msgs))}
    rs = np.random.RandomState(seed + 7)
    gbase = np.asarray(rs.randn(*((2,) + tuple(out.shape))), dtype=out.dtype)
    g = gbase[1] if variant == 1 else np.array(gbase[1])
    if g.ndim == 0 and variant == 1:
        g = gbase[1:2].reshape(())
    gsnap, gbsnap = g.copy(), gbase.copy()
    tens = [x for x in xs if isinstance(x, mg.Tensor)] + [out]
    dsnap = [t.data.copy() for t in tens]
    try:
        out.backward(g)
    except Exception as ex:
        return {"label": e.label, "msgs": ["backward(seed) raised %s: %s" % (type(ex).__name__, str(ex)[:80])]}
    if not np.array_equal(g, gsnap, equal_nan=True) or not np.array_equal(gbase, gbsnap, equal_nan=True):
        msgs.append("backward(grad) modified the gradient array passed by the caller")
    for t, s in zip(tens, dsnap):
        if not np.array_equal(t.data, s, equal_nan=True):
            msgs.append("backward() changed a tensor's data")
    for k, (a, s) in enumerate(zip(owned, snap)):
        if not np.array_equal(a, s, equal_nan=True):
            msgs.append("backward() modified input %d" % k)
    gr = [(i, t) for i, t in enumerate(tens) if t.grad is not None]
    for (i, a), (j, b) in itertools.combinations(gr, 2):
        if np.shares_memory(a.grad, b.grad) and not np.shares_memory(a.data, b.data):
            msgs.append("gradients of two tensors that do not share memory share memory (tensors %d, %d)" % (i, j))
    for i, a in gr:
        if a is not out and (np.shares_memory(a.grad, g) or np.shares_memory(a.grad, gbase)):
            # (out.grad may be the seed array itself: MyGrad adopts an owning seed of the right layout)
            msgs.append("a gradient shares memory with the caller's seed array (tensor %d)" % i)
        for t in tens:
            if np.shares_memory(a.grad, t.data):
                msgs.append("a gradient shares memory with tensor data")
        for a0 in owned:
            if np.shares_memory(a.grad, a0) and variant != 1:
                msgs.append("a gradient shares memory with a caller-owned input array")
    # copies own their data and their gradient
    import copy as _copy
    for i, a in gr:
        for how, c in (("copy()", a.copy()), ("copy.copy", _copy.copy(a)), ("copy.deepcopy", _copy.deepcopy(a))):
            if c.grad is not None and (np.shares_memory(c.grad, a.grad) or np.shares_memory(c.grad, g) or np.shares_memory(c.grad, gbase)):
                msgs.append("%s of a tensor shares its gradient array with the original / the seed" % how)
            if np.shares_memory(c.data, a.data):
                msgs.append("%s of a tensor shares its data with the original" % how)
        before = a.grad.copy()
        others = [(j, b.grad.copy(), b.data.copy()) for j, b in gr if j != i]
        try:
            a.grad[...] = 123.0
        except ValueError:
            continue
        for (j, og, od), (_, b) in zip(others, [p for p in gr if p[0] != i]):
            if not np.array_equal(b.grad, og, equal_nan=True) and not np.shares_memory(a.data, b.data):
                msgs.append("editing one tensor's .grad in place changed another tensor's .grad")
            if not np.array_equal(b.data, od, equal_nan=True):
                msgs.append("editing a .grad in place changed tensor data")
        if a is not out and not np.array_equal(g, gsnap, equal_nan=True):
            msgs.append("editing a .grad in place changed the caller's seed array")
        a.grad[...] = before
    return {"label": e.label, "family": e.family, "msgs": sorted(set(msgs))}


MIXES = {0: lambda k: "float32", 1: lambda k: "float32" if k == 0 else "float64", 2: lambda k: "float64" if k == 0 else "float32", 3: lambda k: "float16" if k == 0 else "float64",
         4: lambda k: "float64"}


def run_gradtype(e, seed, mix):
    """C14 invariant for every operation: after backward every operand's .grad is a numpy.ndarray with exactly that operand's shape and dtype,
    whatever mixture of float precisions the operands have (mix: see MIXES)"""
    reset_global_state()
    arrays = operand_arrays(e, seed)
    xs = [mg.tensor(a.astype(MIXES[mix](k))) for k, a in enumerate(arrays)]
    try:
        out = e.fn(*xs)
    except Exception as ex:
        return {"label": e.label, "family": e.family, "skipped": "forward raised " + type(ex).__name__}
    if not isinstance(out, mg.Tensor) or out.constant:
        return {"label": e.label, "family": e.family, "skipped": "constant"}
    msgs = []
    try:
        (out if out.ndim == 0 else out.sum()).backward()
    except Exception as ex:
        return {"label": e.label, "family": e.family, "msgs": ["backward raised %s: %s" % (type(ex).__name__, str(ex)[:80])]}
    for k, x in enumerate(xs + [out]):
        g = x.grad
        if g is None:
            continue
        if type(g) is not np.ndarray:
            msgs.append("operand %d: .grad is a %s, not a numpy.ndarray" % (k, type(g).__name__))
        elif g.dtype != x.dtype or g.shape != x.shape:
            msgs.append("%s: .grad has dtype %s shape %s, the tensor %s %s" % ("operand %d" % k if k < len(xs) else "result", g.dtype, g.shape, x.dtype, x.shape))
    return {"label": e.label, "family": e.family, "msgs": msgs}


def run_untracked(e, seed, mix):
    """C15 for every operation: inside no_autodiff the result has the same values and dtype as with tracking on (mixed operand precisions included)"""
    reset_global_state()
    arrays = operand_arrays(e, seed)

    def call(tracked):
        xs = [mg.tensor(a.astype(MIXES[mix](k))) for k, a in enumerate(arrays)]
        if tracked:
            return e.fn(*xs)
        with mg.no_autodiff:
            return e.fn(*xs)
    try:
        a = call(True)
    except Exception as ex:
        a = ex
    try:
        b = call(False)
    except Exception as ex:
        b = ex
    if isinstance(a, Exception) or isinstance(b, Exception):
        if isinstance(a, Exception) != isinstance(b, Exception):
            return {"label": e.label, "family": e.family, "msgs": ["raises only %s graph tracking: %s" % ("with" if isinstance(a, Exception) else "without", a if isinstance(a, Exception) else b)]}
        return {"label": e.label, "family": e.family, "skipped": "raises"}
    da, db = np.asarray(a.data if isinstance(a, mg.Tensor) else a), np.asarray(b.data if isinstance(b, mg.Tensor) else b)
    msgs = []
    if da.dtype != db.dtype or da.shape != db.shape:
        msgs.append("untracked result has dtype %s shape %s, tracked %s %s" % (db.dtype, db.shape, da.dtype, da.shape))
    elif not np.array_equal(da, db, equal_nan=True):
        msgs.append("untracked values differ from the tracked ones (max abs diff %g)" % float(np.nanmax(np.abs(da.astype(np.float64) - db.astype(np.float64)))))
    if isinstance(b, mg.Tensor) and b.creator is not None:
        msgs.append("an operation inside no_autodiff recorded a creator")
    return {"label": e.label, "family": e.family, "msgs": msgs}


def run_const(e, seed, variant):
    """C10 for every operation: arrays and constant tensors are constants; the result is constant exactly when every input is.
    variant 0: all operands raw arrays; 1: all constant tensors; 2: operand 0 a non-constant tensor, the others raw arrays;
    3: operand 0 a constant tensor, the others raw arrays; 4: last operand non-constant, the others constant tensors"""
    reset_global_state()
    if e.label.endswith(" where") or e.label.startswith("setitem"):
        return {"label": e.label, "family": e.family, "skipped": "in-place target (keeps its own flag: covered by the in-place cells of the lattice)"}
    arrays = [values(s, seed, d, j) for j, (s, d) in enumerate(zip(e.shapes, e.domains))]
    n = len(arrays)
    if variant == 0:
        ops, flags = [a.copy() for a in arrays], [True] * n
    elif variant == 1:
        ops, flags = [mg.tensor(a, constant=True) for a in arrays], [True] * n
    elif variant == 2:
        ops, flags = [mg.tensor(arrays[0])] + [a.copy() for a in arrays[1:]], [False] + [True] * (n - 1)
    elif variant == 3:
        ops, flags = [mg.tensor(arrays[0], constant=True)] + [a.copy() for a in arrays[1:]], [True] * n
    else:
        ops, flags = [mg.tensor(a, constant=True) for a in arrays[:-1]] + [mg.tensor(arrays[-1])], [True] * (n - 1) + [False]
    try:
        out = e.fn(*ops)
    except Exception as ex:
        return {"label": e.label, "family": e.family, "skipped": type(ex).__name__}
    if not isinstance(out, mg.Tensor):
        return {"label": e.label, "family": e.family, "skipped": "not a tensor: " + type(out).__name__}
    msgs = []
    want = all(flags)
    if bool(out.constant) != want:
        msgs.append("result.constant is %s although %s" % (out.constant, "every input is a constant (arrays / constant tensors)" if want else "an input is a non-constant tensor"))
    if not out.constant and out.dtype.kind == "f":
        try:
            out.backward()
        except Exception as ex:
            msgs.append("backward raised %s" % type(ex).__name__)
        for o, c in zip(ops, flags):
            if isinstance(o, mg.Tensor) and c and o.grad is not None:
                msgs.append("a constant input tensor holds a gradient after backward()")
    elif out.constant and out.grad is not None:
        msgs.append("a constant result holds a gradient")
    return {"label": e.label, "family": e.family, "msgs": msgs}


def _census():
    import gc
    objs = gc.get_objects()
    n_t = sum(1 for o in objs if issubclass(type(o), mg.Tensor))
    n_o = sum(1 for o in objs if issubclass(type(o), mg.operation_base.Operation))
    del objs
    return n_t, n_o


def _release_body(e, seed, owned, kind):
    """builds the graph on tensors over the caller's arrays (copy=False) through NON-LEAF intermediates, back-propagates, returns nothing:
    when this function returns every local is gone"""
    leaves = [mg.tensor(a, copy=False) for a in owned]
    xs = [t * 1.0 for t in leaves] if kind in (0, 3) else list(leaves)
    cst = None
    if kind == 3:
        # one operand is a CONSTANT tensor that is itself the output of an operation (a stop-gradient): backward() releases the graph through it as well
        if len(xs) < 2:
            return "skipped"
        cst = mg.multiply(leaves[-1], 1.0, constant=True)
        xs[-1] = cst
    out = e.fn(*xs)
    if not isinstance(out, mg.Tensor) or out.constant:
        return "skipped"
    L = out if out.ndim == 0 else (out * 1.0).sum()
    if kind == 2:
        return "dropped-without-backward"
    L.backward()
    if cst is not None and (cst.creator is not None or any(t.creator is not None for t in xs if isinstance(t, mg.Tensor))):
        return "an operand upstream of backward() (the constant one: %s) still has its creator" % (cst.creator is not None)
    return "backward"


def run_release(e, seed, kind):
    """C07 / C08 for every operation.  kind 0: operands are intermediates, backward(); kind 1: operands are leaves, backward(); kind 2: the results are
    dropped without backward().  Afterwards, with the cyclic GC disabled: no Tensor / Operation object survives, every caller array has its original
    writeable flag, and no live array keeps a positive lock count."""
    import gc
    import mygrad._utils.lock_management as _mem
    reset_global_state()
    gc.collect()
    gc.disable()
    base = _census()
    owned = operand_arrays(e, seed)
    try:
        how = _release_body(e, seed, owned, kind)
    except Exception as ex:
        how = "raised:" + type(ex).__name__
    now = _census()
    msgs = []
    if how.startswith("an operand upstream"):
        msgs.append(how)
    if how in ("backward", "dropped-without-backward"):
        if now != base:
            msgs.append("%d tensor(s) and %d operation(s) are still alive after %s and dropping every reference (cyclic GC disabled)" % (now[0] - base[0], now[1] - base[1], how))
        for k, a in enumerate(owned):
            if not a.flags.writeable:
                msgs.append("caller array %d is still read-only after %s and dropping every reference" % (k, how))
        live_locked = sum(1 for key, r in _mem._array_tracker.items() if r() is not None and _mem._array_counter.get(key, 0) > 0)
        if live_locked:
            msgs.append("%d live array(s) keep a positive lock count at quiescence" % live_locked)
    gc.collect()
    return {"label": e.label, "family": e.family, "how": how, "msgs": msgs}


def run_retry(e, seed, k):
    """second pass after an aborted one: operand k is W = 2 * P, shared with a second graph whose backward() clears W; L = <C, f(.., W, ..)>.
    L.backward() aborts with InvalidBackprop AFTER the operation's own backward ran; W is then re-used and L.backward() is called again:
    it must raise again, or leave exactly dL/dW of the recorded forward pass in W.grad (operations must not consume per-pass state)"""
    from mygrad.errors import InvalidBackprop
    reset_global_state()
    arrays = [values(s, seed, d, j) for j, (s, d) in enumerate(zip(e.shapes, e.domains))]

    def build():
        xs = [mg.tensor(a.copy()) for a in arrays]
        P = mg.tensor(arrays[k] / 2.0)
        W = 2.0 * P
        ops = list(xs)
        ops[k] = W * 1.0          # one operation between W and f: the aborted pass gets through f's own backward before it reaches the cleared W
        out = e.fn(*ops)
        return P, W, out
    P0, W0, out0 = build()
    if not isinstance(out0, mg.Tensor) or out0.constant:
        return {"label": e.label, "family": e.family, "outcome": "identity"}
    rs = np.random.RandomState(seed + 11)
    C = np.asarray(rs.randn(*out0.shape) if out0.shape else rs.randn(), dtype=out0.dtype) + 1.7
    (out0 * C).sum().backward()
    expected = None if W0.grad is None else W0.grad.copy()
    P, W, out = build()
    L = (out * C).sum()
    other = (W * 3.0).sum()
    other.backward()
    first = "returned"
    try:
        L.backward()
    except InvalidBackprop:
        first = "InvalidBackprop"
    except Exception as ex:
        return {"label": e.label, "family": e.family, "outcome": "first-pass-raised:" + type(ex).__name__}
    W2 = W * 1.0          # re-use of the cleared tensor
    try:
        L.backward()
    except InvalidBackprop:
        return {"label": e.label, "family": e.family, "outcome": "InvalidBackprop-again", "first": first}
    except Exception as ex:
        return {"label": e.label, "family": e.family, "outcome": "second-pass-raised:" + type(ex).__name__, "first": first, "msg": str(ex)[:100]}
    got = W.grad
    ok = (got is None and expected is None) or (got is not None and expected is not None and got.shape == expected.shape and np.allclose(got, expected, rtol=1e-9, atol=1e-12))
    return {"label": e.label, "family": e.family, "outcome": "second-pass-exact" if ok else "second-pass-wrong", "first": first,
            "got": None if got is None else np.asarray(got).ravel()[:6].tolist(), "expected": None if expected is None else np.asarray(expected).ravel()[:6].tolist()}


def run_mutate(e, seed, k, how):
    """in-place update AFTER the forward pass (C05): operand k is an intermediate W = 2 * P; out = f(.., W, ..); then W is overwritten in place
    (how 0: W[...] = other values of its domain, 1: W *= 1.5 / through a view for how 2, 3: mg.multiply(W, 1.5, out=W)); L = <C, out>.backward():
    P.grad and the gradients of the other operands must be those of the program without the update (out read the pre-mutation values)"""
    reset_global_state()
    arrays = [values(s, seed, d, j) for j, (s, d) in enumerate(zip(e.shapes, e.domains))]
    repl = arrays[k] * 1.25 + 0.5        # (nothing reads the new values: they need not lie in the operation's domain)

    def build():
        xs = [mg.tensor(a.copy()) for a in arrays]
        P = mg.tensor(arrays[k] / 2.0)
        W = 2.0 * P
        ops = list(xs)
        ops[k] = W
        out = e.fn(*ops)
        return xs, P, W, out
    xs0, P0, W0, out0 = build()
    if not isinstance(out0, mg.Tensor) or out0.constant or out0 is W0:
        return {"label": e.label, "family": e.family, "outcome": "identity"}
    if out0.base is not None or np.shares_memory(out0.data, W0.data):
        return {"label": e.label, "family": e.family, "outcome": "view"}          # a view follows the update of its base: C04's subject
    rs = np.random.RandomState(seed + 11)
    C = np.asarray(rs.randn(*out0.shape) if out0.shape else rs.randn(), dtype=out0.dtype) + 1.7
    (out0 * C).sum().backward()
    expected = [None if t.grad is None else t.grad.copy() for t in [P0] + [x for j, x in enumerate(xs0) if j != k]]
    xs, P, W, out = build()
    try:
        if how == 0:
            W[...] = repl
        elif how == 1:
            W *= 1.5
        elif how == 2:
            v = W[...]
            v *= 1.5
        else:
            mg.multiply(W, 1.5, out=W)
    except Exception as ex:
        return {"label": e.label, "family": e.family, "outcome": "update-raised:" + type(ex).__name__}
    try:
        (out * C).sum().backward()
    except Exception as ex:
        return {"label": e.label, "family": e.family, "outcome": "backward-raised:" + type(ex).__name__, "msg": str(ex)[:100]}
    got = [t.grad for t in [P] + [x for j, x in enumerate(xs) if j != k]]
    for i, (g, x) in enumerate(zip(got, expected)):
        ok = (g is None and x is None) or (g is not None and x is not None and g.shape == x.shape and np.allclose(g, x, rtol=1e-9, atol=1e-12))
        if not ok:
            return {"label": e.label, "family": e.family, "outcome": "wrong-gradient", "which": "the updated operand's source" if i == 0 else "another operand",
                    "got": None if g is None else np.asarray(g).ravel()[:6].tolist(), "expected": None if x is None else np.asarray(x).ravel()[:6].tolist()}
    return {"label": e.label, "family": e.family, "outcome": "exact"}


def run_stale(e, seed, k, inplace=False):
    """(inplace=True: the shared intermediate is additionally updated in place, W[...] = W + 1, after the other graph's backward() and before
    the loss's backward(): "whatever happened in between (in-place updates ...)".)
    C09 scenario for every operation: operand k is an intermediate W = 2 * P shared with a second graph; the second graph is
    back-propagated first (which clears W), then the loss through the operation: InvalidBackprop, or exactly the recorded gradient."""
    from mygrad.errors import InvalidBackprop
    reset_global_state()
    arrays = [values(s, seed, d, j) for j, (s, d) in enumerate(zip(e.shapes, e.domains))]

    def build(shared):
        xs = [mg.tensor(a.copy()) for a in arrays]
        P = mg.tensor(arrays[k] / 2.0)
        W = 2.0 * P
        ops = list(xs)
        ops[k] = W
        out = e.fn(*ops)
        return P, W, out
    P0, W0, out0 = build(False)
    g = np.random.RandomState(seed + 7).randn(*out0.shape) if out0.shape else np.asarray(np.random.RandomState(seed + 7).randn())
    out0.backward(np.asarray(g, dtype=out0.dtype))
    expected = None if P0.grad is None else P0.grad.copy()
    P, W, out = build(True)
    if out is W:
        return {"label": e.label, "family": e.family, "outcome": "identity"}       # the operation returned its operand: there is no second graph
    other = (W * 3.0).sum()
    other.backward()
    other_grad = P.grad.copy()
    if inplace:
        try:
            W[...] = W.data + 1.0
        except Exception as ex:
            return {"label": e.label, "family": e.family, "outcome": "inplace-refused:" + type(ex).__name__}
    try:
        out.backward(np.asarray(g, dtype=out.dtype))
    except InvalidBackprop:
        return {"label": e.label, "family": e.family, "outcome": "InvalidBackprop"}
    except Exception as ex:
        return {"label": e.label, "family": e.family, "outcome": "raised:" + type(ex).__name__, "msg": str(ex)[:120]}
    got = P.grad
    ok = (got is None and expected is None) or (got is not None and expected is not None and got.shape == expected.shape and np.allclose(got, expected, rtol=1e-9, atol=1e-12))
    return {"label": e.label, "family": e.family, "outcome": "silent-correct" if ok else "silent-wrong",
            "got": None if got is None else got.tolist(), "expected": None if expected is None else expected.tolist()}


def _warm_up():
    """numba keeps the frames of the call that triggers its first JIT compilation alive (its dispatcher frame _compile_for_args survives), and with them
    that call's tensors, operation and locked arrays: compile the jitted helpers of the GRU layer once, on throw-away operands, before anything is counted
    (recorded as a known finding; it is the first call only -- later calls release everything)"""
    rs = np.random.RandomState(0)
    for dt in (np.float64, np.float32):
        ts = [mg.tensor(rs.randn(2, 1, 2).astype(dt))] + [mg.tensor((rs.randn(*s) * 0.5).astype(dt)) for s in [(2, 2), (2, 2), (2,)] * 3]
        L.gru(*ts).sum().backward()
        L.gru(*ts, s0=np.zeros((1, 2), dtype=dt)).sum().backward()


def main():
    payload = read_payload()
    E = catalog()
    if any(t.get("mode") == "release" for t in payload.get("tasks", [])):
        _warm_up()
    if payload.get("list"):
        emit({"n": len(E), "labels": [e.label for e in E], "families": [e.family for e in E]})
        return
    out = []
    for t in payload["tasks"]:
        e = E[t["index"]]
        if e.only is not None and t["mode"] not in e.only:
            out.append({"label": e.label, "family": e.family, "skipped": "entry not meant for this mode", "errs": [], "outcome": "identity", "msgs": []})
            continue
        try:
            if t["mode"] == "vjp":
                out.append(run_vjp(e, t.get("seed", 0), t.get("layout", 0)))
            elif t["mode"] == "gradtype":
                out.append(run_gradtype(e, t.get("seed", 0), t.get("mix", 0)))
            elif t["mode"] == "untracked":
                out.append(run_untracked(e, t.get("seed", 0), t.get("mix", 0)))
            elif t["mode"] == "release":
                out.append(run_release(e, t.get("seed", 0), t.get("kind", 0)))
            elif t["mode"] == "mutate":
                out.append(run_mutate(e, t.get("seed", 0), t.get("operand", 0) % len(e.shapes), t.get("how", 0)))
            elif t["mode"] == "retry":
                out.append(run_retry(e, t.get("seed", 0), t.get("operand", 0) % len(e.shapes)))
            elif t["mode"] == "const":
                out.append(run_const(e, t.get("seed", 0), t.get("variant", 0)))
            elif t["mode"] == "stale":
                out.append(run_stale(e, t.get("seed", 0), t.get("operand", 0) % len(e.shapes)))
            elif t["mode"] == "stale_ip":
                out.append(run_stale(e, t.get("seed", 0), t.get("operand", 0) % len(e.shapes), inplace=True))
            else:
                out.append(run_alias(e, t.get("seed", 0), t.get("variant", 0)))
        except Exception:
            import traceback
            out.append({"label": e.label, "harness_error": traceback.format_exc()[-1200:]})
    emit({"results": out})


main()
