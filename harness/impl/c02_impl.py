"""C02 scalar tie: runs an element-wise Operation CLASS of MyGrad (addressed by source file and class name, as the translator saw it)
on given points through Tensor._op, back-propagates a given gradient, and returns forward values and the gradient of every operand."""
import importlib
import warnings

from implbase import *  # noqa: F401,F403
from implbase import emit, mg, np, read_payload, reset_global_state

warnings.filterwarnings("ignore")
np.seterr(all="ignore")


def lane_task(t):
    """a reduction / softmax-family call with given options on a given array; returns the gradient for a given incoming gradient"""
    import mygrad.nnet.activations as A
    import mygrad.nnet.losses as LS
    x = mg.tensor(np.array(t["x"], dtype=np.float64).reshape(t["shape"]))
    ax = t.get("axis")
    ax = tuple(ax) if isinstance(ax, list) else ax
    fn = t["fn"]
    if fn in ("sum", "mean", "prod"):
        r = getattr(mg, fn)(x, axis=ax, keepdims=t.get("keepdims", False))
    elif fn in ("var", "std"):
        r = getattr(mg, fn)(x, axis=ax, keepdims=t.get("keepdims", False), ddof=t.get("ddof", 0))
    elif fn == "softmax":
        r = A.softmax(x, axis=ax)
    elif fn == "logsoftmax":
        r = A.logsoftmax(x, axis=ax)
    elif fn == "softmax_crossentropy":
        r = LS.softmax_crossentropy(x, np.array(t["labels"]))
    elif fn == "cumprod":
        r = mg.cumprod(x, axis=ax)
    elif fn == "multiclass_hinge":
        r = LS.multiclass_hinge(x, np.array(t["labels"]), hinge=t["hinge"])
    elif fn == "focal_loss":
        r = LS.focal_loss(x, np.array(t["labels"]), alpha=t["alpha"], gamma=t["gamma"])
    elif fn == "margin_ranking_loss":
        x2 = mg.tensor(np.array(t["x2"], dtype=np.float64).reshape(t["shape"]))
        r = LS.margin_ranking_loss(x, x2, np.array(t["y"]) if isinstance(t["y"], list) else t["y"], margin=t["margin"])
        g = np.array(t["g"], dtype=np.float64).reshape(r.shape)
        r.backward(g)
        return {"out_shape": list(r.shape), "out": r.data.ravel().tolist(), "grad": x.grad.ravel().tolist(), "grad2": x2.grad.ravel().tolist()}
    elif fn == "norm":
        r = mg.linalg.norm(x, ord=t.get("ord"), axis=ax, keepdims=t.get("keepdims", False))
    elif fn == "batchnorm":
        from mygrad.nnet.layers import batchnorm
        gamma = mg.tensor(np.array(t["gamma"], dtype=np.float64)) if t.get("gamma") is not None else None
        beta = mg.tensor(np.array(t["beta"], dtype=np.float64)) if t.get("beta") is not None else None
        r = batchnorm(x, gamma=gamma, beta=beta, eps=t["eps"])
        g = np.array(t["g"], dtype=np.float64).reshape(r.shape)
        r.backward(g)
        return {"out_shape": list(r.shape), "out": r.data.ravel().tolist(), "grad": x.grad.ravel().tolist(),
                "gamma_grad": None if gamma is None else gamma.grad.ravel().tolist(), "beta_grad": None if beta is None else beta.grad.ravel().tolist()}
    else:
        raise ValueError(fn)
    g = np.array(t["g"], dtype=np.float64).reshape(r.shape)
    r.backward(g)
    return {"out_shape": list(r.shape), "out": r.data.ravel().tolist(), "grad": x.grad.ravel().tolist()}


def main():
    payload = read_payload()
    out = []
    for t in payload["tasks"]:
        reset_global_state()
        if t.get("kind") == "lane":
            try:
                out.append(lane_task(t))
            except Exception as e:
                import traceback
                out.append({"error": "%s: %s" % (type(e).__name__, str(e)[:200]), "tb": traceback.format_exc()[-600:]})
            continue
        try:
            mod = importlib.import_module("mygrad." + t["source"][:-3].replace("/", "."))
            cls = getattr(mod, t["name"])
            xs = [mg.tensor(np.array(v, dtype=np.float64)) for v in t["operands"]]
            r = mg.Tensor._op(cls, *xs, op_args=tuple(t.get("params", [])))
            g = np.array(t["g"], dtype=np.float64)
            r.backward(g)
            out.append({"fwd": r.data.tolist(), "grads": [None if x.grad is None else x.grad.tolist() for x in xs]})
        except Exception as e:
            import traceback
            out.append({"error": "%s: %s" % (type(e).__name__, str(e)[:200]), "tb": traceback.format_exc()[-600:]})
    emit({"results": out})


main()
