"""C16 implementation runner: sliding_window_view / conv_nd / max_pool on configurations, with the
direct property oracle (element map, read-only, memory bounds, naive nested-loop values)."""
import itertools

from implbase import *  # noqa: F401,F403
from implbase import emit, exn_class, mg, np, read_payload
from mygrad.nnet.layers import conv_nd, max_pool
from mygrad.nnet.layers.utils import sliding_window_view

try:
    from numpy.lib.array_utils import byte_bounds
except Exception:  # pragma: no cover
    from numpy import byte_bounds


def make_array(shape, layout, dtype):
    n = int(np.prod(shape)) if len(shape) else 1
    dt = np.dtype(dtype)
    if layout == "C":
        a = np.arange(n, dtype=dt).reshape(shape)
    elif layout == "F":
        a = np.asfortranarray(np.arange(n, dtype=dt).reshape(shape))
    elif layout == "strided":  # every other element along the last axis of a larger buffer
        big = np.arange(int(np.prod(shape[:-1])) * (2 * shape[-1] + 1), dtype=dt).reshape(tuple(shape[:-1]) + (2 * shape[-1] + 1,))
        a = big[..., 1::2][..., :shape[-1]]
    elif layout == "transposed":
        a = np.arange(n, dtype=dt).reshape(shape[::-1]).T
    elif layout == "bcast0":  # trailing unit axis with a zero stride (C-contiguous by NumPy's relaxed rule)
        assert shape[-1] == 1
        base = np.arange(int(np.prod(shape[:-1])), dtype=dt).reshape(shape[:-1])
        a = np.lib.stride_tricks.as_strided(base, shape=shape, strides=base.strides + (0,))
    elif layout == "newaxis":  # trailing unit axis made with None-indexing
        assert shape[-1] == 1
        a = np.arange(int(np.prod(shape[:-1])), dtype=dt).reshape(shape[:-1])[..., None]
    elif layout == "negstride":
        a = np.arange(n, dtype=dt).reshape(shape)[..., ::-1]
    else:
        raise ValueError(layout)
    assert a.shape == tuple(shape), (a.shape, shape, layout)
    return a


def owner(a):
    while isinstance(a.base, np.ndarray):
        a = a.base
    return a


def swv_task(t):
    shape, layout, dtype = t["shape"], t["layout"], t["dtype"]
    arr = make_array(shape, layout, dtype)
    ref = arr.copy()
    kw = {}
    window = tuple(t["window"])
    step = t["step"] if isinstance(t["step"], int) else tuple(t["step"])
    dil = t["dilation"]
    if dil is not None and not isinstance(dil, int):
        dil = tuple(dil)
    res = {"accepted": False, "exc": None, "shape": None, "estrides": None, "oracle": []}
    try:
        out = sliding_window_view(arr, window_shape=window, step=step, dilation=dil)
    except Exception as e:
        res["exc"] = exn_class(e)
        return res
    res["accepted"] = True
    res["shape"] = [int(i) for i in out.shape]
    isz = arr.itemsize
    res["estrides"] = [int(s) // isz if int(s) % isz == 0 else None for s in out.strides]
    fails = res["oracle"]
    if out.flags.writeable:
        fails.append("view is writeable")
    k = len(window)
    S = [step] * k if isinstance(step, int) else list(step)
    D = [1] * k if dil is None else ([dil] * k if isinstance(dil, int) else list(dil))
    # memory bounds: everything the view can address lies inside the memory of the array it views
    if out.size and np.may_share_memory(out, arr):
        lo, hi = byte_bounds(out)
        olo, ohi = byte_bounds(arr)
        if lo < olo or hi > ohi:
            fails.append("view exposes memory outside arr: [%d,%d) vs [%d,%d)" % (lo, hi, olo, ohi))
    # element map  out[g.., n.., w..] == arr[n.., g*S + w*D]
    nlead = len(shape) - k
    bad = 0
    if len(out.shape) != 2 * k + nlead:
        fails.append("rank of the view is %d, expected %d" % (out.ndim, 2 * k + nlead))
    else:
        for idx in itertools.product(*[range(n) for n in out.shape]):
            g, n, w = idx[:k], idx[k:k + nlead], idx[k + nlead:]
            src = tuple(n) + tuple(gi * si + wi * di for gi, si, wi, di in zip(g, S, w, D))
            if any(j >= m for j, m in zip(src, shape)):
                bad += 1
                continue
            if out[idx] != ref[src]:
                bad += 1
        if bad:
            fails.append("%d of %d elements differ from arr[n.., g*step + w*dilation]" % (bad, out.size))
    if not np.array_equal(arr, ref):
        fails.append("input array modified")
    return res


def naive_conv(x, w, stride, padding, dilation):
    N, C = x.shape[:2]
    F = w.shape[0]
    nd = x.ndim - 2
    xp = np.pad(x, [(0, 0), (0, 0)] + [(p, p) for p in padding])
    G = [(xp.shape[2 + i] - ((w.shape[2 + i] - 1) * dilation[i] + 1)) // stride[i] + 1 for i in range(nd)]
    out = np.zeros((N, F) + tuple(G), dtype=np.result_type(x, w))
    for n in range(N):
        for f in range(F):
            for g in itertools.product(*[range(i) for i in G]):
                acc = 0
                for c in range(C):
                    for wi in itertools.product(*[range(i) for i in w.shape[2:]]):
                        pos = tuple(g[i] * stride[i] + wi[i] * dilation[i] for i in range(nd))
                        acc += xp[(n, c) + pos] * w[(f, c) + wi]
                out[(n, f) + g] = acc
    return out


def conv_task(t):
    xs, ps, Ws, Ss, Ds = t["xs"], t["ps"], t["Ws"], t["Ss"], t["Ds"]
    N, C, F = t["N"], t["C"], t["F"]
    rng = np.random.RandomState(t["seed"])
    x = rng.randint(-4, 5, size=(N, C) + tuple(xs)).astype(np.float64)
    w = rng.randint(-3, 4, size=(F, C) + tuple(Ws)).astype(np.float64)
    if t.get("xdt") or t.get("wdt"):
        # mixed operand dtypes: integer images, fractional filter taps (exactly representable quarters): the result is the documented sum in the common dtype
        xdt, wdt = np.dtype(t.get("xdt", "float64")), np.dtype(t.get("wdt", "float64"))
        x = (np.abs(x) if xdt.kind == "u" else x).astype(xdt)
        w = (w / 4.0).astype(wdt) if wdt.kind == "f" else w.astype(wdt)
    res = {"accepted": False, "exc": None, "out": None, "oracle": []}
    x0, w0 = x.copy(), w.copy()
    try:
        out = conv_nd(x, w, stride=tuple(Ss), padding=tuple(ps), dilation=tuple(Ds))
    except Exception as e:
        res["exc"] = exn_class(e)
        return res
    res["accepted"] = True
    res["out"] = [int(i) for i in out.shape[2:]]
    try:
        ref = naive_conv(x0, w0, Ss, ps, Ds)
        if out.shape != ref.shape:
            res["oracle"].append("shape %s differs from the naive formula's %s" % (out.shape, ref.shape))
        elif out.dtype != ref.dtype and (t.get("xdt") or t.get("wdt")):
            res["oracle"].append("result dtype %s, the operands' common dtype is %s" % (out.dtype, ref.dtype))
        elif not (np.array_equal(out.data, ref) if ref.dtype != np.float32 else np.allclose(out.data, ref, rtol=1e-5, atol=1e-5)):
            res["oracle"].append("values differ from the naive nested sum (max abs diff %g)" % float(np.abs(out.data.astype(np.float64) - ref.astype(np.float64)).max()))
    except Exception as e:
        res["oracle"].append("naive evaluation impossible for an accepted configuration: %r" % (e,))
    if not (np.array_equal(x, x0) and np.array_equal(w, w0)):
        res["oracle"].append("inputs modified")
    return res


def swv_nonint_task(t):
    """a window / step / dilation SEQUENCE with a non-integer entry is refused (it is not silently truncated)"""
    arr = np.arange(float(np.prod(t["shape"]))).reshape(t["shape"])
    try:
        out = sliding_window_view(arr, window_shape=tuple(t["window"]), step=t["step"], dilation=t["dilation"])
    except Exception as e:
        return {"raised": exn_class(e), "oracle": []}
    return {"raised": None, "oracle": ["accepted a non-integer entry: window=%s step=%s dilation=%s -> view of shape %s" % (t["window"], t["step"], t["dilation"], out.shape)]}


def naive_pool(x, pool, stride):
    k = len(pool)
    lead = x.shape[:x.ndim - k]
    xs = x.shape[x.ndim - k:]
    G = [(xs[i] - pool[i]) // stride[i] + 1 for i in range(k)]
    out = np.zeros(tuple(lead) + tuple(G), dtype=x.dtype)
    for n in itertools.product(*[range(i) for i in lead]):
        for g in itertools.product(*[range(i) for i in G]):
            sl = tuple(slice(g[i] * stride[i], g[i] * stride[i] + pool[i]) for i in range(k))
            out[n + g] = x[n + sl].max()
    return out


def pool_task(t):
    lead, xs, Ps, Ss = t["lead"], t["xs"], t["Ps"], t["Ss"]
    rng = np.random.RandomState(t["seed"])
    x = rng.randint(-9, 10, size=tuple(lead) + tuple(xs)).astype(np.float64)
    x0 = x.copy()
    res = {"accepted": False, "exc": None, "out": None, "oracle": []}
    try:
        out = max_pool(x, tuple(Ps), tuple(Ss))
    except Exception as e:
        res["exc"] = exn_class(e)
        return res
    res["accepted"] = True
    res["out"] = [int(i) for i in out.shape[len(lead):]]
    try:
        ref = naive_pool(x0, Ps, Ss)
        if out.shape != ref.shape or not np.array_equal(out.data, ref):
            res["oracle"].append("max_pool differs from the naive window maximum")
    except Exception as e:
        res["oracle"].append("naive evaluation impossible for an accepted configuration: %r" % (e,))
    if not np.array_equal(x, x0):
        res["oracle"].append("input modified")
    return res


def main():
    payload = read_payload()
    out = []
    for t in payload["tasks"]:
        try:
            if t["kind"] == "swv":
                out.append(swv_task(t))
            elif t["kind"] == "conv":
                out.append(conv_task(t))
            elif t["kind"] == "pool":
                out.append(pool_task(t))
            elif t["kind"] == "swv_nonint":
                out.append(swv_nonint_task(t))
            else:
                raise ValueError(t["kind"])
        except Exception as e:
            import traceback

            out.append({"harness_error": traceback.format_exc()[-800:]})
    emit({"results": out})


main()
