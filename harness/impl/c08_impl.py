"""C08 implementation runner.
kind "prim": drives the real lock_arr_writeability / release_writeability_lock_on_op / unique_arrs_and_bases with real
ndarrays through an event list and reports flags and table contents after every event.
kind "hist": real tensor histories with the property oracle (locked while in a live graph, restored afterwards)."""
import gc
import weakref

from implbase import *  # noqa: F401,F403
from implbase import _mem, emit, exn_class, mg, np, read_payload, reset_global_state
from mygrad._utils import WeakRefIterable


class Holder:
    def __init__(self, data):
        self.data = data


def run_prim(case):
    reset_global_state()
    arrs = {}          # index -> ndarray (alive)
    n_arr = 0
    keys = {}          # id -> canonical key
    live_ops = []
    out_events, out_obs = [], []

    def key_of(a):
        return keys.setdefault(id(a), len(keys))

    def observe():
        snap = []
        for i in range(n_arr):
            a = arrs.get(i)
            if a is None:
                snap.append(None)
                continue
            w = _mem._views_waiting_for_unlock.get(id(a))
            snap.append([bool(a.flags.writeable), int(_mem._array_counter.get(id(a), 0)), bool(_mem.array_is_tracked(a)),
                         sorted(keys[v] for v in w) if w else []])
        sizes = [sum(1 for v in _mem._array_counter.values() if v > 0), len(_mem._array_tracker), len(_mem._views_waiting_for_unlock)]
        return [snap, sizes]

    a = v = src = o = refs = inputs = None
    for ev in case["events"]:
        k = ev[0]
        if k == "new":
            a = np.arange(4.0)
            a.flags.writeable = not ev[1]
            arrs[n_arr] = a
            out_events.append(["new", key_of(a), ev[1]])
            n_arr += 1
        elif k == "view":
            src = arrs[ev[1]]
            v = src[:: 1]
            arrs[n_arr] = v
            out_events.append(["view", ev[1], key_of(v)])
            n_arr += 1
        elif k == "lock":
            _mem.lock_arr_writeability(arrs[ev[1]], force_lock=ev[2])
            out_events.append(ev)
        elif k == "release":
            _mem._release_lock_on_arr_writeability(arrs[ev[1]])
            out_events.append(ev)
        elif k == "op":
            inputs = [Holder(arrs[i]) for i in ev[1]]
            refs = WeakRefIterable(_mem.lock_arr_writeability(x) for x in _mem.unique_arrs_and_bases(inputs))
            out = None
            if ev[2] is not None:
                if ev[2] == "fresh":
                    o = np.arange(4.0)
                    out = [None, key_of(o)]
                else:
                    o = arrs[ev[2][1]][:: 1]
                    out = [ev[2][1], key_of(o)]
                arrs[n_arr] = o
                n_arr += 1
                _mem.lock_arr_writeability(o)
                refs.append(o)
            live_ops.append(refs)
            out_events.append(["op", ev[1], out])
            del inputs
        elif k == "opdie":
            refs = live_ops.pop(ev[1])
            _mem.release_writeability_lock_on_op(refs)
            out_events.append(ev)
        elif k == "die":
            del arrs[ev[1]]
            out_events.append(ev)
        a = v = src = o = refs = inputs = None   # no stray strong references to arrays
        out_obs.append(observe())
    arrs.clear()
    return {"events": out_events, "obs": out_obs}


def run_hist(case):
    """real tensors; oracle: every array listed by a live op is read-only; at quiescence flags are restored, tables empty"""
    reset_global_state()
    rs = np.random.RandomState(case["seed"])
    arrays, orig, used = {}, {}, set()
    tensors = {}
    tsrc = {}
    fails = []
    log = []
    unguarded = set()   # tensors whose creating op was recorded while memory guarding was off

    def check_locked(tag):
        # every tensor that still has a creator: its creator's input arrays, their bases and its own array are read-only
        def cleared_upstream(c, depth=0):
            # "a live graph none of whose upstream tensors has been cleared": a tensor listed by a live op has that op in
            # its consumer set unless clear_graph()/backward() emptied it since
            if depth > 50:
                return False
            for v in c.variables:
                if len(v._ops) == 0:
                    return True
                if v.creator is not None and cleared_upstream(v.creator, depth + 1):
                    return True
            return False

        for n, t in tensors.items():
            c = t.creator
            if c is None or n in unguarded or cleared_upstream(c):
                continue
            for v in c.variables:
                a = v.data
                if a.flags.writeable:
                    fails.append("%s: input array of the live op creating %s is writeable" % (tag, n))
                if a.base is not None and a.base.flags.writeable:
                    fails.append("%s: base of an input array of the live op creating %s is writeable" % (tag, n))
            if t.data.flags.writeable:
                fails.append("%s: output array of the live op creating %s is writeable" % (tag, n))

    for i, ev in enumerate(case["events"]):
        k = ev[0]
        tn = "t%d" % i
        try:
            if k == "array":
                a = np.arange(4.0) + 1
                a.flags.writeable = not ev[1]
                arrays[ev[2]] = a
                orig[ev[2]] = not ev[1]
            elif k == "npview":
                src = arrays[ev[1]]
                arrays[ev[2]] = src[{"all": slice(None), "head": slice(0, 2), "tail": slice(2, 4), "step": slice(None, None, 2)}[ev[3]]] if src.shape == (4,) else src[...]
                orig[ev[2]] = orig[ev[1]]
            elif k == "astensor":
                tensors[tn] = mg.astensor(arrays[ev[1]])
                tsrc[tn] = ev[1]
            elif k == "tensor":
                tensors[tn] = mg.tensor(np.arange(4.0) + 1)
            elif k == "op":
                o1 = tensors[ev[2]] if ev[1] == "t" else arrays[ev[2]]
                o2 = tensors[ev[4]] if ev[3] == "t" else arrays[ev[4]]
                if o1.shape == o2.shape:
                    tensors[tn] = {"add": mg.add, "multiply": mg.multiply}[ev[5]](o1, o2)
                    for kk, nn in ((ev[1], ev[2]), (ev[3], ev[4])):
                        if kk == "a":
                            used.add(nn)
                        elif nn in tsrc:
                            used.add(tsrc[nn])
            elif k == "view":
                tensors[tn] = tensors[ev[1]][{"all": slice(None), "head": slice(0, 2), "ell": Ellipsis}[ev[2]]]
                if ev[1] in tsrc:
                    used.add(tsrc[ev[1]])
                    tsrc[tn] = tsrc[ev[1]]
            elif k == "inplace":
                tensors[ev[1]][...] = 5.0
            elif k == "iadd":
                t = tensors[ev[1]]
                t += 1.0
            elif k in ("setitem_arr", "imul_arr", "out_tensor"):
                t, a1 = tensors[ev[1]], arrays[ev[2]]
                if t.shape == a1.shape:
                    if k == "setitem_arr":
                        t[...] = a1
                    elif k == "imul_arr":
                        t *= a1
                    else:
                        mg.add(a1, 1.0, out=t)
                    used.add(ev[2])
                    if ev[1] in tsrc:
                        used.add(tsrc[ev[1]])
            elif k == "setshape":
                t = tensors[ev[1]]
                if t.size == 4 and t.shape != (2, 2):
                    t.shape = (2, 2)
                elif t.size == 4:
                    t.shape = (4,)
                elif t.size == 2:
                    t.shape = (2, 1) if t.shape != (2, 1) else (2,)
            elif k == "backward":
                tensors[ev[1]].backward()
            elif k == "clear":
                tensors[ev[1]].clear_graph()
            elif k == "del":
                del tensors[ev[1]]
            elif k == "out":
                t1, a1 = tensors[ev[1]], arrays[ev[2]]
                if t1.shape == a1.shape:
                    tensors[tn] = mg.multiply(t1, 2.0, out=a1)
                    used.add(ev[2])
                    if ev[1] in tsrc:
                        used.add(tsrc[ev[1]])
            elif k == "out_arr":
                a_in, a_out = arrays[ev[1]], arrays[ev[2]]
                if a_in.shape == a_out.shape and a_out.flags.writeable:
                    tensors[tn] = {"exp": lambda: mg.exp(a_in, out=a_out), "negative": lambda: mg.negative(a_in, out=a_out),
                                   "add": lambda: mg.add(a_in, a_in, out=a_out)}[ev[3]]()
                    used.update([ev[1], ev[2]])
            elif k == "failing":
                mg.add(tensors[ev[1]], np.ones(7))
            elif k == "ctor_fail":
                # the forward pass succeeds, constructing the output tensor raises (integer result, constant=False)
                ia = arrays[ev[1]].astype(np.int64) if ev[2] == "copy" else arrays[ev[1]]
                if ev[2] == "copy":
                    arrays[ev[3]] = ia
                    orig[ev[3]] = True
                    used.add(ev[3])
                mg.add(ia, ia, constant=False) if ia.dtype.kind == "i" else mg.add(ia.astype(np.int64), ia.astype(np.int64), constant=False)
            elif k == "failing_index":
                tensors[ev[1]][17]
            elif k == "guard_off_op":
                with mg.mem_guard_off:
                    tensors[tn] = tensors[ev[1]] * 2.0
                unguarded.add(tn)
        except Exception as e:
            log.append([i, exn_class(e)])
        check_locked("after event %d %s" % (i, ev))
    names = list(tensors)
    rs.shuffle(names)
    for n in names:
        del tensors[n]
    t = t1 = o1 = o2 = a1 = None
    for n, a in arrays.items():
        if n in used and a.flags.writeable != orig[n]:
            fails.append("at quiescence array %s has writeable=%s, originally %s" % (n, a.flags.writeable, orig[n]))
        if not orig[n] and a.flags.writeable and a.base is None:
            fails.append("array %s was read-only beforehand and is now writeable" % n)
    # a LIVE array that still has a positive lock count at quiescence is stuck read-only.  (Entries of arrays that have died -- a counter
    # whose tracker weak reference is dead, stale members of _views_waiting_for_unlock -- can survive quiescence; array_is_tracked()
    # treats them as absent, so they are harmless for the flags the property is about and are not demanded to be gone.)
    live_locked = sum(1 for k, r in _mem._array_tracker.items() if r() is not None and _mem._array_counter.get(k, 0) > 0)
    if live_locked:
        fails.append("at quiescence %d live array(s) still have a positive lock count" % live_locked)
    return {"oracle": fails, "exceptions": log}


def main():
    payload = read_payload()
    gc.disable()
    out = []
    for c in payload["cases"]:
        try:
            out.append(run_prim(c) if c["kind"] == "prim" else run_hist(c))
        except Exception:
            import traceback
            out.append({"harness_error": traceback.format_exc()[-1200:]})
    reset_global_state()
    emit({"results": out})


main()
