"""Runs a witness script (from KNOWN_FINDINGS.json / corpus) against /repo; failed = the script raised."""
import traceback

from implbase import *  # noqa: F401,F403
from implbase import emit, mg, np, read_payload, reset_global_state

p = read_payload()
reset_global_state()
failed, msg = False, ""
try:
    exec(compile(p["script"], "<witness>", "exec"), {"mg": mg, "np": np, "__name__": "__witness__"})
except BaseException as e:
    failed, msg = True, "%s: %s" % (type(e).__name__, str(e)[:300])
emit({"failed": failed, "msg": msg})
