"""C15 implementation runner: executes scope programs on the real managers of /repo/src/mygrad and
logs the same ghost trace as Model/Scopes.v (after every __enter__, after every __exit__, at every Obs),
plus the direct property oracle (restoration at every block exit) and the op-gate probes."""
from implbase import *  # noqa: F401,F403
from implbase import _mem, _track, emit, mg, np, read_payload, reset_global_state

MGR = {"na": mg.no_autodiff, "off": mg.mem_guard_off, "on": mg.mem_guard_on}


class Boom(Exception):
    pass


def flags():
    ms = [mg.no_autodiff, mg.mem_guard_off, mg.mem_guard_on]
    return [
        bool(_track.TRACK_GRAPH),
        bool(_mem.MEM_GUARD),
        [int(m._depth) for m in ms],
        [len(m._depth_tracker) for m in ms],
    ]


def fresh(with_grad=True):
    x = mg.Tensor(np.array([1.0, 2.0, 3.0]))
    if with_grad:
        x._grad = np.ones(3)
    return x


def probe(fail):
    """Run real operations at this point; return [records_graph, locks_arrays]."""
    arr = np.array([1.0, 2.0, 3.0])
    # 1. non-view op through the operator
    x = fresh()
    y = x * 2.0
    records = y.creator is not None
    if (len(x._ops) > 0) != records:
        fail("consumer-recording disagrees with creator-recording")
    if (x.grad is None) != records:
        fail("input gradient %s although records=%s" % ("dropped" if x.grad is None else "kept", records))
    locks = not x.data.flags.writeable
    if (not y.data.flags.writeable) != locks:
        fail("output lock differs from input lock")
    if not (np.array_equal(y.data, arr * 2.0) and y.dtype == (arr * 2.0).dtype):
        fail("value/dtype of x*2.0 differs from NumPy")
    if y.base is not None:
        fail("non-view result has a base")
    # 2. view op
    x2 = fresh()
    v = x2[:2]
    if (v.creator is not None) != records or (v.base is not None) != records:
        fail("view op: creator/base recording differs from non-view op")
    if not np.shares_memory(v.data, x2.data) or not np.array_equal(v.data, arr[:2]):
        fail("view op value/sharing")
    if (not x2.data.flags.writeable) != locks:
        fail("view op lock differs")
    # 3. NumPy dispatch
    x3 = fresh()
    z = np.add(x3, 1.0)
    if not isinstance(z, mg.Tensor) or (z.creator is not None) != records:
        fail("np.add dispatch: recording differs")
    # 4. in-place update
    x4 = fresh(with_grad=False)
    d0 = x4.data
    x4[0] = 7.0
    if x4.data[0] != 7.0:
        fail("in-place value")
    if not records:
        if x4.data is not d0 or d0[0] != 7.0:
            fail("untracked in-place update did not write into the tensor's own memory")
        if x4.creator is not None:
            fail("untracked in-place update recorded a creator")
    else:
        if x4.creator is None:
            fail("tracked in-place update recorded no creator")
    # 5. backward
    x5 = fresh(with_grad=False)
    y5 = x5 * 3.0
    y5.backward()
    if records:
        if x5.grad is None or not np.array_equal(x5.grad, np.full(3, 3.0)):
            fail("tracked backward gave wrong grad")
    else:
        if x5.grad is not None or y5.grad is not None:
            fail("untracked backward wrote a gradient")
    # 6. backward on a CONSTANT tensor whose graph was recorded with tracking on (harness forces the
    #    module switch while building it): inside no_autodiff backward() must do nothing at all
    saved = (_track.TRACK_GRAPH, _mem.MEM_GUARD)
    _track.TRACK_GRAPH = True
    try:
        x6 = fresh(with_grad=False)
        c6 = mg.multiply(x6, 3.0, constant=True)
    finally:
        _track.TRACK_GRAPH, _mem.MEM_GUARD = saved
    had = (c6.creator is not None, len(x6._ops) > 0)
    c6.backward()
    now = (c6.creator is not None, len(x6._ops) > 0)
    if not records and now != had:
        fail("untracked backward on a constant tensor changed the recorded graph: %s -> %s" % (had, now))
    if records and now != (False, False):
        fail("tracked backward on a constant tensor did not clear its graph")
    if x6.grad is not None:
        fail("backward on a constant tensor wrote a gradient")
    # 7. assigning .shape: same outcome as NumPy on the same array, and (untracked) the same memory
    base7 = np.arange(6.0).reshape(2, 3)
    t7 = mg.tensor(base7.T, copy=False)
    ref7 = base7.T
    try:
        ref7 = ref7.view()
        ref7.shape = (6,)
        np_exc = None
    except Exception as e:
        np_exc = type(e).__name__
    try:
        t7.shape = (6,)
        mg_exc = None
    except Exception as e:
        mg_exc = type(e).__name__
    if not records:
        if (np_exc is None) != (mg_exc is None):
            fail("untracked t.shape = ... on a non-contiguous tensor: NumPy %s, MyGrad %s" % (np_exc, mg_exc))
        if not np.shares_memory(t7.data, base7):
            fail("untracked shape assignment detached the tensor from its memory")
    t8 = mg.tensor(np.arange(6.0))
    d8 = t8.data
    t8.shape = (2, 3)
    if t8.shape != (2, 3) or not np.array_equal(t8.data, np.arange(6.0).reshape(2, 3)):
        fail("shape assignment value")
    if not records and not np.shares_memory(t8.data, d8):
        fail("untracked shape assignment copied the data")
    # 9. values and dtypes do not depend on tracking: Python-scalar operands with non-default dtypes (the result dtype must be NumPy's)
    for dt in ("float32", "float16", "int8"):
        a9 = np.array([1, 2, 3], dtype=dt)
        t9 = mg.tensor(a9)
        for lab, ft, fa in (("x*2.0", lambda t: t * 2.0, lambda a: a * 2.0), ("x+1", lambda t: t + 1, lambda a: a + 1), ("1/x", lambda t: 1 / t, lambda a: 1 / a),
                            ("mg.add(x,1.5)", lambda t: mg.add(t, 1.5), lambda a: np.add(a, 1.5)), ("np.multiply(x,2)", lambda t: np.multiply(t, 2), lambda a: np.multiply(a, 2)),
                            ("x-True", lambda t: t - True, lambda a: a - True)):
            rt, ra = ft(t9), fa(a9)
            if rt.dtype != ra.dtype or not np.array_equal(rt.data, ra):
                fail("%s on a %s tensor gives dtype %s, NumPy gives %s (tracking=%s)" % (lab, dt, rt.dtype, ra.dtype, records))
    # 8. augmented assignment and out= write into the tensor's own memory when untracked
    x9 = fresh(with_grad=False)
    d9 = x9.data
    x9 += 1.0
    if not np.array_equal(x9.data, arr + 1.0):
        fail("augmented assignment value")
    if not records and (x9.data is not d9 or not np.array_equal(d9, arr + 1.0)):
        fail("untracked += did not write into the tensor's own memory")
    x10 = fresh(with_grad=False)
    d10 = x10.data
    r10 = mg.multiply(x10, 2.0, out=x10)
    if r10 is not x10 or not np.array_equal(x10.data, arr * 2.0):
        fail("out= target value/identity")
    if not records and x10.data is not d10:
        fail("untracked out= did not write into the tensor's own memory")
    del x, y, x2, v, x3, z, x4, x5, y5, x6, c6, t7, t8, x9, x10, r10
    return [bool(records), bool(locks)]


def has_turn(p):
    k = p[0]
    if k in ("on", "off"):
        return True
    if k == "seq":
        return has_turn(p[1]) or has_turn(p[2])
    if k in ("with", "decor"):
        return has_turn(p[2])
    if k == "try":
        return has_turn(p[1])
    return False


def run_prog(p, trace, fails):
    k = p[0]
    if k == "skip":
        return
    if k == "seq":
        run_prog(p[1], trace, fails)
        run_prog(p[2], trace, fails)
        return
    if k in ("with", "decor"):
        m = MGR[p[1]]
        before = flags()
        try:
            if k == "with":
                with m:
                    trace.append(flags() + [None])
                    run_prog(p[2], trace, fails)
            else:

                @m
                def body():
                    trace.append(flags() + [None])
                    run_prog(p[2], trace, fails)

                body()
        finally:
            after = flags()
            trace.append(after + [None])
            # direct oracle: the property on the implementation alone
            gov = 0 if p[1] == "na" else 1
            if after[gov] != before[gov]:
                fails.append("flag governed by %s not restored: %s -> %s" % (p[1], before, after))
            if after[2] != before[2] or after[3] != before[3]:
                fails.append("manager bookkeeping not restored: %s -> %s" % (before, after))
            if after[0] != before[0]:
                fails.append("TRACK_GRAPH changed across a block: %s -> %s" % (before, after))
            if (not has_turn(p[2]) or p[1] != "na") and after[1] != before[1]:
                fails.append("MEM_GUARD not restored: %s -> %s" % (before, after))
        return
    if k == "raise":
        raise Boom()
    if k == "try":
        try:
            run_prog(p[1], trace, fails)
        except Boom:
            pass
        return
    if k == "on":
        mg.turn_memory_guarding_on()
        if _mem.MEM_GUARD is not True:
            fails.append("turn_memory_guarding_on did not set MEM_GUARD")
        return
    if k == "off":
        mg.turn_memory_guarding_off()
        if _mem.MEM_GUARD is not False:
            fails.append("turn_memory_guarding_off did not set MEM_GUARD")
        return
    if k == "obs":
        f = flags()
        g = probe(lambda msg: fails.append("probe at %s: %s" % (f, msg)))
        f2 = flags()
        if f2 != f:
            fails.append("running operations changed the switches: %s -> %s" % (f, f2))
        trace.append(f + [g])
        return
    raise ValueError(k)


def main():
    payload = read_payload()
    out = []
    for p in payload["programs"]:
        reset_global_state()
        trace, fails = [], []
        raised, err = False, None
        try:
            run_prog(p, trace, fails)
        except Boom:
            raised = True
        except Exception as e:  # an exception out of the managers themselves
            err = "%s: %s" % (type(e).__name__, e)
        final = flags()
        try:
            g = probe(lambda msg: fails.append("final probe: %s" % msg))
        except Exception as e:
            g = None
            err = err or "%s: %s" % (type(e).__name__, e)
        out.append({"raised": raised, "trace": trace, "final": final + [g], "oracle": fails, "error": err})
    reset_global_state()
    emit({"results": out})


main()
