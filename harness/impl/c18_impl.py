"""C18 implementation runner: save/load round trips through paths and file objects."""
import io
import os
import pathlib
import tempfile

from implbase import *  # noqa: F401,F403
from implbase import emit, exn_class, mg, np, read_payload, reset_global_state


def build(t):
    dt = np.dtype(t["dtype"])
    shape = tuple(t["shape"])
    n = int(np.prod(shape)) if shape else 1
    vals = (np.arange(n) % 5 - 2).astype(dt) if dt.kind != "b" else (np.arange(n) % 2 == 0)
    arr = vals.reshape(shape)
    kind = t["kind"]
    if kind == "leaf":
        x = mg.tensor(arr, constant=t.get("constant")) if dt.kind == "f" else mg.tensor(arr)
        if t["grad"] and not x.constant:
            (x * x).sum().backward() if x.size else x.backward()
        return x, [x]
    if kind == "view":
        b = mg.tensor(np.arange(2 * max(n, 1) + 2).astype(dt)) if dt.kind != "b" else mg.tensor(np.ones(2 * max(n, 1) + 2, dtype=bool))
        v = b[1:1 + 2 * n:2].reshape(shape) if n else b[:0].reshape(shape)
        if t["grad"] and dt.kind == "f":
            (b * b).sum().backward()
        return v, [b, v]
    if kind == "intermediate":
        x = mg.tensor(arr) if dt.kind != "f" else mg.tensor(arr, constant=False)
        y = x * 2 if dt.kind == "f" else x + x
        if t["grad"] and dt.kind == "f":
            y.backward()
        return y, [x, y]
    if kind == "const_copy_with_grad":
        x = mg.tensor(arr.astype(np.float64))
        (x * x).sum().backward()
        c = x.copy(constant=True)
        return c, [x, c]
    raise ValueError(kind)


def snapshot(ts):
    return [(t.data.tobytes(), str(t.dtype), t.shape, None if t.grad is None else (t.grad.tobytes(), str(t.grad.dtype), t.grad.shape), t.creator, len(t._ops), t.constant, t.data.flags.writeable) for t in ts]


def foreign(t):
    """an archive written with numpy.savez whose `grad` entry does not already match `data`: load == tensor(data) followed by backward(grad)
    (Model/IO.v), so the gradient is cast to the data's dtype, broadcast to its shape, and a seed that does not broadcast is refused"""
    reset_global_state()
    nd = int(np.prod(t["shape"])) if t["shape"] else 1
    data = (np.arange(nd) % 5 - 2).astype(t["dtype"]).reshape(t["shape"])
    g = np.array(t["grad_vals"], dtype=t["grad_dtype"]).reshape(t["grad_shape"])
    f = io.BytesIO()
    np.savez(f, data=data, grad=g)
    f.seek(0)
    try:
        y = mg.load(f)
    except Exception as e:
        return {"oracle": [] if t["expect"] == "raise" else ["load raised %s: %s" % (exn_class(e), str(e)[:100])]}
    fails = []
    if t["expect"] == "raise":
        return {"oracle": ["load accepted a gradient of shape %s for data of shape %s (backward would refuse this seed); loaded grad shape %s" % (g.shape, data.shape, None if y.grad is None else y.grad.shape)]}
    if y.dtype != data.dtype or not np.array_equal(y.data, data):
        fails.append("data differs")
    if y.grad is None:
        fails.append("the stored gradient was dropped")
    else:
        want = np.broadcast_to(g.astype(data.dtype), data.shape)
        if y.grad.dtype != y.dtype or y.grad.shape != y.shape or not np.array_equal(y.grad, want):
            fails.append("loaded gradient has dtype %s shape %s (tensor: %s %s) -- not what backward(grad) on the fresh leaf stores" % (y.grad.dtype, y.grad.shape, y.dtype, y.shape))
    return {"oracle": fails, "has_grad": True, "float": True}


def task(t):
    if t.get("kind") == "foreign":
        return foreign(t)
    reset_global_state()
    x, keep = build(t)
    before = snapshot(keep)
    tmp = tempfile.mkdtemp(prefix="c18_", dir=os.environ.get("VERIF_TMP", None))
    fails = []
    try:
        via = t["via"]
        if via == "str":
            path = os.path.join(tmp, "t.npz")
            mg.save(path, x)
            y = mg.load(path)
        elif via in ("str_noext", "str_dotted", "path_dotted"):
            # numpy.savez appends ".npz" to a name that lacks it (and keeps every other dot): the archive is found under that name
            stem = "t" if via == "str_noext" else "weights.bak"
            path = os.path.join(tmp, stem)
            other = mg.tensor(np.asarray(x.data).copy()) * 0 if x.dtype.kind == "f" else mg.tensor(np.zeros_like(x.data))
            sib = os.path.join(tmp, "t2" if via == "str_noext" else "weights.old")
            mg.save(pathlib.Path(path) if via == "path_dotted" else path, x)
            mg.save(pathlib.Path(sib) if via == "path_dotted" else sib, other)       # a sibling name must not overwrite the first archive
            names = sorted(os.listdir(tmp))
            if names != sorted([stem + ".npz", os.path.basename(sib) + ".npz"]):
                fails.append("save(%r) / save(%r) left the files %s" % (stem, os.path.basename(sib), names))
            y = mg.load(path + ".npz")
        elif via == "named_tempfile":
            # tempfile.NamedTemporaryFile hands out a wrapper object that is not an io.IOBase instance: file objects are recognised by duck typing
            with tempfile.NamedTemporaryFile(dir=tmp, suffix=".npz") as f:
                mg.save(f, x)
                f.seek(0)
                y = mg.load(f)
        elif via == "duck":
            class _F:       # a hand-written binary file object
                def __init__(self):
                    self._b = io.BytesIO()
                def write(self, data):
                    return self._b.write(data)
                def read(self, *a):
                    return self._b.read(*a)
                def seek(self, *a):
                    return self._b.seek(*a)
                def tell(self):
                    return self._b.tell()
                def flush(self):
                    return self._b.flush()
                def seekable(self):
                    return True
            f = _F()
            mg.save(f, x)
            f.seek(0)
            y = mg.load(f)
        elif via == "path":
            path = pathlib.Path(tmp) / "t.npz"
            mg.save(path, x)
            y = mg.load(path)
        elif via == "bytesio":
            f = io.BytesIO()
            mg.save(f, x)
            f.seek(0)
            y = mg.load(f)
        else:
            path = os.path.join(tmp, "t.npz")
            with open(path, "wb") as f:
                mg.save(f, x)
            with open(path, "rb") as f:
                y = mg.load(f)
    except Exception as e:
        return {"oracle": ["save/load raised %s: %s" % (exn_class(e), str(e)[:100])]}
    finally:
        import shutil
        shutil.rmtree(tmp, ignore_errors=True)
    if snapshot(keep) != before:
        fails.append("saving altered the tensor, its gradient, its graph or its flags")
    if not isinstance(y, mg.Tensor):
        fails.append("load returned %s" % type(y).__name__)
        return {"oracle": fails}
    if y.dtype != x.dtype or y.shape != x.shape or not np.array_equal(y.data, x.data):
        fails.append("data/dtype/shape differ: %s %s vs %s %s" % (y.dtype, y.shape, x.dtype, x.shape))
    if (x.grad is None) != (y.grad is None):
        fails.append("gradient presence differs: saved %s, loaded %s" % (x.grad is not None, y.grad is not None))
    elif x.grad is not None and (y.grad.dtype != x.grad.dtype or y.grad.shape != x.grad.shape or not np.array_equal(y.grad, x.grad)):
        fails.append("gradient differs after the round trip")
    if y.creator is not None:
        fails.append("loaded tensor has a creator")
    return {"oracle": fails, "has_grad": x.grad is not None, "float": x.dtype.kind == "f",
            "data": [float(v) for v in np.asarray(x.data, dtype=np.float64).ravel()][:12],
            "loaded_grad": None if y.grad is None else [float(v) for v in y.grad.ravel()][:12]}


def main():
    payload = read_payload()
    out = []
    for t in payload["tasks"]:
        try:
            out.append(task(t))
        except Exception:
            import traceback
            out.append({"harness_error": traceback.format_exc()[-900:]})
    emit({"results": out})


main()
