"""Helpers shared by the implementation-side runners (these run under /venv/bin/python with
PYTHONPATH=/repo/src, so `import mygrad` is the working tree of /repo)."""
import json
import os
import sys
import warnings

warnings.filterwarnings("ignore")
import numpy as np  # noqa: E402

import mygrad as mg  # noqa: E402
import mygrad._utils.graph_tracking as _track  # noqa: E402
import mygrad._utils.lock_management as _mem  # noqa: E402

assert os.path.realpath(mg.__file__).startswith(os.path.realpath(os.environ.get("VERIF_REPO", "/repo"))), mg.__file__


def read_payload():
    return json.loads(sys.stdin.read())


def emit(obj):
    sys.stdout.write("\x01JSON\x01" + json.dumps(obj, default=_default))
    sys.stdout.flush()


def _default(o):
    if isinstance(o, np.ndarray):
        return o.tolist()
    if isinstance(o, (np.integer,)):
        return int(o)
    if isinstance(o, (np.floating,)):
        return float(o)
    if isinstance(o, (np.bool_,)):
        return bool(o)
    if isinstance(o, tuple):
        return list(o)
    return repr(o)


def reset_global_state():
    """Bring the process-wide switches and lock tables back to their import-time state."""
    _track.TRACK_GRAPH = True
    _mem.MEM_GUARD = True
    for m in (mg.no_autodiff, mg.mem_guard_off, mg.mem_guard_on):
        # (bookkeeping of the scope objects: private, so tolerate other layouts -- the switches themselves are reset above)
        try:
            m._depth = 0
        except AttributeError:
            pass
        for attr in ("_depth_tracker", "_saved", "_stack", "_states"):
            c = getattr(m, attr, None)
            if hasattr(c, "clear"):
                try:
                    c.clear()
                except Exception:
                    pass
    _mem._array_counter.clear()
    _mem._array_tracker.clear()
    _mem._views_waiting_for_unlock.clear()


EXN_ENUM = [
    ("InvalidBackprop", "InvalidBackprop"),
    ("InvalidGradient", "InvalidGradient"),
    ("DisconnectedView", "DisconnectedView"),
    ("IndexError", "Index"),
    ("AxisError", "Axis"),
    ("TypeError", "Type"),
    ("AssertionError", "Assertion"),
    ("ValueError", "Value"),
    ("KeyError", "Key"),
    ("NotImplementedError", "NotImplemented"),
]


def exn_class(e):
    names = [c.__name__ for c in type(e).__mro__]
    for n, tag in EXN_ENUM:
        if n in names:
            if tag == "Value" and "read-only" in str(e):
                return "ReadOnly"
            return tag
    return "Other"
