"""C14 implementation runner: seed acceptance lattice, reduce_broadcast on shapes, seed kinds, and the
shape/dtype/type invariant of stored gradients on the nnet layers."""
from implbase import *  # noqa: F401,F403
from implbase import emit, exn_class, mg, np, read_payload, reset_global_state
from mygrad._utils import reduce_broadcast


def seed_task(t):
    sL, sg = tuple(t["sL"]), tuple(t["sg"])
    x = mg.tensor(np.arange(int(np.prod(sL))).reshape(sL).astype(t.get("dtype", "float64")))
    L = x * 2.0
    kind = t.get("seed_kind", "array")
    g = np.arange(1, int(np.prod(sg)) + 1, dtype=np.float64).reshape(sg)
    if kind == "tensor":
        seed = mg.tensor(g)
    elif kind == "list":
        seed = g.tolist()
    elif kind == "scalar":
        seed = 3.0
    elif kind == "int_array":
        seed = g.astype(np.int64)
    elif kind == "f32_array":
        seed = g.astype(np.float32)
    else:
        seed = g
    res = {"accepted": True, "exc": None, "oracle": []}
    try:
        L.backward(seed)
    except Exception as e:
        res["accepted"] = False
        res["exc"] = exn_class(e)
        if x.grad is not None or L.grad is not None:
            res["oracle"].append("a rejected seed left a gradient behind (x.grad=%s, L.grad=%s)" % (x.grad is not None, L.grad is not None))
        if res["exc"] not in ("Value",):
            res["oracle"].append("rejected with %s instead of ValueError" % res["exc"])
        return res
    ref = np.broadcast_to(np.asarray(g if kind != "scalar" else 3.0, dtype=np.float64), sL) * 2.0
    for nm, tt, want in (("x", x, ref), ("L", L, ref / 2.0)):
        gg = tt.grad
        if gg is None:
            res["oracle"].append("%s.grad is None after an accepted seed" % nm)
            continue
        if type(gg) is not np.ndarray or gg.shape != tt.shape or gg.dtype != tt.dtype:
            res["oracle"].append("%s.grad has type/shape/dtype %s %s %s, tensor has %s %s" % (nm, type(gg).__name__, getattr(gg, "shape", None), getattr(gg, "dtype", None), tt.shape, tt.dtype))
        elif not np.array_equal(gg, want.astype(tt.dtype)):
            res["oracle"].append("%s.grad differs from the broadcast seed" % nm)
    return res


def reduce_task(t):
    g, v = tuple(t["g"]), tuple(t["v"])
    try:
        out = reduce_broadcast(np.ones(g), v)
        return {"shape": [int(i) for i in np.asarray(out).shape], "exc": None}
    except ValueError:
        return {"shape": None, "exc": "Value"}
    except Exception as e:
        return {"shape": None, "exc": exn_class(e)}


def inv(fails, name, t):
    g = t.grad
    if g is None:
        return
    if type(g) is not np.ndarray:
        fails.append("%s.grad is a %s, not an ndarray" % (name, type(g).__name__))
    elif g.shape != t.shape:
        fails.append("%s.grad.shape %s != tensor shape %s" % (name, g.shape, t.shape))
    elif g.dtype != t.dtype:
        fails.append("%s.grad.dtype %s != tensor dtype %s" % (name, g.dtype, t.dtype))


def layer_task(t):
    """nnet layers and losses: every tensor's stored gradient has the tensor's shape and dtype"""
    from mygrad.nnet import activations, layers, losses
    rs = np.random.RandomState(t["seed"])
    dt = np.dtype(t["dtype"])
    fails = []
    name = t["layer"]
    T = {}

    mixed = t.get("mixed")
    cycle = [np.dtype("float32"), np.dtype("float64")] if mixed == 1 else [np.dtype("float64"), np.dtype("float32")]

    def mk(nm, *shape):
        # mixed precision: the parameters of one layer get different float dtypes (every .grad must still have ITS tensor's dtype)
        d = cycle[len(T) % 2] if mixed else dt
        T[nm] = mg.tensor(rs.standard_normal(shape).astype(d))
        return T[nm]

    if name.startswith("setshape"):
        # a tensor that holds the gradient of a finished backward() gets a new shape assigned in place (tracked, or inside no_autodiff; as an isolated leaf,
        # with a live view, or as a view): every gradient still stored / derivable afterwards has ITS tensor's shape
        x = mk("x", 2, 3)
        v0 = x[0] if "view" in name else None
        tgt = x
        if name.endswith("_of_view"):
            tgt = x[...]
            T["tgt"] = tgt
        ((tgt if tgt is not x else x) * x).sum().backward()
        new = [(3, 2), (6,), (1, 6), (2, 3, 1)][t["seed"] % 4]
        try:
            if "untracked" in name:
                with mg.no_autodiff:
                    tgt.shape = new
            else:
                tgt.shape = new
        except Exception as e:
            return {"exc": type(e).__name__ + ": " + str(e)[:100], "oracle": []}
        T["after_view"] = tgt[0]
        if v0 is not None:
            T["v0"] = v0
        for nm, tt in T.items():
            try:
                inv(fails, nm, tt)
            except Exception as e:
                fails.append("reading %s.grad raised %s" % (nm, type(e).__name__))
        return {"exc": None, "oracle": fails}
    try:
        if name == "conv":
            out = layers.conv_nd(mk("x", 2, 2, 5, 5), mk("w", 3, 2, 2, 2), stride=1, padding=t.get("pad", 0))
        elif name == "max_pool":
            out = layers.max_pool(mk("x", 2, 3, 4, 4), (2, 2), 2)
        elif name == "batchnorm":
            out = layers.batchnorm(mk("x", 4, 3, 2), gamma=mk("gamma", 3), beta=mk("beta", 3), eps=1e-5)
        elif name == "gru":
            X = mk("X", 3, 2, 4)
            args = [mk(n, 4, 5) if n.startswith("U") else (mk(n, 5, 5) if n.startswith("W") else mk(n, 5)) for n in ("Uz", "Wz", "bz", "Ur", "Wr", "br", "Uh", "Wh", "bh")]
            out = layers.gru(X, *args)
        elif name == "softmax":
            out = activations.softmax(mk("x", 3, 4))
        elif name == "logsoftmax":
            out = activations.logsoftmax(mk("x", 3, 4))
        elif name == "sigmoid_etc":
            x = mk("x", 3, 4)
            out = activations.sigmoid(x) + activations.tanh(x) + activations.relu(x) + activations.elu(x, alpha=1.0) + activations.selu(x) + activations.leaky_relu(x, 0.1) + activations.soft_sign(x) + activations.hard_tanh(x)
        elif name == "softmax_crossentropy":
            out = losses.softmax_crossentropy(mk("x", 4, 3), np.array([0, 2, 1, 1]))
        elif name == "focal":
            out = losses.softmax_focal_loss(mk("x", 4, 3), np.array([0, 2, 1, 1]), alpha=0.5, gamma=2.0)
        elif name == "hinge":
            out = losses.multiclass_hinge(mk("x", 4, 3), np.array([0, 2, 1, 1]))
        elif name == "margin_ranking":
            out = losses.margin_ranking_loss(mk("x1", 5), mk("x2", 5), np.array([1, -1, 1, 1, -1]), margin=0.5)
        elif name == "nll":
            out = losses.negative_log_likelihood(activations.logsoftmax(mk("x", 4, 3)), np.array([0, 2, 1, 1]))
        else:
            raise ValueError(name)
        T["out"] = out
        seedg = None if out.ndim == 0 else rs.standard_normal(out.shape).astype(dt)
        g0 = None if seedg is None else seedg.copy()
        out.backward(seedg)
        if g0 is not None and not np.array_equal(g0, seedg):
            fails.append("the seed array passed to backward() was modified")
        for nm, tt in T.items():
            inv(fails, nm, tt)
    except Exception as e:
        return {"oracle": [], "exc": exn_class(e) + ":" + str(e)[:120]}
    return {"oracle": fails, "exc": None}


def main():
    payload = read_payload()
    out = []
    for t in payload["tasks"]:
        reset_global_state()
        try:
            if t["kind"] == "seed":
                out.append(seed_task(t))
            elif t["kind"] == "reduce":
                out.append(reduce_task(t))
            else:
                out.append(layer_task(t))
        except Exception as e:
            import traceback
            out.append({"harness_error": traceback.format_exc()[-800:]})
    emit({"results": out})


main()
