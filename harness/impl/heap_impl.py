"""Pointer-level correspondence runner (Model/Heap.v, Model/HeapCorr.v): runs histories of leaf / operation / view / in-place /
clear_graph statements on the real MyGrad and renders, after every statement, the object graph that is strongly reachable from
the tensors the history holds -- with the traversal order, numbering and liveness filter of HeapCorr.canon."""
import gc

from implbase import *  # noqa: F401,F403
from implbase import emit, exn_class, mg, np, read_payload, reset_global_state

from mygrad._utils.duplicating_graph import ApplyMask, UnView

KINDS = {"UnView": 0, "ApplyMask": 1, "GetItem": 2, "Transpose": 3, "SwapAxes": 4, "Reshape": 5, "Add": 6, "Multiply": 7, "Exp": 8,
         "SetItem": 9, "Subtract": 10, "Negative": 11, "Square": 12, "Divide": 13, "MoveAxis": 14, "Sum": 15, "Tensor_Transpose_Property": 16}


class GenError(Exception):
    pass


def canon(roots):
    """HeapCorr.canon on the real objects.  Holds no reference once it returns."""
    order, index, keep = [], {}, []

    def key(kind, o):
        return (kind, id(o))

    stack = [("T", t) for t in roots]
    while stack:
        kind, o = stack.pop(0)
        k = key(kind, o)
        if k in index:
            continue
        index[k] = len(order)
        order.append((kind, o))
        keep.append(o)
        if kind == "T":
            succ = []
            if o._creator is not None:
                succ.append(("O", o._creator))
            if o._base is not None:
                succ.append(("T", o._base))
            succ.append(("A", o.data))
        elif kind == "O":
            succ = [("T", v) for v in o.variables]
            if isinstance(o, UnView):
                succ += [("T", fn.__wrapped__.__self__) for fn in o._view_fn_seq]
        elif kind == "A":
            succ = []
            if o.base is not None:
                succ.append(("A", o.base))
            b = o
            while b.base is not None:
                b = b.base
            succ.append(("B", b))
        else:
            succ = []
        stack = succ + stack

    def num(kind, o):
        return index[key(kind, o)]

    def onum(kind, o):
        return 0 if o is None else 1 + num(kind, o)

    out, stray = [], 0
    for kind, o in order:
        if kind == "T":
            ch_all = list(o._view_children)
            ch = [num("T", c) for c in ch_all if key("T", c) in index]
            ops_all = [r() for r in o._ops]
            ops_all = [f for f in ops_all if f is not None]
            ops = sorted(num("O", f) for f in ops_all if key("O", f) in index)
            stray += len(ch_all) - len(ch) + len(ops_all) - len(ops)
            out.append([0, onum("O", o._creator), onum("T", o._base), num("A", o.data), int(o._grad is not None), 0, len(ch)] + ch + ops)
            del ch_all, ops_all
        elif kind == "O":
            name = type(o).__name__
            if name not in KINDS:
                raise GenError("operation class %s is not in the table" % name)
            vs = [num("T", v) for v in o.variables]
            ks = [num("T", fn.__wrapped__.__self__) for fn in o._view_fn_seq] if isinstance(o, UnView) else []
            out.append([1, KINDS[name], len(vs)] + vs + ks)
        elif kind == "A":
            b = o
            while b.base is not None:
                b = b.base
            out.append([2, onum("A", o.base), num("B", b)])
            del b
        else:
            out.append([3])
    del order, keep, index, stack
    return out, stray


def key_of(k):
    """JSON -> basic index"""
    def one(x):
        if x is None:
            return None
        if x == "...":
            return Ellipsis
        if x == "new":
            return np.newaxis
        if isinstance(x, list):
            return slice(*x)
        return int(x)
    return tuple(one(x) for x in k)


def raw(spec):
    if spec is None or spec == "scalar":
        return 2.0
    return np.full(tuple(spec), 3.0)


def arg(names, a):
    return names[a] if isinstance(a, int) else raw(a.get("raw") if isinstance(a, dict) else None)


def run_stmt(names, s):
    k = s["s"]
    if k == "leaf":
        shp = tuple(s["shape"])
        names.append(mg.tensor(np.arange(float(np.prod(shp))).reshape(shp)))
    elif k == "op":
        xs = [arg(names, a) for a in s["args"]]
        f = s["f"]
        names.append({"add": lambda: mg.add(*xs), "multiply": lambda: mg.multiply(*xs), "subtract": lambda: mg.subtract(*xs), "exp": lambda: mg.exp(*xs),
                      "negative": lambda: mg.negative(*xs), "square": lambda: mg.square(*xs)}[f]())
        del xs
    elif k == "view":
        p = names[s["par"]]
        f = s["f"]
        if f == "getitem":
            v = p[key_of(s["key"])]
        elif f == "T":
            v = p.T
        elif f == "transpose":
            v = mg.transpose(p)
        elif f == "swapaxes":
            v = mg.swapaxes(p, 0, -1)
        elif f == "moveaxis":
            v = mg.moveaxis(p, 0, -1)
        elif f == "reshape":
            v = p.reshape(tuple(s["shape"]))
        else:
            raise GenError(f)
        if v.base is None:
            raise GenError("generator error: %s did not produce a view" % f)
        names.append(v)
        del v, p
    elif k == "inplace":
        m = names[s["m"]]
        xs = [arg(names, a) for a in s["args"]]
        f = s["f"]
        if f == "setitem":
            m[key_of(s["key"])] = xs[1]
        elif f == "iadd":
            m += xs[1]
        elif f == "imul":
            m *= xs[1]
        elif f == "isub":
            m -= xs[1]
        elif f == "add_out":
            mg.add(xs[0], xs[1], out=m)
        elif f == "mul_out":
            mg.multiply(xs[0], xs[1], out=m)
        elif f == "exp_out":
            mg.exp(xs[0], out=m)
        elif f == "add_out_where":
            mask = np.zeros(m.shape, dtype=bool)
            mask.flat[::2] = True
            mg.add(xs[0], xs[1], out=m, where=mask)
        elif f == "mul_out_where":
            mask = np.ones(m.shape, dtype=bool)
            mask.flat[:1] = False
            mg.multiply(xs[0], xs[1], out=m, where=mask)
        else:
            raise GenError(f)
        del m, xs
    elif k == "clear":
        names[s["t"]].clear_graph()
    elif k == "setshape":
        names[s["t"]].shape = tuple(s["shape"])
    elif k == "backward":
        names[s["t"]].backward()
    else:
        raise GenError(k)


def run_case(stmts):
    reset_global_state()
    names, obs = [], []
    for s in stmts:
        raised = None
        try:
            run_stmt(names, s)
        except GenError:
            raise
        except Exception as e:
            raised = exn_class(e)
            del e
            if s["s"] == "backward":
                # InvalidBackprop (a stale graph) is the subject of C09, not of the pointer-level model: the compared history ends here
                obs.append({"truncated": True, "raised": raised})
                break
        c, stray = canon(names)
        obs.append({"raised": raised, "canon": c, "stray": stray})
    del names
    return obs


def main():
    payload = read_payload()
    gc.collect()
    gc.disable()
    out = []
    for case in payload["cases"]:
        try:
            out.append({"obs": run_case(case)})
        except Exception as e:
            out.append({"harness_error": "%s: %s" % (type(e).__name__, str(e)[:300])})
    gc.enable()
    emit({"results": out})


main()
