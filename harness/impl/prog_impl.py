"""Generic statement interpreter on the real MyGrad (exact-arithmetic programs).
Payload: {"cases": [{"stmts": [...], "observe": "backward"|"end"|"all"}]}.
For every case returns the exception class of every statement and observations of all named tensors
(after every backward/clear/null_grad statement, and at the end)."""
import gc
import weakref

from implbase import *  # noqa: F401,F403
from implbase import emit, exn_class, mg, np, read_payload, reset_global_state
from mygrad.nnet.activations import relu

LIMIT = 2.0 ** 40


def ints(a):
    """exact integer content of a float array, or a marker when it is not integral / too large"""
    a = np.asarray(a)
    if a.dtype == bool:
        return [int(v) for v in a.ravel()]
    f = a.astype(np.float64).ravel()
    if not np.all(np.isfinite(f)):
        return "nonfinite"
    if f.size and np.abs(f).max() >= LIMIT:
        return "toolarge"
    if not np.all(f == np.round(f)):
        return "nonint"
    return [int(v) for v in f]


def py_index(ix):
    def one(e):
        if isinstance(e, dict):
            if "slice" in e:
                return slice(*e["slice"])
            if "newaxis" in e:
                return None
            if "ellipsis" in e:
                return Ellipsis
            if "array" in e:
                arr_ = np.asarray(e["array"], dtype=np.dtype(e.get("dtype", "int64"))).reshape(e.get("shape", [-1]))
                if e.get("as_list") and not e.get("as_tensor"):
                    return arr_.tolist()                                      # a plain (nested) Python list of ints
                return mg.tensor(arr_) if e.get("as_tensor") else arr_        # an integer Tensor is an index array too
            if "bool" in e:
                return np.asarray(e["bool"], dtype=bool).reshape(e["shape"])
        return e
    if isinstance(ix, list):
        if len(ix) == 1 and isinstance(ix[0], dict) and ix[0].get("lone"):
            return one(ix[0])                                                 # x[idx], not x[(idx,)]
        return tuple(one(e) for e in ix)
    return one(ix)


def make_array(d):
    return np.asarray(d["vals"], dtype=np.dtype(d.get("dtype", "float64"))).reshape(d["shape"])


class Env:
    def __init__(self):
        self.t = {}
        self.keep = []
        self.owned = []

    def owned_modified(self):
        return [what for a, c, what in self.owned if not (a.shape == c.shape and np.array_equal(a, c, equal_nan=True))]

    def operand(self, o):
        if isinstance(o, str):
            return self.t[o]
        if "array" in o:
            a = make_array(o["array"])
            self.owned.append((a, a.copy(), "array operand"))     # caller-owned: must never be modified
            return a
        if "scalar" in o:
            return o["scalar"]
        raise ValueError(o)


def call(fn, spell, ops, p, kw):
    """ops: real operands (tensors / arrays / scalars); p: params; kw: constant=... when given"""
    if fn in ("add", "subtract", "multiply"):
        if spell == "op":
            a, b = ops
            return a + b if fn == "add" else (a - b if fn == "subtract" else a * b)
        if spell == "np":
            return getattr(np, fn)(*ops)
        return getattr(mg, fn)(*ops, **kw)
    if fn in ("maximum", "minimum"):
        return getattr(np, fn)(*ops) if spell == "np" else getattr(mg, fn)(*ops, **kw)
    if fn == "negative":
        return -ops[0] if spell == "op" else mg.negative(ops[0], **kw)
    if fn == "positive":
        return +ops[0] if spell == "op" else mg.positive(ops[0], **kw)
    if fn == "square":
        return ops[0] ** 2 if spell == "op" else mg.square(ops[0], **kw)
    if fn == "abs":
        return mg.abs(ops[0], **kw)
    if fn == "relu":
        return relu(ops[0], **kw)
    if fn == "where":
        cond = np.asarray(p["cond"], dtype=bool).reshape(p["cond_shape"])
        return mg.where(cond, ops[0], ops[1], **kw)
    if fn == "sum":
        axis = tuple(p["axis"]) if isinstance(p.get("axis"), list) else p.get("axis")
        if spell == "method":
            return ops[0].sum(axis=axis, keepdims=bool(p.get("keepdims", False)), **kw)
        if spell == "np":
            return np.sum(ops[0], axis=axis, keepdims=bool(p.get("keepdims", False)))
        return mg.sum(ops[0], axis=axis, keepdims=bool(p.get("keepdims", False)), **kw)
    if fn == "conv_nd":
        from mygrad.nnet.layers import conv_nd
        fix = lambda v: tuple(v) if isinstance(v, list) else v
        return conv_nd(ops[0], ops[1], stride=fix(p.get("stride", 1)), padding=fix(p.get("padding", 0)), dilation=fix(p.get("dilation", 1)), **kw)
    if fn == "max_pool":
        from mygrad.nnet.layers import max_pool
        return max_pool(ops[0], tuple(p["pool"]), tuple(p["stride"]) if isinstance(p.get("stride", 1), list) else p.get("stride", 1), **kw)
    if fn == "cumsum":
        return mg.cumsum(ops[0], axis=p["axis"], **kw)
    if fn in ("max", "min"):
        axis = tuple(p["axis"]) if isinstance(p.get("axis"), list) else p.get("axis")
        if spell == "method":
            return getattr(ops[0], fn)(axis=axis, keepdims=bool(p.get("keepdims", False)), **kw)
        if spell == "np":
            return getattr(np, fn)(ops[0], axis=axis, keepdims=bool(p.get("keepdims", False)))
        return getattr(mg, fn)(ops[0], axis=axis, keepdims=bool(p.get("keepdims", False)), **kw)
    if fn == "getitem":
        ix = py_index(p["index"])
        for e in (ix if isinstance(ix, tuple) else (ix,)):
            if isinstance(e, np.ndarray):
                INDEX_ARRAYS.append((e, e.copy(), "index array"))
        return ops[0][ix]
    if fn == "reshape":
        return ops[0].reshape(tuple(p["shape"])) if spell == "method" else mg.reshape(ops[0], tuple(p["shape"]), **kw)
    if fn == "transpose":
        ax = p.get("axes")
        if ax is None and spell == "method":
            return ops[0].T
        return mg.transpose(ops[0], ax, **kw)
    if fn == "swapaxes":
        return mg.swapaxes(ops[0], p["a1"], p["a2"], **kw)
    if fn == "moveaxis":
        return mg.moveaxis(ops[0], p["src"], p["dst"], **kw)
    if fn == "squeeze":
        ax = p.get("axis")
        return mg.squeeze(ops[0], axis=tuple(ax) if isinstance(ax, list) else ax, **kw)
    if fn == "expand_dims":
        return mg.expand_dims(ops[0], p["axis"], **kw)
    if fn == "broadcast_to":
        return mg.broadcast_to(ops[0], tuple(p["shape"]), **kw)
    if fn == "ravel":
        return mg.ravel(ops[0], **kw)
    if fn == "flatten":
        return ops[0].flatten(**kw)
    if fn == "repeat":
        return mg.repeat(ops[0], p["repeats"], axis=p.get("axis"), **kw)
    if fn == "roll":
        return mg.roll(ops[0], p["shift"], axis=p.get("axis"), **kw)
    if fn == "concatenate":
        return mg.concatenate(list(ops), axis=p.get("axis", 0), **kw)
    if fn == "stack":
        return mg.stack(list(ops), axis=p.get("axis", 0), **kw)
    if fn == "einsum":
        return mg.einsum(p["spec"], *ops, **kw)
    if fn == "matmul":
        return ops[0] @ ops[1] if spell == "op" else mg.matmul(ops[0], ops[1], **kw)
    if fn == "add_sequence":
        return mg.add_sequence(*ops, **kw)
    if fn == "multiply_sequence":
        return mg.multiply_sequence(*ops, **kw)
    if fn in ("exp", "tanh", "sin", "cos", "arctan", "sqrt_abs1", "log_abs1", "sigmoid"):
        # float-only functions (used by the bit-identical repetition oracle, never by the exact model)
        x = ops[0]
        if fn == "sqrt_abs1":
            return mg.sqrt(mg.abs(x) + 1.0)
        if fn == "log_abs1":
            return mg.log(mg.abs(x) + 1.0)
        if fn == "sigmoid":
            from mygrad.nnet.activations import sigmoid
            return sigmoid(x)
        return getattr(mg, fn)(x)
    raise ValueError("unknown fn " + fn)


OBSERVE_ERRORS = []
INDEX_ARRAYS = []


def observe(env):
    out = {}
    for name, t in env.t.items():
        if not isinstance(t, mg.Tensor):
            continue
        g = t._grad
        try:
            pg = t.grad
        except Exception as e:  # reading a gradient must never raise: reported by the harness as a violation
            OBSERVE_ERRORS.append("reading %s.grad raised %s: %s" % (name, type(e).__name__, str(e)[:120]))
            pg = None
        out[name] = {
            "grad": None if g is None else ints(g),
            "pub_grad": None if pg is None else ints(pg),
            "grad_shape": None if g is None else list(g.shape),
            "grad_dtype": None if g is None else str(g.dtype),
            "grad_is_ndarray": g is None or type(g) is np.ndarray,
            "const": bool(t.constant),
            "writeable": bool(t.data.flags.writeable),
            "owner_writeable": bool(t.data.base.flags.writeable) if isinstance(t.data.base, np.ndarray) else None,
            "creator_none": t.creator is None,
            "hasops": len(t._ops) > 0,
            "has_base": t._base is not None,
            "data": ints(t.data),
            "shape": list(t.shape),
            "dtype": str(t.dtype),
        }
    return out


def run_failing(env, s):
    """statements that must raise (C13); nothing may be left behind"""
    t = env.t[s["t"]]
    kind = s["kind"]
    bad = np.ones(7)
    if kind == "op_shape":
        try:
            np.broadcast_shapes(t.shape, (7, 11, 13))
        except ValueError:
            mg.add(t, np.ones((7, 11, 13)))
        else:
            mg.sum(t, axis=9)     # everything broadcasts against a size-1 tensor: use a bad axis instead
    elif kind == "op_axis":
        mg.sum(t, axis=9)
    elif kind == "op_matmul":
        mg.matmul(t, np.ones((11, 13)))
    elif kind == "op_type":
        mg.add(t, "abc")
    elif kind == "view_index":
        t[(t.size + 17,) * max(t.ndim, 1)]
    elif kind == "view_reshape":
        t.reshape(t.size + 1)
    elif kind == "view_transpose":
        mg.transpose(t, (5, 6, 7, 8))
    elif kind == "inplace_index":
        t[(t.size + 17,) * max(t.ndim, 1)] = 1.0
    elif kind == "inplace_shape":
        t[...] = np.ones((7, 5, 3))
    elif kind == "inplace_aug":
        t += np.ones((7, 5, 3))
    elif kind == "inplace_out":
        mg.add(np.ones((7, 5, 3)), np.ones((7, 5, 3)), out=t)
    elif kind == "inplace_type":
        t[...] = "abc"
    elif kind == "inplace_setshape":
        t.shape = (t.size + 1,)
    elif kind == "op_fpe":
        with np.errstate(all="raise"):
            mg.divide(t, 0.0)
    elif kind == "inplace_fpe":
        with np.errstate(all="raise"):
            t /= 0.0
    elif kind == "op_where_mask":
        # the caller's boolean condition array must not stay locked when where() fails
        mask = np.ones(t.shape, dtype=bool)
        try:
            mg.where(mask, t, np.ones((7, 11, 13)) if t.shape != (7, 11, 13) and t.size > 1 else "abc")
        finally:
            if not mask.flags.writeable:
                OBSERVE_ERRORS.append("a failing where() left the caller's condition array read-only")
    elif kind == "backward_bad_seed":
        # backward(g) with a seed that cannot broadcast into the tensor: refused before any gradient is touched
        if t.constant:
            mg.sum(t, axis=9)         # (backward() of a constant returns at once: use another refusal)
        else:
            t.backward(np.ones((7, 11, 13)) if t.shape != (7, 11, 13) else np.ones(5))
    elif kind == "norm_matrix":
        # a matrix norm is refused (NotImplementedError): for ord=inf too, before anything is computed
        if t.ndim == 2:
            mg.linalg.norm(t, ord=np.inf)
        else:
            if t.ndim >= 2:
                mg.linalg.norm(t, ord=np.inf, axis=(0, 1, 2)[: t.ndim])
            else:
                mg.sum(t, axis=9)     # (no matrix to take the norm of)
    elif kind == "composite_second_step":
        # a function built from two operations whose SECOND one fails (clip with an upper bound that does not broadcast)
        mg.clip(t, 0.0, np.ones((7, 11, 13)) if t.shape != (7, 11, 13) and t.size > 1 else "abc")
    elif kind == "inplace_value_error_in_value":
        t[...] = mg.reshape(t, (t.size + 1,))
    else:
        raise RuntimeError("unknown failing kind " + kind)


def families(env):
    """memory relations between the named tensors: which pairs share memory, and each tensor's .base"""
    names = [n for n, t in env.t.items() if isinstance(t, mg.Tensor)]
    share = []
    for i, a in enumerate(names):
        for b in names[i + 1:]:
            if np.shares_memory(env.t[a].data, env.t[b].data):
                share.append([a, b])
    base = {}
    for n in names:
        bt = env.t[n].base
        if bt is None:
            base[n] = None
        else:
            hit = [m for m in names if env.t[m] is bt]
            base[n] = hit[0] if hit else "internal"
    gshare = []
    grads = {}
    for n in names:
        try:
            grads[n] = env.t[n].grad
        except Exception:
            grads[n] = None
    for i, a in enumerate(names):
        for b in names[i + 1:]:
            if grads[a] is not None and grads[b] is not None and grads[a].size and grads[b].size and np.shares_memory(grads[a], grads[b]):
                gshare.append([a, b])
    data_grad = [n for n in names if grads[n] is not None and any(np.shares_memory(grads[n], env.t[m].data) for m in names)]
    return {"share": share, "base": base, "grad_share": gshare, "grad_aliases_data": data_grad}


def census():
    """number of live Tensor / Operation instances in the process"""
    objs = gc.get_objects()
    n_t = sum(1 for o in objs if issubclass(type(o), mg.Tensor))
    n_o = sum(1 for o in objs if issubclass(type(o), mg.operation_base.Operation))
    del objs
    return n_t, n_o


def run_case(case):
    """wrapper: every local of the statement interpreter (operands, results, loop variables) is gone when _run_case returns, so the census
    below counts only what MyGrad itself keeps alive"""
    reset_global_state()
    base_census = None
    if case.get("census"):
        gc.collect()
        base_census = census()
    res = _run_case(case)
    if base_census is not None:
        # the caller now references nothing: reference counting alone (gc is disabled) must have freed every tensor, operation and placeholder
        del INDEX_ARRAYS[:]
        reset_global_state()
        now = census()
        res["leaked"] = {"tensors": now[0] - base_census[0], "ops": now[1] - base_census[1]}
        gc.collect()
    return res


def _run_case(case):
    if case.get("guard") is False:
        mg.turn_memory_guarding_off()
    env = Env()
    outcomes, observations = [], []
    identity_lost = []
    owned_modified = []
    ids = {}
    dead_refs = {}
    mode = case.get("observe", "backward")
    for i, s in enumerate(case["stmts"]):
        k = s["op"]
        exc = None
        try:
            if k == "leaf":
                arr = make_array(s)
                kw = {}
                if s.get("const") is not None:
                    kw["constant"] = s["const"]
                env.t[s["name"]] = mg.tensor(arr, **kw) if s.get("ctor", "tensor") == "tensor" else mg.Tensor(arr, **kw)
            elif k == "apply":
                ops = [env.operand(o) for o in s["args"]]
                kw = {}
                if s.get("const") is not None:
                    kw["constant"] = s["const"]
                r = call(s["fn"], s.get("spell", "mg"), ops, s.get("params", {}), kw)
                env.owned.extend(INDEX_ARRAYS)
                del INDEX_ARRAYS[:]
                env.t[s["name"]] = r
                del ops, r
            elif k == "backward":
                seed = s.get("seed")
                if seed is None:
                    env.t[s["t"]].backward()
                elif "scalar" in seed:
                    env.t[s["t"]].backward(seed["scalar"])
                elif seed.get("non_owning"):
                    # the seed is a strided VIEW of a larger array owned by the caller
                    arr = make_array(seed)
                    big = np.zeros(arr.shape[:-1] + (2 * arr.shape[-1],), dtype=arr.dtype) if arr.ndim else np.zeros(2, dtype=arr.dtype)
                    if arr.ndim:
                        big[..., ::2] = arr
                        sv = big[..., ::2]
                    else:
                        big[0] = arr
                        sv = big[0:1].reshape(())
                    env.keep.append(big)
                    env.owned.append((big, big.copy(), "array the seed gradient is a view of"))
                    env.t[s["t"]].backward(sv)
                else:
                    sd = make_array(seed)
                    env.owned.append((sd, sd.copy(), "seed gradient"))
                    env.t[s["t"]].backward(sd)
            elif k == "clear":
                env.t[s["t"]].clear_graph()
            elif k == "null_grad":
                env.t[s["t"]].null_grad()
            elif k == "setitem":
                ix = py_index(s["index"])
                for e in (ix if isinstance(ix, tuple) else (ix,)):
                    if isinstance(e, np.ndarray):
                        env.owned.append((e, e.copy(), "index array"))
                env.t[s["t"]][ix] = env.operand(s["value"])
            elif k == "setshape":
                env.t[s["t"]].shape = tuple(s["shape"])
            elif k == "fail":
                run_failing(env, s)
            elif k == "aug":
                x = env.t[s["t"]]
                v = env.operand(s["value"])
                if s["fn"] == "add":
                    x += v
                elif s["fn"] == "subtract":
                    x -= v
                elif s["fn"] == "multiply":
                    x *= v
                else:
                    raise ValueError(s["fn"])
                if x is not env.t[s["t"]]:
                    identity_lost.append(s["t"])
                del x, v
            elif k == "out":
                ops = [env.operand(o) for o in s["args"]]
                kw = {}
                if s.get("where") is not None:
                    kw["where"] = np.asarray(s["where"]["mask"], dtype=bool).reshape(s["where"]["shape"])
                if s["fn"] == "clip_lo":
                    r = mg.clip(ops[0], ops[1], None, out=env.t[s["t"]])
                elif s["fn"] == "clip_hi":
                    r = mg.clip(ops[0], None, ops[1], out=env.t[s["t"]])
                else:
                    r = getattr(mg, s["fn"])(*ops, out=env.t[s["t"]], **kw)
                if r is not env.t[s["t"]]:
                    identity_lost.append(s["t"])
                del ops, r
            elif k == "del":
                for n in s["names"]:
                    if case.get("liveness") and isinstance(env.t.get(n), mg.Tensor):
                        dead_refs[n] = weakref.ref(env.t[n])
                    env.t.pop(n, None)
            else:
                raise ValueError(k)
        except Exception as e:
            exc = exn_class(e)
            if exc in ("Other",):
                exc = "Other:%s:%s" % (type(e).__name__, str(e)[:200])
        outcomes.append(exc)
        om = env.owned_modified()
        if om:
            owned_modified.append([i, om[0]])
            env.owned = [(a, a.copy(), w) for a, c, w in env.owned]
        for n, t in env.t.items():
            if isinstance(t, mg.Tensor):
                if n in ids and ids[n] != id(t):
                    identity_lost.append(n)
                ids[n] = id(t)
        if mode == "all" or (mode == "backward" and k in ("backward", "clear", "null_grad")):
            observations.append({"after": i + 1, "obs": observe(env), "fam": families(env) if case.get("families") else None})
    observations.append({"after": len(case["stmts"]), "obs": observe(env), "fam": families(env) if case.get("families") else None})
    alive = None
    if case.get("liveness"):
        # reference-counting alone (gc is disabled): drop every name the caller does not keep
        wr = {n: weakref.ref(t) for n, t in env.t.items() if isinstance(t, mg.Tensor)}
        wr.update(dead_refs)
        keep = set(case.get("keep", []))
        t = arr = ops = r = None          # the runner's own variables must not keep a tensor alive
        for n in list(env.t):
            if n not in keep:
                del env.t[n]
        alive = {n: (r() is not None) for n, r in wr.items()}
    env.t.clear()
    env.owned = []
    errs = list(OBSERVE_ERRORS)
    del OBSERVE_ERRORS[:]
    return {"leaked": None, "outcomes": outcomes, "observations": observations, "alive": alive, "identity_lost": identity_lost, "observe_errors": errs, "owned_modified": owned_modified}


def run_repeat(case):
    """leaves are created once (float values), the remaining statements are executed `repeat` times;
    returns for every iteration the raw bytes (hex) of every leaf gradient"""
    reset_global_state()
    env = Env()
    leaves = [s for s in case["stmts"] if s["op"] == "leaf"]
    rest = [s for s in case["stmts"] if s["op"] != "leaf"]
    rs = np.random.RandomState(case.get("float_seed", 0))
    for s in leaves:
        arr = make_array(s).astype(np.float64)
        arr = (arr * 0.37 + rs.standard_normal(arr.shape) * 0.1).astype(np.dtype(s.get("dtype", "float64")) if s.get("dtype", "float64").startswith("float") else np.float64)
        kw = {}
        if s.get("const") is not None and not str(arr.dtype).startswith("int"):
            kw["constant"] = s["const"]
        env.t[s["name"]] = mg.tensor(arr, **kw)
    leaf_names = [s["name"] for s in leaves]
    iters, errors = [], []
    for it in range(case["repeat"]):
        exc = None
        for s in rest:
            k = s["op"]
            try:
                if k == "apply":
                    ops = [env.operand(o) for o in s["args"]]
                    kw = {}
                    if s.get("const") is not None:
                        kw["constant"] = s["const"]
                    env.t[s["name"]] = call(s["fn"], s.get("spell", "mg"), ops, s.get("params", {}), kw)
                    del ops
                elif k == "backward":
                    env.t[s["t"]].backward()
                elif k == "clear":
                    env.t[s["t"]].clear_graph()
                elif k == "null_grad":
                    env.t[s["t"]].null_grad()
            except Exception as e:
                exc = exn_class(e)
        errors.append(exc)
        iters.append({n: (None if env.t[n].grad is None else env.t[n].grad.tobytes().hex() + ":" + str(env.t[n].grad.dtype) + ":" + str(env.t[n].grad.shape)) for n in leaf_names})
    env.t.clear()
    return {"iters": iters, "errors": errors}


def main():
    payload = read_payload()
    gc.disable()
    out = []
    for c in payload["cases"]:
        try:
            out.append(run_repeat(c) if c.get("repeat") else run_case(c))
        except Exception:
            import traceback

            out.append({"harness_error": traceback.format_exc()[-1500:]})
    emit({"results": out})


main()
