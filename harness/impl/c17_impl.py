"""C17 implementation runner: the construction/conversion lattice and the creation routines versus NumPy."""
from implbase import *  # noqa: F401,F403
from implbase import emit, exn_class, mg, np, read_payload, reset_global_state


def cell(t):
    reset_global_state()
    sdt = np.float64 if t["float"] else np.int64
    base = np.arange(1, 5).astype(sdt)
    kind = t["kind"]
    if kind == "list":
        src = base.tolist()
        src_arr = None
    elif kind == "arr":
        src = base
        src_arr = base
    else:
        if t["float"]:
            x = mg.tensor(base, constant=t["const"])
            if t.get("graph") == "creator":
                src = x[...]                 # a view tensor with a creator and a base
            elif t.get("graph") == "grad" and not t["const"]:
                src = x
                (x * 2.0).sum().backward()
            else:
                src = x
        else:
            src = mg.tensor(base)
        src_arr = src.data
    other = {True: np.float32, False: np.int32}[t["dt_float"]]
    dtype = None if t["dt"] == "none" else (sdt if t["dt"] == "same" else other)
    kw = {}
    if t["constant"] is not None:
        kw["constant"] = t["constant"]
    which = t["which"]
    had = (getattr(src, "creator", None), None if not isinstance(src, mg.Tensor) or src.grad is None else src.grad.copy()) if kind == "ten" else None
    nd = 1
    try:
        if which == "tensor":
            r = mg.tensor(src, dtype=dtype, copy=t["copy"], ndmin=(nd + 1 if t["ndmin"] else 0), **kw)
        elif which == "Tensor":
            r = mg.Tensor(src, dtype=dtype, copy=t["copy"], ndmin=(nd + 1 if t["ndmin"] else 0), **kw)
        elif which == "astensor":
            r = mg.astensor(src, dtype=dtype, **kw)
        elif which == "copy":
            r = src.copy(**kw)
        elif which == "astype":
            r = src.astype(dtype if dtype is not None else sdt, copy=t["copy"], **kw)
        else:
            raise ValueError(which)
    except TypeError:
        return {"code": 2}
    except ValueError:
        return {"code": 3}
    out = {"code": 1 if r.constant else 0, "same": r is src, "shares": bool(src_arr is not None and np.shares_memory(r.data, src_arr)),
           "float": bool(r.dtype.kind == "f"), "detached": r.creator is None, "oracle": []}
    want_dt = np.dtype(dtype) if dtype is not None else np.dtype(sdt)
    if r.dtype != want_dt:
        out["oracle"].append("dtype %s, expected %s" % (r.dtype, want_dt))
    if not np.array_equal(np.asarray(r.data).ravel(), base.astype(want_dt)):
        out["oracle"].append("values changed")
    if t["ndmin"] and which in ("tensor", "Tensor") and r.ndim != nd + 1:
        out["oracle"].append("ndmin not honoured: ndim %d" % r.ndim)
    if out["same"] and kind == "ten":
        if src.creator is not had[0] or (had[1] is None) != (src.grad is None) or (had[1] is not None and not np.array_equal(had[1], src.grad)):
            out["oracle"].append("a tensor returned as-is lost its graph or gradient")
    if kind != "list" and not out["shares"] and not out["same"]:
        # a copy: later changes to the source are not seen by the tensor
        if src_arr.flags.writeable:
            keep = np.array(r.data, copy=True)
            src_arr[...] = 77
            if not np.array_equal(keep, r.data):
                out["oracle"].append("changing the source changed a tensor that does not share memory")
    if which in ("copy", "astype") and not out["same"] and r.creator is not None:
        out["oracle"].append("%s() result is attached to a graph" % which)
    return out


def creation(t):
    """mg.<fn>(*args, **kw) versus np.<fn>(*args, **kw) for explicit arguments (and the documented float32 defaults)"""
    fn, args, kw = t["fn"], t.get("args", []), dict(t.get("kw", {}))
    def dec(a):
        # {"np": dtype, "v": value}: a NumPy scalar (scalar v) or array (list v) of that dtype
        if isinstance(a, dict) and "np" in a:
            return np.asarray(a["v"], dtype=a["np"])[()] if not isinstance(a["v"], list) else np.asarray(a["v"], dtype=a["np"])
        return tuple(a) if isinstance(a, list) else a
    args = [dec(a) for a in args]
    like = None
    if fn.endswith("_like"):
        like = np.arange(6).astype(t.get("like_dtype", "float64")).reshape(2, 3)
        a_mg = [mg.tensor(like) if t.get("like_tensor") else like] + args
        a_np = [like] + args
    else:
        a_mg = a_np = args
    for k2 in ("shape",):
        if isinstance(kw.get(k2), list):
            kw[k2] = tuple(kw[k2])
    try:
        r = getattr(np if t.get("via_numpy") else mg, fn)(*a_mg, **kw)      # via_numpy: numpy.<fn>(tensor, ...) dispatches to mygrad's override
    except Exception as e:
        r, me = None, exn_class(e)
    else:
        me = None
    kw_np = dict(kw)
    kw_np.pop("constant", None)
    if "dtype" not in kw_np and fn in ("zeros", "ones", "empty") and not t.get("dtype_positional"):
        kw_np["dtype"] = np.float32   # the documented default
    try:
        e = getattr(np, fn)(*a_np, **kw_np)
    except Exception as ex:
        e, ne = None, exn_class(ex)
    else:
        ne = None
    if me or ne:
        return {"agree": bool(me) == bool(ne), "why": "only one side raised: mg=%s np=%s" % (me, ne)}
    if not isinstance(r, mg.Tensor):
        return {"agree": False, "why": "result is %s, not a Tensor" % type(r).__name__}
    if r.dtype != e.dtype or r.shape != e.shape:
        return {"agree": False, "why": "dtype/shape %s %s, NumPy gives %s %s" % (r.dtype, r.shape, e.dtype, e.shape)}
    if not fn.startswith("empty") and not np.array_equal(r.data, e, equal_nan=True):
        return {"agree": False, "why": "values differ"}
    if r.creator is not None or r.grad is not None:
        return {"agree": False, "why": "a created tensor has a creator or a gradient"}
    if like is not None and np.shares_memory(r.data, like):
        return {"agree": False, "why": "a *_like result shares memory with its prototype"}
    return {"agree": True, "why": None, "const": bool(r.constant)}


class _Sub(np.ndarray):
    pass


class _HasArray:
    def __init__(self, a):
        self.a = a

    def __array__(self, dtype=None, copy=None):
        # (NumPy 2 protocol: copy=True obliges the container to copy, copy=None / False lets it hand out its own array)
        r = self.a if dtype is None else self.a.astype(dtype, copy=False)
        return r.copy() if copy else r


def foreign(t):
    """tensor(x) / Tensor(x) for inputs that numpy.asarray wraps without copying (ndarray subclasses, buffers, __array__ containers): the default and copy=True
    give a tensor that does not see later changes of x; the values, and the dtype when requested, are x's"""
    import array as _array
    base = np.arange(1.0, 7.0)
    src = t["src"]
    if src == "recarray":
        x = base.view(np.recarray)
    elif src == "subclass":
        x = base.view(_Sub)
    elif src == "masked":
        x = np.ma.masked_array(base)
    elif src == "memoryview":
        x = memoryview(base)
    elif src == "array.array":
        x = _array.array("d", base.tolist())
        base = np.frombuffer(x, dtype=np.float64)
    elif src == "__array__":
        x = _HasArray(base)
    else:
        x = base[::1]
    kw = {}
    if t["copy"] is not None:
        kw["copy"] = t["copy"]
    if t["dtype"] is not None:
        kw["dtype"] = np.float64 if t["dtype"] == "same" else np.float32
    try:
        r = getattr(mg, t["which"])(x, **kw)
    except Exception as e:
        return {"agree": False, "why": "raised %s: %s" % (type(e).__name__, str(e)[:80])}
    want = np.arange(1.0, 7.0).astype(kw.get("dtype", np.float64))
    if r.dtype != want.dtype or not np.array_equal(np.asarray(r.data), want):
        return {"agree": False, "why": "values / dtype differ from the input's: %s %s" % (r.dtype, np.asarray(r.data).tolist())}
    shares = bool(np.shares_memory(np.asarray(r.data), base))
    if t["copy"] is not False and shares:
        return {"agree": False, "why": "the tensor shares memory with its input although a copy was asked for (copy=%s)" % t["copy"]}
    if src == "array.array":
        x[0] = 99.0
    else:
        base[0] = 99.0
    if t["copy"] is not False and float(np.asarray(r.data).ravel()[0]) != 1.0:
        return {"agree": False, "why": "a later change of the input is visible in the tensor"}
    return {"agree": True, "why": None, "shares": shares}


def asarray_task(t):
    """mg.asarray(x, dtype, order) versus np.asarray on the underlying array: same object? shares memory? layout, dtype, values"""
    base = np.arange(12.0).reshape(3, 4).astype(t["dtype"])
    a = {"C": base, "F": np.asfortranarray(base), "T": base.T, "strided": base[:, ::2], "rows": base[::2]}[t["layout"]]
    src = mg.tensor(a, copy=False) if t["tensor"] else a
    kw = {}
    if t.get("to") is not None:
        kw["dtype"] = t["to"]
    if t.get("order") is not None:
        kw["order"] = t["order"]
    r = mg.asarray(src, **kw)
    e = np.asarray(a, **kw)
    why = None
    if type(r) is not np.ndarray:
        why = "result is a %s" % type(r).__name__
    elif (r is (src.data if t["tensor"] else src)) != (e is a):
        why = "returns %s object where NumPy returns %s" % ("the same" if r is (src.data if t["tensor"] else src) else "a new", "the same" if e is a else "a new")
    elif np.shares_memory(r, a) != np.shares_memory(e, a):
        why = "shares memory: %s, NumPy: %s" % (np.shares_memory(r, a), np.shares_memory(e, a))
    elif r.dtype != e.dtype or r.shape != e.shape or r.strides != e.strides or not np.array_equal(r, e):
        why = "dtype/shape/strides/values differ"
    return {"agree": why is None, "why": why}


def nonreal(t):
    """non-real dtypes are rejected while tracking is on (accepted under no_autodiff)"""
    out = {}
    for nm, f in (("tensor", lambda: mg.tensor([1 + 2j])), ("Tensor", lambda: mg.Tensor(np.array(["a"]))), ("astensor", lambda: mg.astensor(np.array([1j]))),
                  ("dtype_arg", lambda: mg.tensor([1.0], dtype=np.complex64)), ("zeros", lambda: mg.zeros((2,), dtype=np.complex128)),
                  ("astype", lambda: mg.tensor([1.0]).astype(np.complex64))):
        try:
            f()
            out[nm] = "accepted"
        except TypeError:
            out[nm] = "TypeError"
        except Exception as e:
            out[nm] = type(e).__name__
    with mg.no_autodiff:
        try:
            mg.tensor([1 + 2j])
            out["untracked"] = "accepted"
        except Exception as e:
            out["untracked"] = type(e).__name__
    return out


def main():
    payload = read_payload()
    out = []
    for t in payload["tasks"]:
        try:
            if t["task"] == "cell":
                out.append(cell(t))
            elif t["task"] == "creation":
                out.append(creation(t))
            elif t["task"] == "asarray":
                out.append(asarray_task(t))
            elif t["task"] == "foreign":
                out.append(foreign(t))
            else:
                out.append(nonreal(t))
        except Exception:
            import traceback
            out.append({"harness_error": traceback.format_exc()[-900:]})
    emit({"results": out})


main()
