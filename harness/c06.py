"""C06 -- a view's gradient is the corresponding view of its base's gradient.
Theorems: coq/Props/C06.v (on the buffer model: reading the base's gradient through the view's index map is what 'the
corresponding view' means; gradient contributions through views are gathers whose adjoint accumulates into the base -- C01).
Tie (implementation oracle + model): programs with a base, chains of views (basic indexing, reshape, transposes, squeeze/expand_dims,
ravel, views of views), consumers of the base and of the views in both textual orders (which contribution reaches the base first,
incl. transposed consumers that produce Fortran-ordered contributions), seeds that are views of caller arrays; after backward():
v.grad is available whenever b.grad is, equals b.grad read through v's index map, shares memory with b.grad; gradients of tensors that
do not share memory do not share memory; no gradient aliases any tensor's data.  The exact values are also compared with Model/GraphP.v."""
import json

import numpy as np

import graphhist as gh
import inplace
import progs
from c04 import replay_mirror
from common import known_findings, rng_for


def gen_two_epochs(rng):
    """epoch 1: base, views, L1 over ALL of them, backward (every graph is cleared, the views' .base lingers);
    epoch 2: a view of a former view, taken before that tensor enters any other operation, then consumers and backward"""
    b = inplace.FBuilder(rng)
    base = b.leaf(rng.choice([(4,), (2, 3), (3, 2), (6,)]), const=False)
    views = []
    for _ in range(rng.randint(1, 2)):
        v = inplace.make_view(b, rng, rng.choice([base] + views))
        if v is not None and v.size > 1:
            views.append(v)
    if not views:
        return None
    parts = []
    for t in [base] + views:
        p = b.apply("multiply", [t, ("array", t.shape, b.rng_vals(t.shape, -2, 2))])
        s = b.apply("sum", [p], {"axis": None, "keepdims": False}) if p is not None else None
        if s is None:
            return None
        parts.append(s)
    L = parts[0]
    for s in parts[1:]:
        L = b.apply("add", [L, s])
    b.backward(L)
    b.stmts[-1]["new_epoch"] = True
    b.new_epoch()
    v = rng.choice(views)
    v2 = inplace.make_view(b, rng, v)
    if v2 is None or v2.size == 0:
        return None
    parts = []
    for t in [v2, v] + ([base] if rng.random() < 0.5 else []):
        p = b.apply("multiply", [t, ("array", t.shape, b.rng_vals(t.shape, -2, 2))])
        s = b.apply("sum", [p], {"axis": None, "keepdims": False}) if p is not None else None
        if s is None:
            return None
        parts.append(s)
    L = parts[0]
    for s in parts[1:]:
        L = b.apply("add", [L, s])
    b.backward(L)
    if getattr(b, "identity_views", None):
        return None
    return b


def gen_case(rng):
    if rng.random() < 0.2:
        return gen_two_epochs(rng)
    b = inplace.FBuilder(rng)
    base = b.leaf(rng.choice([(4,), (2, 3), (3, 2), (2, 2, 2), (2, 1, 3), (6,), (2, 3, 2), (3, 2, 2)]), const=False)
    axes = None
    if rng.random() < 0.4:
        # an intermediate owner, possibly Fortran-ordered -- or, for 3-d data, with permuted strides (contiguous in neither C nor Fortran order)
        if len(base.shape) == 3 and rng.random() < 0.6:
            axes = rng.choice([[1, 0, 2], [0, 2, 1], [2, 0, 1], [1, 2, 0]])
        t = b.apply("transpose", [base], {"axes": axes}) if rng.random() < 0.7 else base
        o = b.apply(rng.choice(["positive", "negative", "square"]), [t])
        if o is not None:
            base = o
    views = [base]
    if len(base.shape) == 3 and base is not None and rng.random() < 0.6:
        # views whose replay on the gradient is a view only if the gradient has the layout of the base's data: undo the permutation, then flatten
        inv = None if axes is None else [axes.index(i) for i in range(3)]
        v1 = b.apply("transpose", [base], {"axes": inv})
        if v1 is not None:
            views.append(v1)
            v2 = b.apply("reshape", [v1], {"shape": [-1]}, spell=rng.choice(["mg", "method"]))
            if v2 is not None:
                views.append(v2)
    for _ in range(rng.randint(1, 4)):
        v = inplace.make_view(b, rng, rng.choice(views))
        if v is not None and v.size > 0:
            views.append(v)
    # consumers, in random textual order
    parts = []
    order = list(views)
    rng.shuffle(order)
    for t in order:
        if rng.random() < 0.8 or t is order[0]:
            kind = rng.random()
            src = t
            if kind < 0.3 and len(t.shape) >= 2:
                src = b.apply("transpose", [t], {"axes": None})      # contribution arrives transposed
            w = ("array", src.shape, b.rng_vals(src.shape, -2, 2))
            ck = rng.random()
            p = None
            # different operations hand the first contribution over in different forms (fresh array, view of a temporary,
            # broadcast, transposed): the relation must hold whichever arrives first
            if ck < 0.2 and len(src.shape) >= 1:
                vec = ("array", (src.shape[-1],), b.rng_vals((src.shape[-1],), -2, 2))
                p = b.apply("matmul", [src, vec], spell=rng.choice(["op", "mg"]))
            elif ck < 0.35 and len(src.shape) >= 1:
                p = b.apply("cumsum", [src], {"axis": rng.randrange(len(src.shape))})
            elif ck < 0.5:
                p = b.apply("roll", [src], {"shift": rng.randint(-2, 2), "axis": None if not src.shape or rng.random() < 0.4 else rng.randrange(len(src.shape))})
            elif ck < 0.6 and len(src.shape) == 2:
                p = b.apply("einsum", [src, ("array", (src.shape[1], 2), b.rng_vals((src.shape[1], 2), -2, 2))], {"spec": "ij,jk->ik"})
            if p is None:
                # (sometimes a stop-gradient consumer: the view is in the graph that backward() clears, but behind a constant edge)
                detached = rng.random() < 0.2 and len(parts) > 0
                p = b.apply("multiply", [src, w] if rng.random() < 0.5 else [w, src], const=True if detached else None)
            if p is None:
                continue
            if rng.random() < 0.3:
                p = b.apply("multiply", [p, src]) or p
            s = b.apply("sum", [p], {"axis": None, "keepdims": False})
            if s is not None:
                parts.append(s)
    if not parts:
        return None
    L = parts[0]
    for s in parts[1:]:
        L = b.apply("add", [L, s] if rng.random() < 0.5 else [s, L]) or L
    if rng.random() < 0.25:
        # back-propagate from the BASE itself (it has views), seeded with a non-owning view of a caller's array
        tgt = b.tensors[b.fam[views[-1].name]] if b.fam[views[-1].name] in b.tensors else L
        if not tgt.const and tgt.size > 0:
            b.backward(tgt, b.rng_vals(tgt.shape, -2, 2), non_owning=True)
            if getattr(b, "identity_views", None):
                return None
            return b
    b.backward(L, None)
    if getattr(b, "identity_views", None):
        return None
    return b


def oracle(b, r):
    msgs = []
    snap = r["observations"][-1]
    obs, fam = snap["obs"], snap["fam"]
    names = [n for n in b.order if n in b.tensors and n in obs]
    for n in names:
        root = b.fam[n]
        if root == n or root not in obs:
            continue
        bg, vg = obs[root]["pub_grad"], obs[n]["pub_grad"]
        if bg is None:
            continue
        if b.tensors[n].const:
            # a view made constant explicitly never exposes a gradient (C10), whatever its base holds
            if vg is not None and not isinstance(vg, str):
                msgs.append("the constant view %s exposes a gradient" % n)
            continue
        if isinstance(bg, str) or isinstance(vg, str):
            continue
        if vg is None:
            msgs.append("%s.grad is None although its base %s has a gradient" % (n, root))
            continue
        want = [bg[int(i)] for i in b.bmap[n].ravel()]
        if vg != want:
            msgs.append("%s.grad %s is not the view of %s.grad (%s)" % (n, vg, root, want))
        if obs[n]["grad_shape"] is not None and obs[n]["shape"] != obs[n]["grad_shape"]:
            pass
        pair = sorted([n, root])
        if b.tensors[n].size and pair not in [sorted(p) for p in fam["grad_share"]]:
            msgs.append("%s.grad does not share memory with %s.grad" % (n, root))
    # gradients of tensors that do not share memory never share memory
    dshare = set(tuple(sorted(p)) for p in fam["share"])
    for p in fam["grad_share"]:
        if tuple(sorted(p)) not in dshare:
            msgs.append("gradients of %s and %s share memory although the tensors do not" % tuple(p))
    if fam["grad_aliases_data"]:
        msgs.append("a gradient shares memory with tensor data: %s" % fam["grad_aliases_data"])
    return msgs


def run(rep, work, tier, seed, props, replay=None):
    rng = rng_for(seed, "C06")
    kf = {f["name"]: f for f in known_findings("C06") if f["status"] == "known"}
    n = 5000 if tier == "thorough" else 600
    builders = []
    if replay is not None and "stmts" in replay:
        builders = [list(replay_mirror(replay["stmts"]))[-1][0]]
        n = 1
    while len(builders) < n:
        b = gen_case(rng)
        if b is not None:
            builders.append(b)
    cases = []
    for b in builders:
        c = b.case("end")
        c["families"] = True
        cases.append(c)
    results = gh.run_impl_cases(cases)
    viol = []
    for i, (b, r) in enumerate(zip(builders, results)):
        if any(o is not None for o in r["outcomes"]):
            viol.append((i, ["a statement raised: %s" % [o for o in r["outcomes"] if o][0]]))
            continue
        msgs = oracle(b, r)
        if msgs:
            viol.append((i, msgs))
    for i, msgs in sorted(viol, key=lambda x: len(builders[x[0]].stmts))[:8]:
        rep.violation({"kind": "view-gradient relation broken: " + msgs[0], "stmts": builders[i].stmts, "messages": msgs[:4]})
    bad_set = set(i for i, _ in viol)
    ok_idx = [i for i, r in enumerate(results) if progs.exact_safe(r) and i not in bad_set and not getattr(builders[i], "explicit_const_views", False)]
    owner = lambda nm, o: not o["has_base"]
    terms = [progs.coq_fcase(builders[i], results[i], grad_filter=owner) for i in ok_idx]
    bad = []
    if terms:
        for idx, lst in gh.coq_eval_indices(terms, "fcase", "ffailing", work, "c06f", shard=80):
            bad.extend(ok_idx[idx[j]] for j in lst)
    if bad and not viol:
        i = sorted(bad, key=lambda i: len(builders[i].stmts))[0]
        rep.violation({"kind": "gradient values of memory owners differ from Model/GraphP.v", "stmts": builders[i].stmts, "n_disagreements": len(bad)})
    if not props["ok"]:
        rep.violation({"kind": "proof obligations of Props/C06.v no longer check", "broken": "Props/C06.v", "log": props["log"][-1500:]}, no_input=not viol)

    def nontrivial(b):
        roots = [n for n in b.fam if b.fam[n] == n]
        consumers = {}
        for s in b.stmts:
            if s["op"] == "apply" and s["fn"] == "multiply":
                for a in s["args"]:
                    if isinstance(a, str) and a in b.fam:
                        consumers[b.fam[a]] = consumers.get(b.fam[a], 0) + 1
        return any(v >= 2 for v in consumers.values()) and len(b.fam) > len(roots)
    nt = set(progs.canonical(b) for b in builders if nontrivial(b))
    rep.coverage.update({
        "evaluations": len(builders),
        "distinct_nontrivial": len(nt),
        "rule": "a base (leaf or intermediate, C- or Fortran-ordered), 1-4 views incl. views of views, consumers of base and views in random textual order (some through a transpose), backward(); "
                "non-trivial = a family with >= 1 view whose members feed >= 2 consumers; distinct = distinct statement list",
        "samples": [builders[0].stmts],
        "histories_with_violations": len(viol),
        "traces_validated_against_impl": len(ok_idx) - len(bad), "model_impl_disagreements": len(bad),
        "input_distribution": {"statements": gh.op_histogram(builders)},
    })
    rep.assumptions += ["the memory-layout rule behind 'replaying the view on the gradient is itself a view' (NumPy's no-copy reshape) is not modelled in Coq: sharing/availability are decided by the implementation oracle"]
