"""C10 -- constant semantics.  Theorems: coq/Props/C10.v (decision rules of Model/ConstRule.v; along every history no
constant tensor ever holds a gradient; a constant is a cut).  Tie: (1) the complete lattice dtype-kind x constant
argument x tracking for constructors, operations (all input-flag combinations), copy and astype, compared with the
model's decision functions inside Coq; (2) exact-integer programs with random flag assignments and constant= overrides
compared with Model/GraphP.v; (3) implementation-only oracles: no constant tensor exposes a .grad; gradients are
identical when every constant tensor leaf is replaced by a plain array."""
import copy
import itertools
import json

import graphhist as gh
import progs
from common import HarnessError, known_findings, rng_for, run_impl_parallel

KINDS = {"bool": "KBool", "int8": "KInt", "int32": "KInt", "int64": "KInt", "uint8": "KInt",
         "float16": "KFloat", "float32": "KFloat", "float64": "KFloat", "complex64": "KOther"}
ARGS = [None, True, False]
CODE = {False: 0, True: 1, "TypeError": 2, "ValueError": 3}


def promote(ka, kb):
    order = ["KBool", "KInt", "KFloat"]
    return order[max(order.index(KINDS[ka]), order.index(KINDS[kb]))]


def lattice():
    tasks, models = [], []
    for what in ("tensor", "Tensor", "astensor"):
        for k, track, arg in itertools.product(KINDS, (True, False), ARGS):
            tasks.append({"what": what, "kind": k, "track": track, "arg": arg})
            models.append((0, KINDS[k], track, arg, []))
    real = [k for k in KINDS if KINDS[k] != "KOther"]
    for fn in ("add", "multiply", "maximum"):
        for ka, kb in itertools.product(["bool", "int64", "float32", "float64"], repeat=2):
            if fn == "maximum" and False:
                continue
            for ca, cb, track, arg in itertools.product((True, False), (True, False), (True, False), ARGS):
                ca_eff = ca if KINDS[ka] == "KFloat" else True
                cb_eff = cb if KINDS[kb] == "KFloat" else True
                tasks.append({"what": "op", "fn": fn, "kind": None, "ka": ka, "kb": kb, "ca": ca, "cb": cb, "track": track, "arg": arg})
                models.append((1, promote(ka, kb), track, arg, [ca_eff, cb_eff]))
    for what in ("view_op", "sum"):
        for ka in real:
            for ca, track, arg in itertools.product((True, False), (True, False), ARGS):
                if ka == "bool" and what == "sum":
                    kout = "KInt"
                elif what == "sum" and KINDS[ka] == "KInt":
                    kout = "KInt"
                else:
                    kout = KINDS[ka]
                ca_eff = ca if KINDS[ka] == "KFloat" else True
                tasks.append({"what": what, "kind": None, "ka": ka, "ca": ca, "track": track, "arg": arg})
                models.append((1, kout, track, arg, [ca_eff]))
    for ka in real:
        for ca, track, arg in itertools.product((True, False), (True, False), ARGS):
            ca_eff = ca if KINDS[ka] == "KFloat" else True
            tasks.append({"what": "copy", "kind": ka, "ka": ka, "ca": ca, "track": track, "arg": arg})
            models.append((2, KINDS[ka], track, arg, [ca_eff]))
            for kt in ("int32", "float32", "float64", "bool"):
                tasks.append({"what": "astype", "kind": kt, "ka": ka, "ca": ca, "track": track, "arg": arg})
                models.append((0, KINDS[kt], track, arg, []))
    # the ** operator with a 0-d tensor exponent (values that have shortcut paths and one that has not)
    for ka, ca, cb, pval in itertools.product(["float32", "float64", "int64"], (True, False), (True, False), (1, 2, 3)):
        ca_eff = ca if KINDS[ka] == "KFloat" else True
        tasks.append({"what": "pow_op", "kind": None, "ka": ka, "ca": ca, "cb": cb, "pval": pval, "track": True, "arg": None})
        models.append((1, "KFloat", True, None, [ca_eff, cb]))
    # multi-argument atleast_kd (results that already have enough dimensions included): a view-capable operation per argument
    for k, which, ka, ca, arg in itertools.product((1, 2, 3), (0, 1), ["float64", "float32", "int64"], (True, False), ARGS):
        ca_eff = ca if KINDS[ka] == "KFloat" else True
        tasks.append({"what": "atleast_multi", "kind": None, "k": k, "which": which, "ka": ka, "ca": ca, "track": True, "arg": arg})
        models.append((1, KINDS[ka], True, arg, [ca_eff]))
    # out=<plain ndarray>: an ordinary operation whose result lands in the caller's array -- the op rule applies, incl. an explicit constant=
    for what in ("out_array_binary", "out_array_unary", "out_array_where"):
        for ka, ca, arg in itertools.product(["float64", "float32", "int64"], (True, False), ARGS):
            ca_eff = ca if KINDS[ka] == "KFloat" else True
            tasks.append({"what": what, "kind": None, "ka": ka, "ca": ca, "track": True, "arg": arg})
            models.append((1, "KFloat", True, arg, [ca_eff]))
    # in-place targets: out=, augmented assignment, item assignment
    for what in ("out_target", "out_where_target", "out_unary_target", "out_where_unary_target", "out_np_where_target", "iadd_target", "setitem_target"):
        for cz, ka, ca, arg in itertools.product((True, False), ["float64", "float32", "int64"], (True, False), ARGS if what.startswith("out_") and "np" not in what else [None]):
            ca_eff = ca if KINDS[ka] == "KFloat" else True
            tasks.append({"what": what, "kind": None, "cz": cz, "ka": ka, "ca": ca, "track": True, "arg": arg})
            models.append((3, "KFloat", True, arg, [cz, ca_eff]))
    return tasks, models


def coq_ccase(m, got):
    what, k, track, arg, ins = m
    a = "None" if arg is None else "(Some %s)" % ("true" if arg else "false")
    code = CODE.get(got, 4)
    return "(%d, %s, %s, %s, [%s], %d)" % (what, k, "true" if track else "false", a, ";".join("true" if c else "false" for c in ins), code)


def const_to_array_variant(b):
    """the same program with every constant *leaf tensor* handed to the operations as a plain NumPy array"""
    stmts = copy.deepcopy(b.stmts)
    consts = {}
    for s in stmts:
        if s["op"] == "leaf" and s.get("const") is True and s.get("dtype", "float64") == "float64":
            consts[s["name"]] = {"array": {"shape": s["shape"], "vals": s["vals"], "dtype": "float64"}}
    if not consts:
        return None
    out = []
    for s in stmts:
        if s["op"] == "leaf" and s["name"] in consts:
            continue
        if s["op"] == "apply":
            if all(isinstance(a, str) and a in consts for a in s["args"]):
                return None  # an op on constants only has no tensor operand left
            if s["fn"] in ("getitem", "reshape", "transpose", "flatten", "sum") and s.get("spell") in ("method", "op") and isinstance(s["args"][0], str) and s["args"][0] in consts:
                return None
            if s["fn"] == "getitem" and isinstance(s["args"][0], str) and s["args"][0] in consts:
                return None
            s["args"] = [consts[a] if isinstance(a, str) and a in consts else a for a in s["args"]]
        if s["op"] in ("backward", "clear", "null_grad") and s["t"] in consts:
            return None
        out.append(s)
    return out


def run(rep, work, tier, seed, props, replay=None):
    rng = rng_for(seed, "C10")
    kf = {f["name"]: f for f in known_findings("C10") if f["status"] == "known"}
    # ---------------- (1) the decision lattice, complete
    tasks, models = lattice()
    n = max(1, (len(tasks) + 15) // 16)
    parts = [tasks[i:i + n] for i in range(0, len(tasks), n)]
    res = []
    for r in run_impl_parallel("c10_impl.py", [{"tasks": p} for p in parts]):
        res.extend(r["results"])
    # constant aliases of a non-constant tensor's own array, used next to it in one operation (implementation oracle)
    alias_tasks = [{"what": "alias_const", "fn": fn, "alias": al, "order": o} for fn in ("multiply", "add", "einsum_i,i->", "einsum_ij,ij->ij", "einsum_ij,ij->", "matmul", "maximum",
                                                                                      "multiply_sequence", "stack", "where")
                   for al in ("astensor", "tensor_nocopy", "view") for o in (0, 1)]
    alias_res = []
    for r in run_impl_parallel("c10_impl.py", [{"tasks": alias_tasks}]):
        alias_res.extend(r["results"])
    alias_bad = [(t, r) for t, r in zip(alias_tasks, alias_res) if r != "ok"]
    for t, r in alias_bad[:4]:
        rep.violation({"kind": "a constant tensor aliasing a non-constant tensor's array changes that tensor's gradient: %s(%s) -- %s" % (t["fn"], t["alias"], r), "alias_task": t})
    cv_tasks = [{"what": "const_view", "fn": f1, "fn2": f2, "c_in_graph": cg, "v_in_graph": vg, "read_before": rb, "order": o}
                for f1 in ("reshape", "transpose", "swapaxes", "expand_dims", "ravel") for f2 in ("reshape", "transpose", "expand_dims", "ravel")
                for cg in (True, False) for vg in (True, False) for rb in (True, False) for o in (0, 1)]
    cv_res = []
    for r in run_impl_parallel("c10_impl.py", [{"tasks": cv_tasks}]):
        cv_res.extend(r["results"])
    for t, r in [(t, r) for t, r in zip(cv_tasks, cv_res) if r != "ok"][:4]:
        rep.violation({"kind": "a view made constant explicitly: %s" % r, "const_view_task": t})
    terms = [coq_ccase(m, g) for m, g in zip(models, res)]
    hdr = "From Coq Require Import List. Import ListNotations.\nFrom MG Require Import Model.ConstRule Model.ConstCorr.\n"
    lat_bad = []
    for idx, lst in gh.coq_eval_indices(terms, "ccase", "cfailing", work, "c10l", shard=600, header=hdr):
        lat_bad.extend(idx[j] for j in lst)
    for i in lat_bad[:6]:
        rep.violation({"kind": "constant flag / error of a constructor, operation, copy or astype differs from the decision rules (Model/ConstRule.v)",
                       "task": tasks[i], "implementation": res[i], "model_case": terms[i]})
    # ---------------- (2) programs with random flags against Model/GraphP.v
    n_prog = 3000 if tier == "thorough" else 400
    builders = gh.load_corpus("C10")
    if replay is not None and "stmts" in replay:
        builders = [progs.builder_from_stmts(replay["stmts"])]
        n_prog = 1
    while len(builders) < n_prog:
        b = progs.gen_dag_program(rng)
        nc = [nm for nm in b.order if not b.tensors[nm].const]
        if not nc:
            continue
        b.backward(b.tensors[nc[-1]])
        if rng.random() < 0.3:
            progs.grow(b, rng, rng.randint(1, 3))
            nc = [nm for nm in b.order if nm in b.tensors and not b.tensors[nm].const]
            b.backward(b.tensors[rng.choice(nc)])
        builders.append(b)
    results = gh.run_impl_cases([b.case("backward") for b in builders])
    keep = [i for i, r in enumerate(results) if progs.exact_safe(r) and not any(o == "Assertion" for o in r["outcomes"])]
    kb = [builders[i] for i in keep]
    kr = [results[i] for i in keep]
    bad = gh.model_failing(kb, kr, work, "c10m")
    # ---------------- (3) implementation-only oracles
    exposed = []
    for i, (b, r) in enumerate(zip(kb, kr)):
        for snap in r["observations"]:
            for nm, o in snap["obs"].items():
                if o["const"] and (o["grad"] is not None or o["pub_grad"] is not None):
                    exposed.append((i, nm, o["has_base"]))
    n_known_view = 0
    for i, nm, has_base in exposed:
        if has_base and "constant_view_of_nonconstant_base" in kf:
            n_known_view += 1
        else:
            rep.violation({"kind": "a constant tensor exposes a gradient", "tensor": nm, "stmts": kb[i].stmts})
    if n_known_view:
        rep.known("constant_view_of_nonconstant_base", "a constant VIEW of a non-constant base serves a .grad from the base's gradient (%d observations)" % n_known_view)
    variants, vowner = [], []
    for i, b in enumerate(kb):
        v = const_to_array_variant(b)
        if v is not None:
            variants.append({"stmts": v, "observe": "end"})
            vowner.append(i)
    vres = gh.run_impl_cases(variants)
    diff = []
    for i, vr in zip(vowner, vres):
        a = kr[i]["observations"][-1]["obs"]
        bb = vr["observations"][-1]["obs"]
        if vr["outcomes"] != [o for s, o in zip(kb[i].stmts, kr[i]["outcomes"]) if not (s["op"] == "leaf" and s.get("const") is True and s.get("dtype", "float64") == "float64")]:
            diff.append((i, "statement outcomes differ"))
            continue
        for nm, o in bb.items():
            if nm in a and (a[nm]["grad"] != o["grad"] or a[nm]["data"] != o["data"] or a[nm]["const"] != o["const"]):
                diff.append((i, nm))
                break
    for i, nm in diff[:5]:
        rep.violation({"kind": "replacing constant tensor leaves by plain arrays changed a value, flag or gradient", "tensor": nm, "stmts": kb[i].stmts})
    if bad:
        k = sorted(bad, key=lambda k: len(kb[k].stmts))[0]
        rep.violation({"kind": "constant flags / gradients differ from Model/GraphP.v (op rule, constants never receive gradients)", "stmts": kb[k].stmts, "impl": kr[k],
                       "n_disagreements": len(bad)})
    # every operation of the catalogue: arrays and constant tensors are constants, the result is constant exactly when every input is,
    # constants never hold a gradient (5 input-flag patterns per entry)
    sweep, sweep_bad, sweep_skipped = [], 0, 0
    if replay is None or "catalog_index" in (replay or {}):
        info = run_impl_parallel("ops_impl.py", [{"list": True}])[0]
        idx = list(range(info["n"])) if replay is None else [replay["catalog_index"]]
        svariants = [0, 1, 2, 3, 4] if replay is None else [replay.get("variant", 0)]
        stasks = [{"index": i, "mode": "const", "variant": v, "seed": seed} for v in svariants for i in idx]
        parts = [stasks[i::16] for i in range(16)]
        flat = [t for p in parts for t in p]
        for rr in run_impl_parallel("ops_impl.py", [{"tasks": p} for p in parts if p]):
            sweep.extend(rr["results"])
        shown = set()
        for t, r in zip(flat, sweep):
            if "harness_error" in r:
                raise HarnessError("ops_impl: " + r["harness_error"])
            if r.get("skipped"):
                sweep_skipped += 1
            for m in r.get("msgs", []):
                sweep_bad += 1
                key = (r["label"].split("(")[0].split(" ")[0], m)
                if key not in shown and len(shown) < 6:
                    shown.add(key)
                    rep.violation({"kind": "operation sweep: %s -- %s (input pattern %d)" % (r["label"], m, t["variant"]), "catalog_index": t["index"], "variant": t["variant"], "seed": t["seed"]})
    if not props["ok"]:
        rep.violation({"kind": "proof obligations of Props/C10.v no longer check", "broken": "Props/C10.v", "log": props["log"][-1500:]}, no_input=not (lat_bad or bad))

    def nontrivial(b):
        flags = set(s.get("const") for s in b.stmts if s["op"] in ("leaf", "apply"))
        return (True in flags or False in flags) and any(s["op"] == "apply" and s.get("const") is not None for s in b.stmts)
    nt = set(progs.canonical(b) for b in kb if nontrivial(b))
    rep.coverage.update({
        "evaluations": len(tasks) + len(kb) + len(variants) + len(sweep),
        "operation_sweep": {"entries_x_patterns": len(sweep), "skipped": sweep_skipped, "messages": sweep_bad},
        "constant_alias_cells": len(alias_tasks), "constant_alias_failures": len(alias_bad),
        "distinct_nontrivial": len(nt) + len(set(json.dumps(t, sort_keys=True) for t in tasks if t["arg"] is not None)),
        "rule": "lattice: every cell of {tensor, Tensor, astensor} x 9 dtypes x tracking x constant in {None,True,False}; {add,multiply,maximum} x 4x4 operand dtypes x operand flags x tracking x constant; "
                "reshape/sum/copy/astype likewise (complete).  Programs: C01 generator with constant leaves, int leaves and constant= overrides, 1-2 backward calls; non-trivial program = mixed flags with >= 1 override; "
                "non-trivial lattice cell = explicit constant argument; distinct = distinct cell / statement list",
        "samples": [tasks[7], kb[0].stmts],
        "exhaustive": False,
        "exhaustive_note": "the decision lattice (%d cells) is enumerated completely; programs are sampled" % len(tasks),
        "lattice_cells": len(tasks), "lattice_disagreements": len(lat_bad),
        "programs": len(kb), "model_impl_disagreements": len(bad),
        "array_replacement_variants": len(variants), "array_replacement_differences": len(diff),
        "constant_tensors_exposing_grad": len(exposed),
        "traces_validated_against_impl": len(tasks) - len(lat_bad) + len(kb) - len(bad),
        "input_distribution": {"statements": gh.op_histogram(kb)},
    })
    rep.assumptions += [
        "dtype kinds: bool_, integer, floating, other; the output kind of an operation is NumPy's promotion (computed by the harness, not modelled)",
        "in-place targets keeping their flag is checked by C04/C05",
    ]
