"""C16 -- sliding_window_view / conv_nd / max_pool arithmetic.  Theorems: coq/Props/C16.v over
Model/Window.v.  Tie: configurations (exhaustive 1-d lattices + seeded random n-d ones, odd memory
layouts, malformed ones) run on the implementation; accept/reject, output shape and element strides
are compared with the model inside Coq; the property oracle (element map, read-only, memory bounds,
naive nested-loop values) runs on the implementation alone."""
import concurrent.futures as cf
import glob
import itertools
import json
import os

from common import HarnessError, VERIF, coq_Z, coq_bool, coq_list, eval_cases, known_findings, parse_coq_list_of_nat, rng_for, run_impl_parallel


def zl(xs):
    return coq_list([coq_Z(x) for x in xs])


def norm(v, k, default=None):
    if v is None:
        return [default] * k
    if isinstance(v, int):
        return [v] * k
    return list(v)


# ---------------------------------------------------------------------------------------- generators
def gen_swv(rng, tier):
    tasks = []
    # exhaustive 1-d lattice, incl. invalid zeros/negatives
    for x, W, S in itertools.product(range(1, 8), range(0, 6), range(0, 4)):
        for D in (None, 0, 1, 2, 3):
            tasks.append({"kind": "swv", "shape": [x], "layout": "C", "dtype": "float64", "window": [W], "step": S, "dilation": D})
    # trailing-unit-axis layouts (zero / odd last stride), all small cases
    for n, lay, W, S in itertools.product(range(1, 6), ("bcast0", "newaxis"), range(1, 4), range(1, 3)):
        for k in (1, 2):
            tasks.append({"kind": "swv", "shape": [n, 1], "layout": lay, "dtype": "float64",
                          "window": [W, 1][-k:] if k == 1 else [W, 1], "step": S if k == 1 else [S, 1], "dilation": None})
    n_random = 30000 if tier == "thorough" else 2500
    for _ in range(n_random):
        nd = rng.choice([1, 2, 2, 3, 3, 4])
        shape = [rng.choice([1, 2, 3, 4, 5, 6, 7]) for _ in range(nd)]
        if rng.random() < 0.03:
            shape[rng.randrange(nd)] = 0
        k = rng.randint(1, min(3, nd))
        malformed = rng.random() < 0.12
        trail = shape[nd - k:]
        if rng.random() < 0.7 and not malformed:
            # mostly valid: choose W, D with W*D <= x
            window, dil = [], []
            for x in trail:
                W = rng.randint(1, max(1, x))
                D = rng.randint(1, max(1, x // max(W, 1)))
                window.append(W)
                dil.append(D)
        else:
            window = [rng.randint(0 if malformed else 1, 5) for _ in range(k)]
            dil = [rng.randint(0 if malformed else 1, 3) for _ in range(k)]
        step = [rng.randint(0 if malformed and rng.random() < 0.3 else 1, 4) for _ in range(k)]
        r = rng.random()
        if r < 0.25:
            dilation = None
        elif r < 0.4:
            dilation = dil[0]
        else:
            dilation = dil
        if rng.random() < 0.3:
            step_v = step[0]
        else:
            step_v = step
        if malformed:
            m = rng.random()
            if m < 0.25 and isinstance(step_v, list):
                step_v = step_v + [1]
            elif m < 0.5 and isinstance(dilation, list):
                dilation = dilation[:-1] if len(dilation) > 1 else dilation + [1]
            elif m < 0.65:
                window = window + [1] * (nd - k + 1)  # longer than ndim
            elif m < 0.8:
                window[rng.randrange(len(window))] = -rng.randint(1, 2)
        lays = ["C", "C", "F", "transposed", "strided", "negstride"]
        if shape[-1] == 1:
            lays += ["bcast0", "newaxis", "bcast0"]
        if 0 in shape:
            lays = ["C"]
        tasks.append({"kind": "swv", "shape": shape, "layout": rng.choice(lays), "dtype": rng.choice(["float64", "float64", "float32", "int16", "int64"]),
                      "window": window, "step": step_v, "dilation": dilation})
    return tasks


def gen_conv(rng, tier):
    tasks = []
    for x, p, W, S, D in itertools.product(range(1, 8), range(0, 3), range(1, 5), range(1, 4), range(1, 4)):
        tasks.append({"kind": "conv", "xs": [x], "ps": [p], "Ws": [W], "Ss": [S], "Ds": [D], "N": 1 + (x % 2), "C": 1 + (W % 2), "F": 1 + (S % 2), "seed": x * 7 + W})
    n_random = 6000 if tier == "thorough" else 500
    for i in range(n_random):
        nd = rng.choice([2, 2, 3])
        xs = [rng.randint(1, 6) for _ in range(nd)]
        ps = [rng.randint(0, 2) for _ in range(nd)]
        Ws, Ss, Ds = [], [], []
        for a in range(nd):
            ext = xs[a] + 2 * ps[a]
            if rng.random() < 0.75:
                # aim at a valid tiling: pick W, D, then S dividing the slack
                W = rng.randint(1, min(4, ext))
                D = rng.randint(1, 3)
                slack = ext - ((W - 1) * D + 1)
                divs = [s for s in range(1, 5) if slack >= 0 and slack % s == 0] or [1]
                S = rng.choice(divs)
            else:
                W, D, S = rng.randint(1, 4), rng.randint(1, 3), rng.randint(1, 3)
            Ws.append(W)
            Ss.append(S)
            Ds.append(D)
        tasks.append({"kind": "conv", "xs": xs, "ps": ps, "Ws": Ws, "Ss": Ss, "Ds": Ds, "N": rng.randint(1, 2), "C": rng.randint(1, 2), "F": rng.randint(1, 2), "seed": i})
    return tasks


def gen_extra(rng, tier):
    """(a) conv_nd with operands of different dtypes (integer images, float32 / float64 / integer filters with fractional taps); (b) window / step / dilation sequences with a
    non-integer entry, which must be refused"""
    tasks = []
    for xdt, wdt in itertools.product(["int64", "uint8", "int16", "float32", "float64"], ["float64", "float32", "int64"]):
        for i in range(6 if tier == "thorough" else 3):
            x = rng.randint(3, 6)
            W = rng.randint(1, 3)
            D = rng.choice([1, 1, 2]) if (W - 1) * 2 + 1 <= x else 1
            slack = x - ((W - 1) * D + 1)
            S = rng.choice([s for s in (1, 2, 3) if slack % s == 0])
            tasks.append({"kind": "conv", "xs": [x, x], "ps": [0, 0], "Ws": [W, W], "Ss": [S, S], "Ds": [D, D], "N": 1, "C": rng.randint(1, 2), "F": rng.randint(1, 2), "seed": 1000 + i,
                          "xdt": xdt, "wdt": wdt})
    for which, bad in itertools.product(("window", "step", "dilation"), (2.5, 1.5, 2.0)):
        for pos in (0, 1):
            t = {"kind": "swv_nonint", "shape": [3, 6, 8], "window": [2, 3], "step": [1, 1], "dilation": [2, 2]}
            t[which] = list(t[which])
            t[which][pos] = bad
            tasks.append(t)
    return tasks


def gen_pool(rng, tier):
    tasks = []
    for x, P, S in itertools.product(range(1, 9), range(1, 5), range(1, 5)):
        tasks.append({"kind": "pool", "lead": [2] if x % 2 else [], "xs": [x], "Ps": [P], "Ss": [S], "seed": x + P})
    n_random = 4000 if tier == "thorough" else 400
    for i in range(n_random):
        k = rng.choice([1, 2, 2, 3])
        lead = [rng.randint(1, 3) for _ in range(rng.randint(0, 2))]
        xs, Ps, Ss = [], [], []
        for _ in range(k):
            x = rng.randint(1, 7)
            P = rng.randint(1, min(4, x)) if rng.random() < 0.85 else rng.randint(1, 5)
            divs = [s for s in range(1, 5) if (x - P) >= 0 and (x - P) % s == 0] or [1]
            S = rng.choice(divs) if rng.random() < 0.75 else rng.randint(1, 4)
            xs.append(x)
            Ps.append(P)
            Ss.append(S)
        tasks.append({"kind": "pool", "lead": lead, "xs": xs, "Ps": Ps, "Ss": Ss, "seed": i})
    return tasks


# ---------------------------------------------------------------------------------------- model side
def swv_coq_case(t, r):
    k = len(t["window"])
    Ss = norm(t["step"], k)
    Ds = norm(t["dilation"], k, 1)
    if r["accepted"] and all(s is not None for s in r["estrides"]):
        exp = "(Some (%s, %s))" % (zl(r["shape"]), zl(r["estrides"]))
    elif r["accepted"]:
        exp = "(Some (%s, [-1%%Z]))" % zl(r["shape"])  # strides not a multiple of the item size: never matches
    else:
        exp = "None"
    return "(%s, %s, %s, %s, %s)" % (zl(t["shape"]), zl(t["window"]), zl(Ss), zl(Ds), exp)


def conv_coq_case(t, r):
    return "(%s, %s, %s, %s, %s, %s, %s)" % (zl(t["xs"]), zl(t["ps"]), zl(t["Ws"]), zl(t["Ss"]), zl(t["Ds"]), coq_bool(r["accepted"]), zl(r["out"] or []))


def pool_coq_case(t, r):
    return "(%s, %s, %s, %s, %s)" % (zl(t["xs"]), zl(t["Ps"]), zl(t["Ss"]), coq_bool(r["accepted"]), zl(r["out"] or []))


HEADER = ("From Coq Require Import ZArith List. Import ListNotations.\n"
          "From MG Require Import Model.Window Model.WindowCorr.\nOpen Scope Z_scope.\n")


def coq_eval(kind, tasks, results, work):
    """swv/pool: list of failing indices; conv: list of classes"""
    idx_all = list(range(len(tasks)))
    shards = [idx_all[i:i + 500] for i in range(0, len(idx_all), 500)]

    def one(k):
        idx = shards[k]
        if kind == "swv":
            body = coq_list([swv_coq_case(tasks[i], results[i]) for i in idx])
            v = HEADER + "Definition cases : list swv_case := %s.\nEval vm_compute in (swv_failing cases).\n" % body
        elif kind == "pool":
            body = coq_list([pool_coq_case(tasks[i], results[i]) for i in idx])
            v = HEADER + "Definition cases : list pool_case := %s.\nEval vm_compute in (pool_failing cases).\n" % body
        else:
            body = coq_list([conv_coq_case(tasks[i], results[i]) for i in idx])
            v = HEADER + "Definition cases : list conv_case := %s.\nEval vm_compute in (conv_classes cases).\n" % body
        out = eval_cases(v, work, name="c16_%s_%d" % (kind, k))
        lists = parse_coq_list_of_nat(out)
        if len(lists) != 1:
            raise HarnessError("unparsable Coq output: " + out[-400:])
        if kind == "conv":
            if len(lists[0]) != len(idx):
                raise HarnessError("conv class list has wrong length")
            return [(idx[j], c) for j, c in enumerate(lists[0])]
        return [(idx[j], 2) for j in lists[0]]

    res = []
    with cf.ThreadPoolExecutor(max_workers=8) as ex:
        for r in ex.map(one, range(len(shards))):
            res.extend(r)
    return res


def run_tasks(tasks):
    n = max(1, (len(tasks) + 15) // 16)
    parts = [tasks[i:i + n] for i in range(0, len(tasks), n)]
    res = run_impl_parallel("c16_impl.py", [{"tasks": p} for p in parts])
    out = []
    for r in res:
        out.extend(r["results"])
    for t, r in zip(tasks, out):
        if "harness_error" in r:
            raise HarnessError("impl runner error on %s: %s" % (t, r["harness_error"]))
    return out


def nontrivial(t):
    if t["kind"] == "swv":
        k = len(t["window"])
        return any(s != 1 for s in norm(t["step"], k)) or any(d != 1 for d in norm(t["dilation"], k, 1))
    if t["kind"] == "conv":
        return any(s != 1 for s in t["Ss"]) or any(d != 1 for d in t["Ds"]) or any(p != 0 for p in t["ps"])
    if t["kind"] == "swv_nonint":
        return True
    return any(s != 1 for s in t["Ss"])


def load_corpus():
    out = []
    for f in sorted(glob.glob(os.path.join(VERIF, "corpus", "C16", "*.json"))):
        out.append(json.load(open(f))["task"])
    return out


def run(rep, work, tier, seed, props, replay=None):
    rng = rng_for(seed, "C16")
    kf = {f["name"]: f for f in known_findings("C16") if f["status"] == "known"}
    if replay is not None:
        tasks = [replay["task"]]
    else:
        tasks = load_corpus() + [f["witness"] for f in kf.values()] + gen_swv(rng, tier) + gen_conv(rng, tier) + gen_pool(rng, tier) + gen_extra(rng, tier)
    results = run_tasks(tasks)
    n_viol = 0
    disagreements = 0
    known_hits = 0
    stats = {}
    for i, t in enumerate(tasks):
        if t["kind"] == "swv_nonint" and results[i].get("oracle"):
            n_viol += 1
            if n_viol <= 12:
                rep.violation({"kind": "property oracle failed on the implementation", "task": t, "impl": results[i]})
    for kind in ("swv", "conv", "pool"):
        idx = [i for i, t in enumerate(tasks) if t["kind"] == kind]
        if not idx:
            continue
        sub_t = [tasks[i] for i in idx]
        sub_r = [results[i] for i in idx]
        classes = dict(coq_eval(kind, sub_t, sub_r, work))
        stats[kind] = {"cases": len(idx), "accepted": sum(1 for r in sub_r if r["accepted"]),
                       "rejected_by_exception_class": {}}
        for r in sub_r:
            if not r["accepted"]:
                d = stats[kind]["rejected_by_exception_class"]
                d[r["exc"]] = d.get(r["exc"], 0) + 1
        order = sorted(range(len(idx)), key=lambda j: len(json.dumps(sub_t[j])))
        for j in order:
            t, r = sub_t[j], sub_r[j]
            c = classes.get(j, 0)
            if r.get("oracle"):
                n_viol += 1
                if n_viol <= 12:
                    rep.violation({"kind": "property oracle failed on the implementation", "task": t, "impl": r,
                                   "model_agrees": c == 0})
            elif c == 2:
                disagreements += 1
                # the model is the documented rule: accept/reject or shape/stride disagreement IS a property violation
                n_viol += 1
                if n_viol <= 12:
                    rep.violation({"kind": "implementation disagrees with Model/Window.v (accept/reject, output shape or element strides)",
                                   "task": t, "impl": r})
            elif c == 1:
                known_hits += 1
                if "dilated_extent_gap" in kf:
                    rep.known("dilated_extent_gap", "conv_nd rejects a valid dilated tiling (window*dilation > padded extent although the placements tile it), e.g. %s"
                              % json.dumps({k: kf["dilated_extent_gap"]["witness"][k] for k in ("xs", "ps", "Ws", "Ss", "Ds")}))
                else:
                    n_viol += 1
                    rep.violation({"kind": "conv_nd rejects a valid tiling (no known finding lists it)", "task": t, "impl": r})
    # batchnorm, gru, softmax / logsoftmax and the losses against their documented formulas evaluated naively in plain Python floats
    fseeds = [seed + k for k in range(8 if tier == "thorough" else 2)]
    formula_checked, formula_fails = 0, []
    if replay is None or "formula_seed" in (replay or {}):
        if replay is not None:
            fseeds = [replay["formula_seed"]]
        for sd, rr in zip(fseeds, run_impl_parallel("c16_formulas_impl.py", [{"seeds": [sd]} for sd in fseeds])):
            r0 = rr["results"][0]
            if "harness_error" in r0:
                raise HarnessError("c16_formulas_impl: " + r0["harness_error"])
            formula_checked += r0["checked"]
            for f in r0["fails"]:
                formula_fails.append((sd, f))
        shown = set()
        for sd, f in formula_fails:
            key = f.split(" ")[0].split("(")[0]
            if key in shown or len(shown) >= 6:
                continue
            shown.add(key)
            rep.violation({"kind": "a layer / loss does not return its documented formula: " + f[:300], "formula_seed": sd})
    if not props["ok"]:
        rep.violation({"kind": "proof obligations of Props/C16.v no longer check", "broken": "Props/C16.v", "log": props["log"][-1500:]},
                      no_input=(n_viol == 0))
    nt = set(json.dumps(t, sort_keys=True) for t in tasks if nontrivial(t))
    layouts = {}
    for t in tasks:
        if t["kind"] == "swv":
            layouts[t["layout"]] = layouts.get(t["layout"], 0) + 1
    rep.coverage.update({
        "evaluations": len(tasks) + formula_checked,
        "documented_formula_checks": formula_checked, "documented_formula_failures": len(formula_fails),
        "distinct_nontrivial": len(nt),
        "rule": "configurations of sliding_window_view (shape x layout x dtype x window x step x dilation, incl. malformed), conv_nd (extent, padding, window, stride, dilation per axis) "
                "and max_pool; exhaustive 1-d lattices plus seeded random n-d; non-trivial = step, dilation or padding differs from the default; distinct = distinct configuration",
        "samples": [tasks[len(tasks) // 5], tasks[len(tasks) // 2], tasks[-1]],
        "traces_validated_against_impl": len(tasks) - disagreements,
        "model_impl_disagreements": disagreements,
        "known_finding_cases": known_hits,
        "input_distribution": {"by_kind": stats, "swv_layouts": layouts},
        "exhaustive": False,
        "exhaustive_note": "1-d lattices x<=7 (window), x<=7,p<=2,W<=4,S<=3,D<=3 (conv), x<=8,P<=4,S<=4 (pool) are complete; n-d is sampled; the unbounded claim is the theorem",
    })
    rep.assumptions += [
        "np.lib.stride_tricks.as_strided returns exactly the requested shape/strides; np.ascontiguousarray yields row-major strides",
        "conv/pool VALUES are compared with naive nested loops on exact small integers (test, not theorem); the theorems cover acceptance, shapes, strides, element map and bounds",
        "batchnorm, gru (any s0), softmax/logsoftmax (all axis forms) and the losses (all options: hinge, margin, alpha/gamma, weights) are compared with their documented formulas evaluated "
        "naively in Python floats (1e-10): a test over option sweeps, not a theorem; their real-number meaning is in Model/VecOps.v for softmax, logsoftmax, cross-entropy and batchnorm",
    ]
