"""C18 -- save/load round-trips a tensor's data, dtype and gradient.
Theorems: coq/Props/C18.v over Model/IO.v (load = tensor(data) then backward(grad) on the fresh leaf, on top of the history model).
Tie: the complete product dtype x shape {0-d, empty, 1-d, 3-d} x kind {leaf, view with a view-gradient, intermediate with a live graph,
constant copy carrying a gradient} x constant flag x gradient presence x transport {str path, Path, BytesIO, file handle, names without ".npz" / with other dots next to a sibling name} is run on
/repo: loaded data/dtype/shape/gradient equal the saved ones, saving alters nothing (data, gradient, creator, consumers, flags)."""
import itertools
import json

import numpy as np
import os

from common import HarnessError, VERIF, run_impl_parallel


def run(rep, work, tier, seed, props, replay=None):
    tasks = []
    for dt, shape, kind, via in itertools.product(["float64", "float32", "float16", "int64", "int8", "uint8", "bool", ">f8", ">f4", ">i4", "<f8"], [[], [0], [3], [2, 1, 3]],
                                                   ["leaf", "view", "intermediate"], ["str", "path", "bytesio", "handle"]):
        for grad in (True, False):
            for constant in ((None, True, False) if dt.startswith("float") and kind == "leaf" else (None,)):
                tasks.append({"dtype": dt, "shape": shape, "kind": kind, "via": via, "grad": grad, "constant": constant})
    for shape, via in itertools.product([[], [3], [2, 3]], ["str", "bytesio"]):
        tasks.append({"dtype": "float64", "shape": shape, "kind": "const_copy_with_grad", "via": via, "grad": True, "constant": None})
    for dt, shape, kind, via in itertools.product(["float64", "float32", "int64"], [[], [3], [2, 1, 3]], ["leaf", "view"], ["str_noext", "str_dotted", "path_dotted"]):
        for grad in (True, False):
            tasks.append({"dtype": dt, "shape": shape, "kind": kind, "via": via, "grad": grad, "constant": None})
    for dt, shape, via in itertools.product(["float64", "float32", "int64", "bool"], [[], [3], [2, 1, 3]], ["named_tempfile", "duck"]):
        for grad in (True, False):
            tasks.append({"dtype": dt, "shape": shape, "kind": "leaf", "via": via, "grad": grad, "constant": None})
    # archives not written by mygrad.save: load == tensor(data) then backward(grad), so the stored gradient is cast / broadcast / refused like any seed
    for dt, shape in (("float64", [2, 3]), ("float32", [6]), ("float64", [])):
        n = 6 if shape else 1
        variants = [("float32" if dt == "float64" else "float64", shape, "ok"), ("float16", shape, "ok"), ("int64", shape, "ok"), (dt, [], "ok")]
        if shape == [2, 3]:
            variants += [(dt, [3], "ok"), (dt, [1, 3], "ok"), (dt, [2, 1], "ok"), (dt, [2], "raise"), (dt, [3, 2], "raise"), (dt, [1, 2, 3], "raise")]
        if shape == [6]:
            variants += [(dt, [1], "ok"), (dt, [5], "raise"), (dt, [1, 6], "raise")]
        if shape == []:
            variants += [(dt, [1], "raise")]
        for gdt, gshape, expect in variants:
            gn = int(np.prod(gshape)) if gshape else 1
            tasks.append({"kind": "foreign", "dtype": dt, "shape": shape if shape else [], "grad_dtype": gdt, "grad_shape": gshape, "grad_vals": [float(k % 4 + 1) for k in range(gn)],
                          "expect": expect, "via": "bytesio", "grad": True, "constant": None})
    if replay is not None and "task" in replay:
        tasks = [replay["task"]]
    os.environ["VERIF_TMP"] = work.dir
    n = max(1, (len(tasks) + 15) // 16)
    parts = [tasks[i:i + n] for i in range(0, len(tasks), n)]
    res = []
    for r in run_impl_parallel("c18_impl.py", [{"tasks": p} for p in parts]):
        res.extend(r["results"])
    for t, r in zip(tasks, res):
        if "harness_error" in r:
            raise HarnessError("c18 runner on %s: %s" % (json.dumps(t), r["harness_error"]))
    bad = [i for i, r in enumerate(res) if r["oracle"]]
    for i in bad[:8]:
        rep.violation({"kind": "save/load round trip: " + res[i]["oracle"][0], "task": tasks[i], "impl": res[i]})
    if not props["ok"]:
        rep.violation({"kind": "proof obligations of Props/C18.v no longer check", "broken": "Props/C18.v", "log": props["log"][-1500:]}, no_input=not bad)
    nt = [t for t, r in zip(tasks, res) if r.get("has_grad") or t["dtype"] != "float64"]
    rep.coverage.update({
        "evaluations": len(tasks),
        "distinct_nontrivial": len(set(json.dumps(t, sort_keys=True) for t in nt)),
        "rule": "complete product of 11 dtypes (incl. non-native byte orders) x 4 shapes x 3 tensor kinds x 4 transports x gradient presence x constant flag (+ constant copies carrying a gradient); non-trivial = a gradient is present or the dtype is not float64",
        "samples": [tasks[5], tasks[-1]],
        "exhaustive": True,
        "round_trips_with_gradient": sum(1 for r in res if r.get("has_grad")),
        "traces_validated_against_impl": len(tasks) - len(bad),
    })
    rep.assumptions += ["numpy.savez / numpy.load round-trip real arrays (oracle, exercised here)", "graph tracking is on when load is called (under no_autodiff backward is a no-op and the gradient is not installed)",
                        "the constant flag itself is not part of the saved state (load infers it from the dtype)"]
