"""C08 -- memory guard: arrays in a live graph are read-only, and restored afterwards.
Theorems: coq/Props/C08.v over the lock automaton Model/LockMgr.v.  Tie: (1) primitive level: event sequences (new arrays,
NumPy views, lock/release, whole operations with bases-first ordering, operation death in any order, array death, forced
locks, id re-use as observed) drive the REAL functions of lock_management with real ndarrays; flags, counters, tracked
status, waiting sets and table sizes are compared with the model after every event, inside Coq.  (2) property oracle on
real tensor histories: every array listed by a live operation is read-only; at quiescence every array that entered an
operation has its original flag, natively read-only arrays stay read-only, the three tables are empty."""
import json

import graphhist as gh
from common import HarnessError, known_findings, rng_for


def gen_prim(rng):
    ev = [["new", False], ["new", rng.random() < 0.3]]
    n_arr, alive, base = 2, {0, 1}, {0: None, 1: None}
    ops = []   # lists of array indices
    for _ in range(rng.randint(3, 18)):
        k = rng.random()
        live = sorted(alive)
        if k < 0.1 or not live:
            ev.append(["new", rng.random() < 0.3])
            base[n_arr] = None
            alive.add(n_arr)
            n_arr += 1
        elif k < 0.27:
            src = rng.choice(live)
            ev.append(["view", src])
            base[n_arr] = src if base[src] is None else base[src]
            alive.add(n_arr)
            n_arr += 1
        elif k < 0.37:
            ev.append(["lock", rng.choice(live), rng.random() < 0.3])
        elif k < 0.45:
            ev.append(["release", rng.choice(live)])
        elif k < 0.72:
            inputs = [rng.choice(live) for _ in range(rng.randint(1, 3))]
            r = rng.random()
            out = None if r < 0.2 else ("fresh" if r < 0.7 else ["view", rng.choice(inputs)])
            ev.append(["op", inputs, out])
            listed = set(inputs) | {base[i] for i in inputs if base[i] is not None}
            if out is not None:
                base[n_arr] = None if out == "fresh" else (out[1] if base[out[1]] is None else base[out[1]])
                alive.add(n_arr)
                listed.add(n_arr)
                n_arr += 1
            ops.append(listed)
        elif k < 0.9 and ops:
            i = rng.randrange(len(ops))
            ops.pop(i)
            ev.append(["opdie", i])
        else:
            i = rng.choice(live)
            if any(base[j] == i for j in alive if j != i):
                continue   # NumPy: a view keeps its base alive
            if rng.random() < 0.8 and any(i in o for o in ops):
                continue   # mostly respect the lifecycle rule (a live op's tensors keep their arrays alive); sometimes not
            alive.discard(i)
            ev.append(["die", i])
    return {"kind": "prim", "events": ev}


def coq_event(e):
    k = e[0]
    if k == "new":
        return "(ENew %d %s)" % (e[1], "true" if e[2] else "false")
    if k == "view":
        return "(EView %d %d)" % (e[1], e[2])
    if k == "lock":
        return "(ELock %d %s)" % (e[1], "true" if e[2] else "false")
    if k == "release":
        return "(ERelease %d)" % e[1]
    if k == "op":
        out = "None" if e[2] is None else "(Some (%s, %d))" % ("None" if e[2][0] is None else "(Some %d)" % e[2][0], e[2][1])
        return "(EOp [%s] %s)" % (";".join(str(i) for i in e[1]), out)
    if k == "opdie":
        return "(EOpDie %d)" % e[1]
    if k == "die":
        return "(EDie %d)" % e[1]
    raise ValueError(k)


def coq_prim_case(r):
    evs, obs = r["events"], r["obs"]
    assert len(evs) == len(obs)
    o_terms = []
    for o in obs:
        if o is None:
            o_terms.append(None)
            continue
        snap, sizes = o
        ao = ";".join("None" if a is None else "(Some (%s, %d, %s, [%s]))" % ("true" if a[0] else "false", a[1], "true" if a[2] else "false", ";".join(str(x) for x in a[3])) for a in snap)
        o_terms.append("([%s], (%d, %d, %d))" % (ao, sizes[0], sizes[1], sizes[2]))
    # events without an observation (the creation of an op's output) are observed with "no constraint"
    o_terms = [t if t is not None else "([], (0, 0, 0))" for t in o_terms]
    return evs, o_terms


def gen_hist(rng, idx):
    ev = []
    arrays, tensors = [], []
    n_a = 0

    def new_array():
        nonlocal n_a
        name = "a%d" % n_a
        n_a += 1
        ev.append(["array", rng.random() < 0.25, name])
        arrays.append(name)
    new_array()
    new_array()
    if rng.random() < 0.25:
        # an out= target that is a NumPy view taken from an array BEFORE that array is locked as the input of another live graph;
        # the out= graph then finishes first (backward / clear / del): the owner must stay read-only for the other graph
        owner = arrays[0]
        vname = "a%d" % n_a
        n_a += 1
        ev.append(["npview", owner, vname, "head"])
        arrays.append(vname)
        ev.append(["op", "a", owner, "a", owner, rng.choice(["add", "multiply"])])
        tensors.append("t%d" % (len(ev) - 1))
        ev.append(["tensor"])
        src = "t%d" % (len(ev) - 1)
        tensors.append(src)
        ev.append(["view", src, "head"])
        small = "t%d" % (len(ev) - 1)
        tensors.append(small)
        ev.append(["out", small, vname])
        res = "t%d" % (len(ev) - 1)
        tensors.append(res)
        ev.append([rng.choice(["backward", "clear", "del"]), res])
        if ev[-1][0] == "del":
            tensors.remove(res)
    if rng.random() < 0.2:
        # out= an ndarray view whose buffer also backs an OPERAND of the same call (mg.exp(buf[2:], out=buf[:2])): the buffer is locked once per
        # role and must be released as often when the graph ends
        owner = arrays[1]
        vo, vi = "a%d" % n_a, "a%d" % (n_a + 1)
        n_a += 2
        ev.append(["npview", owner, vo, "head"])
        ev.append(["npview", owner, vi, "tail"])
        arrays.extend([vo, vi])
        ev.append(["out_arr", vi, vo, rng.choice(["exp", "negative", "add"])])
        res = "t%d" % (len(ev) - 1)
        tensors.append(res)
        ev.append([rng.choice(["backward", "clear", "del"]), res])
        if ev[-1][0] == "del":
            tensors.remove(res)
    for step in range(rng.randint(4, 16)):
        k = rng.random()
        tn = "t%d" % len(ev)
        if k < 0.08:
            new_array()
        elif k < 0.18:
            name = "a%d" % n_a
            n_a += 1
            ev.append(["npview", rng.choice(arrays), name, rng.choice(["all", "head", "step"])])
            arrays.append(name)
        elif k < 0.28:
            ev.append(["astensor", rng.choice(arrays)])
            tensors.append(tn)
        elif k < 0.36:
            ev.append(["tensor"])
            tensors.append(tn)
        elif k < 0.58 and (tensors or arrays):
            pool = [("t", n) for n in tensors] + [("a", n) for n in arrays]
            (k1, n1), (k2, n2) = rng.choice(pool), rng.choice(pool)
            ev.append(["op", k1, n1, k2, n2, rng.choice(["add", "multiply"])])
            tensors.append(tn)
        elif k < 0.66 and tensors:
            ev.append(["view", rng.choice(tensors), rng.choice(["all", "head", "ell"])])
            tensors.append(tn)
        elif k < 0.72 and tensors:
            r2 = rng.random()
            if r2 < 0.5:
                ev.append([rng.choice(["inplace", "iadd"]), rng.choice(tensors)])
            elif r2 < 0.8:
                # in-place tensor operations whose OPERAND is a caller array (possibly natively read-only): t[...] = a, t *= a, mg.add(a, 1, out=t)
                ev.append([rng.choice(["setitem_arr", "imul_arr", "out_tensor"]), rng.choice(tensors), rng.choice(arrays)])
            else:
                ev.append(["setshape", rng.choice(tensors)])
        elif k < 0.79 and tensors:
            ev.append(["backward", rng.choice(tensors)])
        elif k < 0.83 and tensors:
            ev.append(["clear", rng.choice(tensors)])
        elif k < 0.89 and tensors:
            t = rng.choice(tensors)
            tensors.remove(t)
            ev.append(["del", t])
        elif k < 0.94 and tensors:
            ev.append(["out", rng.choice(tensors), rng.choice(arrays)])
            tensors.append(tn)
        elif k < 0.965 and tensors:
            ev.append([rng.choice(["failing", "failing_index"]), rng.choice(tensors)])
        elif k < 0.98:
            name = "a%d" % n_a
            n_a += 1
            ev.append(["ctor_fail", rng.choice(arrays), "copy", name])
            arrays.append(name)
        elif tensors:
            ev.append(["guard_off_op", rng.choice(tensors)])
            tensors.append(tn)
    return {"kind": "hist", "events": ev, "seed": idx}


def run(rep, work, tier, seed, props, replay=None):
    rng = rng_for(seed, "C08")
    kf = {f["name"]: f for f in known_findings("C08") if f["status"] == "known"}
    n_prim = 12000 if tier == "thorough" else 1500
    n_hist = 12000 if tier == "thorough" else 1500
    prim = [gen_prim(rng) for _ in range(n_prim)]
    hist = [gen_hist(rng, i) for i in range(n_hist)]
    if replay is not None and "case" in replay:
        prim = [replay["case"]] if replay["case"]["kind"] == "prim" else []
        hist = [replay["case"]] if replay["case"]["kind"] == "hist" else []
    res = gh.run_impl_cases(prim + hist, script="c08_impl.py")
    pres, hres = res[:len(prim)], res[len(prim):]
    terms = []
    for r in pres:
        evs, obs = coq_prim_case(r)
        terms.append("([%s], [%s])" % (";".join(coq_event(e) for e in evs), ";".join(obs)))
    hdr = "From Coq Require Import List. Import ListNotations.\nFrom MG Require Import Model.LockMgr Model.LockCorr.\n"
    bad = []
    if terms:
        for idx, lst in gh.coq_eval_indices(terms, "kcase", "kfailing", work, "c08p", shard=250, header=hdr):
            bad.extend(idx[j] for j in lst)
    oracle_bad = [i for i, r in enumerate(hres) if r["oracle"]]
    for i in sorted(oracle_bad, key=lambda i: len(hist[i]["events"]))[:8]:
        rep.violation({"kind": "memory guard property violated on a real tensor history: " + hres[i]["oracle"][0], "case": hist[i], "impl": hres[i]})
    if bad:
        i = sorted(bad, key=lambda i: len(prim[i]["events"]))[0]
        rep.violation({"kind": "lock_management functions differ from Model/LockMgr.v (flags, counters, tracked status, waiting sets or table sizes after some event)",
                       "broken": "correspondence C08: LockCorr.kcase_ok", "case": prim[i], "impl": pres[i], "n_disagreements": len(bad)},
                      no_input=not oracle_bad)
    # every operation of the catalogue on tensors over caller arrays (copy=False): after backward() -- or after just dropping the results -- and
    # dropping every reference, each caller array is writeable again and no live array keeps a positive lock count
    rel_tasks, rel_res, rel_bad = [], [], 0
    if replay is None or "catalog_index" in (replay or {}):
        rel_tasks, rel_res = gh.catalogue_sweep("release", ([0, 1, 2] if tier == "thorough" else [1, 2]) if replay is None else [replay.get("kind", 1)], seed, "kind", replay)
        shown = set()
        for t, r in zip(rel_tasks, rel_res):
            for m in r.get("msgs", []):
                if "still alive" in m:
                    continue
                rel_bad += 1
                key = r["label"].split("(")[0].split(" ")[0]
                if key not in shown and len(shown) < 6:
                    shown.add(key)
                    rep.violation({"kind": "operation sweep: %s -- %s" % (r["label"], m), "catalog_index": t["index"], "kind_": t["kind"], "seed": t["seed"]})
    if not props["ok"]:
        rep.violation({"kind": "proof obligations of Props/C08.v no longer check", "broken": "Props/C08.v", "log": props["log"][-1500:]}, no_input=not (oracle_bad or bad or rel_bad))
    evh, exh = {}, {}
    for c in prim + hist:
        for e in c["events"]:
            evh[e[0]] = evh.get(e[0], 0) + 1
    for r in hres:
        for _, x in r["exceptions"]:
            exh[x] = exh.get(x, 0) + 1

    def nontrivial(c):
        if c["kind"] == "prim":
            return sum(1 for e in c["events"] if e[0] == "op") >= 2 and any(e[0] == "view" for e in c["events"])
        return sum(1 for e in c["events"] if e[0] in ("op", "view", "out")) >= 2 and any(e[0] in ("npview", "astensor") for e in c["events"])
    nt = set(json.dumps(c, sort_keys=True) for c in prim + hist if nontrivial(c))
    rep.coverage.update({
        "evaluations": len(prim) + len(hist) + len(rel_res),
        "operation_release_sweep": {"entries_x_kinds": len(rel_res), "lock_messages": rel_bad},
        "distinct_nontrivial": len(nt),
        "rule": "primitive event sequences (3-18 events over new/view/lock/release/op/opdie/die, forced locks, outputs that are fresh arrays or views) and real tensor histories (user arrays incl. read-only ones, NumPy views, "
                "astensor/tensor, ops on tensors and raw arrays, tensor views, in-place updates, out= targets, failing ops, backward/clear_graph/del in random order, guard-off ops); non-trivial = >= 2 overlapping ops with a "
                "view/base pair involved; distinct = distinct event list",
        "samples": [prim[0] if prim else None, hist[0] if hist else None],
        "traces_validated_against_impl": len(prim) - len(bad),
        "model_impl_disagreements": len(bad),
        "history_oracle_failures": len(oracle_bad),
        "input_distribution": {"events": evh, "history_exceptions": exh},
    })
    rep.assumptions += [
        "NumPy: a new view inherits the current writeable flag and its base is the memory owner; setting writeable=True on a view of a read-only base raises",
        "CPython: weakref callbacks / finalizers of an operation run when its last strong reference is dropped (gc disabled in the runner)",
        "a NumPy view the user takes from a locked array and never hands to MyGrad is outside the property (it counts as having its owner's original flag)",
    ]
