"""Generation of exact-arithmetic MyGrad programs / histories, and printing them as Coq terms for
Model/GraphP.v.  Shared by the checks of C01, C07, C09, C10, C12, C14.  NumPy only (never mygrad)."""
import json

import numpy as np

import exactops
from common import coq_bool, coq_list

MAXVAL = 2 ** 18
SHAPES = [(), (1,), (2,), (3,), (4,), (1, 1), (1, 2), (2, 1), (2, 2), (2, 3), (3, 2), (3, 1), (1, 3), (3, 3),
          (2, 1, 2), (1, 2, 2), (2, 2, 2), (2, 3, 1), (1, 1, 3), (2, 1, 3)]
# (empty tensors are exercised by C03/C04: in Model/GraphP.v the empty vector denotes "no gradient")


class TInfo:
    def __init__(self, name, shape, vals, const, node, dtype="float64"):
        self.name, self.shape, self.vals, self.const, self.node, self.dtype = name, tuple(shape), vals, const, node, dtype

    @property
    def size(self):
        return int(np.prod(self.shape, dtype=np.int64))


class Builder:
    """Builds a history as (a) JSON statements for the implementation runner and (b) model statements."""

    def __init__(self, rng):
        self.rng = rng
        self.stmts = []        # for the implementation
        self.mstmts = []       # for the model: tuples
        self.tensors = {}      # name -> TInfo (live, named)
        self.order = []        # names in creation order
        self.n_nodes = 0
        self.counter = 0
        self.node_name = {}    # node id -> name (named tensors only)
        self.stmt_node_count = []  # nodes existing after each impl statement
        self.mcount = []           # model statements emitted after each impl statement
        self.names_at = []         # node -> name mapping after each impl statement

    def _mark(self):
        self.stmt_node_count.append(self.n_nodes)
        self.mcount.append(len(self.mstmts))
        self.names_at.append(dict(self.node_name))

    # -------------------------------------------------------------------------------- primitives
    def fresh(self, prefix="t"):
        self.counter += 1
        return "%s%d" % (prefix, self.counter)

    def _new_node(self):
        k = self.n_nodes
        self.n_nodes += 1
        return k

    def leaf(self, shape, vals=None, const=False, dtype="float64", name=None):
        name = name or self.fresh("x")
        if vals is None:
            vals = self.rng_vals(shape)
        vals = np.array(np.asarray(vals, dtype=np.int64).reshape(shape), copy=True)  # owns its memory, like mg.tensor(arr)
        if dtype.startswith("int") or dtype == "bool":
            const_eff = True
            c_arg = None
        else:
            const_eff = bool(const)
            c_arg = bool(const)
        node = self._new_node()
        self.stmts.append({"op": "leaf", "name": name, "shape": list(shape), "vals": exactops.flat(vals), "const": c_arg, "dtype": dtype})
        self.mstmts.append(("leaf", const_eff, exactops.flat(vals)))
        t = TInfo(name, shape, vals, const_eff, node, dtype)
        self.tensors[name] = t
        self.order.append(name)
        self.node_name[node] = name
        self._mark()
        return t

    def rng_vals(self, shape, lo=-3, hi=3):
        n = int(np.prod(shape, dtype=np.int64))
        return np.asarray([self.rng.randint(lo, hi) for _ in range(n)], dtype=np.int64).reshape(shape)

    def apply(self, fn, operands, params=None, const=None, spell="mg", name=None):
        """operands: TInfo | ("array", shape, vals) | ("scalar", v).  Returns TInfo or None if rejected."""
        params = params or {}
        if spell != "mg":
            const = None  # only the mygrad-function spelling takes constant=
        ops_sv, arg_json, src_nodes, pending_leaves = [], [], [], []
        for o in operands:
            if isinstance(o, TInfo):
                ops_sv.append((o.shape, o.vals))
                arg_json.append(o.name)
                src_nodes.append(o.node)
            elif o[0] == "array":
                _, shape, vals = o
                vals = np.asarray(vals, dtype=np.int64).reshape(shape)
                ops_sv.append((tuple(shape), vals))
                arg_json.append({"array": {"shape": list(shape), "vals": exactops.flat(vals), "dtype": "float64"}})
                src_nodes.append(None)
                pending_leaves.append((len(src_nodes) - 1, exactops.flat(vals)))
            else:
                _, v = o
                ops_sv.append(((), np.asarray(v, dtype=np.int64)))
                arg_json.append({"scalar": float(v)})
                src_nodes.append(None)
                pending_leaves.append((len(src_nodes) - 1, [int(v)]))
        try:
            out_shape, out, cop, view = exactops.translate(fn, params, ops_sv)
        except (ValueError, IndexError, KeyError, TypeError):
            return None
        if out.size == 0:
            return None
        if np.abs(out).max() > MAXVAL:
            return None
        if cop.work > 400:
            return None
        # non-tensor operands become constant leaves (Tensor._op casts them to constant tensors)
        for pos, vals in pending_leaves:
            node = self._new_node()
            self.mstmts.append(("leaf", True, vals))
            src_nodes[pos] = node
        name = name or self.fresh("t")
        node = self._new_node()
        in_consts = [o.const if isinstance(o, TInfo) else True for o in operands]
        all_int = all(isinstance(o, TInfo) and o.dtype.startswith("int") for o in operands)
        if all_int and const is False:
            const = None  # integer results must be constant (asking for constant=False raises)
        c_eff = bool(const) if const is not None else all(in_consts)
        if all_int:
            c_eff = True
        self.stmts.append({"op": "apply", "name": name, "fn": fn, "args": arg_json, "params": params, "const": const, "spell": spell})
        self.mstmts.append(("app", const, view, cop, list(src_nodes)))
        t = TInfo(name, out_shape, out, c_eff, node, "int64" if all_int else "float64")
        self.tensors[name] = t
        self.order.append(name)
        self.node_name[node] = name
        self._mark()
        return t

    def backward(self, t, seed=None, non_owning=False):
        s = {"op": "backward", "t": t.name, "seed": None}
        mseed = None
        if seed is not None:
            seed = np.asarray(seed, dtype=np.int64)
            s["seed"] = {"shape": list(seed.shape), "vals": exactops.flat(seed), "dtype": "float64"}
            if non_owning:
                s["seed"]["non_owning"] = True
            mseed = exactops.flat(np.broadcast_to(seed, t.shape))
        self.stmts.append(s)
        self.mstmts.append(("backward", t.node, mseed))
        self._mark()

    def clear(self, t):
        self.stmts.append({"op": "clear", "t": t.name})
        self.mstmts.append(("clear", t.node))
        self._mark()

    def null_grad(self, t):
        self.stmts.append({"op": "null_grad", "t": t.name})
        self.mstmts.append(("null_grad", t.node))
        self._mark()

    def delete(self, names):
        for n in names:
            self.tensors.pop(n, None)
        self.stmts.append({"op": "del", "names": list(names)})
        self._mark()

    def case(self, observe="backward"):
        return {"stmts": self.stmts, "observe": observe}


# ------------------------------------------------------------------------------------------------
# random growth
# ------------------------------------------------------------------------------------------------
UNARY = ["negative", "positive", "square", "abs", "relu"]
BINARY = ["add", "subtract", "multiply", "multiply", "add", "maximum", "minimum"]


def compat_shapes(rng, shape):
    """a shape broadcast-compatible with `shape` (same, size-1 axes, fewer leading axes, extra leading axes)"""
    r = rng.random()
    s = list(shape)
    if r < 0.4:
        return tuple(s)
    if r < 0.6 and s:
        i = rng.randrange(len(s))
        s[i] = 1
        return tuple(s)
    if r < 0.8 and s:
        return tuple(s[rng.randint(1, len(s)):])
    if r < 0.9 and len(s) < 3:
        return tuple([rng.randint(1, 2)] + s)
    return ()


def rand_index(rng, shape):
    ix = []
    used_ellipsis = False
    for d in shape:
        r = rng.random()
        if r < 0.3:
            ix.append({"slice": [None, None, None]})
        elif r < 0.55 and d > 0:
            ix.append(rng.randrange(-d, d))
        elif r < 0.8:
            a = rng.randint(-d, d) if d else 0
            b = rng.randint(-d, d) if d else 0
            st = rng.choice([1, 1, 2, -1, -2])
            ix.append({"slice": [a if rng.random() < 0.7 else None, b if rng.random() < 0.7 else None, st]})
        elif r < 0.9 and d > 0:
            n = rng.randint(1, 3)
            neg = rng.random() < 0.4            # negative entries address the same items as non-negative ones (0 and -d alias)
            e = {"array": [rng.randrange(-d, d) if neg else rng.randrange(d) for _ in range(n)], "shape": [n]}
            if neg and rng.random() < 0.5:
                e["array"][-1] = e["array"][0] - d if e["array"][0] >= 0 else e["array"][0] + d      # a literal alias: no entry repeats, a position does
            if rng.random() < 0.35:
                e["dtype"] = rng.choice(["int32", "int16", "int8"] if neg else ["int32", "int16", "uint8", "uint64", "int8"])     # NumPy accepts any integer dtype as an index array
            elif rng.random() < 0.4:
                e["as_list"] = True               # ... and a plain Python list
            ix.append(e)
        else:
            ix.append({"newaxis": True})
            ix.append({"slice": [None, None, None]})
    if shape and rng.random() < 0.15 and not used_ellipsis:
        ix = ix[:1] + [{"ellipsis": True}]
    if not ix:
        return [{"ellipsis": True}] if rng.random() < 0.5 else [{"newaxis": True}]
    if len(ix) == 1 and isinstance(ix[0], dict) and "array" in ix[0] and rng.random() < 0.5:
        ix[0]["lone"] = True                      # x[idx] rather than x[(idx,)]
    return ix


def pick(rng, b, prefer_nonconst=True):
    names = [n for n in b.order if n in b.tensors]
    if prefer_nonconst and rng.random() < 0.8:
        nc = [n for n in names if not b.tensors[n].const]
        if nc:
            names = nc
    # bias towards recent tensors, but keep fan-out
    if rng.random() < 0.5:
        return b.tensors[names[-1 - min(len(names) - 1, int(rng.expovariate(0.7)))]]
    return b.tensors[rng.choice(names)]


def grow(b, rng, n_ops, allow_const_override=True):
    made = 0
    tries = 0
    while made < n_ops and tries < n_ops * 12:
        tries += 1
        r = rng.random()
        a = pick(rng, b)
        const = None
        if allow_const_override and rng.random() < 0.06:
            const = rng.random() < 0.6
        spell = rng.choice(["mg", "mg", "op", "np", "method"])
        t = None
        if r < 0.16:
            t = b.apply(rng.choice(UNARY), [a], const=const, spell=rng.choice(["mg", "op"]))
        elif r < 0.50:
            fn = rng.choice(BINARY)
            rr = rng.random()
            if rr < 0.18:
                other = a  # repeated operand
            elif rr < 0.62:
                cands = [x for x in b.tensors.values() if _bc(x.shape, a.shape)]
                other = rng.choice(cands) if cands else a
            elif rr < 0.82:
                sh = compat_shapes(rng, a.shape)
                other = ("array", sh, b.rng_vals(sh))
            else:
                other = ("scalar", rng.randint(-3, 3))
            ops = [a, other] if rng.random() < 0.5 else [other, a]
            if spell in ("np", "method") and fn in ("maximum", "minimum"):
                spell = "mg"
            if spell == "method":
                spell = "mg"
            t = b.apply(fn, ops, const=const if spell == "mg" else None, spell=spell)
        elif r < 0.60:
            if a.shape:
                nd = len(a.shape)
                choice = rng.random()
                if choice < 0.3:
                    axis = None
                elif choice < 0.7:
                    axis = rng.randrange(-nd, nd)
                elif choice < 0.9:
                    k = rng.randint(0, nd)
                    axis = sorted(rng.sample(range(nd), k))
                else:
                    axis = []
            else:
                axis = None
            sp = rng.choice(["mg", "method", "np"])
            t = b.apply("sum", [a], {"axis": axis, "keepdims": rng.random() < 0.4}, const=const if sp != "np" else None, spell=sp)
        elif r < 0.70:
            t = b.apply("getitem", [a], {"index": rand_index(rng, a.shape)})
        elif r < 0.80:
            fn = rng.choice(["reshape", "transpose", "swapaxes", "squeeze", "expand_dims", "broadcast_to", "ravel", "flatten", "moveaxis", "repeat", "roll"])
            nd = len(a.shape)
            p = {}
            if fn == "reshape":
                p = {"shape": list(_rand_reshape(rng, a.shape))}
            elif fn == "transpose":
                p = {"axes": None if rng.random() < 0.5 else rng.sample(range(nd), nd)}
            elif fn == "swapaxes":
                if nd < 1:
                    continue
                p = {"a1": rng.randrange(-nd, nd), "a2": rng.randrange(-nd, nd)}
            elif fn == "moveaxis":
                if nd < 1:
                    continue
                p = {"src": rng.randrange(-nd, nd), "dst": rng.randrange(-nd, nd)}
            elif fn == "squeeze":
                ones_ax = [i for i, d in enumerate(a.shape) if d == 1]
                p = {"axis": None if not ones_ax or rng.random() < 0.5 else rng.choice(ones_ax)}
            elif fn == "expand_dims":
                p = {"axis": rng.randint(-nd - 1, nd)}
            elif fn == "broadcast_to":
                p = {"shape": [rng.randint(1, 2)] + [d for d in a.shape]}
            elif fn == "repeat":
                p = {"repeats": rng.randint(1, 2), "axis": None if not nd or rng.random() < 0.3 else rng.randrange(nd)}
            elif fn == "roll":
                p = {"shift": rng.randint(-2, 2), "axis": None if not nd or rng.random() < 0.3 else rng.randrange(nd)}
            sp = "method" if fn in ("reshape", "transpose", "flatten") and rng.random() < 0.5 else "mg"
            t = b.apply(fn, [a], p, const=const if sp == "mg" else None, spell=sp)
        elif r < 0.86:
            # contractions
            kind = rng.random()
            if kind < 0.5:
                other = _matmul_partner(rng, b, a)
                if other is None:
                    continue
                ops = [a, other]
                t = b.apply("matmul", ops, const=const if spell != "op" else None, spell=rng.choice(["op", "mg"]) if const is None else "mg")
            else:
                spec, ops = _rand_einsum(rng, b, a)
                if spec is None:
                    continue
                t = b.apply("einsum", ops, {"spec": spec}, const=const)
        elif r < 0.92:
            cands = [x for x in b.tensors.values() if len(x.shape) == len(a.shape) and len(a.shape) >= 1]
            if not cands:
                continue
            fn = rng.choice(["concatenate", "stack"])
            axis = rng.randrange(len(a.shape))
            if fn == "stack":
                others = [x for x in cands if x.shape == a.shape]
            else:
                others = [x for x in cands if all(i == axis or d == e for i, (d, e) in enumerate(zip(x.shape, a.shape)))]
            if not others:
                continue
            ops = [a] + [rng.choice(others) for _ in range(rng.randint(1, 2))]
            t = b.apply(fn, ops, {"axis": axis}, const=const)
        elif r < 0.96:
            if not a.shape:
                continue
            t = b.apply("cumsum", [a], {"axis": rng.randrange(len(a.shape))}, const=const)
        elif r < 0.98:
            cond_shape = compat_shapes(rng, a.shape)
            n = int(np.prod(cond_shape, dtype=np.int64))
            cands = [x for x in b.tensors.values() if _bc(x.shape, a.shape)]
            other = rng.choice(cands) if cands else a
            t = b.apply("where", [a, other], {"cond": [rng.random() < 0.5 for _ in range(n)], "cond_shape": list(cond_shape)}, const=const)
        else:
            cands = [x for x in b.tensors.values() if _bc(x.shape, a.shape)]
            ops = [a] + [rng.choice(cands) for _ in range(rng.randint(1, 2))]
            t = b.apply(rng.choice(["add_sequence", "multiply_sequence"]), ops, const=const)
        if t is not None:
            made += 1
    return made


def _bc(s1, s2):
    try:
        np.broadcast_shapes(s1, s2)
        return True
    except ValueError:
        return False


def _rand_reshape(rng, shape):
    n = int(np.prod(shape, dtype=np.int64))
    opts = [s for s in SHAPES if int(np.prod(s, dtype=np.int64)) == n]
    opts.append((n,))
    opts.append((-1,))
    return rng.choice(opts)


def _matmul_partner(rng, b, a):
    if len(a.shape) == 0 or len(a.shape) > 2:
        return None
    k = a.shape[-1]
    cands = [x for x in b.tensors.values() if 1 <= len(x.shape) <= 2 and x.shape[0 if len(x.shape) == 1 else -2] == k]
    if cands and rng.random() < 0.6:
        return rng.choice(cands)
    sh = (k,) if rng.random() < 0.3 else (k, rng.randint(1, 3))
    return ("array", sh, b.rng_vals(sh)) if rng.random() < 0.5 else b.leaf(sh, const=rng.random() < 0.2)


def _rand_einsum(rng, b, a):
    nd = len(a.shape)
    if nd == 0 or nd > 2:
        return None, None
    letters = "ijkl"
    r = rng.random()
    if r < 0.25 and nd == 2 and a.shape[0] == a.shape[1]:
        return rng.choice(["ii->i", "ii->"]), [a]
    if r < 0.5:
        la = letters[:nd]
        return "%s,%s->%s" % (la, la, rng.choice(["", la, la[::-1]])), [a, a]
    cands = [x for x in b.tensors.values() if 1 <= len(x.shape) <= 2 and a.shape[-1] in x.shape]
    if not cands:
        return None, None
    o = rng.choice(cands)
    la = letters[:nd]
    shared = la[-1]
    pos = list(o.shape).index(a.shape[-1])
    lo = "".join(shared if i == pos else "xyz"[i] for i in range(len(o.shape)))
    out_l = "".join(ch for ch in la + lo if ch != shared or rng.random() < 0.3)
    out_l = "".join(dict.fromkeys(out_l))
    return "%s,%s->%s" % (la, lo, out_l), [a, o]


def gen_dag_program(rng, n_ops=None, n_leaves=None):
    """a fresh program: leaves, ops, one terminal; the caller adds backward statements"""
    b = Builder(rng)
    n_leaves = n_leaves or rng.randint(1, 4)
    for _ in range(n_leaves):
        sh = rng.choice(SHAPES)
        dt = "float64" if rng.random() < 0.85 else rng.choice(["float32", "int64"])
        b.leaf(sh, const=rng.random() < 0.2, dtype=dt)
    if all(t.const for t in b.tensors.values()):
        b.leaf(rng.choice(SHAPES[:14]), const=False)
    grow(b, rng, n_ops or rng.randint(2, 14))
    return b


def gen_history(rng, n_events=None, allow_del=True):
    """several terminals sharing upstream tensors; backward / clear_graph / null_grad / new ops / del interleaved"""
    b = Builder(rng)
    for _ in range(rng.randint(1, 3)):
        b.leaf(rng.choice(SHAPES[:14]), const=rng.random() < 0.15)
    if all(t.const for t in b.tensors.values()):
        b.leaf(rng.choice(SHAPES[:14]), const=False)
    grow(b, rng, rng.randint(2, 7))
    n_events = n_events or rng.randint(2, 7)
    for _ in range(n_events):
        r = rng.random()
        live = [n for n in b.order if n in b.tensors]
        nonconst = [n for n in live if not b.tensors[n].const]
        if r < 0.40 and nonconst:
            t = b.tensors[rng.choice(nonconst[-6:])] if rng.random() < 0.7 else b.tensors[rng.choice(nonconst)]
            b.backward(t)
        elif r < 0.52 and live:
            b.clear(b.tensors[rng.choice(live)])
        elif r < 0.60 and live:
            b.null_grad(b.tensors[rng.choice(live)])
        elif r < 0.92:
            grow(b, rng, rng.randint(1, 3))
        elif allow_del and len(live) > 2:
            b.delete([rng.choice(live[1:])])
    nonconst = [n for n in b.order if n in b.tensors and not b.tensors[n].const]
    if nonconst:
        b.backward(b.tensors[rng.choice(nonconst[-5:])])
    return b


# ------------------------------------------------------------------------------------------------
# Coq printing
# ------------------------------------------------------------------------------------------------
def zlist(xs):
    return "[" + ";".join(("(%d)" % x) if x < 0 else str(x) for x in xs) + "]"


def nlist(xs):
    return "[" + ";".join(str(x) for x in xs) + "]%nat"


def coq_cop(cop, src_nodes):
    args = "[" + ";".join("Build_carg %d%%nat %s" % (src_nodes[p], nlist(m)) for p, m in cop.args) + "]"
    if cop.kern[0] == "lin":
        kern = "(KLin Z [%s] %s)" % (";".join(zlist(c) for c in cop.kern[1]), zlist(cop.kern[2]))
    else:
        kern = "(KMul Z)"
    seg = "None" if cop.seg is None else "(Some (%d%%nat, %s))" % (cop.seg[0], nlist(cop.seg[1]))
    return "(Build_cop Z %d%%nat %s %s %s)" % (cop.work, args, kern, seg)


def coq_stmt(m):
    k = m[0]
    if k == "leaf":
        return "(SLeaf %s %s)" % (coq_bool(m[1]), zlist(m[2]))
    if k == "app":
        _, const, view, cop, srcs = m
        fc = "None" if const is None else "(Some %s)" % coq_bool(const)
        return "(SApp %s %s %s)" % (fc, coq_bool(view), coq_cop(cop, srcs))
    if k == "backward":
        seed = "None" if m[2] is None else "(Some %s)" % zlist(m[2])
        return "(SBackward %d%%nat %s)" % (m[1], seed)
    if k == "clear":
        return "(SClear %d%%nat)" % m[1]
    if k == "null_grad":
        return "(SNullGrad %d%%nat)" % m[1]
    raise ValueError(k)


def coq_history(b):
    return "[" + ";\n  ".join(coq_stmt(m) for m in b.mstmts) + "]"


OUT_CODE = {None: 0, "InvalidBackprop": 1}


def coq_tobs(o):
    if o is None:
        return "None"
    g = o["grad"]
    gs = "None" if g is None else "(Some %s)" % zlist(g)
    return "(Some (%s, %s, %s, %s, %s))" % (gs, coq_bool(o["const"]), coq_bool(o["creator_none"]), coq_bool(o["hasops"]), zlist(o["data"]))


def model_stmt_index(b):
    """impl statement i (0-based) -> number of model statements executed after it"""
    return list(b.mcount)


def exact_safe(result):
    """all observed numbers are exact integers below the limit (else the case is discarded)"""
    for snap in result["observations"]:
        for o in snap["obs"].values():
            for key in ("grad", "data", "pub_grad"):
                if isinstance(o[key], str):
                    return False
    return True


def coq_gcase(b, result):
    """history + what the implementation did, as a Model/GraphCorr.v gcase term"""
    mindex = model_stmt_index(b)
    outs = []
    prev = 0
    for s, exc, mc in zip(b.stmts, result["outcomes"], mindex):
        k = mc - prev
        prev = mc
        if k <= 0:
            continue
        outs.extend([0] * (k - 1))
        outs.append(OUT_CODE.get(exc, 2))
    snaps = []
    for snap in result["observations"]:
        after = snap["after"]          # number of impl statements executed
        if after == 0:
            continue
        m_after = mindex[after - 1] if after <= len(mindex) else mindex[-1]
        n_nodes = b.stmt_node_count[after - 1] if after <= len(b.stmt_node_count) else b.n_nodes
        tob = []
        for k in range(n_nodes):
            nm = b.node_name.get(k)
            tob.append(coq_tobs(snap["obs"].get(nm)) if nm is not None else "None")
        snaps.append("(%d%%nat, [%s])" % (m_after, ";".join(tob)))
    return "(%s,\n %s,\n [%s])" % (coq_history(b), nlist(outs), ";\n  ".join(snaps))


def coq_vobs(o, with_grad):
    if o is None:
        return "None"
    if with_grad:
        g = o["grad"]
        gs = "(Some %s)" % ("None" if g is None else "(Some %s)" % zlist(g))
    else:
        gs = "None"
    return "(Some (%s, %s, %s))" % (gs, coq_bool(o["const"]), zlist(o["data"]))


def coq_fcase(b, result, grad_filter=None):
    """history with in-place updates (functional meaning) + values/flags (+ gradients where grad_filter(name, obs)) after the
    observed statements"""
    snaps = []
    for snap in result["observations"]:
        after = snap["after"]
        if after == 0 or after > len(b.mcount):
            continue
        m_after = b.mcount[after - 1]
        names = b.names_at[after - 1]
        n_nodes = b.stmt_node_count[after - 1]
        tob = []
        for k in range(n_nodes):
            nm = names.get(k)
            o = snap["obs"].get(nm) if nm is not None else None
            tob.append(coq_vobs(o, bool(grad_filter and o is not None and grad_filter(nm, o))))
        snaps.append("(%d%%nat, [%s])" % (m_after, ";".join(tob)))
    return "(%s,\n [%s])" % (coq_history(b), ";\n  ".join(snaps))


HEADER = ("From Coq Require Import ZArith List. Import ListNotations.\n"
          "From MG Require Import Base.EngCore Model.OpsExact Model.GraphP Model.GraphCorr.\nOpen Scope Z_scope.\n")


def builder_from_stmts(stmts):
    """rebuild the model statements of a recorded history (for replays and corpus cases)"""
    import random

    b = Builder(random.Random(0))
    for s in stmts:
        k = s["op"]
        if k == "leaf":
            b.leaf(tuple(s["shape"]), s["vals"], const=bool(s.get("const")), dtype=s.get("dtype", "float64"), name=s["name"])
            b.stmts[-1]["const"] = s.get("const")
        elif k == "apply":
            ops = []
            for a in s["args"]:
                if isinstance(a, str):
                    ops.append(b.tensors[a])
                elif "array" in a:
                    ops.append(("array", tuple(a["array"]["shape"]), a["array"]["vals"]))
                else:
                    ops.append(("scalar", int(a["scalar"])))
            t = b.apply(s["fn"], ops, s.get("params", {}), const=s.get("const"), spell=s.get("spell", "mg"), name=s["name"])
            if t is None:
                raise ValueError("statement not translatable: %s" % s)
        elif k == "backward":
            seed = s.get("seed")
            b.backward(b.tensors[s["t"]], None if seed is None else np.asarray(seed["vals"], dtype=np.int64).reshape(seed["shape"]))
        elif k == "clear":
            b.clear(b.tensors[s["t"]])
        elif k == "null_grad":
            b.null_grad(b.tensors[s["t"]])
        elif k == "del":
            b.delete(s["names"])
        else:
            raise ValueError(k)
    return b


def canonical(b):
    return json.dumps(b.stmts, sort_keys=True)
