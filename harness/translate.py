"""Regeneration of coq/Gen/*.v from /repo's working tree and the installed NumPy (fail closed)."""
import os

from common import COQ, HarnessError, run_impl

DTC = {"bool": "Bool_", "int8": "I8", "int16": "I16", "int32": "I32", "int64": "I64", "uint8": "U8", "uint16": "U16", "uint32": "U32",
       "uint64": "U64", "float16": "F16", "float32": "F32", "float64": "F64"}


def odt(x):
    return "None" if x is None else "(Some %s)" % DTC[x]


def write_if_changed(path, txt):
    old = open(path).read() if os.path.exists(path) else None
    if old != txt:
        os.makedirs(os.path.dirname(path), exist_ok=True)
        open(path, "w").write(txt)


def gen_numpy_tables():
    t = run_impl("numpy_tables_impl.py", {})
    L = []
    L.append("(* GENERATED on every run by harness/translate.py from the installed NumPy (type resolution of the binary ufuncs that MyGrad")
    L.append("   registers, NEP-50 results with Python scalars, np.result_type) -- do not edit. *)")
    L.append("From Coq Require Import List. Import ListNotations.\nFrom MG Require Import Model.Dtype.\n")
    names = t["binary"]
    L.append("Inductive bufunc := %s." % " | ".join("U_" + n for n in names))
    L.append("Definition all_bufunc : list bufunc := [%s]." % "; ".join("U_" + n for n in names))

    def table2(fname, data):
        L.append("Definition %s (f : bufunc) : list (list (option dt)) :=\n  match f with" % fname)
        for n in names:
            rows = "; ".join("[" + "; ".join(odt(x) for x in row) + "]" for row in data[n])
            L.append("  | U_%s => [%s]" % (n, rows))
        L.append("  end.")
    table2("strong_tab", t["strong"])
    table2("weak_r_tab", t["weak_r"])
    table2("weak_l_tab", t["weak_l"])
    L.append("Definition rt_tab : list (list (option dt)) := [%s]." % "; ".join("[" + "; ".join(odt(x) for x in row) + "]" for row in t["rt"]))
    unames = sorted(t["unary"])
    L.append("Inductive uufunc := %s." % " | ".join("V_" + n for n in unames))
    L.append("Definition unary_tab (f : uufunc) : list (option dt) :=\n  match f with")
    for n in unames:
        L.append("  | V_%s => [%s]" % (n, "; ".join(odt(x) for x in t["unary"][n])))
    L.append("  end.")
    write_if_changed(os.path.join(COQ, "Gen", "NumpyTables.v"), "\n".join(L) + "\n")
    return t


def regenerate(prop_id):
    problems = []
    if prop_id in (None, "C03"):
        try:
            gen_numpy_tables()
        except HarnessError as e:
            problems.append("numpy tables: %s" % e)
    if prop_id in (None, "C11"):
        import routes_translate
        pr, tables = routes_translate.regenerate()
        routes_translate.last = (pr, tables)
        problems += pr
    if prop_id in (None, "C02"):
        try:
            import vjp_translate
            problems += vjp_translate.regenerate()
        except ImportError:
            pass
    return problems
