"""C05 -- gradients flow correctly through in-place updates and views.
Theorems: coq/Props/C05.v: the functional meaning of an in-place update (one cop: keep-mask (.) old base + scatter of the
written values, later writes winning) equals the buffer semantics of the assignment, and its VJP is exact (registry theorem),
so C01's adjoint theorem applies to the equivalent purely functional program.
Tie: C04's family histories followed by a terminal built from reads taken before and after the mutations and backward();
forward values of every tensor and the gradients of every memory-owning tensor (leaves, intermediates, mutated tensors:
w.r.t. their CURRENT value) are compared exactly with Model/GraphP.v run on the functional program."""
import json

import graphhist as gh
import inplace
import progs
from c04 import replay_mirror
from common import known_findings, rng_for


def add_terminal(b, rng):
    live = [n for n in b.order if n in b.tensors and not b.tensors[n].const and b.tensors[n].size > 0]
    if not live:
        return None
    picks = [b.tensors[n] for n in rng.sample(live, min(len(live), rng.randint(1, 4)))]
    parts = []
    for t in picks:
        w = ("array", t.shape, b.rng_vals(t.shape, -2, 2))
        p = b.apply("multiply", [t, w])
        if p is None:
            continue
        s = b.apply("sum", [p], {"axis": None, "keepdims": False})
        if s is not None:
            parts.append(s)
    if not parts:
        return None
    L = parts[0]
    for s in parts[1:]:
        nxt = b.apply("add", [L, s])
        if nxt is not None:
            L = nxt
    b.backward(L)
    return L


def gen_case(rng):
    b = inplace.gen_family_history(rng)
    # interleave: some reads (non-view ops) already happened before mutations inside gen_family_history (grow);
    # add a couple more reads between extra mutations
    for _ in range(rng.randint(0, 2)):
        progs.grow(b, rng, 1, allow_const_override=False)
        live = [n for n in b.order if n in b.tensors]
        if live:
            inplace.mutate(b, rng, b.tensors[rng.choice(live)])
    if add_terminal(b, rng) is None:
        return None
    return b


def run(rep, work, tier, seed, props, replay=None):
    rng = rng_for(seed, "C05")
    kf = {f["name"]: f for f in known_findings("C05") if f["status"] == "known"}
    n = 4000 if tier == "thorough" else 450
    builders = []
    if replay is not None and "stmts" in replay:
        builders = [list(replay_mirror(replay["stmts"]))[-1][0]]
        n = 1
    while len(builders) < n:
        b = gen_case(rng)
        if b is not None and not getattr(b, "identity_views", None):
            builders.append(b)
    cases = []
    for i, b in enumerate(builders):
        c = b.case("backward")
        if i % 5 < 2:
            c["guard"] = False          # memory guarding off: values and gradients must not depend on it
        cases.append(c)
    results = gh.run_impl_cases(cases)
    def unexpected(i, r):
        st = builders[i].stmts
        return any((o is not None) != (st[j].get("expect") == "raise") for j, o in enumerate(r["outcomes"]))
    raised = [i for i, r in enumerate(results) if unexpected(i, r)]
    ok_idx = [i for i, r in enumerate(results) if progs.exact_safe(r) and i not in set(raised) and not getattr(builders[i], "explicit_const_views", False)]
    discarded = len(builders) - len(ok_idx) - len(raised)
    owner = lambda nm, o: not o["has_base"]
    terms = [progs.coq_fcase(builders[i], results[i], grad_filter=owner) for i in ok_idx]
    bad = []
    if terms:
        for idx, lst in gh.coq_eval_indices(terms, "fcase", "ffailing", work, "c05f", shard=50):
            bad.extend(ok_idx[idx[j]] for j in lst)
    for i in sorted(raised, key=lambda i: len(builders[i].stmts))[:4]:
        j = [k for k, o in enumerate(results[i]["outcomes"]) if (o is not None) != (builders[i].stmts[k].get("expect") == "raise")][0]
        rep.violation({"kind": "statement %d (%s) of an in-place program: outcome %s, expected %s" % (j, builders[i].stmts[j]["op"], results[i]["outcomes"][j],
                                                                                                 "an exception (NumPy refuses it)" if builders[i].stmts[j].get("expect") == "raise" else "success"),
                       "stmts": builders[i].stmts})
    for i in sorted(bad, key=lambda i: len(builders[i].stmts))[:6]:
        rep.violation({"kind": "values or gradients differ from the equivalent purely functional program (Model/GraphP.v on the functional meaning of the updates; its gradients are the total derivative, Props/C01.v)",
                       "stmts": builders[i].stmts, "impl_final": results[i]["observations"][-1]["obs"]})
    # operation sweep: for every catalogue operation, an operand (an intermediate W = 2*P) is updated in place AFTER the forward pass
    # (W[...] = v, W *= c, through a view, ufunc out=W); backward through the old result must give the gradients of the program without the update
    kf = {f["name"]: f for f in known_findings("C05") if f["status"] == "known"}
    mu_hist, mu_bad, mu_known = {}, 0, 0
    if replay is None or "mutate_index" in (replay or {}):
        hows = ([0, 1, 2, 3] if tier == "thorough" else [0, 3]) if replay is None else [replay.get("how", 0)]
        shown = set()
        from common import run_impl_parallel
        info = run_impl_parallel("ops_impl.py", [{"list": True}])[0]
        idx = list(range(info["n"])) if replay is None else [replay["mutate_index"]]
        opnds = ([0, 1, 2] if tier == "thorough" else [0, 1]) if replay is None else [replay.get("operand", 0)]
        tasks = [{"index": i, "mode": "mutate", "seed": seed, "operand": k, "how": h} for i in idx for k in opnds for h in hows]
        parts = [tasks[i::16] for i in range(16)]
        flat = [t for p2 in parts for t in p2]
        mres = []
        for rr in run_impl_parallel("ops_impl.py", [{"tasks": p2} for p2 in parts if p2]):
            mres.extend(rr["results"])
        for t, r in zip(flat, mres):
            if "harness_error" in r:
                from common import HarnessError
                raise HarnessError("ops_impl (mutate): " + r["harness_error"])
            o = r["outcome"]
            mu_hist[o] = mu_hist.get(o, 0) + 1
            if o in ("exact", "identity", "view"):
                continue
            if r["label"].startswith("gru") and "gru_operand_updated_in_place_after_forward" in kf:
                mu_known += 1
                continue
            mu_bad += 1
            key = r["label"].split("(")[0].split(" ")[0]
            if key not in shown and len(shown) < 6:
                shown.add(key)
                rep.violation({"kind": "operation sweep: an operand of %s was updated in place after the forward pass; backward through the old result: %s%s" % (
                    r["label"], o, " (%s)" % r["which"] if r.get("which") else ""), "mutate_index": t["index"], "operand": t["operand"], "how": t["how"], "seed": t["seed"], "result": r})
        if mu_known:
            rep.known("gru_operand_updated_in_place_after_forward", "%s (%d catalogue runs)" % (kf["gru_operand_updated_in_place_after_forward"]["what"][:160], mu_known))
    if not props["ok"]:
        rep.violation({"kind": "proof obligations of Props/C05.v no longer check", "broken": "Props/C05.v", "log": props["log"][-1500:]}, no_input=not (bad or raised))

    def nontrivial(b):
        muts = [i for i, s in enumerate(b.stmts) if s["op"] in ("setitem", "aug", "out")]
        reads = [i for i, s in enumerate(b.stmts) if s["op"] == "apply" and s["fn"] not in inplace.VIEW_FNS]
        return bool(muts) and any(r < muts[-1] for r in reads) and any(r > muts[0] for r in reads) and len(set(b.fam.values())) < len(b.fam)
    nt = set(progs.canonical(b) for b in builders if nontrivial(b))
    rep.coverage.update({
        "evaluations": len(builders) + sum(mu_hist.values()),
        "operation_mutate_sweep_outcomes": mu_hist, "operation_mutate_sweep_violations": mu_bad,
        "distinct_nontrivial": len(nt),
        "rule": "C04 family histories (views of views, reads, setitem basic/int-array(repeated)/bool with broadcast values, augmented assignment, out= with/without where=) plus extra read/mutate rounds, "
                "then L = sum_i sum(t_i * w_i) over 1-4 live tensors and L.backward(); non-trivial = a mutation on a family with >= 2 live members with reads before and after it; distinct = distinct statement list",
        "samples": [builders[0].stmts],
        "discarded_not_exact": discarded, "raised": len(raised), "cases_with_memory_guard_off": sum(1 for c in cases if c.get("guard") is False),
        "traces_validated_against_impl": len(ok_idx) - len(bad),
        "model_impl_disagreements": len(bad),
        "input_distribution": {"statements": gh.op_histogram(builders)},
    })
    rep.assumptions += ["gradients of view members are compared under C06 (a view's .grad is the view of its base's gradient), here only memory owners",
                        "40% of the cases run with memory guarding switched off (turn_memory_guarding_off) -- results must be identical"]
