"""C11 -- every public entry point to an operation behaves identically.
Theorems: coq/Props/C11.v over Gen/Routes.v, regenerated on every run from /repo by harness/routes_translate.py (ast of the operator
dunders, Tensor methods, @ufunc_creator functions, _op call sites) and the imported dispatch tables: operator / reflected / augmented
dunders, mygrad ufunc and NumPy ufunc reach one Operation class with the written operand order; methods route like their function
namesakes; the rounding/modulo ufuncs raise for non-constant operands; comparison ufuncs and no-diff functions return arrays; the
dispatch tables are disjoint.
Tie / differential on /repo: for EVERY registered ufunc and NumPy-function override, the same operands are sent through every
spelling (mygrad function, NumPy function on tensors, method, operator, explicit dunder, reflected dunder, augmented assignment,
out=, where=, dtype=) and the value bits, dtype, shape, constant flag, out-target contents and the gradient of every operand must
be identical; all bool-only / const-only ufuncs and no-diff functions are run for the array / raise behaviour."""
import itertools
import json

import numpy as np

import routes_translate
from common import HarnessError, known_findings, rng_for, run_impl_parallel

HANDLES_BROKEN_BUILD = True      # Proofs/RoutesP.v is checked against the REGENERATED Gen/Routes.v: a failure there is a broken proof obligation, not a tooling error

DOMAIN = {"arccos": "unit", "arcsin": "unit", "arctanh": "unit", "arccosh": "gt1", "log": "pos", "log10": "pos", "log2": "pos", "log1p": "pos", "sqrt": "pos",
          "reciprocal": "pos", "divide": "pos", "true_divide": "pos", "power": "pos", "cbrt": "pos"}

T = lambda shape, dtype="float64", const=None, **k: dict(kind="tensor", shape=list(shape), dtype=dtype, const=const, **k)
A = lambda shape, dtype="float64", **k: dict(kind="array", shape=list(shape), dtype=dtype, **k)


def operand_kinds(sa, sb):
    return [
        (T(sa), T(sb)), (T(sa), T(sb, const=True)), (T(sa, const=True), T(sb)), (T(sa, const=True), T(sb, const=True)),
        (T(sa), A(sb)), (A(sa), T(sb)), (T(sa, "float32"), T(sb)), (T(sa), T(sb, "float32")), (T(sa, "float32"), T(sb, "float32")),
        (T(sa), T(sb, "int64")), (T(sa, "int32"), T(sb)), (T(sa, layout="F"), T(sb)), (T(sa), T(sb, layout="strided")),
        (T(sa), dict(kind="list", shape=list(sb), dtype="float64")),
    ]


SCALARS = [dict(kind="pyfloat", val=2.0), dict(kind="pyfloat", val=1.0), dict(kind="pyint", val=2), dict(kind="pyint", val=1), dict(kind="pyint", val=3), dict(kind="pyfloat", val=0.5),
           dict(kind="npscalar", dtype="float32", val=2), dict(kind="npscalar", dtype="float64", val=1.5)]
SHAPES2 = [((2, 3), (2, 3)), ((2, 3), (3,)), ((2, 1), (1, 3)), ((), (2, 3)), ((2, 3), ()), ((), ()), ((1,), (1,))]


def ufunc_groups(rt, tier, rng):
    G = []
    for u, (f, _c) in sorted(rt["np_ufunc"].items()):
        nin = getattr(np, u).nin
        dom = DOMAIN.get(u, "any")
        base = dict(family="ufunc", fn=f, domain=dom)
        if u == "matmul":
            for sa, sb in (((2, 3), (3, 2)), ((3,), (3,)), ((2, 3), (3,)), ((3,), (3, 2)), ((2, 2, 3), (3, 2)), ((2, 3), (2, 3, 2))):
                for a, b in operand_kinds(sa, sb)[:10]:
                    G.append(dict(base, operands=[a, b]))
            continue
        if nin == 1:
            for sh in ((2, 3), (), (3,), (0,)):
                for a in (T(sh), T(sh, const=True), T(sh, "float32"), T(sh, "float16"), T(sh, layout="F"), T(sh, layout="strided")):
                    G.append(dict(base, operands=[a]))
                G.append(dict(base, operands=[T(sh, "int64")]))
            # keyword routes
            for a in (T((2, 3)), T((2, 3), const=True), T((2, 3), "float32")):
                for out in (dict(kind="array", shape=[2, 3], dtype="float64"), dict(kind="tensor", shape=[2, 3], dtype="float64"), dict(kind="tensor", shape=[2, 3], dtype="float64", const=True),
                            dict(kind="tensor", shape=[2, 3], dtype="float32")):
                    G.append(dict(base, operands=[a], out=out))
                    G.append(dict(base, operands=[a], out=out, where=dict(mask=[1, 0, 1], shape=[3])))
                G.append(dict(base, operands=[a], dtype="float32"))
                G.append(dict(base, operands=[a], dtype="float64"))
            for a in (T((2, 3)), T((2, 3), const=True), T((3,), "float32")):
                for nonleaf in (True, False):
                    G.append(dict(base, operands=[a], mode="inplace", target_nonleaf=nonleaf))
            if u == "absolute":
                # the one extra option a ufunc has: nan_to_num=False (the gradient at an exact 0 is then nan) must survive every route, incl. out=
                for a in (T((3,), val=0.0), T((2, 3), val=0.0), T((), val=0.0)):
                    G.append(dict(base, operands=[a], kw={"nan_to_num": False}, mg_only_kw=True))
                    for out in (dict(kind="array", shape=list(a["shape"]), dtype="float64"), dict(kind="tensor", shape=list(a["shape"]), dtype="float64"),
                                dict(kind="tensor", shape=list(a["shape"]), dtype="float64", const=True)):
                        G.append(dict(base, operands=[a], kw={"nan_to_num": False}, out=out, mg_only_kw=True))
                    G.append(dict(base, operands=[a], kw={"nan_to_num": False}, mode="inplace", mg_only_kw=True))
        else:
            for sa, sb in SHAPES2:
                for a, b in operand_kinds(sa, sb):
                    G.append(dict(base, operands=[a, b]))
                for s in SCALARS:
                    G.append(dict(base, operands=[T(sa), s]))
                    G.append(dict(base, operands=[s, T(sb)]))
                    G.append(dict(base, operands=[T(sa, "float32"), s]))
                    G.append(dict(base, operands=[T(sa, "int64"), s]))
            # a 0-d float64 / int64 ARRAY next to a tensor of lower precision: for NumPy it is a strongly typed operand (unlike a Python scalar); every spelling agrees on that
            for v, adt in ((0.1, "float64"), (100, "int64"), (0.1, "float32")):
                for tdt in ("float32", "float16", "int8"):
                    G.append(dict(base, operands=[T((2, 3), tdt), A((), adt, val=v)]))
                    G.append(dict(base, operands=[A((), adt, val=v), T((3,), tdt)]))
                    if tdt == "float32":
                        G.append(dict(base, operands=[T((2, 3), tdt), A((), adt, val=v)], mode="inplace"))
            # operands holding the special values 0, 1, 2 exactly (0-d / 1-element tensors and arrays): operator shortcuts must not drop them from the graph
            for v in (0.0, 1.0, 2.0, 3.0):
                for sb in ((), (1,), (3,)):
                    for b in (T(sb, val=v), T(sb, const=True, val=v), A(sb, val=v), T(sb, "float32", val=v)):
                        G.append(dict(base, operands=[T((2, 3)), b]))
                        G.append(dict(base, operands=[T((2, 3), const=True), b]))
                        G.append(dict(base, operands=[b, T((2, 3))]))
                        if sb == ():
                            G.append(dict(base, operands=[T(()), b]))
                    if sb in ((), (1,)):
                        G.append(dict(base, operands=[T((2, 3)), T(sb, val=v)], mode="inplace"))
                        G.append(dict(base, operands=[T((2, 3)), A(sb, val=v)], mode="inplace"))
            for a, b in ((T((2, 3)), T((3,))), (T((2, 3)), T((2, 3), const=True)), (T((2, 3), "float32"), A((2, 3))), (A((2, 3)), T((2, 3)))):
                for out in (dict(kind="array", shape=[2, 3], dtype="float64"), dict(kind="tensor", shape=[2, 3], dtype="float64"), dict(kind="tensor", shape=[2, 3], dtype="float64", const=True)):
                    G.append(dict(base, operands=[a, b], out=out))
                    G.append(dict(base, operands=[a, b], out=out, where=dict(mask=[1, 0, 1, 0, 0, 1], shape=[2, 3])))
                G.append(dict(base, operands=[a, b], dtype="float32"))
            for sa, sb in (((2, 3), (2, 3)), ((2, 3), (3,)), ((2, 3), ()), ((), ())):
                for a, b in ((T(sa), T(sb)), (T(sa), T(sb, const=True)), (T(sa, const=True), T(sb)), (T(sa), A(sb)), (T(sa, "float32"), T(sb)), (T(sa, const=True), T(sb, const=True))):
                    for nonleaf in (True, False):
                        G.append(dict(base, operands=[a, b], mode="inplace", target_nonleaf=nonleaf))
                for s in SCALARS[:4]:
                    G.append(dict(base, operands=[T(sa), s], mode="inplace"))
    return G


def ufunc_method_groups(rt):
    """ufunc METHODS on tensors: whatever numpy.<u>.<method>(tensors) does, mygrad.<u>.<method> must do too, and a returned value must be NumPy's"""
    G = []
    for u, (f, _c) in sorted(rt["np_ufunc"].items()):
        nin = getattr(np, u).nin
        dom = DOMAIN.get(u, "any")
        base = dict(family="ufunc_method", fn=f, domain=dom)
        if nin != 2 or u == "matmul":
            continue
        for a in (T((3,)), T((2, 3)), T((3,), const=True)):
            G.append(dict(base, method="reduce", operands=[a]))
            G.append(dict(base, method="reduce", operands=[a], kw={"axis": 0}))
            G.append(dict(base, method="accumulate", operands=[a]))
            G.append(dict(base, method="reduceat", operands=[a], margs=[[0, 1, 2]]))
            G.append(dict(base, method="reduceat", operands=[a], margs=[[0, 2]]))
        for a, b in ((T((3,)), T((3,))), (T((3,)), T((2,))), (T((2, 3)), T((3,))), (T((3,)), A((3,))), (A((3,)), T((3,))), (T((3,), const=True), T((3,), const=True))):
            G.append(dict(base, method="outer", operands=[a, b]))
    return G


RED_KW = [{}, {"axis": 0}, {"axis": 1}, {"axis": -1}, {"axis": [0, 1]}, {"axis": 0, "keepdims": True}, {"keepdims": True}, {"axis": []}]


def func_groups(rt):
    G = []
    names = sorted(rt["np_func"].items())

    def add(fn, operands, **k):
        G.append(dict(family="func", fn=fn, mg_name=dict(names).get(fn, fn), operands=operands, **k))
    tens = lambda sh: [T(sh), T(sh, const=True), T(sh, "float32"), T(sh, layout="F")]
    for fn in ("sum", "mean", "prod", "max", "min", "amax", "amin", "std", "var"):
        for a in tens((2, 3)):
            for kw in RED_KW:
                if kw.get("axis") == [] and fn in ("max", "min", "amax", "amin"):
                    pass
                add(fn, [a], kw=kw, domain="pos" if fn == "prod" else "any")
            if fn in ("std", "var"):
                add(fn, [a], kw={"ddof": 1}), add(fn, [a], kw={"ddof": 1, "axis": 1})
                add(fn, [a], kw={"ddof": 0.5}), add(fn, [a], kw={"ddof": 1.5, "axis": 0}), add(fn, [a], kw={"ddof": 2.75, "axis": 1, "keepdims": True})
        add(fn, [T(())]), add(fn, [T((1,))])
    for fn in ("cumsum", "cumprod"):
        for a in tens((2, 3)):
            for kw in ({}, {"axis": 0}, {"axis": 1}, {"axis": -1}):
                add(fn, [a], kw=kw, domain="pos")
    for a in tens((2, 3)):
        add("reshape", [a], args=[[3, 2]], method_star=True), add("reshape", [a], args=[[-1]], method_star=True), add("reshape", [a], args=[[1, 6, 1]], method_star=True)
        add("transpose", [a], property="T"), add("transpose", [a], args=[[1, 0]], method_star=True), add("transpose", [a], args=[[0, 1]], method_star=True)
        add("swapaxes", [a], args=[0, 1]), add("moveaxis", [a], args=[0, -1]), add("ravel", [a])
        add("expand_dims", [a], args=[0]), add("expand_dims", [a], args=[-1]), add("expand_dims", [a], kw={"axis": 1})
        add("repeat", [a], args=[2]), add("repeat", [a], args=[2], kw={"axis": 0}), add("repeat", [a], args=[[1, 2, 0]], kw={"axis": 1})
        add("roll", [a], args=[1]), add("roll", [a], args=[1], kw={"axis": 0}), add("roll", [a], args=[[1, -1]], kw={"axis": [0, 1]})
        add("clip", [a], args=[-0.5, 0.5]), add("clip", [a], args=[None, 0.5]), add("clip", [a], args=[-0.5, None]), add("clip", [a], kw={"a_min": -1.0, "a_max": 0.0})
        add("norm", [a]), add("norm", [a], kw={"axis": 0}), add("norm", [a], kw={"ord": 1, "axis": 1}), add("norm", [a], kw={"ord": 3, "axis": 1, "keepdims": True})
        add("any", [a]), add("argmax", [a]), add("argmin", [a], kw={"axis": 0}), add("argmax", [a], kw={"axis": 1})
        for fn in ("zeros_like", "ones_like"):
            add(fn, [a], method=None), add(fn, [a], kw={"dtype": "float32"}, method=None)
        add("full_like", [a], args=[2.5], method=None)
    for a in tens((1, 3, 1)):
        add("squeeze", [a]), add("squeeze", [a], kw={"axis": 0}), add("squeeze", [a], kw={"axis": [0, 2]}), add("squeeze", [a], args=[-1])
    for a in tens((3,)):
        add("broadcast_to", [a], args=[[2, 3]]), add("broadcast_to", [a], args=[[2, 2, 3]])
    for sh in ((), (3,), (2, 3)):
        for fn in ("atleast_1d", "atleast_2d", "atleast_3d"):
            add(fn, [T(sh)]), add(fn, [T(sh, const=True)])
    for fn in ("atleast_1d", "atleast_2d", "atleast_3d"):
        add(fn, [T(()), T((3,))], multi=True)
    for kinds in ([T((2, 3)), T((2, 3))], [T((2, 3)), T((2, 3), const=True)], [T((2, 3)), A((2, 3))], [A((2, 3)), T((2, 3))], [T((2, 3), "float32"), T((2, 3)), T((2, 3))],
                  [T((2, 3), const=True), T((2, 3), const=True)]):
        for kw in ({}, {"axis": 0}, {"axis": 1}, {"axis": -1}):
            add("concatenate", kinds, style="seq", kw=kw), add("stack", kinds, style="seq", kw=kw)
        add("concatenate", kinds, style="seq", kw={"axis": None})
    for spec, shapes in (("ij,jk->ik", [(2, 3), (3, 2)]), ("ij,ij->", [(2, 3), (2, 3)]), ("ii->i", [(3, 3)]), ("ij->ji", [(2, 3)]), ("i,i", [(3,), (3,)]), ("...j,j", [(2, 3), (3,)]),
                         ("ij,ij,ij->ij", [(2, 2), (2, 2), (2, 2)])):
        add("einsum", [T(s) for s in shapes], style="einsum", spec=spec)
        add("einsum", [T(shapes[0])] + [A(s) for s in shapes[1:]], style="einsum", spec=spec)
        add("einsum", [T(shapes[0], const=True)] + [T(s) for s in shapes[1:]], style="einsum", spec=spec)
    for kinds in ([A((2, 3)), T((2, 3)), T((2, 3))], [A((2, 3)), T((2, 3)), A((2, 3))], [A((2, 3)), T((2, 3)), dict(kind="pyfloat", val=0.0)], [A((2, 3)), T((3,), const=True), T((2, 1))]):
        add("where", kinds, style="where")
    return G


def nodiff_tasks(rt):
    Tn = []
    for u in sorted(rt["bool_only"]):
        nin = getattr(np, u).nin
        if u == "isnat":
            continue
        for ops in ([T((2, 3))], [T((2, 3), const=True)], [T((), "float32")]) if nin == 1 else ([T((2, 3)), T((3,))], [T((2, 3)), A((2, 3))], [A((2, 3)), T((2, 3), const=True)],
                                                                                               [T((2, 3)), dict(kind="pyfloat", val=0.5)], [dict(kind="pyfloat", val=0.5), T((2, 3))]):
            Tn.append(dict(family="nodiff", fn=u, operands=ops, expect="array"))
    for u in sorted(rt["const_only"]):
        nin = getattr(np, u).nin
        nonconst = ([T((2, 3))], [T(())], [T((3,), "float32")]) if nin == 1 else ([T((2, 3)), T((3,))], [T((2, 3)), A((3,))], [A((2, 3)), T((3,))], [T((2, 3), const=True), T((3,))],
                                                                                 [T((2, 3)), dict(kind="pyint", val=2)], [dict(kind="pyfloat", val=7.0), T((2, 3))])
        const = ([T((2, 3), const=True)], [T((3,), "int64")]) if nin == 1 else ([T((2, 3), const=True), T((3,), const=True)], [T((2, 3), const=True), A((3,))],
                                                                               [T((2, 3), "int64"), dict(kind="pyint", val=2)], [A((2, 3)), T((3,), "int32")])
        for ops in nonconst:
            Tn.append(dict(family="nodiff", fn=u, operands=ops, expect="raise", domain="pos"))
        for ops in const:
            Tn.append(dict(family="nodiff", fn=u, operands=ops, expect="array", domain="pos"))
        if u == "floor_divide":       # Tensor defines // (and no % or divmod)
            for ops in nonconst:
                if ops[0]["kind"] == "tensor" or ops[1]["kind"] == "tensor":
                    Tn.append(dict(family="nodiff", fn=u, operands=ops, expect="raise", domain="pos", how="operator"))
            for ops in const:
                Tn.append(dict(family="nodiff", fn=u, operands=ops, expect="array", domain="pos", how="operator"))
        if u in ("remainder", "divmod"):
            # x % y / divmod(x, y) with a non-constant tensor on either side: refused like every other spelling of the modulo family (never a silent plain array)
            for ops in nonconst:
                if ops[0]["kind"] == "tensor" or ops[1]["kind"] == "tensor":
                    Tn.append(dict(family="nodiff", fn=u, operands=ops, expect="raise", domain="pos", how="operator"))
    templates = {
        "allclose": [[T((2, 3)), T((2, 3))], [T((2, 3)), A((2, 3))]], "isclose": [[T((2, 3)), T((3,))], [A((2, 3)), T((2, 3), const=True)]],
        "may_share_memory": [[T((2, 3)), T((2, 3))]], "shares_memory": [[T((2, 3)), A((2, 3))]], "shape": [[T((2, 3))], [T(())]],
        "result_type": [[T((2, 3), "float32"), T((2,), "int64")], [T((2, 3), "float32"), A((2,), "float64")]], "min_scalar_type": [[T((), "float64")]],
        "bincount": [[T((5,), "int64")]], "can_cast": [], "copyto": [],
    }
    for f in sorted(rt["no_diff"]):
        if f not in templates:
            raise HarnessError("no operand template for the no-diff NumPy function %r: extend harness/c11.py" % f)
        for ops in templates[f]:
            Tn.append(dict(family="nodiff", fn=f, operands=ops, expect="array"))
    return Tn


FIELDS = ("exc", "is_tensor", "value", "const", "grads", "out_target", "out_grad", "returns_out", "target_value", "returns_target")


def describe(o):
    if o["kind"] in ("tensor", "array", "list"):
        return "%s%s%s%s%s" % ({"tensor": "T", "array": "A", "list": "L"}[o["kind"]], tuple(o["shape"]), "=%s" % o["val"] if "val" in o else "", "" if o["dtype"] == "float64" else ":" + o["dtype"],
                             {None: "", True: ":const", False: ":nonconst"}[o.get("const")] + (":" + o["layout"] if o.get("layout") else ""))
    return "%s(%s)" % (o["kind"], o.get("val"))


def group_title(g):
    extra = "".join(" %s=%s" % (k, json.dumps(g[k])) for k in ("method", "margs", "args", "kw", "out", "where", "dtype", "mode", "spec") if k in g)
    return "%s(%s)%s" % (g["fn"], ", ".join(describe(o) for o in g["operands"]), extra)


def run(rep, work, tier, seed, props, replay=None):
    rng = rng_for(seed, "C11")
    problems, tables = routes_translate.last if getattr(routes_translate, "last", None) else routes_translate.regenerate()
    if tables is None:
        raise HarnessError("routes translator refused: %s" % problems)
    rt = tables["runtime"]
    kf = {f["name"]: f for f in known_findings("C11") if f["status"] == "known"}
    groups = ufunc_groups(rt, tier, rng) + func_groups(rt) + ufunc_method_groups(rt)
    nod = nodiff_tasks(rt)
    seeds = [0, 1] if tier == "thorough" else [0]
    if replay is not None and "group" in replay:
        groups, nod = [replay["group"]], []
    tasks = []
    for s in seeds:
        for g in groups:
            tasks.append(dict(g, seed=s + seed))
    n_groups = len(tasks)
    tasks += [dict(t, seed=seed) for t in nod]
    parts = [tasks[i:i + 150] for i in range(0, len(tasks), 150)]
    results = []
    for r in run_impl_parallel("c11_impl.py", [{"tasks": p} for p in parts]):
        results.extend(r["results"])
    bad, pow_shortcut_ulps = [], 0
    n_sp, n_pairs, spell_hist, raised_groups = 0, 0, {}, 0
    known_hits = {}
    for t, r in zip(tasks[:n_groups], results[:n_groups]):
        if "harness_error" in r:
            raise HarnessError("c11_impl: " + r["harness_error"])
        sp = r["spellings"]
        ref_name = "mg" if "mg" in sp else "mg_out"
        ref = sp[ref_name]
        if t["family"] == "ufunc_method":
            arr_sig = sp.pop("numpy_on_arrays")
            for name in ("mg", "np"):
                s = sp[name]
                if s["exc"] is None and (arr_sig["exc"] is not None or s.get("value") != arr_sig.get("value")):
                    bad.append({"kind": "numpy.%s.%s on tensors returned a value that is not NumPy's result on the underlying arrays: %s -- spelling %s" % (t["fn"], t["method"], group_title(t), name),
                                "group": dict(t), "spelling": name, "reference": "numpy_on_arrays", "fields": ["value"], "observed": {"value": s.get("value")}, "expected": {"value": arr_sig.get("value"), "exc": arr_sig["exc"]}})
        if ref["exc"]:
            raised_groups += 1
        for name, s in sp.items():
            spell_hist[name] = spell_hist.get(name, 0) + 1
            n_sp += 1
            if name == ref_name:
                continue
            n_pairs += 1
            diffs = [k for k in FIELDS if (s.get(k) != ref.get(k)) and not (k == "exc" and bool(s.get(k)) == bool(ref.get(k)))
                     and not (k in ("returns_target",) and (s.get(k) is None or ref.get(k) is None))]
            if name == "setitem":
                diffs = [k for k in diffs if k not in ("returns_target",)]
            if diffs:
                item = {"kind": "spellings of one operation disagree: %s -- %s vs %s differ in %s" % (group_title(t), name, ref_name, ", ".join(diffs)),
                        "group": {k: v for k, v in t.items()}, "spelling": name, "reference": ref_name, "fields": diffs,
                        "observed": {k: s.get(k) for k in diffs}, "expected": {k: ref.get(k) for k in diffs}}
                hit = classify_known(kf, t, name, diffs, s, ref)
                if hit:
                    known_hits[hit] = known_hits.get(hit, 0) + 1
                else:
                    bad.append(item)
    nd_bad = []
    for t, r in zip(tasks[n_groups:], results[n_groups:]):
        if "harness_error" in r:
            raise HarnessError("c11_impl: " + r["harness_error"])
        msg = None
        if t["expect"] == "raise":
            if r["exc"] is None:
                msg = "numpy.%s accepted a non-constant tensor and returned %s (the tensor silently leaves the graph)" % (t["fn"], r.get("types"))
            elif r["exc"] not in ("ValueError", "TypeError"):
                msg = "numpy.%s on a non-constant tensor raised %s, not a refusal" % (t["fn"], r["exc"])
        else:
            if r["exc"] is not None and r["np_exc"] is None:
                msg = "numpy.%s on constant tensors raised %s: %s" % (t["fn"], r["exc"], r.get("msg"))
            elif r["exc"] is None and (r.get("any_tensor") or not r.get("equal")):
                msg = "numpy.%s on tensors returned %s, equal to NumPy's result on the arrays: %s" % (t["fn"], r.get("types"), r.get("equal"))
        if msg:
            nd_bad.append({"kind": "non-differentiable route: " + msg + " -- " + group_title(t), "group": t, "result": r})
    classes = {}
    for item in bad:
        k = "%s/%s/%s" % (item["group"]["fn"], item["spelling"], ",".join(item["fields"]))
        classes[k] = classes.get(k, 0) + 1
    for name, cnt in known_hits.items():
        rep.known(name, "%s (%d spelling pairs)" % (kf[name]["what"][:160], cnt))
    for item in sorted(bad, key=lambda x: len(json.dumps(x["group"])))[:10]:
        rep.violation(item)
    for item in nd_bad[:6]:
        rep.violation(item)
    if problems:
        rep.violation({"kind": "routes translator: " + "; ".join(problems), "broken": "harness/routes_translate.py"}, no_input=not (bad or nd_bad))
    if not props["ok"]:
        rep.violation({"kind": "proof obligations of Props/C11.v no longer check over the regenerated route tables: " + broken_lemma(props["log"]),
                       "broken": broken_lemma(props["log"]), "log": props["log"][-1500:]},
                      no_input=not (bad or nd_bad))
    rep.coverage.update({
        "evaluations": n_sp + len(nod),
        "distinct_nontrivial": len(set(json.dumps({k: v for k, v in t.items() if k != "seed"}, sort_keys=True) for t in tasks[:n_groups] + tasks[n_groups:])),
        "rule": "one group = one operation x operand kinds (tensor non-constant/constant/float32/int, ndarray, list, Python and NumPy scalars, broadcast shapes, 0-d, F/strided layouts) x options "
                "(out= array/tensor, where=, dtype=, in-place on leaf / intermediate); every registered ufunc and NumPy-function override gets all of its spellings; "
                "non-trivial = every group (all have >= 2 spellings); distinct = distinct group description",
        "samples": [group_title(tasks[0]), group_title(tasks[n_groups // 2])],
        "groups": n_groups, "spelled_calls": n_sp, "spelling_pairs_compared": n_pairs, "spellings": spell_hist, "groups_where_all_spellings_raise": raised_groups,
        "nondifferentiable_route_tasks": len(nod), "ufuncs": len(rt["np_ufunc"]), "function_overrides": len(rt["np_func"]),
        "disagreements": len(bad), "disagreement_classes": classes, "nondiff_disagreements": len(nd_bad), "known_finding_pairs": sum(known_hits.values()),
        "translated_tables": {"dunders": len(tables["dunders"]), "ufunc_creators": len(tables["ufuncs"]), "methods": len(tables["methods"]), "functions": len(tables["functions"])},
    })
    rep.assumptions += ["operand templates per NumPy function override are written by hand in harness/c11.py (a new override without a template is reported as a harness error for no-diff functions; "
                        "new ufuncs are picked up from the dispatch table automatically)",
                        "ufunc methods reduce / accumulate / reduceat / outer are compared (mygrad refuses them today); `at` is not"]


def classify_known(kf, t, name, diffs, s, ref):
    if "pow_operator_shortcut_dtype" in kf and t["fn"] == "power" and name in ("operator", "dunder", "augmented") and diffs == ["value"]:
        a, b = t["operands"]
        if a["kind"] == "tensor" and np.dtype(a["dtype"]).kind in "iub" and b["kind"] in ("pyfloat", "npscalar") and float(b["val"]) in (1.0, 2.0) \
                and (b["kind"] == "pyfloat" or np.dtype(b["dtype"]).kind == "f") and np.dtype(s["value"][1]).kind in "iub" and s["value"][2] == ref["value"][2]:
            return "pow_operator_shortcut_dtype"
    return None


def broken_lemma(log):
    """name the lemma of the Coq file/line the build stopped at"""
    import os
    import re
    from common import COQ
    m = re.search(r'File "\./([^"]+)", line (\d+)', log)
    if not m:
        return "Props/C11.v"
    try:
        lines = open(os.path.join(COQ, m.group(1))).read().split("\n")[:int(m.group(2))]
    except OSError:
        return m.group(1)
    for ln in reversed(lines):
        mm = re.match(r"\s*(Lemma|Theorem)\s+([A-Za-z0-9_']+)", ln)
        if mm:
            return "%s: %s" % (m.group(1), mm.group(2))
    return m.group(1)
