"""C07 -- backward() releases the whole graph and gradients never go stale.
Theorems: coq/Props/C07.v (release of everything upstream, persistence rules, no accumulation across passes).
Tie: (1) histories (several iterations over the same leaves, backward / clear_graph / null_grad / new ops / del)
run on /repo and on Model/GraphP.v: gradients, creator-is-None and consumer-set flags of every tensor after every
backward; (2) reference-counting liveness with the cyclic GC disabled versus the model's strong-reference closure;
(3) implementation-only oracle: the same forward/backward step repeated three times gives bit-identical gradients."""
import json

import graphhist as gh
import heapcorr
import progs
from common import known_findings, rng_for


def gen_iterated(rng):
    """the same leaves used by several successive forward/backward steps"""
    b = progs.Builder(rng)
    for _ in range(rng.randint(1, 3)):
        b.leaf(rng.choice(progs.SHAPES[:14]), const=rng.random() < 0.15)
    if all(t.const for t in b.tensors.values()):
        b.leaf(rng.choice(progs.SHAPES[:14]), const=False)
    leaves = list(b.order)
    for it in range(rng.randint(2, 3)):
        progs.grow(b, rng, rng.randint(1, 5))
        nc = [n for n in b.order if n in b.tensors and not b.tensors[n].const and n not in leaves]
        if not nc:
            continue
        b.backward(b.tensors[nc[-1]])
        r = rng.random()
        if r < 0.3:
            b.null_grad(b.tensors[rng.choice(leaves)])
        elif r < 0.5:
            extra = [n for n in b.order if n in b.tensors and n not in leaves]
            if extra:
                b.delete([rng.choice(extra)])
    return b


def live_term(b, r, keep):
    roots = [k for k, nm in b.node_name.items() if nm in keep]
    es = []
    for k in range(b.n_nodes):
        nm = b.node_name.get(k)
        if nm is None or nm not in r["alive"]:
            es.append("None")
        else:
            es.append("(Some %s)" % ("true" if r["alive"][nm] else "false"))
    return "(%s, %s, [%s])" % (progs.coq_history(b), progs.nlist(roots), ";".join(es))


def float_variant(b, rng):
    """same program, float leaves, a transcendental function on top of the terminal, three repetitions"""
    stmts = [dict(s) for s in b.stmts if s["op"] in ("leaf", "apply")]
    applies = [s for s in stmts if s["op"] == "apply"]
    if not applies:
        return None
    nc = [n for n in b.order if n in b.tensors and not b.tensors[n].const]
    if not nc:
        return None
    top = nc[-1]
    fn = rng.choice(["exp", "tanh", "sin", "cos", "arctan", "sqrt_abs1", "log_abs1", "sigmoid"])
    stmts.append({"op": "apply", "name": "zz_f", "fn": "tanh", "args": [top], "params": {}, "const": None, "spell": "mg"})
    stmts.append({"op": "apply", "name": "zz_g", "fn": fn, "args": ["zz_f"], "params": {}, "const": None, "spell": "mg"})
    stmts.append({"op": "backward", "t": "zz_g", "seed": None})
    return {"stmts": stmts, "repeat": 3, "float_seed": rng.randrange(10 ** 6)}


def run(rep, work, tier, seed, props, replay=None):
    rng = rng_for(seed, "C07")
    n = 3000 if tier == "thorough" else 500
    builders = gh.load_corpus("C07")
    if replay is not None and "stmts" in replay:
        builders = [progs.builder_from_stmts(replay["stmts"])]
        n = 1
    while len(builders) < n:
        builders.append(gen_iterated(rng) if rng.random() < 0.5 else progs.gen_history(rng))
    # (1) + (2): one implementation run per history, with liveness bookkeeping
    cases = []
    keeps = []
    for b in builders:
        names = [nm for nm in b.order]
        leaves = [s["name"] for s in b.stmts if s["op"] == "leaf"]
        keep = (set(leaves) | set(nm for nm in names if rng.random() < 0.15)) & set(b.tensors)
        keeps.append(keep)
        c = b.case("backward")
        c["liveness"] = True
        c["keep"] = sorted(keep)
        cases.append(c)
    results = gh.run_impl_cases(cases)
    from c09 import einsum_retry     # histories of the known C09 finding einsum_backward_single_use are not C07's business
    keep_i = [i for i, r in enumerate(results) if progs.exact_safe(r) and not any(o == "Assertion" for o in r["outcomes"]) and not einsum_retry(builders[i], r)]
    discarded = len(builders) - len(keep_i)
    kb = [builders[i] for i in keep_i]
    kr = [results[i] for i in keep_i]
    kk = [keeps[i] for i in keep_i]
    bad = gh.model_failing(kb, kr, work, "c07m")
    lterms = [live_term(b, r, k) for b, r, k in zip(kb, kr, kk)]
    lbad = []
    for idx, lst in gh.coq_eval_indices(lterms, "lcase", "lfailing", work, "c07l"):
        lbad.extend(idx[j] for j in lst)
    # direct oracle on the implementation: after a successful backward on L, L itself has no creator and no consumers
    oracle = []
    for i, (b, r) in enumerate(zip(kb, kr)):
        snaps = {s["after"]: s["obs"] for s in r["observations"]}
        for j, (s, exc) in enumerate(zip(b.stmts, r["outcomes"])):
            if s["op"] == "backward" and exc is None and (j + 1) in snaps:
                o = snaps[j + 1].get(s["t"])
                if o is not None and (not o["creator_none"] or o["hasops"]):
                    oracle.append((i, j, "terminal still has a creator or consumers after backward()"))
    # (3) bit-identical repetition
    fcases, fowner = [], []
    for i, b in enumerate(builders[: (1200 if tier == "thorough" else 250)]):
        fc = float_variant(b, rng)
        if fc is not None:
            fcases.append(fc)
            fowner.append(i)
    fres = gh.run_impl_cases(fcases)
    frep = []
    for fc, fr in zip(fcases, fres):
        if any(e is not None for e in fr["errors"]):
            continue
        if not (fr["iters"][0] == fr["iters"][1] == fr["iters"][2]):
            frep.append((fc, fr))

    # (4) placeholders: histories WITH views, in-place updates and failing in-place updates (internal placeholder copies are made and
    #     rolled back), ending in backward(); then the caller drops every name: with the cyclic GC disabled, no Tensor / Operation may survive
    import c13
    from c04 import replay_mirror
    cb = []
    if replay is not None and "census" in replay:
        cb = [list(replay_mirror(replay["stmts"]))[-1][0]]
    while replay is None and len(cb) < (1500 if tier == "thorough" else 300):
        # (no mid-history backward here: a view that outlived a backward() of its base and is then used in an in-place update of that base is
        #  the known finding stale_view_as_inplace_operand_makes_cycle)
        b = c13.gen_case(rng, mid_backward=False)
        if b is not None:
            cb.append(b)
    ccases = []
    for b in cb:
        c = b.case("end")
        c["census"] = True
        ccases.append(c)
    cres = gh.run_impl_cases(ccases) if ccases else []
    leaks = [(b, r) for b, r in zip(cb, cres) if r["leaked"] != {"tensors": 0, "ops": 0}]
    census_unexpected = sum(1 for b, r in zip(cb, cres) if any(o is not None and s["op"] != "fail" and s.get("expect") != "raise" for s, o in zip(b.stmts, r["outcomes"])))
    for b, r in sorted(leaks, key=lambda x: len(x[0].stmts))[:5]:
        rep.violation({"kind": "after backward() and dropping every reference, %d tensor(s) and %d operation(s) (internal placeholder copies included) are still alive with the cyclic GC disabled"
                               % (r["leaked"]["tensors"], r["leaked"]["ops"]), "census": True, "stmts": b.stmts, "leaked": r["leaked"]})
    # (5) every operation of the catalogue: build on intermediates / on leaves, backward() (or just drop the results), drop every reference:
    #     no Tensor / Operation may survive with the cyclic GC disabled
    rel_tasks, rel_res, rel_bad = [], [], 0
    if replay is None or "catalog_index" in (replay or {}):
        rel_tasks, rel_res = gh.catalogue_sweep("release", ([0, 1, 2, 3] if tier == "thorough" else [0, 2, 3]) if replay is None else [replay.get("kind", 0)], seed, "kind", replay)
        shown = set()
        for t, r in zip(rel_tasks, rel_res):
            for m in r.get("msgs", []):
                if "still alive" not in m and "still has its creator" not in m:
                    continue
                rel_bad += 1
                key = r["label"].split("(")[0].split(" ")[0]
                if key not in shown and len(shown) < 6:
                    shown.add(key)
                    rep.violation({"kind": "operation sweep: %s -- %s" % (r["label"], m), "catalog_index": t["index"], "kind_": t["kind"], "seed": t["seed"]})
    for i, j, msg in oracle[:5]:
        rep.violation({"kind": msg, "stmts": kb[i].stmts[:j + 1]})
    for fc, fr in frep[:5]:
        rep.violation({"kind": "repeating the same forward/backward step gave gradients that are not bit-identical", "case": fc, "iters": fr["iters"]})
    for k in sorted(lbad, key=lambda k: len(kb[k].stmts))[:5]:
        rep.violation({"kind": "a tensor the caller no longer references is still alive after dropping the references (or one it holds was freed): "
                               "reference-counting liveness differs from the model's strong-reference closure",
                       "stmts": kb[k].stmts, "keep": sorted(kk[k]), "alive": kr[k]["alive"]})
    if bad and not (oracle or lbad):
        k = sorted(bad, key=lambda k: len(kb[k].stmts))[0]
        # gradients / released flags differ from the proved model: the model's values ARE the property (release + persistence rules)
        rep.violation({"kind": "gradients or creator/consumer flags after backward differ from Model/GraphP.v (release / persistence rules of Props/C07.v)",
                       "stmts": kb[k].stmts, "impl": kr[k], "n_disagreements": len(bad)})
    # pointer-level correspondence (Model/Heap.v) with backward() statements: which tensors hold a gradient after every statement (a gradient
    # persists until its tensor is next used by a non-view operation / updated in place), what backward() releases
    heap_cov = heapcorr.run(rep, work, seed + 202, 2000 if tier == "thorough" else 350, 28 if tier == "thorough" else 18, replay=replay, tag="c07heap", p_fail=0.1, p_clear=0.03, p_back=0.15,
                            label="pointer-level heap (gradient persistence and release)")
    if not props["ok"]:
        rep.violation({"kind": "proof obligations of Props/C07.v no longer check", "broken": "Props/C07.v", "log": props["log"][-1500:]},
                      no_input=not (oracle or lbad or bad or frep or leaks or rel_bad))

    def nontrivial(b, keep):
        return any(nm not in keep for nm in b.order) and any(s["op"] == "backward" for s in b.stmts)
    nt = set(progs.canonical(b) for b, k in zip(kb, kk) if nontrivial(b, k))
    rep.coverage.update({
        "evaluations": len(kb) + len(fcases) + len(cb) + len(rel_res),
        "operation_release_sweep": {"entries_x_kinds": len(rel_res), "survivor_messages": rel_bad},
        "pointer_level_heap": heap_cov,
        "placeholder_census_histories": len(cb), "placeholder_census_leaks": len(leaks), "placeholder_census_histories_with_unexpected_exceptions": census_unexpected,
        "placeholder_census_statements": gh.op_histogram(cb),
        "distinct_nontrivial": len(nt),
        "rule": "histories over shared leaves (2-3 forward/backward iterations, or free interleavings of backward/clear_graph/null_grad/new ops/del); the caller keeps the leaves and a random 15% of "
                "the other tensors; non-trivial = at least one intermediate the caller does not keep and at least one backward; distinct = distinct statement list. Plus float variants repeated 3x.",
        "samples": [kb[0].stmts],
        "liveness_cases": len(lterms), "liveness_disagreements": len(lbad),
        "repetition_cases": len(fcases), "repetition_failures": len(frep),
        "discarded_not_exact_or_einsum_retry": discarded,
        "traces_validated_against_impl": len(kb) - len(bad),
        "model_impl_disagreements": len(bad),
        "input_distribution": {"statements": gh.op_histogram(kb), "statement_exceptions": gh.exception_histogram(kr)},
    })
    rep.assumptions += [
        "CPython: an object unreachable through strong references and not on a reference cycle is freed immediately by reference counting (gc is disabled in the runner)",
        "strong edges modelled: tensor -> creator -> input tensors (until cleared) and view -> base (Tensor._base); consumers and view children are weak",
        "placeholders of in-place updates are not part of these histories (see C05)",
        "bit-identical repetition is checked on the implementation only (float kernels are deterministic for identical call sequences: NumPy assumption)",
    ]
