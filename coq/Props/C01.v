(* Property C01 -- backward() is the exact total derivative of the recorded computation.
   Theorems only; proofs live in Base/EngCore.v, Base/Dfs.v, Base/EngOrder.v, Proofs/OpsExactP.v. *)
From Coq Require Import ZArith List Arith Bool Ring.
Import ListNotations.
From MG Require Import Base.EngCore Base.GatherScatter Base.Dfs Base.EngOrder Model.OpsExact Proofs.OpsExactP.

(* (1) For ANY ring (Z for execution, R for meaning), ANY program (DAG of any shape and depth, constants as cuts,
   repeated operands, any arity) whose operations have exact VJPs, and ANY processing order that lists every
   tensor before its non-constant inputs: the reverse sweep started from the seed on L leaves in the leaves
   gradients G with   sum_x <G_x, delta_x> = <seed, tangent_L(delta)>   for every direction delta,
   i.e. G is the total derivative summed over all paths; tensors outside the order receive nothing. *)
Theorem C01_sweep_is_adjoint :
  forall (A : Type) (a0 a1 : A) (add mul sub : A -> A -> A) (opp : A -> A),
  ring_theory a0 a1 add mul sub opp (@eq A) ->
  forall (delta : nat -> list A) (P : list (node A)),
  wf A P -> ops_ok A a0 add mul P ->
  forall (L : nat) (seed : list A) (order : list nat),
  L < length P -> valid_rest A P order -> In L order ->
  let G := sweepL A add P order (upd A add (repeat [] (length P)) L seed) in
  leaf_sum A a0 add mul delta 0 P G = dot A a0 add mul seed (nth L (tangents A add delta P) [])
  /\ (forall j, ~ In j order -> nth j G [] = []).
Proof. exact backward_order_adjoint. Qed.
Print Assumptions C01_sweep_is_adjoint.

(* (2) The order Tensor.backward really uses -- the DFS of collect_all_tensors_and_clear_grads (constant stop,
   seen test, post-order push-front) -- is duplicate-free, starts with L, lists only non-constant tensors, and
   lists every tensor before all of its non-constant inputs, which are all present. *)
Theorem C01_dfs_order_is_topological :
  forall (inputs : nat -> list nat) (isconst : nat -> bool),
  (forall t i, In i (inputs t) -> i < t) ->
  forall L, isconst L = false ->
  let order := collect inputs isconst L in
  NoDup order /\ hd_error order = Some L /\
  (forall pre k post, order = pre ++ k :: post ->
      isconst k = false /\ forall i, In i (inputs k) -> isconst i = false -> In i post).
Proof. exact collect_spec. Qed.
Print Assumptions C01_dfs_order_is_topological.

(* (3) Every operation of the exact registry (segment_sum o kernel o gathers), linearised at any point, has an exact
   VJP: <vjp_p g, dx> = <g, jvp_p dx> for every operand position p, every g and every dx. *)
Theorem C01_registry_ops_exact :
  forall (A : Type) (a0 a1 : A) (add mul sub : A -> A -> A) (opp : A -> A),
  ring_theory a0 a1 add mul sub opp (@eq A) ->
  forall o : lop A, lop_wf A o = true -> op_ok A a0 add mul (to_op A a0 add mul o).
Proof. exact lop_ok. Qed.
Print Assumptions C01_registry_ops_exact.

(* (4) A well-formed concrete program yields an abstract program satisfying the hypotheses of (1). *)
Theorem C01_concrete_programs_qualify :
  forall (A : Type) (a0 a1 : A) (add mul sub : A -> A -> A) (opp : A -> A),
  ring_theory a0 a1 add mul sub opp (@eq A) ->
  forall P : list (cnode A), prog_wf A a0 a1 add mul P = true ->
  wf A (abstract A a0 a1 add mul P) /\ ops_ok A a0 add mul (abstract A a0 a1 add mul P).
Proof. exact abstract_wf. Qed.
Print Assumptions C01_concrete_programs_qualify.

(* (5) gather / scatter-add adjointness: what makes every index-routing op and reduce_broadcast exact *)
Theorem C01_gather_scatter_adjoint :
  forall (A : Type) (a0 a1 : A) (add mul sub : A -> A -> A) (opp : A -> A),
  ring_theory a0 a1 add mul sub opp (@eq A) ->
  forall src g acc dx, Forall (fun i => i < length acc) src ->
  dot A a0 add mul (scatter_add A add acc src g) dx =
  add (dot A a0 add mul acc dx) (dot A a0 add mul g (gather A a0 src dx)).
Proof. exact gather_scatter_adjoint. Qed.
Print Assumptions C01_gather_scatter_adjoint.
