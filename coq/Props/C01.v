(* Property C01 -- backward() is the exact total derivative of the recorded computation.
   Theorems only; proofs live in Base/EngCore.v, Base/Dfs.v, Base/EngOrder.v, Proofs/OpsExactP.v. *)
From Coq Require Import ZArith List Arith Bool Ring.
Import ListNotations.
From MG Require Import Base.EngCore Base.GatherScatter Base.Dfs Base.EngOrder Model.OpsExact Proofs.OpsExactP.

(* (1) For ANY ring (Z for execution, R for meaning), ANY program (DAG of any shape and depth, constants as cuts,
   repeated operands, any arity) whose operations have exact VJPs, and ANY processing order that lists every
   tensor before its non-constant inputs: the reverse sweep started from the seed on L leaves in the leaves
   gradients G with   sum_x <G_x, delta_x> = <seed, tangent_L(delta)>   for every direction delta,
   i.e. G is the total derivative summed over all paths; tensors outside the order receive nothing. *)
Theorem C01_sweep_is_adjoint :
  forall (A : Type) (a0 a1 : A) (add mul sub : A -> A -> A) (opp : A -> A),
  ring_theory a0 a1 add mul sub opp (@eq A) ->
  forall (delta : nat -> list A) (P : list (node A)),
  wf A P -> ops_ok A a0 add mul P ->
  forall (L : nat) (seed : list A) (order : list nat),
  L < length P -> valid_rest A P order -> In L order ->
  let G := sweepL A add P order (upd A add (repeat [] (length P)) L seed) in
  leaf_sum A a0 add mul delta 0 P G = dot A a0 add mul seed (nth L (tangents A add delta P) [])
  /\ (forall j, ~ In j order -> nth j G [] = []).
Proof. exact backward_order_adjoint. Qed.
Print Assumptions C01_sweep_is_adjoint.

(* (2) The order Tensor.backward really uses -- the DFS of collect_all_tensors_and_clear_grads (constant stop,
   seen test, post-order push-front) -- is duplicate-free, starts with L, lists only non-constant tensors, and
   lists every tensor before all of its non-constant inputs, which are all present. *)
Theorem C01_dfs_order_is_topological :
  forall (inputs : nat -> list nat) (isconst : nat -> bool),
  (forall t i, In i (inputs t) -> i < t) ->
  forall L, isconst L = false ->
  let order := collect inputs isconst L in
  NoDup order /\ hd_error order = Some L /\
  (forall pre k post, order = pre ++ k :: post ->
      isconst k = false /\ forall i, In i (inputs k) -> isconst i = false -> In i post).
Proof. exact collect_spec. Qed.
Print Assumptions C01_dfs_order_is_topological.

(* (3) Every operation of the exact registry (segment_sum o kernel o gathers), linearised at any point, has an exact
   VJP: <vjp_p g, dx> = <g, jvp_p dx> for every operand position p, every g and every dx. *)
Theorem C01_registry_ops_exact :
  forall (A : Type) (a0 a1 : A) (add mul sub : A -> A -> A) (opp : A -> A),
  ring_theory a0 a1 add mul sub opp (@eq A) ->
  forall o : lop A, lop_wf A o = true -> op_ok A a0 add mul (to_op A a0 add mul o).
Proof. exact lop_ok. Qed.
Print Assumptions C01_registry_ops_exact.

(* (4) A well-formed concrete program yields an abstract program satisfying the hypotheses of (1). *)
Theorem C01_concrete_programs_qualify :
  forall (A : Type) (a0 a1 : A) (add mul sub : A -> A -> A) (opp : A -> A),
  ring_theory a0 a1 add mul sub opp (@eq A) ->
  forall P : list (cnode A), prog_wf A a0 a1 add mul P = true ->
  wf A (abstract A a0 a1 add mul P) /\ ops_ok A a0 add mul (abstract A a0 a1 add mul P).
Proof. exact abstract_wf. Qed.
Print Assumptions C01_concrete_programs_qualify.

(* (5) gather / scatter-add adjointness: what makes every index-routing op and reduce_broadcast exact *)
Theorem C01_gather_scatter_adjoint :
  forall (A : Type) (a0 a1 : A) (add mul sub : A -> A -> A) (opp : A -> A),
  ring_theory a0 a1 add mul sub opp (@eq A) ->
  forall src g acc dx, Forall (fun i => i < length acc) src ->
  dot A a0 add mul (scatter_add A add acc src g) dx =
  add (dot A a0 add mul acc dx) (dot A a0 add mul g (gather A a0 src dx)).
Proof. exact gather_scatter_adjoint. Qed.
Print Assumptions C01_gather_scatter_adjoint.

(* (6) The faithful history-level model (Model/GraphP.v, the one the correspondence check runs against /repo):
   at every state reached along a well-formed history, a backward() that returns normally leaves in the stored
   gradients of the tensors it listed exactly the adjoint of the graph as the code sees it, and the gradient
   of every other tensor is untouched ("tensors L does not depend on receive no contribution"). *)
From MG Require Import Model.GraphP Proofs.EngineP Proofs.ClearP.
Theorem C01_backward_adjoint : forall (h1 h2 : list stmt) (t : nat) (seed : option zvec) (st' : gstate),
  hist_ok g_init (h1 ++ h2) = true ->
  let st := fst (run_hist g_init h1) in
  t < length (g_vals st) -> n_const st t = false -> do_backward st t seed = (st', Ok) ->
  let P := g_eff st in
  let order := order_of st t in
  let s := match seed with Some g => g | None => repeat 1%Z (length (nth t (g_vals st) [])) end in
  exists G : list zvec,
    (forall k, In k order -> grad_vec st' k = nth k G []) /\
    (forall k, ~ In k order -> nth k G [] = [] /\ nth k (g_grad st') None = nth k (g_grad st) None) /\
    (forall delta : nat -> zvec,
       leaf_sum Z 0%Z Z.add Z.mul delta 0 P G = dot Z 0%Z Z.add Z.mul s (nth t (tangents Z Z.add delta P) [])).
Proof. exact backward_adjoint_reachable. Qed.
Print Assumptions C01_backward_adjoint.

(* (7) on a graph that was only built (no clearing yet) backward never raises InvalidBackprop *)
Theorem C01_fresh_graph_no_error : forall h t seed, Forall build_stmt h ->
  snd (do_backward (fst (run_hist g_init h)) t seed) <> InvalidBackprop.
Proof. exact built_graph_no_error. Qed.
Print Assumptions C01_fresh_graph_no_error.

(* non-vacuity: a diamond with a repeated operand and a broadcast: x:(2), y = x*x (KMul, x twice), b = broadcast of y
   to 4 elements, L = sum(b + b'), all hypotheses hold and the gradient is 2*x*(number of uses) *)
Definition nv_hist : list stmt :=
  [SLeaf false [3; -2]%Z;
   SApp None false (Build_cop Z 2 [Build_carg 0 [0; 1]; Build_carg 0 [0; 1]] (KMul Z) None);
   SApp None true  (Build_cop Z 4 [Build_carg 1 [0; 1; 0; 1]] (KLin Z [[1; 1; 1; 1]%Z] [0; 0; 0; 0]%Z) None);
   SApp None false (Build_cop Z 4 [Build_carg 2 [0; 1; 2; 3]; Build_carg 1 [0; 1; 0; 1]]
                               (KLin Z [[1; 1; 1; 1]%Z; [1; 1; 1; 1]%Z] [0; 0; 0; 0]%Z) (Some (1, [0; 0; 0; 0])));
   SBackward 3 None].
Example C01_nonvacuous :
  hist_ok g_init nv_hist = true /\
  snd (run_hist g_init nv_hist) = [Ok; Ok; Ok; Ok; Ok] /\
  g_grad (fst (run_hist g_init nv_hist)) = [Some [24; -16]%Z; Some [4; 4]%Z; Some [1; 1; 1; 1]%Z; Some [1]%Z].
Proof. vm_compute. repeat split; reflexivity. Qed.

(* (8) EVERY listed tensor, leaf or intermediate: after L.backward(seed) the stored gradient of tensor k pairs with a
   perturbation of k alone to the induced perturbation of L in the graph cut at k -- it is dL/dk with k as a cut. *)
From MG Require Import Proofs.StaleP.
Theorem C01_every_tensor : forall st t seed st' k,
  Inv st -> t < length (g_vals st) -> n_const st t = false -> do_backward st t seed = (st', Ok) ->
  In k (order_of st t) ->
  let s := match seed with Some g => g | None => repeat 1%Z (length (nth t (g_vals st) [])) end in
  forall delta : nat -> zvec, (forall j, j <> k -> delta j = []) ->
    dot Z 0%Z Z.add Z.mul (grad_vec st' k) (delta k)
    = dot Z 0%Z Z.add Z.mul s (nth t (tangents Z Z.add delta (cut (g_eff st) k)) []).
Proof. exact backward_intermediate. Qed.
Print Assumptions C01_every_tensor.

(* (9) "The result does not depend on the order in which independent sub-expressions ... were written", componentwise
   over Z: ANY two processing orders that list every tensor before its non-constant inputs (the DFS order of (2) for
   either way of writing the operands is one) leave the same entries in the gradient of every non-constant leaf. *)
From MG Require Import Proofs.OrderIndepP.
Theorem C01_order_independent : forall (P : list (node Z)),
  wf Z P -> ops_ok Z 0%Z Z.add Z.mul P ->
  forall (L : nat) (seed : list Z) (o1 o2 : list nat),
  L < length P -> valid_rest Z P o1 -> In L o1 -> valid_rest Z P o2 -> In L o2 ->
  let G0 := upd Z Z.add (repeat [] (length P)) L seed in
  let G1 := sweepL Z Z.add P o1 G0 in
  let G2 := sweepL Z Z.add P o2 G0 in
  forall j, is_free_leaf Z (nth j P (Leaf Z true)) = true ->
  forall i, nth i (nth j G1 []) 0%Z = nth i (nth j G2 []) 0%Z.
Proof. exact order_independent_Z. Qed.
Print Assumptions C01_order_independent.

(* (10) the same for ANY ring (the reals for meaning), in dual form: the gradients left by two valid orders pair
   identically with every perturbation of the leaves *)
Theorem C01_order_independent_any_ring :
  forall (A : Type) (a0 a1 : A) (add mul sub : A -> A -> A) (opp : A -> A),
  ring_theory a0 a1 add mul sub opp (@eq A) ->
  forall (P : list (node A)), wf A P -> ops_ok A a0 add mul P ->
  forall (L : nat) (seed : list A) (o1 o2 : list nat),
  L < length P -> valid_rest A P o1 -> In L o1 -> valid_rest A P o2 -> In L o2 ->
  let G0 := upd A add (repeat [] (length P)) L seed in
  forall delta : nat -> list A,
  leaf_sum A a0 add mul delta 0 P (sweepL A add P o1 G0) = leaf_sum A a0 add mul delta 0 P (sweepL A add P o2 G0).
Proof. exact order_independent_dual. Qed.
Print Assumptions C01_order_independent_any_ring.
