(* Property C08 -- memory guard: arrays in a live graph are read-only, and restored afterwards.
   Theorems only, over the lock automaton Model/LockMgr.v (proofs: Proofs/LockP.v, Proofs/LockBasicP.v).
   `wf_events es`: fresh ids, operations only through EOp/EOpDie (any order of deaths), an array dies only when no live
   operation lists it and no alive view is based on it (NumPy / MyGrad keep those alive). *)
From Coq Require Import List Arith Bool.
Import ListNotations.
From MG Require Import Model.LockMgr Proofs.LockBasicP Proofs.LockP.

(* every array that is an input or output of a live operation -- and the base of each such array -- is read-only,
   whatever happened before, in whatever order other operations died *)
Theorem C08_locked_while_listed : forall es, wf_events es -> forall l i,
  In l (ops (run es)) -> In i l -> a_alive (get (run es) i) = true -> a_wr (get (run es) i) = false.
Proof. exact C08_locked. Qed.
Print Assumptions C08_locked_while_listed.

Theorem C08_base_of_listed_is_locked : forall es, wf_events es -> forall l i b,
  In l (ops (run es)) -> In i l -> a_base (get (run es) i) = Some b ->
  In b l /\ a_alive (get (run es) b) = true /\ a_wr (get (run es) b) = false.
Proof.
  intros es H l i b Hl Hi Hb. split; [exact (C08_base_listed es H l i b Hl Hi Hb)|].
  exact (C08_locked_base es H l i b Hl Hi Hb).
Qed.
Print Assumptions C08_base_of_listed_is_locked.

(* the counter of an array is exactly the number of live operations listing it (natively read-only memory never
   enters the tables: its counter is 0) *)
Theorem C08_counts_are_exact : forall es, wf_events es -> forall i,
  cget i (counter (run es)) = if a_orig (get (run es) i) then cnt_in i (ops (run es)) else 0.
Proof. exact C08_counts. Qed.
Print Assumptions C08_counts_are_exact.

(* once no live operation refers to anything: every alive array has counter 0, is untracked, and -- if it ever entered
   an operation -- has its ORIGINAL writeable flag (for a view: its owner's original flag) *)
Theorem C08_restored_at_quiescence : forall es, wf_events es -> ops (run es) = [] ->
  forall i, a_alive (get (run es) i) = true ->
  cget i (counter (run es)) = 0 /\ tracked (run es) i = false /\ aget i (tracker (run es)) = None /\
  (a_used (get (run es) i) = true -> a_wr (get (run es) i) = a_orig (get (run es) i)).
Proof. exact C08_restored. Qed.
Print Assumptions C08_restored_at_quiescence.

(* arrays that were read-only beforehand stay read-only, at every moment (also views of such memory) *)
Theorem C08_readonly_stays_readonly : forall es, wf_events es -> forall i,
  a_orig (get (run es) i) = false -> a_wr (get (run es) i) = false.
Proof. exact C08_readonly_any. Qed.
Print Assumptions C08_readonly_stays_readonly.

(* any order of operation deaths is admissible: the statements above quantify over all of them *)
Theorem C08_any_death_order : forall (s : lstate) (n : nat), n < length (ops s) -> ev_ok s (EOpDie n).
Proof. exact C08_any_order. Qed.
Print Assumptions C08_any_death_order.

Theorem C08_lock_makes_readonly : forall s i force, i < length (arrs s) -> a_wr (get (lock s i force) i) = false.
Proof. exact lock_makes_readonly. Qed.
Print Assumptions C08_lock_makes_readonly.

(* the guard `a_used` is needed: a NumPy view the user takes from a locked array and never hands to MyGrad stays
   read-only (MyGrad cannot know about it) *)
Theorem C08_unused_view_stays_locked :
  let s := run [ENew 0 false; EOp [0] None; EView 0 1; EOpDie 0] in
  ops s = [] /\ a_alive (get s 1) = true /\ a_used (get s 1) = false /\ a_wr (get s 1) = false /\ a_orig (get s 1) = true.
Proof. vm_compute. repeat split; reflexivity. Qed.

(* non-vacuity: two overlapping operations on an array and a view of it, the first dying first *)
Definition ex_events : list event :=
  [ENew 0 false; EView 0 1; EOp [0] (Some (None, 2)); EOp [1] (Some (Some 1, 3))].
Example C08_example :
  map (fun i => a_wr (get (run ex_events) i)) [0; 1; 2; 3] = [false; false; false; false] /\
  map (fun i => a_wr (get (run (ex_events ++ [EOpDie 0])) i)) [0; 1; 3] = [false; false; false] /\
  map (fun i => a_wr (get (run (ex_events ++ [EOpDie 0; EOpDie 0])) i)) [0; 1; 2; 3] = [true; true; true; true] /\
  counter (run (ex_events ++ [EOpDie 0; EOpDie 0])) = [] /\ tracker (run (ex_events ++ [EOpDie 0; EOpDie 0])) = [] /\
  waiting (run (ex_events ++ [EOpDie 0; EOpDie 0])) = [].
Proof. vm_compute. repeat split; reflexivity. Qed.

(* id re-use (outside wf_events, which asks for fresh ids): a view V1 dies while waiting for its base, a new view V2 of ANOTHER locked base re-uses
   V1's id; releasing the first base must leave V2 alone, and V2 is restored when its own base is released (the history of the defect repaired
   in /repo by 12dda7b; full statement with the intermediate states: Proofs/LockP.v, C08_id_reuse_restored) *)
Theorem C08_id_reuse_history_restored :
  let s := run id_reuse in
  ops s = [] /\ counter s = [] /\ tracker s = [] /\ waiting s = [] /\ a_alive (get s 3) = true /\ a_key (get s 3) = 1 /\ a_wr (get s 3) = true /\
  a_wr (get (run (firstn 12 id_reuse)) 3) = false /\ tracked (run (firstn 12 id_reuse)) 3 = true.
Proof. vm_compute. repeat split; reflexivity. Qed.
Print Assumptions C08_id_reuse_history_restored.
