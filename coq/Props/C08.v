(* Property C08 -- memory guard.  Theorems only, over the lock automaton Model/LockMgr.v
   (proofs: Proofs/LockBasicP.v, Proofs/LockP.v). *)
From Coq Require Import List Arith Bool.
Import ListNotations.
From MG Require Import Model.LockMgr Proofs.LockBasicP.

Theorem C08_lock_makes_readonly : forall s i force, i < length (arrs s) -> a_wr (get (lock s i force) i) = false.
Proof. exact lock_makes_readonly. Qed.
Print Assumptions C08_lock_makes_readonly.

(* non-vacuity / worked example: array 0, a NumPy view 1 of it, two overlapping operations (the second one on the
   view, producing a view), the FIRST one dies first: everything stays locked; after the second dies everything is
   restored and the tables are empty *)
Definition ex_events : list event :=
  [ENew 0 false; EView 0 1; EOp [0] (Some (None, 2)); EOp [1] (Some (Some 1, 3))].
Example C08_example :
  map (fun i => a_wr (get (run ex_events) i)) [0; 1; 2; 3] = [false; false; false; false] /\
  map (fun i => a_wr (get (run (ex_events ++ [EOpDie 0])) i)) [0; 1; 3] = [false; false; false] /\
  map (fun i => a_wr (get (run (ex_events ++ [EOpDie 0; EOpDie 0])) i)) [0; 1; 2; 3] = [true; true; true; true] /\
  counter (run (ex_events ++ [EOpDie 0; EOpDie 0])) = [] /\ tracker (run (ex_events ++ [EOpDie 0; EOpDie 0])) = [] /\
  waiting (run (ex_events ++ [EOpDie 0; EOpDie 0])) = [].
Proof. vm_compute. repeat split; reflexivity. Qed.
