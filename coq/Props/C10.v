(* Property C10 -- constant semantics.  Theorems only. *)
From Coq Require Import ZArith List Arith Bool.
Import ListNotations.
From MG Require Import Base.EngCore Model.OpsExact Model.GraphP Model.ConstRule Proofs.ConstRuleP Proofs.EngineP.

(* integer and boolean tensors are always constant; asking for constant=False raises *)
Theorem C10_int_bool_constant : forall k arg c, const_only k = true -> init_const k true arg = InitOk c -> c = true.
Proof. exact int_bool_always_constant. Qed.
Print Assumptions C10_int_bool_constant.
Theorem C10_int_bool_false_raises : forall k, const_only k = true -> init_const k true (Some false) = InitValueError.
Proof. exact int_bool_false_raises. Qed.
Print Assumptions C10_int_bool_false_raises.
(* float tensors default to non-constant, an explicit flag wins *)
Theorem C10_float_default : forall track, init_const KFloat track None = InitOk false.
Proof. exact float_default_nonconstant. Qed.
Print Assumptions C10_float_default.
Theorem C10_float_flag_wins : forall track b, init_const KFloat track (Some b) = InitOk b.
Proof. exact float_arg_wins. Qed.
Print Assumptions C10_float_flag_wins.
Theorem C10_non_real_rejected : forall arg, init_const KOther true arg = InitTypeError.
Proof. exact other_rejected_when_tracking. Qed.
Print Assumptions C10_non_real_rejected.
(* result of an operation: constant exactly when all inputs are, unless constant= is passed, which always wins *)
Theorem C10_op_rule_float : forall ins arg,
  op_const KFloat ins arg = InitOk (match arg with Some b => b | None => forallb (fun c => c) ins end).
Proof. exact op_rule_float. Qed.
Print Assumptions C10_op_rule_float.
Theorem C10_op_rule_int : forall k ins arg, const_only k = true ->
  op_const k ins arg = match arg with Some false => InitValueError | _ => InitOk true end.
Proof. exact op_rule_int. Qed.
Print Assumptions C10_op_rule_int.

(* an in-place target keeps its own flag *)
Theorem C10_inplace_target_keeps_flag : forall c arg ins, inplace_const c arg ins = InitOk c.
Proof. reflexivity. Qed.
Print Assumptions C10_inplace_target_keeps_flag.

(* along ANY well-formed history (ops, backward, clear_graph, null_grad in any order) no constant tensor ever holds a
   gradient: constants never receive gradients *)
Theorem C10_constants_never_have_grad : forall h h1 h2 : list stmt,
  hist_ok g_init h = true -> h = h1 ++ h2 ->
  let st := fst (run_hist g_init h1) in
  forall k, n_const st k = true -> nth k (g_grad st) None = None.
Proof. exact const_never_has_grad. Qed.
Print Assumptions C10_constants_never_have_grad.

(* ... and never transmit them: the engine skips constant inputs, so the tangent of a constant tensor is empty
   (a constant is a cut of the graph), which is what C01's adjoint identity is stated against *)
Theorem C10_constant_is_a_cut : forall (A : Type) (a0 a1 : A) (add mul sub : A -> A -> A) (opp : A -> A),
  ring_theory a0 a1 add mul sub opp (@eq A) ->
  forall (delta : nat -> list A) (P : list (node A)) (i : nat),
  nconst A (nth i P (Leaf A true)) = true -> nth i (tangents A add delta P) [] = [].
Proof. intros A a0 a1 add mul sub opp Rth delta P i. apply (T_const A add delta P). Qed.
Print Assumptions C10_constant_is_a_cut.
