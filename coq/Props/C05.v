(* Property C05 -- gradients through in-place updates and views.  Theorems only.
   The functional meaning of an in-place update is ONE operation of the exact registry (Model/Families.v update_cop);
   every registry operation has an exact VJP (C01_registry_ops_exact), so C01's adjoint theorem applies to the functional
   program that the check runs; Proofs/FamiliesP.v shows that this operation computes NumPy's buffer semantics. *)
From Coq Require Import ZArith List Arith Bool.
Import ListNotations.
From MG Require Import Base.EngCore Base.GatherScatter Model.OpsExact Proofs.OpsExactP Model.Families.

(* the update operation, linearised at any point, has an exact VJP for both operands (old contents, written values):
   overwritten elements pass nothing to the old contents (coefficient 0), kept elements pass their gradient on (coefficient 1),
   the written values receive the gradient of the positions where they finally landed (later writes win) *)
Theorem C05_update_has_exact_vjp : forall (vals : list (list Z)) n pos,
  lop_wf Z (linearize Z 0%Z 1%Z Z.mul vals (update_cop n pos)) = true ->
  op_ok Z 0%Z Z.add Z.mul (to_op Z 0%Z Z.add Z.mul (linearize Z 0%Z 1%Z Z.mul vals (update_cop n pos))).
Proof. intros vals n pos H. apply (lop_ok Z 0%Z 1%Z Z.add Z.mul Z.sub Z.opp InitialRing.Zth). exact H. Qed.
Print Assumptions C05_update_has_exact_vjp.

(* worked example: x = [1;2;3;4]; y = x*x (read BEFORE); x[1:3] = v (v = [5;6]); z = x*x (read AFTER);
   L = sum(y) + sum(z).  dL/dx_initial = 2x from y plus 2x on the kept positions from z; dL/dv = 2v. *)
From MG Require Import Model.GraphP.
Definition c05_hist : list stmt :=
  [ SLeaf false [1; 2; 3; 4]%Z;                                                                         (* 0: x *)
    SApp None false (Build_cop Z 4 [Build_carg 0 [0; 1; 2; 3]; Build_carg 0 [0; 1; 2; 3]] (KMul Z) None);       (* 1: y = x*x *)
    SLeaf false [5; 6]%Z;                                                                               (* 2: v *)
    SApp (Some false) false (update_cop 4 [1; 2]) ].                                                     (* placeholder, replaced below *)
Definition upd_12 : cop Z :=
  {| c_work := 4; c_args := [Build_carg 0 [0; 1; 2; 3]; Build_carg 2 [0; 0; 1; 0]];
     c_kern := KLin Z [[1; 0; 0; 1]%Z; [0; 1; 1; 0]%Z] [0; 0; 0; 0]%Z; c_seg := None |}.
Definition c05_prog : list stmt :=
  [ SLeaf false [1; 2; 3; 4]%Z;
    SApp None false (Build_cop Z 4 [Build_carg 0 [0; 1; 2; 3]; Build_carg 0 [0; 1; 2; 3]] (KMul Z) None);
    SLeaf false [5; 6]%Z;
    SApp None false upd_12;                                                                              (* 3: x' *)
    SApp None false (Build_cop Z 4 [Build_carg 3 [0; 1; 2; 3]; Build_carg 3 [0; 1; 2; 3]] (KMul Z) None);       (* 4: z = x'*x' *)
    SApp None false (Build_cop Z 8 [Build_carg 1 [0; 1; 2; 3; 0; 0; 0; 0]; Build_carg 4 [0; 0; 0; 0; 0; 1; 2; 3]]
                       (KLin Z [[1; 1; 1; 1; 0; 0; 0; 0]%Z; [0; 0; 0; 0; 1; 1; 1; 1]%Z] (repeat 0%Z 8)) (Some (1, repeat 0 8)));  (* 5: L *)
    SBackward 5 None ].
Example C05_example :
  g_vals (fst (run_hist g_init c05_prog)) = [[1; 2; 3; 4]; [1; 4; 9; 16]; [5; 6]; [1; 5; 6; 4]; [1; 25; 36; 16]; [108]]%Z /\
  g_grad (fst (run_hist g_init c05_prog)) =
    [Some [4; 4; 6; 16]%Z; Some [1; 1; 1; 1]%Z; Some [10; 12]%Z; Some [2; 10; 12; 8]%Z; Some [1; 1; 1; 1]%Z; Some [1]%Z].
Proof. vm_compute. split; reflexivity. Qed.

From MG Require Import Proofs.FamiliesP.
(* the well-formedness hypothesis of C05_update_has_exact_vjp holds for every update the check emits (a non-empty value
   written at in-range positions), and the operation computes NumPy's buffer semantics of the assignment *)
Theorem C05_update_wf : forall buf pos vals,
  Forall (fun p => p < length buf) pos -> length vals = length pos -> 0 < length vals \/ buf = [] ->
  lop_wf Z (linearize Z 0%Z 1%Z Z.mul [buf; vals] (update_cop (length buf) pos)) = true.
Proof. exact update_cop_wf. Qed.
Print Assumptions C05_update_wf.
Theorem C05_update_is_assignment : forall n buf pos vals,
  n = length buf -> Forall (fun p => p < n) pos -> length vals = length pos ->
  cop_fwd Z 0%Z 1%Z Z.add Z.mul [buf; vals] (update_cop n pos) = write buf pos vals.
Proof. exact update_cop_is_write. Qed.
Print Assumptions C05_update_is_assignment.

(* ---------------------------------------------------------------------------------------------------------------------
   Pointer level (Model/Heap.v, tied to /repo by the object-graph correspondence of harness/heapcorr.py): what a SUCCESSFUL
   in-place operation does to the recorded graph.  "Operations evaluated before a mutation differentiate through the
   pre-mutation values": every operation that existed keeps its class, and each of its variables is either kept or replaced
   by a NEW tensor (the placeholder) carrying the old creator, the old array object and the old consumer set; the target
   tensor itself moves to a new array over a new buffer that no array of the old heap shares. *)
From MG Require Model.Heap.
From MG Require Import Proofs.HeapP1 Proofs.HeapWfb Proofs.HeapP2 Proofs.HeapP21 Proofs.HeapCor.

Theorem C05_heap_old_operations_read_pre_mutation_tensors :
  forall h m k inputs masked h', wf h -> (forall i, In i inputs -> Heap.getT h i <> None) ->
  Heap.inplace h m k inputs masked false = Some (Heap.Done h') ->
  forall o r0, Heap.getO h o = Some r0 ->
  exists r1, Heap.getO h' o = Some r1 /\ Heap.o_kind r1 = Heap.o_kind r0 /\ Heap.o_keep r1 = Heap.o_keep r0 /\
    Forall2 (fun v v' => v' = v \/
                         (Heap.h_next h <= v' /\ exists r rp, Heap.getT h v = Some r /\ Heap.getT h' v' = Some rp /\
                            Heap.t_creator rp = Heap.t_creator r /\ Heap.t_data rp = Heap.t_data r /\ Heap.t_ops rp = Heap.t_ops r))
            (Heap.o_vars r0) (Heap.o_vars r1).
Proof. exact success_old_consumers. Qed.
Print Assumptions C05_heap_old_operations_read_pre_mutation_tensors.

Theorem C05_heap_target_moves_to_a_fresh_buffer :
  forall ss h, run_ok Heap.empty_heap ss -> Heap.run Heap.empty_heap ss = Some h ->
  forall m k inputs masked h', (forall i, In i inputs -> Heap.getT h i <> None) ->
  Heap.inplace h m k inputs masked false = Some (Heap.Done h') ->
  exists rm ra, Heap.getT h' m = Some rm /\ Heap.getA h' (Heap.t_data rm) = Some ra /\
    (forall a, Heap.getA h a <> None -> a <> Heap.t_data rm) /\ (forall a ra0, Heap.getA h a = Some ra0 -> Heap.a_buf ra0 <> Heap.a_buf ra).
Proof. exact reachable_success_target_fresh_array. Qed.
Print Assumptions C05_heap_target_moves_to_a_fresh_buffer.

Theorem C05_heap_success_preserves_invariant :
  forall h m k inputs masked h', wf h -> (forall i, In i inputs -> Heap.getT h i <> None) ->
  Heap.inplace h m k inputs masked false = Some (Heap.Done h') -> wf h'.
Proof. exact success_wf. Qed.
Print Assumptions C05_heap_success_preserves_invariant.
