(* Property C11 -- every public entry point to an operation behaves identically: routing part.  Theorems only (proofs:
   Proofs/RoutesP.v) over Gen/Routes.v, which harness/routes_translate.py regenerates from /repo on every run, and the dispatch
   model Model/Routes.v.  That equal routes give equal values, dtypes, constant flags and gradients on the implementation is the
   spelling differential of harness/c11.py. *)
From Coq Require Import List String Bool.
Import ListNotations.
From MG Require Import Gen.Routes Model.Routes Proofs.RoutesP.
Open Scope string_scope.

(* x + y, y + x (reflected), x += y, mygrad.add and numpy.add reach one Operation class, with the operands in the written order;
   the only other routes are the declared ** 1 / ** 2 shortcuts *)
Theorem C11_binary_operator_families : forall fam, In fam binary_families -> binary_family_ok fam = true.
Proof. exact binary_families_ok. Qed.
Print Assumptions C11_binary_operator_families.

Theorem C11_unary_operator_families : forall fam, In fam unary_families -> unary_family_ok fam = true.
Proof. exact unary_families_ok. Qed.
Print Assumptions C11_unary_operator_families.

Theorem C11_methods_route_like_functions : forall m, In m method_routes -> method_ok m = true.
Proof. exact methods_ok. Qed.
Print Assumptions C11_methods_route_like_functions.

Theorem C11_numpy_function_overrides_keep_their_name : forall p, In p np_func_override -> np_name_ok p = true.
Proof. exact np_names_ok. Qed.
Print Assumptions C11_numpy_function_overrides_keep_their_name.

Theorem C11_numpy_ufunc_overrides_match_source : forall p, In p np_ufunc_override -> ufunc_override_ok p = true.
Proof. exact ufunc_overrides_ok. Qed.
Print Assumptions C11_numpy_ufunc_overrides_match_source.

Theorem C11_public_ufuncs_match_source : forall p, In p mg_public_ufunc -> public_ufunc_ok p = true.
Proof. exact public_ufuncs_ok. Qed.
Print Assumptions C11_public_ufuncs_match_source.

Theorem C11_every_ufunc_in_source_is_dispatched : forall p, In p ufunc_routes ->
  exists q, In q np_ufunc_override /\ fst (snd q) = fst p /\ snd (snd q) = snd p.
Proof. exact every_source_ufunc_is_registered. Qed.
Print Assumptions C11_every_ufunc_in_source_is_dispatched.

Theorem C11_rounding_modulo_family_refuses_nonconstant : forall u, In u rounding_modulo_family ->
  array_ufunc u true = DRaise /\ array_ufunc u false = DArray.
Proof. exact rounding_family_refused. Qed.
Print Assumptions C11_rounding_modulo_family_refuses_nonconstant.

Theorem C11_const_only_never_dropped_silently : forall u, In u const_only_set -> array_ufunc u true = DRaise.
Proof. exact const_only_never_drops. Qed.
Print Assumptions C11_const_only_never_dropped_silently.

Theorem C11_comparisons_return_arrays : forall u b, In u comparison_family -> array_ufunc u b = DArray.
Proof. exact comparison_family_arrays. Qed.
Print Assumptions C11_comparisons_return_arrays.

Theorem C11_dispatch_tables_disjoint :
  (forall u, In u const_only_set -> ~ In u bool_only_set /\ assoc u np_ufunc_override = None) /\
  (forall u, In u bool_only_set -> assoc u np_ufunc_override = None).
Proof. exact tables_disjoint. Qed.
Print Assumptions C11_dispatch_tables_disjoint.

Theorem C11_nondifferentiable_functions_return_arrays : forall f, In f no_diff_set -> array_function f = FArray.
Proof. exact no_diff_functions_arrays. Qed.
Print Assumptions C11_nondifferentiable_functions_return_arrays.

Theorem C11_overridden_functions_return_tensors : forall p, In p np_func_override -> exists c, array_function (fst p) = FTensor c.
Proof. exact overridden_functions_tensors. Qed.
Print Assumptions C11_overridden_functions_return_tensors.

Theorem C11_ufunc_methods_forwarded : au_honours_method_registered = true /\ au_honours_method_fallback = true.
Proof. exact ufunc_method_honoured. Qed.
Print Assumptions C11_ufunc_methods_forwarded.

Theorem C11_shortcuts_only_for_plain_scalars : forall p, In p shortcut_operand_types -> shortcut_types_ok p = true.
Proof. exact shortcuts_only_for_plain_scalars. Qed.
Print Assumptions C11_shortcuts_only_for_plain_scalars.
