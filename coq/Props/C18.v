(* Property C18 -- save/load round-trips a tensor's data, dtype and gradient.  Theorems over Model/IO.v. *)
From Coq Require Import ZArith List Arith Bool.
Import ListNotations.
From MG Require Import Base.EngCore Model.OpsExact Model.GraphP Model.IO.

(* data always round-trips *)
Theorem C18_data_roundtrip : forall fl d g, loaded_data (save_of fl d g) = d.
Proof. intros [|] d [[|x g]|]; reflexivity. Qed.
Print Assumptions C18_data_roundtrip.

(* a float tensor's gradient round-trips (load re-seeds it through backward on the fresh leaf) *)
Theorem C18_grad_roundtrip_float : forall d g, g <> [] -> loaded_grad (save_of true d (Some g)) = Some g.
Proof.
  intros d g Hg. unfold loaded_grad, load_state, load_hist, save_of. simpl.
  destruct g as [|x g]; [congruence|]. reflexivity.
Qed.
Print Assumptions C18_grad_roundtrip_float.

(* no gradient saved -> none loaded *)
Theorem C18_no_grad_roundtrip : forall fl d, loaded_grad (save_of fl d None) = None.
Proof. intros fl d. reflexivity. Qed.
Print Assumptions C18_no_grad_roundtrip.

(* integer / boolean tensors are constants: they never hold a gradient (C10), so nothing is ever saved for them; and if a file
   nevertheless carried one, load would not install it (backward on a constant only clears the graph) *)
Theorem C18_constant_gets_no_grad : forall d g, loaded_grad (save_of false d (Some g)) = None.
Proof. intros d g. reflexivity. Qed.
Print Assumptions C18_constant_gets_no_grad.
