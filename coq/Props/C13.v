(* Property C13 -- a failed operation leaves no trace.  Theorems only.
   In the history model a statement that raises (outcome BadStmt: an ill-formed operation) returns the state unchanged, so
   a history with such statements reaches exactly the state of the history without them; the lock automaton shows that what a
   failed operation locked is released (an operation that was recorded and immediately finalised restores everything). *)
From Coq Require Import ZArith List Arith Bool.
Import ListNotations.
From MG Require Import Base.EngCore Model.OpsExact Model.GraphP.

(* an operation that fails validation changes nothing *)
Theorem C13_failed_op_is_noop : forall st fc vw o, snd (do_app st fc vw o) = BadStmt -> fst (do_app st fc vw o) = st.
Proof.
  intros st fc vw o. unfold do_app.
  destruct (negb (forallb (fun i => Nat.ltb i (length (g_vals st))) (map c_src (c_args Z o)))); simpl; [reflexivity|discriminate].
Qed.
Print Assumptions C13_failed_op_is_noop.

Theorem C13_failed_stmt_is_noop : forall st s, snd (exec_stmt st s) = BadStmt -> fst (exec_stmt st s) = st.
Proof.
  intros st [c v|fc vw o|t seed|t|t]; simpl.
  - discriminate.
  - apply C13_failed_op_is_noop.
  - unfold do_backward. destruct (negb (Nat.ltb t (length (g_vals st)))); simpl; [reflexivity|].
    destruct (n_const st t); simpl; [discriminate|].
    destruct (sweep_chk _ _ _ _) as [G err]. destruct err; simpl; discriminate.
  - destruct (Nat.ltb t (length (g_vals st))); simpl; [discriminate|reflexivity].
  - destruct (Nat.ltb t (length (g_vals st))); simpl; [discriminate|reflexivity].
Qed.
Print Assumptions C13_failed_stmt_is_noop.

(* consequently: removing the failing statements from a history changes neither the final state nor the other outcomes *)
Fixpoint drop_failed (st : gstate) (h : list stmt) : list stmt :=
  match h with
  | [] => []
  | s :: h' => match snd (exec_stmt st s) with
               | BadStmt => drop_failed st h'
               | _ => s :: drop_failed (fst (exec_stmt st s)) h'
               end
  end.
Theorem C13_same_final_state_without_failing_statements : forall h st,
  fst (run_hist st (drop_failed st h)) = fst (run_hist st h).
Proof.
  induction h as [|s h IH]; intros st; simpl; [reflexivity|].
  destruct (exec_stmt st s) as [st1 o] eqn:E. simpl.
  destruct o; simpl.
  - rewrite E. specialize (IH st1). destruct (run_hist st1 (drop_failed st1 h)); destruct (run_hist st1 h); simpl in *; exact IH.
  - rewrite E. specialize (IH st1). destruct (run_hist st1 (drop_failed st1 h)); destruct (run_hist st1 h); simpl in *; exact IH.
  - assert (st1 = st) by (pose proof (C13_failed_stmt_is_noop st s) as H; rewrite E in H; simpl in H; apply H; reflexivity).
    subst st1. specialize (IH st). destruct (run_hist st h); simpl in *. exact IH.
Qed.
Print Assumptions C13_same_final_state_without_failing_statements.

(* ---------------------------------------------------------------------------------------------------------------------
   Pointer level (Model/Heap.v: the transcription of Tensor._in_place_op / DuplicatingGraph; tied to /repo by the object-graph
   correspondence of harness/heapcorr.py).  [wf] is the heap invariant of Proofs/HeapP2.v (decidable: HeapWfb.wfb); every heap
   reached from the empty heap by leaf / operation / view / in-place statements satisfies it. *)
From MG Require Model.Heap.
From MG Require Import Proofs.HeapP1 Proofs.HeapWfb Proofs.HeapP2 Proofs.HeapP8 Proofs.HeapP9 Proofs.HeapP21 Proofs.HeapCor.

(* an in-place operation whose kernel raises returns every table of the heap -- tensors (creator, base, view children, consumer
   set, array, gradient flags), operations (variables), weak collections, arrays -- exactly as it was; only the allocation
   counter moved *)
Theorem C13_heap_failed_inplace_restores_every_table : forall h m k inputs masked out, wf h ->
  Heap.inplace h m k inputs masked true = Some out -> exists h', out = Heap.Raised h' /\ same_tables h h'.
Proof. exact inplace_failure_noop. Qed.
Print Assumptions C13_heap_failed_inplace_restores_every_table.

(* the same for EVERY raising outcome of the model, in particular the stale view whose path to the base no longer exists
   (the KeyError of get_path_to_base: the defect repaired by 648be3c lived here) *)
Theorem C13_heap_any_raising_inplace_restores_every_table : forall h m k inputs masked fails h', wf h ->
  Heap.inplace h m k inputs masked fails = Some (Heap.Raised h') -> same_tables h h'.
Proof. exact inplace_raised_noop. Qed.
Print Assumptions C13_heap_any_raising_inplace_restores_every_table.

(* building the placeholder graph and routing it back is the identity on every table *)
Theorem C13_heap_duplicate_then_restore_is_identity : forall h b tb, wf h -> Heap.getT h b = Some tb -> Heap.t_grad tb = false ->
  exists h1 g h2, Heap.dup h b = Some (h1, g) /\ Heap.restore h1 g = Some h2 /\ same_tables h (Heap.free_placeholders h2 g).
Proof. exact dup_restore. Qed.
Print Assumptions C13_heap_duplicate_then_restore_is_identity.

(* the hypothesis is met by every heap a clear_graph-free history reaches (and wf is decidable: wfb) *)
Theorem C13_heap_reachable_heaps_are_wf : forall ss h', run_ok Heap.empty_heap ss -> Heap.run Heap.empty_heap ss = Some h' -> wf h'.
Proof. exact wf_reachable. Qed.
Print Assumptions C13_heap_reachable_heaps_are_wf.
(* ... so: after ANY history of leaf / operation / view / in-place statements, a failing in-place statement is a no-op *)
Theorem C13_heap_failed_inplace_after_any_history_is_noop :
  forall ss h, run_ok Heap.empty_heap ss -> Heap.run Heap.empty_heap ss = Some h ->
  forall m k inputs masked out, Heap.inplace h m k inputs masked true = Some out -> exists h', out = Heap.Raised h' /\ same_tables h h'.
Proof. exact reachable_failed_inplace_noop. Qed.
Print Assumptions C13_heap_failed_inplace_after_any_history_is_noop.
Theorem C13_heap_wf_decidable : forall h, wfb h = true <-> wf h.
Proof. exact wfb_wf. Qed.
Print Assumptions C13_heap_wf_decidable.

(* locks: an operation that locked its inputs and is then finalised (what the except-branch of Tensor._op does through
   release_writeability_lock_on_op) restores every flag -- instance of C08_restored_at_quiescence *)
From MG Require Import Model.LockMgr Proofs.LockP.
Theorem C13_failed_op_releases_locks : forall es, wf_events es -> ops (run es) = [] ->
  forall i, a_alive (get (run es) i) = true ->
  cget i (counter (run es)) = 0 /\ tracked (run es) i = false /\ aget i (tracker (run es)) = None /\
  (a_used (get (run es) i) = true -> a_wr (get (run es) i) = a_orig (get (run es) i)).
Proof. exact C08_restored. Qed.
Print Assumptions C13_failed_op_releases_locks.
