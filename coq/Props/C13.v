(* Property C13 -- a failed operation leaves no trace.  Theorems only.
   In the history model a statement that raises (outcome BadStmt: an ill-formed operation) returns the state unchanged, so
   a history with such statements reaches exactly the state of the history without them; the lock automaton shows that what a
   failed operation locked is released (an operation that was recorded and immediately finalised restores everything). *)
From Coq Require Import ZArith List Arith Bool.
Import ListNotations.
From MG Require Import Base.EngCore Model.OpsExact Model.GraphP.

(* an operation that fails validation changes nothing *)
Theorem C13_failed_op_is_noop : forall st fc vw o, snd (do_app st fc vw o) = BadStmt -> fst (do_app st fc vw o) = st.
Proof.
  intros st fc vw o. unfold do_app.
  destruct (negb (forallb (fun i => Nat.ltb i (length (g_vals st))) (map c_src (c_args Z o)))); simpl; [reflexivity|discriminate].
Qed.
Print Assumptions C13_failed_op_is_noop.

Theorem C13_failed_stmt_is_noop : forall st s, snd (exec_stmt st s) = BadStmt -> fst (exec_stmt st s) = st.
Proof.
  intros st [c v|fc vw o|t seed|t|t]; simpl.
  - discriminate.
  - apply C13_failed_op_is_noop.
  - unfold do_backward. destruct (negb (Nat.ltb t (length (g_vals st)))); simpl; [reflexivity|].
    destruct (n_const st t); simpl; [discriminate|].
    destruct (sweep_chk _ _ _ _) as [G err]. destruct err; simpl; discriminate.
  - destruct (Nat.ltb t (length (g_vals st))); simpl; [discriminate|reflexivity].
  - destruct (Nat.ltb t (length (g_vals st))); simpl; [discriminate|reflexivity].
Qed.
Print Assumptions C13_failed_stmt_is_noop.

(* consequently: removing the failing statements from a history changes neither the final state nor the other outcomes *)
Fixpoint drop_failed (st : gstate) (h : list stmt) : list stmt :=
  match h with
  | [] => []
  | s :: h' => match snd (exec_stmt st s) with
               | BadStmt => drop_failed st h'
               | _ => s :: drop_failed (fst (exec_stmt st s)) h'
               end
  end.
Theorem C13_same_final_state_without_failing_statements : forall h st,
  fst (run_hist st (drop_failed st h)) = fst (run_hist st h).
Proof.
  induction h as [|s h IH]; intros st; simpl; [reflexivity|].
  destruct (exec_stmt st s) as [st1 o] eqn:E. simpl.
  destruct o; simpl.
  - rewrite E. specialize (IH st1). destruct (run_hist st1 (drop_failed st1 h)); destruct (run_hist st1 h); simpl in *; exact IH.
  - rewrite E. specialize (IH st1). destruct (run_hist st1 (drop_failed st1 h)); destruct (run_hist st1 h); simpl in *; exact IH.
  - assert (st1 = st) by (pose proof (C13_failed_stmt_is_noop st s) as H; rewrite E in H; simpl in H; apply H; reflexivity).
    subst st1. specialize (IH st). destruct (run_hist st h); simpl in *. exact IH.
Qed.
Print Assumptions C13_same_final_state_without_failing_statements.

(* locks: an operation that locked its inputs and is then finalised (what the except-branch of Tensor._op does through
   release_writeability_lock_on_op) restores every flag -- instance of C08_restored_at_quiescence *)
From MG Require Import Model.LockMgr Proofs.LockP.
Theorem C13_failed_op_releases_locks : forall es, wf_events es -> ops (run es) = [] ->
  forall i, a_alive (get (run es) i) = true ->
  cget i (counter (run es)) = 0 /\ tracked (run es) i = false /\ aget i (tracker (run es)) = None /\
  (a_used (get (run es) i) = true -> a_wr (get (run es) i) = a_orig (get (run es) i)).
Proof. exact C08_restored. Qed.
Print Assumptions C13_failed_op_releases_locks.
