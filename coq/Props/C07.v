(* Property C07 -- backward() releases the whole graph and gradients never go stale.
   Theorems only (proofs: Proofs/ClearP.v, Proofs/EngineP.v) over the history-level model Model/GraphP.v. *)
From Coq Require Import ZArith List Arith Bool.
Import ListNotations.
From MG Require Import Base.EngCore Base.EngOrder Model.OpsExact Model.GraphP Proofs.EngineP Proofs.ClearP.

(* After L.backward() (at ANY state reachable by ANY history), L and every tensor upstream of it -- through creators
   that had not been cleared before -- has no recorded consumers and no creator. *)
Theorem C07_released : forall h t seed st',
  let st := fst (run_hist g_init h) in
  do_backward st t seed = (st', Ok) ->
  forall k, upstream (g_nodes st) (g_cleared st) t k ->
    nth k (g_hasops st') false = false /\ is_leaf (nth k (g_eff st') leafd) = true.
Proof. exact history_backward_releases. Qed.
Print Assumptions C07_released.

(* Every tensor that received (or lost) a gradient in this pass is upstream of L, hence released: no strong
   reference from a creator survives, which is what lets reference counting free the intermediates. *)
Theorem C07_changed_grad_released : forall st t seed st' (WF : wf Z (g_nodes st))
  (HL : length (g_cleared st) = length (g_nodes st)),
  do_backward st t seed = (st', Ok) ->
  forall k d, nth k (g_grad st') d <> nth k (g_grad st) d ->
    upstream (g_nodes st) (g_cleared st) t k /\
    nth k (g_hasops st') false = false /\ creator_none (g_nodes st') (g_cleared st') k = true.
Proof. exact backward_grad_changed_released. Qed.
Print Assumptions C07_changed_grad_released.

(* clear_graph itself *)
Theorem C07_clear_releases : forall nodes (WF : wf Z nodes) cl ho t cl' ho',
  clear_from (S t) nodes t (cl, ho) = (cl', ho') ->
  forall k, upstream nodes cl t k -> nth k ho' false = false /\ creator_none nodes cl' k = true.
Proof. exact clear_releases. Qed.
Print Assumptions C07_clear_releases.

(* A gradient persists: backward leaves the gradient of every tensor outside its traversal untouched ... *)
Theorem C07_persist_backward : forall st t seed st',
  do_backward st t seed = (st', Ok) ->
  forall k d, ~ In k (order_of st t) -> nth k (g_grad st') d = nth k (g_grad st) d.
Proof. exact backward_grad_untouched. Qed.
Print Assumptions C07_persist_backward.

(* ... a view-producing operation keeps all gradients, a non-view operation drops exactly those of its inputs
   ("until the leaf is next used as input to a non-view operation, at which moment the old value is gone") *)
Theorem C07_persist_op : forall st fc o st',
  do_app st fc true o = (st', Ok) -> g_grad st' = g_grad st ++ [None].
Proof.
  intros st fc o st'. unfold do_app.
  destruct (negb (forallb (fun i => Nat.ltb i (length (g_vals st))) (map c_src (c_args Z o)))); intros H; inversion H.
  reflexivity.
Qed.
Print Assumptions C07_persist_op.

Theorem C07_nonview_op_drops_input_grads : forall st fc o st',
  do_app st fc false o = (st', Ok) ->
  g_grad st' = set_all (g_grad st) (map c_src (c_args Z o)) None ++ [None].
Proof.
  intros st fc o st'. unfold do_app.
  destruct (negb (forallb (fun i => Nat.ltb i (length (g_vals st))) (map c_src (c_args Z o)))); intros H; inversion H.
  reflexivity.
Qed.
Print Assumptions C07_nonview_op_drops_input_grads.

(* every backward pass starts by dropping the gradients of everything it will traverse: nothing accumulates
   across iterations (the adjoint theorem C01_backward_adjoint holds for the pass alone, whatever gradients were
   stored before) *)
Theorem C07_no_accumulation_across_passes : forall st t seed st',
  Inv st -> t < length (g_vals st) -> n_const st t = false ->
  do_backward st t seed = (st', Ok) ->
  exists G : list zvec,
    (forall k, In k (order_of st t) -> grad_vec st' k = nth k G []) /\
    (forall delta : nat -> zvec,
       leaf_sum Z 0%Z Z.add Z.mul delta 0 (g_eff st) G =
       dot Z 0%Z Z.add Z.mul (match seed with Some g => g | None => repeat 1%Z (length (nth t (g_vals st) [])) end)
           (nth t (tangents Z Z.add delta (g_eff st)) [])).
Proof.
  intros st t seed st' HI Ht Hc Hb.
  destruct (backward_adjoint st t seed st' HI Ht Hc Hb) as (G & H1 & _ & H3).
  exists G. split; [exact H1 | exact H3].
Qed.
Print Assumptions C07_no_accumulation_across_passes.
