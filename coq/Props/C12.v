(* Property C12 -- operations never modify their inputs; backward never changes data.  Theorems on the history model
   (values are immutable there by construction: what is proved is that no statement rewrites an existing entry). *)
From Coq Require Import ZArith List Arith Bool Lia.
Import ListNotations.
From MG Require Import Base.EngCore Model.OpsExact Model.GraphP Proofs.ClearP.

(* backward() changes no tensor's value (and neither does a failed one) *)
Theorem C12_backward_preserves_values : forall st t seed, g_vals (fst (do_backward st t seed)) = g_vals st.
Proof.
  intros st t seed. unfold do_backward.
  destruct (negb (Nat.ltb t (length (g_vals st)))); [reflexivity|].
  destruct (n_const st t).
  - simpl. unfold do_clear. destruct (clear_from _ _ _ _); reflexivity.
  - destruct (sweep_chk _ _ _ _) as [G err]. destruct err; simpl; [reflexivity|].
    unfold do_clear. destruct (clear_from _ _ _ _); reflexivity.
Qed.
Print Assumptions C12_backward_preserves_values.

(* an operation only appends its result: every existing value is untouched *)
Theorem C12_op_preserves_existing_values : forall st fc vw o k, k < length (g_vals st) ->
  nth k (g_vals (fst (do_app st fc vw o))) [] = nth k (g_vals st) [].
Proof.
  intros st fc vw o k Hk. unfold do_app.
  destruct (negb (forallb (fun i => Nat.ltb i (length (g_vals st))) (map c_src (c_args Z o)))); simpl; [reflexivity|].
  apply app_nth1. exact Hk.
Qed.
Print Assumptions C12_op_preserves_existing_values.

(* clear_graph and null_grad do not touch values either: no statement of a history rewrites an existing value *)
Theorem C12_stmt_preserves_existing_values : forall st s k, k < length (g_vals st) ->
  nth k (g_vals (fst (exec_stmt st s))) [] = nth k (g_vals st) [].
Proof.
  intros st [c v|fc vw o|t seed|t|t] k Hk; simpl.
  - apply app_nth1. exact Hk.
  - apply C12_op_preserves_existing_values. exact Hk.
  - rewrite C12_backward_preserves_values. reflexivity.
  - destruct (Nat.ltb t (length (g_vals st))); simpl; [|reflexivity]. unfold do_clear. destruct (clear_from _ _ _ _); reflexivity.
  - destruct (Nat.ltb t (length (g_vals st))); reflexivity.
Qed.
Print Assumptions C12_stmt_preserves_existing_values.
