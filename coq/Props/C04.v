(* Property C04 -- views and in-place updates mirror NumPy's memory semantics.  Theorems only
   (proofs: Proofs/FamiliesP.v) over the buffer model Model/Families.v. *)
From Coq Require Import ZArith List Arith Bool.
Import ListNotations.
From MG Require Import Base.EngCore Base.GatherScatter Model.OpsExact Model.Families.

(* worked example: buffer [10;20;30;40]; member A reads positions [3;2;1;0] (a reversed view), member B reads [1;2];
   writing [7;8;9] through positions [1;1;3] (a repeated index: the later value wins) is seen by both members, and the
   functional meaning used for gradients computes the same buffer *)
Example C04_example :
  let buf := [10; 20; 30; 40]%Z in
  write buf [1; 1; 3] [7; 8; 9]%Z = [10; 8; 30; 9]%Z /\
  read (write buf [1; 1; 3] [7; 8; 9]%Z) [3; 2; 1; 0] = [9; 30; 8; 10]%Z /\
  read (write buf [1; 1; 3] [7; 8; 9]%Z) [1; 2] = [8; 30]%Z /\
  shares [3; 2; 1; 0] [1; 2] = true /\ shares [0] [1; 2] = false /\
  cop_fwd Z 0%Z 1%Z Z.add Z.mul [buf; [7; 8; 9]%Z] (update_cop 4 [1; 1; 3]) = write buf [1; 1; 3] [7; 8; 9]%Z.
Proof. vm_compute. repeat split; reflexivity. Qed.

From MG Require Import Proofs.FamiliesP.

(* a write through one member: positions it does not map are untouched, a position it maps holds the value written LAST *)
Theorem C04_write_semantics : forall pos buf vals p,
  length pos = length vals -> p < length buf ->
  nth p (write buf pos vals) 0%Z =
  match last_writer pos p 0 None with Some i => nth i vals 0%Z | None => nth p buf 0%Z end.
Proof. exact write_nth. Qed.
Print Assumptions C04_write_semantics.

(* what ANOTHER member of the family reads afterwards (NumPy's memory semantics for any two index maps) *)
Theorem C04_read_after_write : forall buf m1 m2 vals,
  length vals = length m1 -> Forall (fun p => p < length buf) m1 -> Forall (fun p => p < length buf) m2 ->
  forall j, j < length m2 ->
    nth j (read (write buf m1 vals) m2) 0%Z =
    match last_writer m1 (nth j m2 0) 0 None with Some i => nth i vals 0%Z | None => nth j (read buf m2) 0%Z end.
Proof. exact read_after_write. Qed.
Print Assumptions C04_read_after_write.

(* members that share no position never see each other's writes; sharing is exactly "a common position" *)
Theorem C04_no_sharing_no_effect : forall buf m1 m2 vals, shares m1 m2 = false -> read (write buf m1 vals) m2 = read buf m2.
Proof. exact no_sharing_no_effect. Qed.
Print Assumptions C04_no_sharing_no_effect.
Theorem C04_shares_iff_common_position : forall m1 m2, shares m1 m2 = true <-> exists p, In p m1 /\ In p m2.
Proof. exact shares_true_iff. Qed.
Print Assumptions C04_shares_iff_common_position.

(* the functional meaning of an in-place update that the gradient model (C05) runs IS this buffer semantics *)
Theorem C04_functional_meaning_is_write : forall n buf pos vals,
  n = length buf -> Forall (fun p => p < n) pos -> length vals = length pos ->
  cop_fwd Z 0%Z 1%Z Z.add Z.mul [buf; vals] (update_cop n pos) = write buf pos vals.
Proof. exact update_cop_is_write. Qed.
Print Assumptions C04_functional_meaning_is_write.

(* ---------------------------------------------------------------------------------------------------------------------
   Pointer level (Model/Heap.v: the transcription of Tensor._op / Tensor._in_place_op / DuplicatingGraph, tied to /repo by the
   object-graph correspondence of harness/heapcorr.py).  Within one graph epoch (statements: new leaf, non-view operation, view
   operation, in-place operation -- succeeding or raising) the heap invariant [wf] of Proofs/HeapP2.v is preserved, and the
   in-place machinery never gets stuck on it (no KeyError / AssertionError / DisconnectedView path is reachable). *)
From MG Require Model.Heap.
From MG Require Import Proofs.HeapP1 Proofs.HeapWfb Proofs.HeapP2 Proofs.HeapP21.

Theorem C04_heap_invariant_preserved : forall h s o, wf h -> stmt_ok h s -> Heap.step h s = Some o -> wf (Heap.heap_of o).
Proof. exact wf_step. Qed.
Print Assumptions C04_heap_invariant_preserved.

Theorem C04_heap_invariant_every_reachable_heap : forall ss h', run_ok Heap.empty_heap ss -> Heap.run Heap.empty_heap ss = Some h' -> wf h'.
Proof. exact wf_reachable. Qed.
Print Assumptions C04_heap_invariant_every_reachable_heap.

Theorem C04_heap_inplace_never_stuck : forall h m k inputs masked fails tm0, wf h -> Heap.getT h m = Some tm0 ->
  (forall i, In i inputs -> Heap.getT h i <> None) -> exists out, Heap.inplace h m k inputs masked fails = Some out.
Proof. exact inplace_not_stuck. Qed.
Print Assumptions C04_heap_inplace_never_stuck.

(* assigning .shape (Model/HeapShape.v): the operations recorded before read placeholders that keep creator, array and
   consumer set; the setter never gets stuck on a well-formed heap whose target's array and (for a view) parent exist.
   (The id-order encoding of acyclicity in [wf] is NOT preserved by the setter -- Proofs/HeapShapeP.v gives the two
   counterexamples -- so histories containing shape assignments are covered by the correspondence, not by the invariant.) *)
From MG Require Model.HeapShape.
From MG Require Import Proofs.HeapShapeP Proofs.HeapCor.

Theorem C04_heap_shape_assignment_keeps_old_graph :
  forall h m h', wf h -> HeapShape.set_shape h m false = Some (Heap.Done h') ->
  forall o r0, Heap.getO h o = Some r0 ->
  exists r1, Heap.getO h' o = Some r1 /\ Heap.o_kind r1 = Heap.o_kind r0 /\ Heap.o_keep r1 = Heap.o_keep r0 /\
    Forall2 (fun v v' => v' = v \/
                         (Heap.h_next h <= v' /\ exists r rp, Heap.getT h v = Some r /\ Heap.getT h' v' = Some rp /\
                            Heap.t_creator rp = Heap.t_creator r /\ Heap.t_data rp = Heap.t_data r /\ Heap.t_ops rp = Heap.t_ops r))
            (Heap.o_vars r0) (Heap.o_vars r1).
Proof. exact set_shape_old_consumers. Qed.
Print Assumptions C04_heap_shape_assignment_keeps_old_graph.

Theorem C04_heap_refused_shape_assignment_is_noop : forall h m, HeapShape.set_shape h m true = Some (Heap.Raised h).
Proof. exact set_shape_fail_noop. Qed.
Print Assumptions C04_heap_refused_shape_assignment_is_noop.

Theorem C04_heap_reachable_inplace_never_stuck :
  forall ss h, run_ok Heap.empty_heap ss -> Heap.run Heap.empty_heap ss = Some h ->
  forall m k inputs masked fails, Heap.getT h m <> None -> (forall i, In i inputs -> Heap.getT h i <> None) ->
  Heap.inplace h m k inputs masked fails <> None.
Proof. exact reachable_inplace_never_stuck. Qed.
Print Assumptions C04_heap_reachable_inplace_never_stuck.
