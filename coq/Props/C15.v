(* Property C15 -- no_autodiff / mem_guard scopes: theorems only; proofs live in Proofs/ScopesP.v *)
From Coq Require Import List Bool.
Import ListNotations.
From MG Require Import Model.Scopes Proofs.ScopesP.

Theorem C15_with_restores : forall m p s, wf s -> exists s' r t, exec (With m p) s = Some (s', r, t) /\
   get_flag s' m = get_flag s m /\
   m_na s' = m_na s /\ m_off s' = m_off s /\ m_on s' = m_on s /\
   track s' = track s /\
   (no_turn p = true \/ m <> NoAutodiff -> guard s' = guard s).
Proof. exact with_restores. Qed.
Print Assumptions C15_with_restores.

Theorem C15_exception_propagates : forall m p s s' r t, exec (With m p) s = Some (s', r, t) ->
  exists s1 t1, exec p (enter m s) = Some (s1, r, t1) /\ t = observe (enter m s) :: t1 ++ [observe s'].
Proof. exact with_propagates. Qed.
Print Assumptions C15_exception_propagates.

Theorem C15_reachable_wf : wf init_st /\
  forall p s s' r t, wf s -> exec p s = Some (s', r, t) -> wf s'.
Proof. split; [exact wf_init | exact wf_preserved]. Qed.
Print Assumptions C15_reachable_wf.

Theorem C15_enter_sets : forall m s, get_flag (enter m s) m = enter_value m.
Proof. exact enter_sets. Qed.
Print Assumptions C15_enter_sets.

Theorem C15_turn_sets_default : forall b m p s, wf s -> m <> NoAutodiff ->
  let s0 := set_flag s GuardOn b in
  exists s' r t, exec (With m p) s0 = Some (s', r, t) /\ guard s' = b.
Proof. exact turn_sets_default. Qed.
Print Assumptions C15_turn_sets_default.

Theorem C15_untracked_records_nothing : forall s, track s = false ->
  records_graph (op_gate s) = false /\ locks_arrays (op_gate s) = false.
Proof. exact gate_untracked. Qed.
Print Assumptions C15_untracked_records_nothing.

Theorem C15_no_autodiff_body_untracked : forall s,
  records_graph (op_gate (enter NoAutodiff s)) = false /\ locks_arrays (op_gate (enter NoAutodiff s)) = false.
Proof. exact gate_in_no_autodiff. Qed.
Print Assumptions C15_no_autodiff_body_untracked.
