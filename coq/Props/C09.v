(* Property C09 -- backprop through a partially cleared graph fails loudly, never silently.
   Theorems only (proofs: Proofs/ClearP.v, Proofs/EngineP.v) over Model/GraphP.v. *)
From Coq Require Import ZArith List Arith Bool.
Import ListNotations.
From MG Require Import Base.EngCore Base.EngOrder Model.OpsExact Model.GraphP Proofs.EngineP Proofs.ClearP.

(* exactly when L.backward() raises InvalidBackprop: some tensor that the pass processes has a non-constant input
   whose consumer set is empty *)
Theorem C09_detection : forall st t seed,
  snd (do_backward st t seed) = InvalidBackprop <->
  t < length (g_vals st) /\ n_const st t = false /\
  exists k o i, In k (order_of st t) /\ nth k (g_eff st) leafd = App Z false o /\ In i (ins Z o) /\
                nconst Z (nth i (g_eff st) leafd) = false /\ nth i (g_hasops st) false = false.
Proof. exact do_backward_invalid_iff. Qed.
Print Assumptions C09_detection.

(* when it does not raise, the gradients are exactly those of the graph as the code sees it (cleared creators = leaves) *)
Theorem C09_ok_is_adjoint_of_effective_graph : forall st t seed st',
  Inv st -> t < length (g_vals st) -> n_const st t = false ->
  do_backward st t seed = (st', Ok) ->
  let P := g_eff st in
  let order := order_of st t in
  let s := match seed with Some g => g | None => repeat 1%Z (length (nth t (g_vals st) [])) end in
  exists G : list zvec,
    (forall k, In k order -> grad_vec st' k = nth k G []) /\
    (forall k, ~ In k order -> nth k G [] = [] /\ nth k (g_grad st') None = nth k (g_grad st) None) /\
    (forall delta : nat -> zvec,
       leaf_sum Z 0%Z Z.add Z.mul delta 0 P G = dot Z 0%Z Z.add Z.mul s (nth t (tangents Z Z.add delta P) [])).
Proof. exact backward_adjoint. Qed.
Print Assumptions C09_ok_is_adjoint_of_effective_graph.

(* after y.backward(), z.backward() on a graph that shares y raises *)
Example C09_stale_is_detected :
  snd (run_hist g_init (ex_build ++ [SBackward 1 None; SBackward 2 None])) = [Ok; Ok; Ok; Ok; InvalidBackprop].
Proof. exact ex_stale_detected. Qed.
