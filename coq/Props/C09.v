(* Property C09 -- backprop through a partially cleared graph fails loudly, never silently.
   Theorems only (proofs: Proofs/ClearP.v, Proofs/EngineP.v) over Model/GraphP.v. *)
From Coq Require Import ZArith List Arith Bool.
Import ListNotations.
From MG Require Import Base.EngCore Base.EngOrder Model.OpsExact Model.GraphP Proofs.EngineP Proofs.ClearP.

(* exactly when L.backward() raises InvalidBackprop: some tensor that the pass processes has a non-constant input
   whose consumer set is empty *)
Theorem C09_detection : forall st t seed,
  snd (do_backward st t seed) = InvalidBackprop <->
  t < length (g_vals st) /\ n_const st t = false /\
  exists k o i, In k (order_of st t) /\ nth k (g_eff st) leafd = App Z false o /\ In i (ins Z o) /\
                nconst Z (nth i (g_eff st) leafd) = false /\ nth i (g_hasops st) false = false.
Proof. exact do_backward_invalid_iff. Qed.
Print Assumptions C09_detection.

(* when it does not raise, the gradients are exactly those of the graph as the code sees it (cleared creators = leaves) *)
Theorem C09_ok_is_adjoint_of_effective_graph : forall st t seed st',
  Inv st -> t < length (g_vals st) -> n_const st t = false ->
  do_backward st t seed = (st', Ok) ->
  let P := g_eff st in
  let order := order_of st t in
  let s := match seed with Some g => g | None => repeat 1%Z (length (nth t (g_vals st) [])) end in
  exists G : list zvec,
    (forall k, In k order -> grad_vec st' k = nth k G []) /\
    (forall k, ~ In k order -> nth k G [] = [] /\ nth k (g_grad st') None = nth k (g_grad st) None) /\
    (forall delta : nat -> zvec,
       leaf_sum Z 0%Z Z.add Z.mul delta 0 P G = dot Z 0%Z Z.add Z.mul s (nth t (tangents Z Z.add delta P) [])).
Proof. exact backward_adjoint. Qed.
Print Assumptions C09_ok_is_adjoint_of_effective_graph.

(* after y.backward(), z.backward() on a graph that shares y raises *)
Example C09_stale_is_detected :
  snd (run_hist g_init (ex_build ++ [SBackward 1 None; SBackward 2 None])) = [Ok; Ok; Ok; Ok; InvalidBackprop].
Proof. exact ex_stale_detected. Qed.

From MG Require Import Proofs.StaleP.

(* THE PARTIAL THEOREM: at every state reached along a well-formed history, if no tensor whose creator was
   cleared and that is still listed in L's graph has been re-used since (no_stale_refill), L.backward() either raises
   InvalidBackprop or no cleared tensor is involved and the gradients are exactly those of the computation AS
   RECORDED (g_nodes), for every direction delta. *)
Theorem C09_partial_raise_or_exact : forall (h1 h2 : list stmt) (t : nat) (seed : option zvec),
  hist_ok g_init (h1 ++ h2) = true ->
  let st := fst (run_hist g_init h1) in
  t < length (g_vals st) -> n_const st t = false -> nth t (g_cleared st) false = false ->
  no_stale_refill st t ->
  match do_backward st t seed with
  | (_, InvalidBackprop) => True
  | (_, BadStmt) => False
  | (st', Ok) =>
      (forall k, In k (order_of st t) -> nth k (g_cleared st) false = false) /\
      exists G : list zvec,
        (forall k, In k (order_of st t) -> grad_vec st' k = nth k G []) /\
        (forall k, ~ In k (order_of st t) -> nth k G [] = []) /\
        (forall delta : nat -> zvec,
           leaf_sum Z 0%Z Z.add Z.mul delta 0 (g_nodes st) G
           = dot Z 0%Z Z.add Z.mul (bw_seed st t seed) (nth t (tangents Z Z.add delta (g_nodes st)) []))
  end.
Proof. exact raise_or_exact_reachable. Qed.
Print Assumptions C09_partial_raise_or_exact.

(* THE FULL STATEMENT IS FALSE of the faithful model (and of the implementation: the witness is replayed on /repo
   by the check):  x=[3]; a=x*2; L1=a*1; L2=a*a; L1.backward(); b=a*1; L2.backward()  -- no exception, x keeps the
   gradient [2] of L1 whereas the recorded computation has dL2/dx = [24]. *)
Theorem C09_refuted :
  let st := fst (run_hist g_init c09_prefix) in
  let r := run_hist g_init c09_hist in
  hist_ok g_init c09_hist = true /\
  snd r = [Ok; Ok; Ok; Ok; Ok; Ok; Ok] /\
  g_vals (fst r) = [[3]; [6]; [6]; [36]; [6]]%Z /\
  order_of st 3 = [3; 1] /\ nth 1 (g_cleared st) false = true /\ nth 1 (g_hasops st) false = true /\
  ~ no_stale_refill st 3 /\
  g_grad (fst r) = [Some [2]; Some [12]; Some [1]; Some [1]; None]%Z /\
  recorded_order st 3 = [3; 1; 0] /\
  recorded_grads st 3 None = [[24]; [12]; []; [1]; []]%Z.
Proof. exact StaleP.C09_refuted. Qed.
Print Assumptions C09_refuted.
