(* Property C17 -- construction and conversion: copying, aliasing and dtype rules.  Theorems only
   (proofs: Proofs/ConstructP.v) over the decision model Model/Construct.v. *)
From Coq Require Import List Arith Bool.
Import ListNotations.
From MG Require Import Model.ConstRule Model.Construct Proofs.ConstructP.

Theorem C17_default_copies : forall i, i_copy i = true ->
  o_shares (m_tensor i) = false /\ o_shares (m_Tensor i) = false /\ o_same (m_tensor i) = false.
Proof. exact default_copies. Qed.
Print Assumptions C17_default_copies.

Theorem C17_copy_false_reuses_memory : forall i, i_kind i <> SList -> i_copy i = false -> i_dt i <> DOther ->
  o_shares (m_tensor i) = true /\ o_shares (m_Tensor i) = true /\ o_shares (m_astensor i) = true.
Proof. exact copy_false_reuses. Qed.
Print Assumptions C17_copy_false_reuses_memory.

Theorem C17_dtype_change_copies : forall i, i_dt i = DOther -> o_shares (m_tensor i) = false /\ o_shares (m_astensor i) = false.
Proof. exact dtype_change_copies. Qed.
Print Assumptions C17_dtype_change_copies.

Theorem C17_astensor_identity : forall i, i_kind i = STen -> i_dt i <> DOther ->
  (i_constant i = None \/ i_constant i = Some (i_const i)) -> o_same (m_astensor i) = true.
Proof. exact astensor_identity. Qed.
Print Assumptions C17_astensor_identity.

Theorem C17_astensor_flag_change : forall i, i_kind i = STen -> i_dt i <> DOther -> i_constant i = Some (negb (i_const i)) ->
  o_same (m_astensor i) = false /\ o_shares (m_astensor i) = true /\ o_detached (m_astensor i) = true.
Proof. exact astensor_flag_change. Qed.
Print Assumptions C17_astensor_flag_change.

Theorem C17_copy_detached : forall i, o_detached (m_copy i) = true /\ o_shares (m_copy i) = false /\ o_same (m_copy i) = false.
Proof. exact copy_detached. Qed.
Print Assumptions C17_copy_detached.

Theorem C17_astype_detached_or_self : forall i, o_same (m_astype i) = true \/ o_detached (m_astype i) = true.
Proof. exact astype_detached_or_self. Qed.
Print Assumptions C17_astype_detached_or_self.

Theorem C17_astype_default_copies : forall i, i_copy i = true -> o_same (m_astype i) = false /\ o_shares (m_astype i) = false.
Proof. exact astype_default_copies. Qed.
Print Assumptions C17_astype_default_copies.
