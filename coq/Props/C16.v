(* Property C16 -- sliding_window_view / conv / pool arithmetic: theorems only (proofs: Proofs/WindowP.v) *)
From Coq Require Import ZArith List Bool.
Import ListNotations.
From MG Require Import Model.Window Proofs.WindowP.
Open Scope Z_scope.

(* out[g.., n.., w..] = arr[n.., g*step + w*dilation], and the address is inside arr's buffer *)
Theorem C16_swv_element : forall lead xs Ws Ss Ds g n w,
  accepts_axes xs Ws Ss Ds = true ->
  valid (places xs Ws Ss Ds) g -> valid lead n -> valid Ws w ->
  let shape := lead ++ xs in
  let src := n ++ zadd (zmul g Ss) (zmul w Ds) in
  valid shape src
  /\ dotZ (g ++ n ++ w) (out_strides lead xs Ss Ds) = ravel shape src
  /\ 0 <= dotZ (g ++ n ++ w) (out_strides lead xs Ss Ds) < prodZ shape.
Proof. exact swv_element. Qed.
Print Assumptions C16_swv_element.

Theorem C16_out_index_decomposes : forall lead xs Ws Ss Ds idx,
  valid (out_shape lead xs Ws Ss Ds) idx ->
  exists g n w, idx = g ++ n ++ w /\ valid (places xs Ws Ss Ds) g /\ valid lead n /\ valid Ws w.
Proof. exact out_index_decomposes. Qed.
Print Assumptions C16_out_index_decomposes.

Theorem C16_ravel_injective : forall shape i j,
  valid shape i -> valid shape j -> ravel shape i = ravel shape j -> i = j.
Proof. exact ravel_inj. Qed.
Print Assumptions C16_ravel_injective.

Theorem C16_swv_spec : forall shape Ws Ss Ds,
  match swv shape Ws Ss Ds with
  | Some (osh, ostr) =>
      exists lead xs, shape = lead ++ xs /\ length xs = length Ws /\ accepts_axes xs Ws Ss Ds = true /\
        osh = out_shape lead xs Ws Ss Ds /\ ostr = out_strides lead xs Ss Ds
  | None => (length shape < length Ws)%nat \/
            accepts_axes (skipn (length shape - length Ws) shape) Ws Ss Ds = false
  end.
Proof. exact swv_spec. Qed.
Print Assumptions C16_swv_spec.

(* accepted exactly when window*dilation fits in the windowed axes (the rule its tests pin) *)
Theorem C16_accept_rule : forall xs Ws Ss Ds,
  accepts_axes xs Ws Ss Ds = true <->
  (length Ws = length xs /\ length Ss = length xs /\ length Ds = length xs /\
   forall i, (i < length xs)%nat ->
     let x := nth i xs 0 in let W := nth i Ws 0 in let S := nth i Ss 0 in let D := nth i Ds 0 in
     0 < W /\ 0 < S /\ 0 < D /\ W <= x /\ W * D <= x).
Proof. exact accepts_axes_spec. Qed.
Print Assumptions C16_accept_rule.

Theorem C16_placements_maximal : forall x W S D, accepts1 x W S D = true ->
  1 <= placements x W S D /\ x - 1 < (placements x W S D) * S + (W - 1) * D.
Proof. intros; split; [apply placements_pos | apply placements_maximal]; assumption. Qed.
Print Assumptions C16_placements_maximal.

(* conv_nd: accepted <-> the placements tile the padded data AND window*dilation fits  (partial) *)
Theorem C16_conv_accept_partial : forall x p W S D,
  conv_accepts1 x p W S D = true <->
  (0 < W /\ 0 < S /\ 0 < D /\ 0 <= p /\ tiles x p W S D /\ W * D <= x + 2 * p).
Proof. exact conv_accepts1_partial. Qed.
Print Assumptions C16_conv_accept_partial.

(* the full statement "accepted <-> tiles" is false of the faithful model: witness x=3,W=2,D=2,S=1,p=0 *)
Theorem C16_conv_accept_refuted :
  exists x p W S D, 0 < W /\ 0 < S /\ 0 < D /\ 0 <= p /\ tiles x p W S D /\ conv_accepts1 x p W S D = false.
Proof. exact conv_accept_iff_tiles_refuted. Qed.
Print Assumptions C16_conv_accept_refuted.

Theorem C16_gap_characterises : forall x p W S D,
  dilated_extent_gap x p W S D = true <->
  (0 < W /\ 0 < S /\ 0 < D /\ 0 <= p /\ tiles x p W S D /\ conv_accepts1 x p W S D = false).
Proof. exact gap_characterises. Qed.
Print Assumptions C16_gap_characterises.

Theorem C16_conv_placements_inside : forall x p W S D g w,
  conv_accepts1 x p W S D = true -> 0 <= g < placements (x + 2 * p) W S D -> 0 <= w < W ->
  0 <= g * S + w * D < x + 2 * p.
Proof. exact conv_placements_inside. Qed.
Print Assumptions C16_conv_placements_inside.

Theorem C16_pool_accept : forall x P S,
  pool_accepts1 x P S = true <-> (0 < P /\ 0 < S /\ tiles x 0 P S 1).
Proof. exact pool_accepts1_iff_tiles. Qed.
Print Assumptions C16_pool_accept.
