(* Property C06 -- a view's gradient is the corresponding view of its base's gradient.  Theorems only.
   "The corresponding view" of an array is the array read through the view's index map (Model/Families.v read); what is proved
   here is the memory semantics of that relation: it tracks every later write to the base's gradient (accumulation by other
   consumers), in whatever order the writes arrive, and two views see each other's writes exactly where their maps overlap. *)
From Coq Require Import ZArith List Arith Bool.
Import ListNotations.
From MG Require Import Base.EngCore Base.GatherScatter Model.OpsExact Model.Families Proofs.FamiliesP.

(* whichever contribution is written into the base's gradient later, the view's gradient (the gradient read through the view's map)
   reflects it: no copy can go stale *)
Theorem C06_view_of_grad_tracks_base_grad : forall gbuf pos vals vmap,
  length vals = length pos -> Forall (fun p => p < length gbuf) pos -> Forall (fun p => p < length gbuf) vmap ->
  forall j, j < length vmap ->
    nth j (read (write gbuf pos vals) vmap) 0%Z =
    match last_writer pos (nth j vmap 0) 0 None with Some i => nth i vals 0%Z | None => nth j (read gbuf vmap) 0%Z end.
Proof. intros gbuf pos vals vmap. exact (read_after_write gbuf pos vmap vals). Qed.
Print Assumptions C06_view_of_grad_tracks_base_grad.

(* gradients of members that share no position are independent *)
Theorem C06_disjoint_members_independent : forall gbuf m1 m2 vals, shares m1 m2 = false -> read (write gbuf m1 vals) m2 = read gbuf m2.
Proof. exact no_sharing_no_effect. Qed.
Print Assumptions C06_disjoint_members_independent.

(* a view operation is a gather; the gradient it sends to its parent is the scatter-add along the same map: for every direction dx
   <scatter_add 0 map g, dx> = <g, read dx map>  -- this is why the base's gradient accumulates exactly the contributions of all views *)
Theorem C06_view_vjp_is_scatter : forall n map g dx, Forall (fun i => i < n) map ->
  dot Z 0%Z Z.add Z.mul (scatter_add Z Z.add (repeat 0%Z n) map g) dx = dot Z 0%Z Z.add Z.mul g (read dx map).
Proof.
  intros n map g dx H. unfold read.
  exact (scatter0_adjoint Z 0%Z 1%Z Z.add Z.mul Z.sub Z.opp InitialRing.Zth n map g dx H).
Qed.
Print Assumptions C06_view_vjp_is_scatter.
