(* Property C14 -- seeding backward; shape of stored gradients.  Theorems only (proofs: Proofs/StaleP.v, Proofs/SeedP.v). *)
From Coq Require Import ZArith List Arith Bool.
Import ListNotations.
From MG Require Import Base.EngCore Base.EngOrder Model.OpsExact Model.GraphP Proofs.EngineP Proofs.ClearP Proofs.StaleP.

(* L.backward() seeds with ones *)
Theorem C14_default_seed_is_ones : forall st t,
  do_backward st t None = do_backward st t (Some (repeat 1%Z (length (nth t (g_vals st) [])))).
Proof. exact seed_none_is_ones. Qed.
Print Assumptions C14_default_seed_is_ones.

(* L.backward() and L.sum().backward(): same outcome (including InvalidBackprop) and the same gradient in EVERY tensor
   that existed before, at every state satisfying the invariant (hence every reachable state) *)
Theorem C14_backward_equals_sum_backward : forall st t,
  Inv st -> t < length (g_vals st) -> n_const st t = false ->
  let n := length (nth t (g_vals st) []) in
  let m := length (g_vals st) in
  let st1 := fst (do_app st None false (sumop n t)) in
  snd (do_app st None false (sumop n t)) = Ok /\
  snd (do_backward st1 m None) = snd (do_backward st t None) /\
  (forall k, k < m -> nth k (g_grad (fst (do_backward st1 m None))) None
                      = nth k (g_grad (fst (do_backward st t None))) None) /\
  nth m (g_grad (fst (do_backward st1 m None))) None = Some [1%Z].
Proof. exact backward_sum_equiv. Qed.
Print Assumptions C14_backward_equals_sum_backward.

(* L.backward(g) and (L*g).sum().backward() with g a constant of L's size *)
Theorem C14_seeded_backward_equals_weighted_sum : forall st t (g : zvec),
  Inv st -> t < length (g_vals st) -> n_const st t = false ->
  let n := length (nth t (g_vals st) []) in
  let m := length (g_vals st) in
  length g = n ->
  let stg := do_leaf st true g in
  let stm := fst (do_app stg None false (mulop n t m)) in
  let sts := fst (do_app stm None false (sumop n (S m))) in
  snd (do_app stg None false (mulop n t m)) = Ok /\
  snd (do_app stm None false (sumop n (S m))) = Ok /\
  snd (do_backward sts (S (S m)) None) = snd (do_backward st t (Some g)) /\
  (forall k, k < m -> nth k (g_grad (fst (do_backward sts (S (S m)) None))) None
                      = nth k (g_grad (fst (do_backward st t (Some g)))) None).
Proof. exact backward_seed_equiv. Qed.
Print Assumptions C14_seeded_backward_equals_weighted_sum.

From MG Require Import Model.Seed Proofs.SeedP.
(* a seed g is accepted exactly when it broadcasts INTO L's shape; one that would make L grow (mutual broadcasting) or
   does not broadcast at all is rejected *)
Theorem C14_seed_accept_spec : forall sL sg, seed_accept sL sg = true <-> broadcasts_into sg sL = true.
Proof. exact seed_accept_spec. Qed.
Print Assumptions C14_seed_accept_spec.

(* generic path of Operation.backward: reduce_broadcast brings a gradient back to exactly the shape of a variable that
   was broadcast by the operation, so every stored gradient has its tensor's shape (incl. 0-d: v = []) *)
Theorem C14_reduce_restores_shape : forall g v, broadcasts_into v g = true -> reduce_shape g v = Some v.
Proof. exact reduce_shape_restores. Qed.
Print Assumptions C14_reduce_restores_shape.
