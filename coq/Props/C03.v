(* Property C03 -- forward results agree with NumPy in value, shape and dtype: the dtype part that MyGrad decides itself
   (how a Python-scalar operand is presented to NumPy).  Gen/NumpyTables.v is regenerated from the installed NumPy on every
   run, so these statements are re-checked against NumPy's current type resolution each time. *)
From Coq Require Import List Arith Bool.
Import ListNotations.
From MG Require Import Model.Dtype Gen.NumpyTables Model.DtypeRules.

(* for EVERY registered binary ufunc, EVERY real dtype of the tensor operand and EVERY kind of Python scalar, in both operand
   orders: casting the scalar to np.result_type of the operands (what Tensor._op does) and letting NumPy resolve the two
   arrays gives exactly the dtype NumPy itself returns for (array, Python scalar) *)
Theorem C03_weak_scalar_parity :
  forall f d k, In f all_bufunc -> In d all_dt -> In k all_pyk -> parity_cell mg_cast f d k = true.
Proof.
  assert (H : parity_all mg_cast = true) by (vm_compute; reflexivity).
  intros f d k Hf Hd Hk. unfold parity_all in H.
  rewrite forallb_forall in H. specialize (H f Hf). rewrite forallb_forall in H. specialize (H d Hd).
  rewrite forallb_forall in H. exact (H k Hk).
Qed.
Print Assumptions C03_weak_scalar_parity.

Theorem C03_lattice_is_complete : (forall d : dt, In d all_dt) /\ (forall k : pyk, In k all_pyk).
Proof. split; [intros []|intros []]; simpl; tauto. Qed.
Print Assumptions C03_lattice_is_complete.

(* presenting the scalar as a strong 0-d array of its default dtype (the behaviour before the repair) does NOT agree:
   float32 * 2.0 becomes float64 *)
Theorem C03_strong_cast_refuted :
  parity_all mg_cast_strong = false /\
  mg_result_r mg_cast_strong U_multiply F32 PyFloat = Some F64 /\ np_result_r U_multiply F32 PyFloat = Some F32 /\
  mg_result_r mg_cast_strong U_add I8 PyInt = Some I64 /\ np_result_r U_add I8 PyInt = Some I8.
Proof. vm_compute. repeat split; reflexivity. Qed.
Print Assumptions C03_strong_cast_refuted.
