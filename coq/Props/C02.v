(* Property C02 -- each operation's backward pass is the exact VJP of its own forward pass.  Theorems only.
   (a) element-wise operations: Gen/VjpScalar.v is REGENERATED from /repo on every run (harness/vjp_translate.py symbolically executes every
       class' forward and backward_var); for each class and operand, the derivative of  g * forward  at every point of the differentiable
       domain IS what backward_var returns (Coquelicot is_derive; proofs: Proofs/VjpP1.v, Proofs/VjpP2.v), and the documented conventions
       at the non-differentiable points hold;
   (b) index / bilinear / piecewise-linear operations (sum, cumsum, getitem, reshape, transposes, joins, repeat, einsum, matmul, where,
       max/min selection, ...): every operation of the exact registry has an exact VJP over any commutative ring (proof: Proofs/OpsExactP.v);
       which registry entry a MyGrad call is, is established by the exact-integer correspondence of harness/c02.py. *)
From Coq Require Import Reals List ZArith.
Import ListNotations.
From Coquelicot Require Import Coquelicot.
From MG Require Import Model.RealOps Gen.VjpScalar Proofs.VjpP1 Proofs.VjpP2 Base.EngCore Model.OpsExact Proofs.OpsExactP Model.VecOps Proofs.VecP Proofs.VecP2 Proofs.VecP3 Proofs.VecP4.
Open Scope R_scope.

Theorem C02_Add_vjp_0 : forall g a b, is_derive (fun x => g * Add_fwd x b) a (Add_bwd_0 g a b).
Proof. exact Add_vjp_0. Qed.
Print Assumptions C02_Add_vjp_0.

Theorem C02_Add_vjp_1 : forall g a b, is_derive (fun y => g * Add_fwd a y) b (Add_bwd_1 g a b).
Proof. exact Add_vjp_1. Qed.
Print Assumptions C02_Add_vjp_1.

Theorem C02_Subtract_vjp_0 : forall g a b, is_derive (fun x => g * Subtract_fwd x b) a (Subtract_bwd_0 g a b).
Proof. exact Subtract_vjp_0. Qed.
Print Assumptions C02_Subtract_vjp_0.

Theorem C02_Subtract_vjp_1 : forall g a b, is_derive (fun y => g * Subtract_fwd a y) b (Subtract_bwd_1 g a b).
Proof. exact Subtract_vjp_1. Qed.
Print Assumptions C02_Subtract_vjp_1.

Theorem C02_Multiply_vjp_0 : forall g a b, is_derive (fun x => g * Multiply_fwd x b) a (Multiply_bwd_0 g a b).
Proof. exact Multiply_vjp_0. Qed.
Print Assumptions C02_Multiply_vjp_0.

Theorem C02_Multiply_vjp_1 : forall g a b, is_derive (fun y => g * Multiply_fwd a y) b (Multiply_bwd_1 g a b).
Proof. exact Multiply_vjp_1. Qed.
Print Assumptions C02_Multiply_vjp_1.

Theorem C02_Divide_vjp_0 : forall g a b, b <> 0 -> is_derive (fun x => g * Divide_fwd x b) a (Divide_bwd_0 g a b).
Proof. exact Divide_vjp_0. Qed.
Print Assumptions C02_Divide_vjp_0.

Theorem C02_Divide_vjp_1 : forall g a b, b <> 0 -> is_derive (fun y => g * Divide_fwd a y) b (Divide_bwd_1 g a b).
Proof. exact Divide_vjp_1. Qed.
Print Assumptions C02_Divide_vjp_1.

Theorem C02_Reciprocal_vjp_0 : forall g a, a <> 0 -> is_derive (fun x => g * Reciprocal_fwd x) a (Reciprocal_bwd_0 g a).
Proof. exact Reciprocal_vjp_0. Qed.
Print Assumptions C02_Reciprocal_vjp_0.

Theorem C02_Square_vjp_0 : forall g a, is_derive (fun x => g * Square_fwd x) a (Square_bwd_0 g a).
Proof. exact Square_vjp_0. Qed.
Print Assumptions C02_Square_vjp_0.

Theorem C02_Positive_vjp_0 : forall g a, is_derive (fun x => g * Positive_fwd x) a (Positive_bwd_0 g a).
Proof. exact Positive_vjp_0. Qed.
Print Assumptions C02_Positive_vjp_0.

Theorem C02_Negative_vjp_0 : forall g a, is_derive (fun x => g * Negative_fwd x) a (Negative_bwd_0 g a).
Proof. exact Negative_vjp_0. Qed.
Print Assumptions C02_Negative_vjp_0.

Theorem C02_Exp_vjp_0 : forall g a, is_derive (fun x => g * Exp_fwd x) a (Exp_bwd_0 g a).
Proof. exact Exp_vjp_0. Qed.
Print Assumptions C02_Exp_vjp_0.

Theorem C02_Exp2_vjp_0 : forall g a, is_derive (fun x => g * Exp2_fwd x) a (Exp2_bwd_0 g a).
Proof. exact Exp2_vjp_0. Qed.
Print Assumptions C02_Exp2_vjp_0.

Theorem C02_Expm1_vjp_0 : forall g a, is_derive (fun x => g * Expm1_fwd x) a (Expm1_bwd_0 g a).
Proof. exact Expm1_vjp_0. Qed.
Print Assumptions C02_Expm1_vjp_0.

Theorem C02_Logaddexp_vjp_0 : forall g a b, is_derive (fun x => g * Logaddexp_fwd x b) a (Logaddexp_bwd_0 g a b).
Proof. exact Logaddexp_vjp_0. Qed.
Print Assumptions C02_Logaddexp_vjp_0.

Theorem C02_Logaddexp_vjp_1 : forall g a b, is_derive (fun y => g * Logaddexp_fwd a y) b (Logaddexp_bwd_1 g a b).
Proof. exact Logaddexp_vjp_1. Qed.
Print Assumptions C02_Logaddexp_vjp_1.

Theorem C02_Logaddexp2_vjp_0 : forall g a b, is_derive (fun x => g * Logaddexp2_fwd x b) a (Logaddexp2_bwd_0 g a b).
Proof. exact Logaddexp2_vjp_0. Qed.
Print Assumptions C02_Logaddexp2_vjp_0.

Theorem C02_Logaddexp2_vjp_1 : forall g a b, is_derive (fun y => g * Logaddexp2_fwd a y) b (Logaddexp2_bwd_1 g a b).
Proof. exact Logaddexp2_vjp_1. Qed.
Print Assumptions C02_Logaddexp2_vjp_1.

Theorem C02_Log_vjp_0 : forall g a, 0 < a -> is_derive (fun x => g * Log_fwd x) a (Log_bwd_0 g a).
Proof. exact Log_vjp_0. Qed.
Print Assumptions C02_Log_vjp_0.

Theorem C02_Log2_vjp_0 : forall g a, 0 < a -> is_derive (fun x => g * Log2_fwd x) a (Log2_bwd_0 g a).
Proof. exact Log2_vjp_0. Qed.
Print Assumptions C02_Log2_vjp_0.

Theorem C02_Log10_vjp_0 : forall g a, 0 < a -> is_derive (fun x => g * Log10_fwd x) a (Log10_bwd_0 g a).
Proof. exact Log10_vjp_0. Qed.
Print Assumptions C02_Log10_vjp_0.

Theorem C02_Log1p_vjp_0 : forall g a, -1 < a -> is_derive (fun x => g * Log1p_fwd x) a (Log1p_bwd_0 g a).
Proof. exact Log1p_vjp_0. Qed.
Print Assumptions C02_Log1p_vjp_0.

Theorem C02_Sin_vjp_0 : forall g a, is_derive (fun x => g * Sin_fwd x) a (Sin_bwd_0 g a).
Proof. exact Sin_vjp_0. Qed.
Print Assumptions C02_Sin_vjp_0.

Theorem C02_Cos_vjp_0 : forall g a, is_derive (fun x => g * Cos_fwd x) a (Cos_bwd_0 g a).
Proof. exact Cos_vjp_0. Qed.
Print Assumptions C02_Cos_vjp_0.

Theorem C02_Tan_vjp_0 : forall g a, cos a <> 0 -> is_derive (fun x => g * Tan_fwd x) a (Tan_bwd_0 g a).
Proof. exact Tan_vjp_0. Qed.
Print Assumptions C02_Tan_vjp_0.

Theorem C02_Csc_vjp_0 : forall g a, sin a <> 0 -> is_derive (fun x => g * Csc_fwd x) a (Csc_bwd_0 g a).
Proof. exact Csc_vjp_0. Qed.
Print Assumptions C02_Csc_vjp_0.

Theorem C02_Sec_vjp_0 : forall g a, cos a <> 0 -> is_derive (fun x => g * Sec_fwd x) a (Sec_bwd_0 g a).
Proof. exact Sec_vjp_0. Qed.
Print Assumptions C02_Sec_vjp_0.

Theorem C02_Cot_vjp_0 : forall g a, sin a <> 0 -> cos a <> 0 -> is_derive (fun x => g * Cot_fwd x) a (Cot_bwd_0 g a).
Proof. exact Cot_vjp_0. Qed.
Print Assumptions C02_Cot_vjp_0.

Theorem C02_Sinh_vjp_0 : forall g a, is_derive (fun x => g * Sinh_fwd x) a (Sinh_bwd_0 g a).
Proof. exact Sinh_vjp_0. Qed.
Print Assumptions C02_Sinh_vjp_0.

Theorem C02_Cosh_vjp_0 : forall g a, is_derive (fun x => g * Cosh_fwd x) a (Cosh_bwd_0 g a).
Proof. exact Cosh_vjp_0. Qed.
Print Assumptions C02_Cosh_vjp_0.

Theorem C02_Tanh_vjp_0 : forall g a, is_derive (fun x => g * Tanh_fwd x) a (Tanh_bwd_0 g a).
Proof. exact Tanh_vjp_0. Qed.
Print Assumptions C02_Tanh_vjp_0.

Theorem C02_Csch_vjp_0 : forall g a, a <> 0 -> is_derive (fun x => g * Csch_fwd x) a (Csch_bwd_0 g a).
Proof. exact Csch_vjp_0. Qed.
Print Assumptions C02_Csch_vjp_0.

Theorem C02_Sech_vjp_0 : forall g a, is_derive (fun x => g * Sech_fwd x) a (Sech_bwd_0 g a).
Proof. exact Sech_vjp_0. Qed.
Print Assumptions C02_Sech_vjp_0.

Theorem C02_Coth_vjp_0 : forall g a, a <> 0 -> is_derive (fun x => g * Coth_fwd x) a (Coth_bwd_0 g a).
Proof. exact Coth_vjp_0. Qed.
Print Assumptions C02_Coth_vjp_0.

Theorem C02_Sigmoid_vjp_0 : forall g a, is_derive (fun x => g * Sigmoid_fwd x) a (Sigmoid_bwd_0 g a).
Proof. exact Sigmoid_vjp_0. Qed.
Print Assumptions C02_Sigmoid_vjp_0.

Theorem C02_ELU_vjp_0 : forall g alpha x, x <> 0 -> is_derive (fun t => g * ELU_fwd alpha t) x (ELU_bwd_0 g alpha x).
Proof. exact ELU_vjp_0. Qed.
Print Assumptions C02_ELU_vjp_0.

Theorem C02_SELU_vjp_0 : forall g x, x <> 0 -> is_derive (fun t => g * SELU_fwd t) x (SELU_bwd_0 g x).
Proof. exact SELU_vjp_0. Qed.
Print Assumptions C02_SELU_vjp_0.

Theorem C02_ReLu_vjp_0 : forall g a, a <> 0 -> is_derive (fun x => g * ReLu_fwd x) a (ReLu_bwd_0 g a).
Proof. exact ReLu_vjp_0. Qed.
Print Assumptions C02_ReLu_vjp_0.

Theorem C02_Abs_vjp_0 : forall g a, a <> 0 -> is_derive (fun x => g * Abs_fwd x) a (Abs_bwd_0 g a).
Proof. exact Abs_vjp_0. Qed.
Print Assumptions C02_Abs_vjp_0.

Theorem C02_Abs_conv_0 : forall g, Abs_bwd_0 g 0 = 0.
Proof. exact Abs_conv_0. Qed.
Print Assumptions C02_Abs_conv_0.

Theorem C02_Sqrt_vjp_0 : forall g a, 0 < a -> is_derive (fun x => g * Sqrt_fwd x) a (Sqrt_bwd_0 g a).
Proof. exact Sqrt_vjp_0. Qed.
Print Assumptions C02_Sqrt_vjp_0.

Theorem C02_Arcsin_vjp_0 : forall g a : R, -1 < a -> a < 1 -> is_derive (fun x => g * Arcsin_fwd x) a (Arcsin_bwd_0 g a).
Proof. exact Arcsin_vjp_0. Qed.
Print Assumptions C02_Arcsin_vjp_0.

Theorem C02_Arccos_vjp_0 : forall g a : R, -1 < a -> a < 1 -> is_derive (fun x => g * Arccos_fwd x) a (Arccos_bwd_0 g a).
Proof. exact Arccos_vjp_0. Qed.
Print Assumptions C02_Arccos_vjp_0.

Theorem C02_Arctan_vjp_0 : forall g a : R, is_derive (fun x => g * Arctan_fwd x) a (Arctan_bwd_0 g a).
Proof. exact Arctan_vjp_0. Qed.
Print Assumptions C02_Arctan_vjp_0.

Theorem C02_Arcsinh_vjp_0 : forall g a : R, is_derive (fun x => g * Arcsinh_fwd x) a (Arcsinh_bwd_0 g a).
Proof. exact Arcsinh_vjp_0. Qed.
Print Assumptions C02_Arcsinh_vjp_0.

Theorem C02_Arccosh_vjp_0 : forall g a : R, 1 < a -> is_derive (fun x => g * Arccosh_fwd x) a (Arccosh_bwd_0 g a).
Proof. exact Arccosh_vjp_0. Qed.
Print Assumptions C02_Arccosh_vjp_0.

Theorem C02_Arctanh_vjp_0 : forall g a : R, -1 < a -> a < 1 -> is_derive (fun x => g * Arctanh_fwd x) a (Arctanh_bwd_0 g a).
Proof. exact Arctanh_vjp_0. Qed.
Print Assumptions C02_Arctanh_vjp_0.

Theorem C02_Power_vjp_1 : forall g a b : R, 0 < a -> is_derive (fun y => g * Power_fwd a y) b (Power_bwd_1 g a b).
Proof. exact Power_vjp_1. Qed.
Print Assumptions C02_Power_vjp_1.

Theorem C02_Arccot_vjp_0 : forall g a : R, a <> 0 -> is_derive (fun x => g * Arccot_fwd x) a (Arccot_bwd_0 g a).
Proof. exact Arccot_vjp_0. Qed.
Print Assumptions C02_Arccot_vjp_0.

Theorem C02_Sinc_vjp_0 : forall g a : R, a <> 0 -> is_derive (fun x => g * Sinc_fwd x) a (Sinc_bwd_0 g a).
Proof. exact Sinc_vjp_0. Qed.
Print Assumptions C02_Sinc_vjp_0.

Theorem C02_Power_vjp_0 : forall g a b : R, 0 < a -> is_derive (fun x => g * Power_fwd x b) a (Power_bwd_0 g a b).
Proof. exact Power_vjp_0. Qed.
Print Assumptions C02_Power_vjp_0.

Theorem C02_Cbrt_vjp_0 : forall g a : R, a <> 0 -> is_derive (fun x => g * Cbrt_fwd x) a (Cbrt_bwd_0 g a).
Proof. exact Cbrt_vjp_0. Qed.
Print Assumptions C02_Cbrt_vjp_0.

Theorem C02_Arccsc_vjp_0 : forall g a : R, 1 < Rabs a -> is_derive (fun x => g * Arccsc_fwd x) a (Arccsc_bwd_0 g a).
Proof. exact Arccsc_vjp_0. Qed.
Print Assumptions C02_Arccsc_vjp_0.

Theorem C02_Arcsec_vjp_0 : forall g a : R, 1 < Rabs a -> is_derive (fun x => g * Arcsec_fwd x) a (Arcsec_bwd_0 g a).
Proof. exact Arcsec_vjp_0. Qed.
Print Assumptions C02_Arcsec_vjp_0.

Theorem C02_Arccsch_vjp_0 : forall g a : R, a <> 0 -> is_derive (fun x => g * Arccsch_fwd x) a (Arccsch_bwd_0 g a).
Proof. exact Arccsch_vjp_0. Qed.
Print Assumptions C02_Arccsch_vjp_0.

Theorem C02_Arccoth_vjp_0 : forall g a : R, 1 < Rabs a -> is_derive (fun x => g * Arccoth_fwd x) a (Arccoth_bwd_0 g a).
Proof. exact Arccoth_vjp_0. Qed.
Print Assumptions C02_Arccoth_vjp_0.

Theorem C02_Arctan2_vjp_0 : forall g a b : R, (0 < b \/ a <> 0) -> is_derive (fun x => g * Arctan2_fwd x b) a (Arctan2_bwd_0 g a b).
Proof. exact Arctan2_vjp_0. Qed.
Print Assumptions C02_Arctan2_vjp_0.

Theorem C02_Arctan2_vjp_1 : forall g a b : R, (0 < b \/ a <> 0) -> is_derive (fun y => g * Arctan2_fwd a y) b (Arctan2_bwd_1 g a b).
Proof. exact Arctan2_vjp_1. Qed.
Print Assumptions C02_Arctan2_vjp_1.

Theorem C02_Arcsin_conv_1 : forall g : R, Arcsin_bwd_0 g 1 = 0.
Proof. exact Arcsin_conv_1. Qed.
Print Assumptions C02_Arcsin_conv_1.

Theorem C02_Arcsin_conv_m1 : forall g : R, Arcsin_bwd_0 g (-1) = 0.
Proof. exact Arcsin_conv_m1. Qed.
Print Assumptions C02_Arcsin_conv_m1.

Theorem C02_Arccos_conv_1 : forall g : R, Arccos_bwd_0 g 1 = 0.
Proof. exact Arccos_conv_1. Qed.
Print Assumptions C02_Arccos_conv_1.

Theorem C02_Arccos_conv_m1 : forall g : R, Arccos_bwd_0 g (-1) = 0.
Proof. exact Arccos_conv_m1. Qed.
Print Assumptions C02_Arccos_conv_m1.

Theorem C02_Arccsc_conv_1 : forall g : R, Arccsc_bwd_0 g 1 = 0.
Proof. exact Arccsc_conv_1. Qed.
Print Assumptions C02_Arccsc_conv_1.

Theorem C02_Arccsc_conv_m1 : forall g : R, Arccsc_bwd_0 g (-1) = 0.
Proof. exact Arccsc_conv_m1. Qed.
Print Assumptions C02_Arccsc_conv_m1.

Theorem C02_Arcsec_conv_1 : forall g : R, Arcsec_bwd_0 g 1 = 0.
Proof. exact Arcsec_conv_1. Qed.
Print Assumptions C02_Arcsec_conv_1.

Theorem C02_Arcsec_conv_m1 : forall g : R, Arcsec_bwd_0 g (-1) = 0.
Proof. exact Arcsec_conv_m1. Qed.
Print Assumptions C02_Arcsec_conv_m1.

Theorem C02_Sinc_conv_0 : forall g : R, Sinc_bwd_0 g 0 = 0.
Proof. exact Sinc_conv_0. Qed.
Print Assumptions C02_Sinc_conv_0.

(* (c) lane reductions and the softmax family (Model/VecOps.v: hand-written from the source, tied by harness/c02.py lane by lane): for a lane of ANY length
   and every position, the derivative of <g, f> w.r.t. element i is what backward_var sends to element i; Prod needs no hypothesis about zeros *)
Theorem C02_lane_sum_vjp : forall g l i, (i < length l)%nat -> is_derive (fun t => g * vsum (upd l i t)) (nth i l 0) (sum_bwd g l i).
Proof. exact sum_vjp. Qed.
Print Assumptions C02_lane_sum_vjp.

Theorem C02_lane_mean_vjp : forall g l i, (i < length l)%nat -> is_derive (fun t => g * vmean (upd l i t)) (nth i l 0) (mean_bwd g l i).
Proof. exact mean_vjp. Qed.
Print Assumptions C02_lane_mean_vjp.

Theorem C02_lane_var_vjp : forall ddof g l i, (i < length l)%nat -> vlen l - ddof <> 0 -> is_derive (fun t => g * vvar ddof (upd l i t)) (nth i l 0) (var_bwd ddof g l i).
Proof. exact var_vjp. Qed.
Print Assumptions C02_lane_var_vjp.

Theorem C02_lane_std_vjp : forall ddof g l i, (i < length l)%nat -> vlen l - ddof <> 0 -> 0 < vvar ddof l -> is_derive (fun t => g * vstd ddof (upd l i t)) (nth i l 0) (std_bwd ddof g l i).
Proof. exact std_vjp. Qed.
Print Assumptions C02_lane_std_vjp.

Theorem C02_lane_prod_vjp : forall g l i, (i < length l)%nat -> is_derive (fun t => g * vprod (upd l i t)) (nth i l 0) (prod_bwd g l i).
Proof. exact prod_vjp. Qed.
Print Assumptions C02_lane_prod_vjp.

Theorem C02_lane_softmax_vjp : forall g l i, (i < length l)%nat -> length g = length l -> is_derive (fun t => dot g (vsoftmax (upd l i t))) (nth i l 0) (softmax_bwd g l i).
Proof. exact softmax_vjp. Qed.
Print Assumptions C02_lane_softmax_vjp.

Theorem C02_lane_logsoftmax_vjp : forall g l i, (i < length l)%nat -> length g = length l -> is_derive (fun t => dot g (vlogsoftmax (upd l i t))) (nth i l 0) (logsoftmax_bwd g l i).
Proof. exact logsoftmax_vjp. Qed.
Print Assumptions C02_lane_logsoftmax_vjp.

Theorem C02_lane_xent_vjp : forall g c y l i, (i < length l)%nat -> (y < length l)%nat -> is_derive (fun t => g * vxent c y (upd l i t)) (nth i l 0) (xent_bwd g c y l i).
Proof. exact xent_vjp. Qed.
Print Assumptions C02_lane_xent_vjp.

(* batch normalisation of one channel (w.r.t. x, gamma and beta) and vector p-norms (ord 1, 2 and any real p <> 0) of one lane *)
Theorem C02_lane_bn_x_vjp : forall g gamma beta eps l i, (i < length l)%nat -> length g = length l -> 0 < eps -> is_derive (fun t => dot g (vbatchnorm gamma beta eps (upd l i t))) (nth i l 0) (bn_x_bwd g gamma eps l i).
Proof. exact bn_x_vjp. Qed.
Print Assumptions C02_lane_bn_x_vjp.

Theorem C02_lane_bn_gamma_vjp : forall g gamma beta eps l, length g = length l -> is_derive (fun t => dot g (vbatchnorm t beta eps l)) gamma (bn_gamma_bwd g eps l).
Proof. exact bn_gamma_vjp. Qed.
Print Assumptions C02_lane_bn_gamma_vjp.

Theorem C02_lane_bn_beta_vjp : forall g gamma beta eps l, length g = length l -> is_derive (fun t => dot g (vbatchnorm gamma t eps l)) beta (bn_beta_bwd g).
Proof. exact bn_beta_vjp. Qed.
Print Assumptions C02_lane_bn_beta_vjp.

Theorem C02_lane_norm1_vjp : forall g l i, (i < length l)%nat -> nth i l 0 <> 0 -> is_derive (fun t => g * vnorm1 (upd l i t)) (nth i l 0) (norm1_bwd g l i).
Proof. exact norm1_vjp. Qed.
Print Assumptions C02_lane_norm1_vjp.

Theorem C02_lane_norm2_vjp : forall g l i, (i < length l)%nat -> 0 < vnorm2 l -> is_derive (fun t => g * vnorm2 (upd l i t)) (nth i l 0) (norm2_bwd g l i).
Proof. exact norm2_vjp. Qed.
Print Assumptions C02_lane_norm2_vjp.

Theorem C02_lane_normp_vjp : forall p g l i, (i < length l)%nat -> p <> 0 -> nth i l 0 <> 0 -> is_derive (fun t => g * vnormp p (upd l i t)) (nth i l 0) (normp_bwd p g l i).
Proof. exact normp_vjp. Qed.
Print Assumptions C02_lane_normp_vjp.

(* losses: multiclass hinge (away from the kinks), margin ranking, focal loss (0 < p < 1, any alpha and gamma) *)
Theorem C02_loss_hinge_vjp : forall g c h y l i, (i < length l)%nat -> (y < length l)%nat -> (forall j, (j < length l)%nat -> j <> y -> nth j l 0 - nth y l 0 + h <> 0) -> is_derive (fun t => g * vhinge c h y (upd l i t)) (nth i l 0) (hinge_bwd g c h y l i).
Proof. exact hinge_vjp. Qed.
Print Assumptions C02_loss_hinge_vjp.

Theorem C02_loss_margin_a_vjp : forall g c m y a b, m - y * (a - b) <> 0 -> is_derive (fun t => g * vmargin c m y t b) a (margin_bwd_a g c m y a b).
Proof. exact margin_a_vjp. Qed.
Print Assumptions C02_loss_margin_a_vjp.

Theorem C02_loss_margin_b_vjp : forall g c m y a b, m - y * (a - b) <> 0 -> is_derive (fun t => g * vmargin c m y a t) b (margin_bwd_b g c m y a b).
Proof. exact margin_b_vjp. Qed.
Print Assumptions C02_loss_margin_b_vjp.

Theorem C02_loss_focal_vjp : forall g alpha gamma p, 0 < p -> p < 1 -> is_derive (fun t => g * vfocal alpha gamma t) p (focal_bwd g alpha gamma p).
Proof. exact focal_vjp. Qed.
Print Assumptions C02_loss_focal_vjp.

(* cumulative product of one lane, at every position whose element is non-zero (the zero-patching branches are checked numerically) *)
Theorem C02_lane_cumprod_vjp : forall g l i, (i < length l)%nat -> length g = length l -> nth i l 0 <> 0 -> is_derive (fun t => dot g (vcumprod (upd l i t))) (nth i l 0) (cumprod_bwd g l i).
Proof. exact cumprod_vjp. Qed.
Print Assumptions C02_lane_cumprod_vjp.

(* structural operations: the registry theorem (shared with C01) *)
Theorem C02_registry_ops_exact :
  forall (A : Type) (a0 a1 : A) (add mul sub : A -> A -> A) (opp : A -> A),
  ring_theory a0 a1 add mul sub opp (@eq A) ->
  forall o : lop A, lop_wf A o = true -> op_ok A a0 add mul (to_op A a0 add mul o).
Proof. exact lop_ok. Qed.
Print Assumptions C02_registry_ops_exact.
