From Coq Require Import List Arith Lia Ring Bool.
Import ListNotations.

Section Engine.
Variable A : Type.
Variables (a0 a1 : A) (add mul sub : A -> A -> A) (opp : A -> A).
Hypothesis Rth : ring_theory a0 a1 add mul sub opp (@eq A).
Add Ring Aring : Rth.
Infix "+!" := add (at level 50, left associativity). Infix "*!" := mul (at level 40, left associativity).
Definition vec := list A.

Fixpoint dot (u v : vec) : A :=
  match u, v with x :: u', y :: v' => x *! y +! dot u' v' | _, _ => a0 end.
Fixpoint vadd (u v : vec) : vec :=
  match u, v with
  | [], _ => v | _, [] => u
  | x :: u', y :: v' => (x +! y) :: vadd u' v' end.

Lemma dot_nil_r u : dot u [] = a0. Proof. destruct u; reflexivity. Qed.
Lemma dot_vadd_l u v d : dot (vadd u v) d = dot u d +! dot v d.
Proof.
  revert v d; induction u as [|x u IH]; intros v d; simpl.
  - ring.
  - destruct v as [|y v]; simpl.
    + destruct d; simpl; ring.
    + destruct d as [|e d]; simpl; [ring|]. rewrite IH. ring.
Qed.
Lemma dot_vadd_r g u v : dot g (vadd u v) = dot g u +! dot g v.
Proof.
  revert u v; induction g as [|x g IH]; intros u v; simpl; [ring|].
  destruct u as [|a u]; destruct v as [|b v]; simpl; try ring.
  rewrite IH. ring.
Qed.

Record op := { ins : list nat; jvp : nat -> vec -> vec; vjp : nat -> vec -> vec }.
Definition op_ok (o : op) := forall p g dx, dot (vjp o p g) dx = dot g (jvp o p dx).
Inductive node := Leaf (c : bool) | App (c : bool) (o : op).
Definition nconst (n : node) := match n with Leaf c => c | App c _ => c end.
Definition prog := list node.

(* forward-mode tangents, built left to right *)
Fixpoint jsum (o : op) (p : nat) (is : list nat) (tans : list vec) : vec :=
  match is with
  | [] => []
  | i :: is' => vadd (jvp o p (nth i tans [])) (jsum o (S p) is' tans)
  end.
Definition tan_node (delta : nat -> vec) (tans : list vec) (n : node) : vec :=
  match n with
  | Leaf c => if c then [] else delta (length tans)
  | App c o => if c then [] else jsum o 0 (ins o) tans
  end.
Definition tangents (delta : nat -> vec) (P : prog) : list vec :=
  fold_left (fun tans n => tans ++ [tan_node delta tans n]) P [].

(* reverse sweep in decreasing index order *)
Fixpoint upd (l : list vec) (i : nat) (v : vec) : list vec :=
  match l, i with
  | [], _ => []
  | x :: t, O => vadd x v :: t
  | x :: t, S i' => x :: upd t i' v
  end.
Fixpoint push (P : prog) (o : op) (p : nat) (is : list nat) (g : vec) (G : list vec) : list vec :=
  match is with
  | [] => G
  | i :: is' =>
      let G' := if nconst (nth i P (Leaf true)) then G else upd G i (vjp o p g) in
      push P o (S p) is' g G'
  end.
Definition step (P : prog) (k : nat) (G : list vec) : list vec :=
  match nth k P (Leaf true) with
  | App false o => push P o 0 (ins o) (nth k G []) G
  | _ => G
  end.
Fixpoint sweep (P : prog) (k : nat) (G : list vec) : list vec :=   (* processes k-1, ..., 0 *)
  match k with O => G | S k' => sweep P k' (step P k' G) end.

(* weighted sum  Σ_{j<k} dot G_j T_j *)
Fixpoint pair_sum (G T : list vec) : A :=
  match G, T with g :: G', t :: T' => dot g t +! pair_sum G' T' | _, _ => a0 end.

Lemma pair_sum_upd G T i v : i < length G -> length G = length T ->
  pair_sum (upd G i v) T = pair_sum G T +! dot v (nth i T []).
Proof.
  revert T i; induction G as [|g G IH]; intros T i Hi Hl; destruct T as [|t T]; simpl in *; try lia.
  destruct i as [|i]; simpl.
  - rewrite dot_vadd_l. ring.
  - rewrite IH by lia. ring.
Qed.
Lemma length_upd G i v : length (upd G i v) = length G.
Proof. revert i; induction G as [|g G IH]; intros [|i]; simpl; auto. Qed.


(* ---------- characterisation of tangents ---------- *)
Definition tstep (delta : nat -> vec) (tans : list vec) (n : node) := tans ++ [tan_node delta tans n].

Lemma tangents_app delta P Q acc :
  fold_left (tstep delta) (P ++ Q) acc = fold_left (tstep delta) Q (fold_left (tstep delta) P acc).
Proof. apply fold_left_app. Qed.

Lemma fold_tstep_length delta P acc : length (fold_left (tstep delta) P acc) = length acc + length P.
Proof.
  revert acc; induction P as [|n P IH]; intros acc; simpl; [lia|].
  rewrite IH. unfold tstep. rewrite app_length. simpl. lia.
Qed.

Lemma fold_tstep_prefix delta P acc : exists rest, fold_left (tstep delta) P acc = acc ++ rest.
Proof.
  revert acc; induction P as [|n P IH]; intros acc; simpl.
  - exists []. now rewrite app_nil_r.
  - destruct (IH (tstep delta acc n)) as [r Hr]. rewrite Hr. unfold tstep.
    exists ([tan_node delta acc n] ++ r). now rewrite <- app_assoc.
Qed.

Lemma tangents_length delta P : length (tangents delta P) = length P.
Proof. unfold tangents. fold (tstep delta). rewrite fold_tstep_length. reflexivity. Qed.

(* T_k = tan_node delta (firstn k T) (nth k P) *)
Lemma tangents_nth delta P k n :
  nth_error P k = Some n ->
  nth k (tangents delta P) [] = tan_node delta (firstn k (tangents delta P)) n.
Proof.
  intros Hk.
  destruct (nth_error_split P k Hk) as (P1 & P2 & HP & Hlen). subst P.
  unfold tangents. fold (tstep delta).
  rewrite tangents_app. simpl.
  set (T1 := fold_left (tstep delta) P1 []).
  assert (HT1 : length T1 = k) by (unfold T1; rewrite fold_tstep_length; simpl; lia).
  destruct (fold_tstep_prefix delta P2 (tstep delta T1 n)) as [r Hr]. rewrite Hr.
  unfold tstep. rewrite <- app_assoc. simpl.
  rewrite app_nth2 by lia. rewrite HT1, Nat.sub_diag. simpl.
  rewrite firstn_app. rewrite HT1, Nat.sub_diag. simpl. rewrite app_nil_r.
  rewrite <- HT1. rewrite firstn_all. reflexivity.
Qed.


(* ---------- the sweep invariant ---------- *)
Fixpoint wsum (f : nat -> bool) (n0 : nat) (G T : list vec) : A :=
  match G, T with
  | g :: G', t :: T' => (if f n0 then dot g t else a0) +! wsum f (S n0) G' T'
  | _, _ => a0
  end.

Lemma wsum_upd f n0 G T i v : i < length G -> length G = length T ->
  wsum f n0 (upd G i v) T = wsum f n0 G T +! (if f (n0 + i)%nat then dot v (nth i T []) else a0).
Proof.
  revert n0 T i; induction G as [|g G IH]; intros n0 T i Hi Hl; destruct T as [|t T]; simpl in *; try lia.
  destruct i as [|i]; simpl.
  - rewrite Nat.add_0_r. destruct (f n0); [rewrite dot_vadd_l|]; ring.
  - rewrite IH by lia. replace (S n0 + i)%nat with (n0 + S i)%nat by lia. ring.
Qed.

Lemma wsum_ext f f' n0 G T :
  (forall j, (n0 <= j < n0 + length G)%nat -> f j = f' j) -> wsum f n0 G T = wsum f' n0 G T.
Proof.
  revert n0 T; induction G as [|g G IH]; intros n0 T H; destruct T as [|t T]; simpl in *; try reflexivity.
  rewrite (H n0) by lia. rewrite (IH (S n0)); [reflexivity|]. intros j Hj. apply H. lia.
Qed.

(* switching the weight of a single index k off *)
Lemma wsum_flip f f' n0 G T k :
  (n0 <= k < n0 + length G)%nat -> length G = length T ->
  f k = true -> f' k = false -> (forall j, j <> k -> f j = f' j) ->
  wsum f n0 G T = wsum f' n0 G T +! dot (nth (k - n0) G []) (nth (k - n0) T []).
Proof.
  revert n0 T; induction G as [|g G IH]; intros n0 T Hk Hl Ht Hf Hne; destruct T as [|t T]; simpl in *; try lia.
  destruct (Nat.eq_dec k n0) as [->|Hn].
  - rewrite Nat.sub_diag. rewrite Ht, Hf. simpl.
    rewrite (wsum_ext f f' (S n0) G T); [ring|]. intros j Hj. apply Hne. lia.
  - rewrite (Hne n0) by lia. rewrite (IH (S n0)) by (try lia; assumption).
    replace (k - n0)%nat with (S (k - S n0)) by lia. simpl. ring.
Qed.

Definition is_free_leaf (n : node) : bool := match n with Leaf false => true | _ => false end.
Definition weight (P : prog) (k j : nat) : bool := (j <? k) || is_free_leaf (nth j P (Leaf true)).
Definition Phi (P : prog) (k : nat) (G T : list vec) : A := wsum (weight P k) 0 G T.

Definition wf (P : prog) := forall k c o, nth_error P k = Some (App c o) -> Forall (fun i => i < k) (ins o).
Definition ops_ok (P : prog) := forall k c o, nth_error P k = Some (App c o) -> op_ok o.

Section Fixed.
Variable delta : nat -> vec.
Variable P : prog.
Hypothesis Hwf : wf P.
Hypothesis Hok : ops_ok P.
Let T := tangents delta P.

Lemma T_const i : nconst (nth i P (Leaf true)) = true -> nth i T [] = [].
Proof.
  intros Hc. destruct (nth_error P i) as [n|] eqn:E.
  - unfold T. rewrite (tangents_nth delta P i n E).
    rewrite (nth_error_nth P i (Leaf true) E) in Hc.
    destruct n as [c|c o]; simpl in *; rewrite Hc; reflexivity.
  - apply nth_overflow. unfold T. rewrite tangents_length. now apply nth_error_None.
Qed.

Lemma push_Phi o (Hop : op_ok o) k g : forall is p G,
  Forall (fun i => i < k) is -> k <= length P -> length G = length P ->
  Phi P k (push P o p is g G) T = Phi P k G T +! dot g (jsum o p is (firstn k T))
  /\ length (push P o p is g G) = length P.
Proof.
  induction is as [|i is IH]; intros p G His Hk HG; simpl.
  - split; [rewrite dot_nil_r; ring | assumption].
  - inversion His as [|? ? Hi His']; subst.
    assert (HT : length T = length P) by (unfold T; apply tangents_length).
    assert (Hnth : nth i (firstn k T) [] = nth i T []).
    { rewrite <- (firstn_skipn k T) at 2. rewrite app_nth1; [reflexivity|].
      rewrite firstn_length. lia. }
    rewrite dot_vadd_r, Hnth.
    destruct (nconst (nth i P (Leaf true))) eqn:Hc.
    + destruct (IH (S p) G His' Hk HG) as [E L]. split; [|exact L].
      rewrite E. rewrite (T_const i Hc). rewrite <- (Hop p g []). rewrite dot_nil_r. ring.
    + assert (HG' : length (upd G i (vjp o p g)) = length P) by (rewrite length_upd; exact HG).
      destruct (IH (S p) _ His' Hk HG') as [E L]. split; [|exact L].
      rewrite E. unfold Phi. rewrite wsum_upd by lia. simpl.
      assert (Hw : weight P k i = true).
      { unfold weight. replace (i <? k) with true by (symmetry; apply Nat.ltb_lt; lia). reflexivity. }
      rewrite Hw. rewrite (Hop p g). ring.
Qed.

Lemma step_Phi k G : k < length P -> length G = length P ->
  Phi P (S k) G T = Phi P k (step P k G) T /\ length (step P k G) = length P.
Proof.
  intros Hk HG.
  assert (HT : length T = length P) by (unfold T; apply tangents_length).
  destruct (nth_error P k) as [n|] eqn:E; [|apply nth_error_None in E; lia].
  pose proof (nth_error_nth P k (Leaf true) E) as En.
  assert (Hsame : forall j, j <> k -> weight P (S k) j = weight P k j).
  { intros j Hj. unfold weight. destruct (Nat.ltb_spec j (S k)); destruct (Nat.ltb_spec j k); try lia; reflexivity. }
  assert (Hon : weight P (S k) k = true).
  { unfold weight. replace (k <? S k) with true by (symmetry; apply Nat.ltb_lt; lia). reflexivity. }
  unfold step. rewrite En.
  destruct n as [[|]|[|] o].
  - (* constant leaf *) split; [|exact HG].
    unfold Phi. rewrite (wsum_flip (weight P (S k)) (weight P k) 0 G T k); try lia; try assumption.
    + rewrite Nat.sub_0_r. rewrite (T_const k); [rewrite dot_nil_r; ring|]. rewrite En. reflexivity.
    + unfold weight. rewrite Nat.ltb_irrefl, En. reflexivity.
  - (* free leaf: weight unchanged *) split; [|exact HG].
    unfold Phi. apply wsum_ext. intros j _. destruct (Nat.eq_dec j k) as [->|Hj]; [|now apply Hsame].
    rewrite Hon. unfold weight. rewrite En. simpl. now rewrite orb_true_r.
  - (* constant App *) split; [|exact HG].
    unfold Phi. rewrite (wsum_flip (weight P (S k)) (weight P k) 0 G T k); try lia; try assumption.
    + rewrite Nat.sub_0_r. rewrite (T_const k); [rewrite dot_nil_r; ring|]. rewrite En. reflexivity.
    + unfold weight. rewrite Nat.ltb_irrefl, En. reflexivity.
  - (* non-constant App *)
    destruct (push_Phi o (Hok k false o E) k (nth k G []) (ins o) 0 G (Hwf k false o E)) as [Ep Lp]; try lia.
    split; [|exact Lp]. rewrite Ep.
    unfold Phi. rewrite (wsum_flip (weight P (S k)) (weight P k) 0 G T k); try lia; try assumption.
    + rewrite Nat.sub_0_r. unfold T at 2. rewrite (tangents_nth delta P k _ E). simpl. reflexivity.
    + unfold weight. rewrite Nat.ltb_irrefl, En. reflexivity.
Qed.

Lemma sweep_Phi k : forall G, k <= length P -> length G = length P ->
  Phi P k G T = Phi P 0 (sweep P k G) T.
Proof.
  induction k as [|k IH]; intros G Hk HG; simpl; [reflexivity|].
  destruct (step_Phi k G) as [E L]; try lia. rewrite E. apply IH; [lia|exact L].
Qed.

Lemma wsum_repeat_nil f n0 n T' : wsum f n0 (repeat [] n) T' = a0.
Proof.
  revert n0 T'; induction n as [|n IH]; intros n0 T'; simpl; [reflexivity|].
  destruct T' as [|t T']; [reflexivity|]. rewrite IH. destruct (f n0); simpl; ring.
Qed.

(* leaves' gradients paired with the leaf tangents delta *)
Fixpoint leaf_sum (n0 : nat) (Q : prog) (G : list vec) : A :=
  match Q, G with
  | n :: Q', g :: G' => (if is_free_leaf n then dot g (delta n0) else a0) +! leaf_sum (S n0) Q' G'
  | _, _ => a0
  end.

Lemma Phi0_leaf_sum_gen : forall Q G T' n0,
  length G = length Q -> length T' = length Q ->
  (forall j n, nth_error Q j = Some n -> is_free_leaf n = true -> nth j T' [] = delta (n0 + j)%nat) ->
  wsum (fun j => is_free_leaf (nth (j - n0) Q (Leaf true))) n0 G T' = leaf_sum n0 Q G.
Proof.
  induction Q as [|n Q IH]; intros G T' n0 HG HT' Hd; destruct G as [|g G]; destruct T' as [|t T'];
    simpl in *; try lia; try reflexivity.
  rewrite Nat.sub_diag.
  rewrite <- (IH G T' (S n0)); try lia.
  - destruct (is_free_leaf n) eqn:En.
    + pose proof (Hd 0%nat n eq_refl En) as H0. rewrite Nat.add_0_r in H0. simpl in H0. rewrite <- H0.
      f_equal. apply wsum_ext. intros j Hj. replace (j - n0)%nat with (S (j - S n0)) by lia. reflexivity.
    + f_equal. apply wsum_ext. intros j Hj. replace (j - n0)%nat with (S (j - S n0)) by lia. reflexivity.
  - intros j m Hj Hm. specialize (Hd (S j) m Hj Hm). simpl in Hd.
    replace (S n0 + j)%nat with (n0 + S j)%nat by lia. exact Hd.
Qed.

Lemma sweep_length k : forall G0, k <= length P -> length G0 = length P ->
  length (sweep P k G0) = length P.
Proof.
  induction k as [|k IH]; intros G0 Hk HG0; simpl; [exact HG0|].
  destruct (step_Phi k G0) as [_ Lk]; try lia. apply IH; [lia|exact Lk].
Qed.

Theorem reverse_sweep_adjoint (L : nat) (seed : vec) :
  L < length P ->
  let G := sweep P (S L) (upd (repeat [] (length P)) L seed) in
  leaf_sum 0 P G = dot seed (nth L T []).
Proof.
  intros HL G.
  assert (HT : length T = length P) by (unfold T; apply tangents_length).
  assert (HG0 : length (upd (repeat [] (length P)) L seed) = length P)
    by (rewrite length_upd, repeat_length; reflexivity).
  pose proof (sweep_Phi (S L) _ HL HG0) as Hs. fold G in Hs.
  assert (HGlen : length G = length P) by (unfold G; apply sweep_length; [lia|exact HG0]).
  rewrite <- (Phi0_leaf_sum_gen P G T 0 HGlen HT).
  - transitivity (Phi P 0 G T).
    + unfold Phi. apply wsum_ext. intros j _. unfold weight. rewrite Nat.sub_0_r. reflexivity.
    + rewrite <- Hs. unfold Phi. rewrite wsum_upd by (try rewrite repeat_length; lia).
      rewrite wsum_repeat_nil. simpl.
      unfold weight. replace (L <? S L) with true by (symmetry; apply Nat.ltb_lt; lia). simpl. ring.
  - intros j n Hj Hn. change T with (tangents delta P). pose proof (tangents_nth delta P j n Hj) as X. unfold vec in X. rewrite X.
    destruct n as [[|]|c o]; simpl in *; try discriminate.
    rewrite firstn_length. rewrite tangents_length.
    assert (j < length P) by (apply nth_error_Some; congruence).
    f_equal. lia.
Qed.
End Fixed.

End Engine.


