(* the reverse sweep in ANY order that lists every node before its free inputs
   (in particular the DFS order of dfs.v) is the adjoint of forward-mode tangents. *)
From Coq Require Import List Arith Lia Ring Bool.
Import ListNotations.
From MG Require Import Base.EngCore Base.Dfs.

Section Engine2.
Variable A : Type.
Variables (a0 a1 : A) (add mul sub : A -> A -> A) (opp : A -> A).
Hypothesis Rth : ring_theory a0 a1 add mul sub opp (@eq A).
Add Ring Aring2 : Rth.
Infix "+!" := add (at level 50, left associativity).

Notation vec := (list A).
Notation dot := (dot A a0 add mul).
Notation wsum := (wsum A a0 add mul).
Notation node := (node A).
Notation prog := (list node).
Notation step := (step A add).
Notation push := (push A add).
Notation tangents := (tangents A add).
Notation jsum := (jsum A add).

Variable delta : nat -> vec.
Variable P : prog.
Hypothesis Hwf : wf A P.
Hypothesis Hok : ops_ok A a0 add mul P.
Let T := tangents delta P.

Definition inputs (k : nat) : list nat := match nth k P (Leaf A true) with App _ _ o => ins A o | _ => [] end.
Definition isconst (k : nat) : bool := nconst A (nth k P (Leaf A true)).
Definition sweepL (order : list nat) (G : list vec) : list vec := fold_left (fun G k => step P k G) order G.

(* weight: not yet processed, or a free leaf *)
Definition wt (done : list nat) (j : nat) : bool := negb (memb j done) || is_free_leaf A (nth j P (Leaf A true)).

Lemma T_const' i : isconst i = true -> nth i T [] = [].
Proof. intros H. unfold T. eapply T_const; eauto. Qed.

Lemma push_gen o (Hop : op_ok A a0 add mul o) (f : nat -> bool) k g : forall is p G,
  Forall (fun i => i < k) is -> k <= length P -> length G = length P ->
  (forall i, In i is -> isconst i = false -> f i = true) ->
  wsum f 0 (push P o p is g G) T = wsum f 0 G T +! dot g (jsum o p is (firstn k T))
  /\ length (push P o p is g G) = length P.
Proof.
  induction is as [|i is IH]; intros p G His Hk HG Hf; simpl.
  - split; [rewrite (dot_nil_r A a0 add mul); ring | assumption].
  - inversion His as [|? ? Hi His']; subst.
    assert (HT : length T = length P) by (unfold T; apply tangents_length).
    assert (Hnth : nth i (firstn k T) [] = nth i T []).
    { rewrite <- (firstn_skipn k T) at 2. rewrite app_nth1; [reflexivity|]. rewrite firstn_length. lia. }
    rewrite (dot_vadd_r A a0 a1 add mul sub opp Rth), Hnth.
    destruct (nconst A (nth i P (Leaf A true))) eqn:Hc.
    + destruct (IH (S p) G His' Hk HG (fun j Hj => Hf j (or_intror Hj))) as [E L]. split; [|exact L].
      rewrite E. rewrite (T_const' i Hc). rewrite <- (Hop p g []). rewrite (dot_nil_r A a0 add mul). ring.
    + assert (HG' : length (upd A add G i (vjp A o p g)) = length P) by (rewrite length_upd; exact HG).
      destruct (IH (S p) _ His' Hk HG' (fun j Hj => Hf j (or_intror Hj))) as [E L]. split; [|exact L].
      rewrite E. rewrite (wsum_upd A a0 a1 add mul sub opp Rth) by lia. simpl.
      rewrite (Hf i (or_introl eq_refl) Hc). rewrite (Hop p g). ring.
Qed.

(* processing node k, not yet processed, whose free inputs are all still unprocessed *)
Lemma step_gen done k G : k < length P -> length G = length P ->
  ~ In k done -> (forall i, In i (inputs k) -> isconst i = false -> ~ In i done) ->
  wsum (wt done) 0 G T = wsum (wt (k :: done)) 0 (step P k G) T /\ length (step P k G) = length P.
Proof.
  intros Hk HG Hnd Hin.
  assert (HT : length T = length P) by (unfold T; apply tangents_length).
  destruct (nth_error P k) as [n|] eqn:E; [|apply nth_error_None in E; lia].
  pose proof (nth_error_nth P k (Leaf A true) E) as En.
  assert (Hsame : forall j, j <> k -> wt done j = wt (k :: done) j).
  { intros j Hj. unfold wt. simpl. replace (j =? k) with false by (symmetry; now apply Nat.eqb_neq). reflexivity. }
  assert (Hon : wt done k = true).
  { unfold wt. replace (memb k done) with false; [reflexivity|]. symmetry. apply not_true_is_false. intros H; apply memb_In in H. contradiction. }
  assert (Hoff : is_free_leaf A n = false -> wt (k :: done) k = false).
  { intros Hl. unfold wt. simpl. rewrite Nat.eqb_refl, En. simpl. exact Hl. }
  unfold step. rewrite En.
  destruct n as [[|]|[|] o].
  - split; [|exact HG]. rewrite (wsum_flip A a0 a1 add mul sub opp Rth (wt done) (wt (k :: done)) 0 G T k); try lia; auto.
    rewrite Nat.sub_0_r. rewrite (T_const' k); [rewrite (dot_nil_r A a0 add mul); ring|]. unfold isconst. rewrite En. reflexivity.
  - split; [|exact HG]. apply (wsum_ext A a0 add mul). intros j _. destruct (Nat.eq_dec j k) as [->|Hj]; [|now apply Hsame].
    rewrite Hon. unfold wt. rewrite En. simpl. now rewrite orb_true_r.
  - split; [|exact HG]. rewrite (wsum_flip A a0 a1 add mul sub opp Rth (wt done) (wt (k :: done)) 0 G T k); try lia; auto.
    rewrite Nat.sub_0_r. rewrite (T_const' k); [rewrite (dot_nil_r A a0 add mul); ring|]. unfold isconst. rewrite En. reflexivity.
  - assert (Hins : inputs k = ins A o) by (unfold inputs; rewrite En; reflexivity).
    destruct (push_gen o (Hok k false o E) (wt (k :: done)) k (nth k G []) (ins A o) 0 G (Hwf k false o E)) as [Ep Lp]; try lia.
    { intros i Hi Hc. unfold wt. simpl.
      assert (i <> k). { pose proof (Hwf k false o E) as Hw. rewrite Forall_forall in Hw. specialize (Hw i Hi). lia. }
      replace (i =? k) with false by (symmetry; now apply Nat.eqb_neq). simpl.
      replace (memb i done) with false; [reflexivity|]. symmetry. apply not_true_is_false. intros H'; apply memb_In in H'.
      apply (Hin i); [rewrite Hins; exact Hi| exact Hc | exact H']. }
    split; [|exact Lp]. rewrite Ep.
    rewrite (wsum_flip A a0 a1 add mul sub opp Rth (wt done) (wt (k :: done)) 0 G T k); try lia; auto.
    rewrite Nat.sub_0_r. unfold T at 2. rewrite (tangents_nth A add delta P k _ E). simpl. reflexivity.
Qed.

(* entries that are not free inputs of the processed node are untouched *)
Lemma nth_upd_other (G : list vec) i v j : j <> i -> nth j (upd A add G i v) [] = nth j G [].
Proof.
  revert i j; induction G as [|g G IH]; intros i j H; destruct i, j; simpl; try reflexivity; try lia.
  apply IH. lia.
Qed.
Lemma push_untouched o g j : forall is p G,
  (forall i, In i is -> isconst i = false -> i <> j) -> nth j (push P o p is g G) [] = nth j G [].
Proof.
  induction is as [|i is IH]; intros p G H; simpl; [reflexivity|].
  rewrite IH by (intros x Hx; apply H; now right).
  destruct (nconst A (nth i P (Leaf A true))) eqn:Hc; [reflexivity|].
  apply nth_upd_other. intros ->. apply (H i); [now left|exact Hc|reflexivity].
Qed.
Lemma step_untouched k G j :
  (forall i, In i (inputs k) -> isconst i = false -> i <> j) -> nth j (step P k G) [] = nth j G [].
Proof.
  intros H. unfold step. unfold inputs in H. destruct (nth k P (Leaf A true)) as [c|[|] o]; try reflexivity.
  apply push_untouched. exact H.
Qed.

Definition valid_rest (rest : list nat) :=
  forall r1 k r2, rest = r1 ++ k :: r2 ->
    k < length P /\ ~ In k r2 /\ forall i, In i (inputs k) -> isconst i = false -> In i r2.

Lemma sweepL_inv : forall rest done G, length G = length P -> valid_rest rest ->
  (forall k, In k rest -> ~ In k done) ->
  wsum (wt done) 0 G T = wsum (wt (rev rest ++ done)) 0 (sweepL rest G) T
  /\ length (sweepL rest G) = length P
  /\ (forall j, ~ In j rest -> nth j (sweepL rest G) [] = nth j G []).
Proof.
  induction rest as [|k rest IH]; intros done G HG Hv Hd; simpl.
  - repeat split; auto.
  - destruct (Hv [] k rest eq_refl) as (Hk & Hnk & Hin).
    destruct (step_gen done k G Hk HG (Hd k (or_introl eq_refl))) as [E L].
    { intros i Hi Hc Hdone. apply (Hd i); [right; now apply Hin|exact Hdone]. }
    assert (Hv' : valid_rest rest).
    { intros r1 x r2 Eq. apply (Hv (k :: r1) x r2). simpl. now rewrite Eq. }
    destruct (IH (k :: done) (step P k G) L Hv') as (E2 & L2 & U2).
    { intros x Hx [<-|Hxd]; [contradiction|]. apply (Hd x); [now right|exact Hxd]. }
    split; [|split].
    + rewrite E, E2. rewrite <- app_assoc. reflexivity.
    + exact L2.
    + intros j Hj. rewrite U2 by (intros H; apply Hj; now right).
      apply step_untouched. intros i Hi Hc ->. apply Hj. right. now apply Hin.
Qed.

(* C01 core, for the order Tensor.backward really uses *)
Theorem backward_order_adjoint (L : nat) (seed : vec) (order : list nat) :
  L < length P -> valid_rest order -> In L order ->
  let G := sweepL order (upd A add (repeat [] (length P)) L seed) in
  leaf_sum A a0 add mul delta 0 P G = dot seed (nth L T [])
  /\ (forall j, ~ In j order -> nth j G [] = []).                    (* untouched tensors get nothing *)
Proof.
  intros HL Hv HinL G. subst G.
  assert (HT : length T = length P) by (unfold T; apply tangents_length).
  set (G0 := upd A add (repeat [] (length P)) L seed).
  set (G := sweepL order G0).
  assert (HG0 : length G0 = length P) by (unfold G0; rewrite length_upd, repeat_length; reflexivity).
  destruct (sweepL_inv order [] G0 HG0 Hv (fun _ _ H => H)) as (E & LG & U). fold G in E, LG, U.
  assert (Hunt : forall j, ~ In j order -> nth j G [] = []).
  { intros j Hj. rewrite (U j Hj). unfold G0. rewrite nth_upd_other by (intros ->; contradiction).
    destruct (Nat.lt_ge_cases j (length P)); [|now apply nth_overflow; rewrite repeat_length].
    apply nth_repeat. }
  split; [|exact Hunt].
  rewrite <- (Phi0_leaf_sum_gen A a0 add mul delta P G T 0 LG HT).
  - transitivity (wsum (wt (rev order ++ [])) 0 G T).
    + (* weights differ only on j not in order and not free leaves, where G_j = [] *)
      clear E. rewrite app_nil_r.
      assert (Hgen : forall (Gs Ts : list vec) n0, 
                (forall j, n0 <= j -> ~ In j order -> nth (j - n0) Gs [] = []) ->
                wsum (fun j => is_free_leaf A (nth (j - 0) P (Leaf A true))) n0 Gs Ts = wsum (wt (rev order)) n0 Gs Ts).
      { induction Gs as [|g Gs IHg]; intros Ts n0 Hz; destruct Ts as [|t Ts]; simpl; try reflexivity.
        rewrite (IHg Ts (S n0)).
        2:{ intros j Hj Hn. specialize (Hz j ltac:(lia) Hn). replace (j - n0) with (S (j - S n0)) in Hz by lia. exact Hz. }
        f_equal. rewrite Nat.sub_0_r. unfold wt.
        destruct (memb n0 (rev order)) eqn:Hm; simpl; [reflexivity|].
        destruct (is_free_leaf A (nth n0 P (Leaf A true))); [reflexivity|].
        assert (~ In n0 order). { intros Hi. apply in_rev in Hi. apply memb_In in Hi. congruence. }
        specialize (Hz n0 (le_n _) H). rewrite Nat.sub_diag in Hz. simpl in Hz. subst g. reflexivity. }
      apply Hgen. intros j _ Hj. rewrite Nat.sub_0_r. now apply Hunt.
    + rewrite <- E. unfold G0. rewrite (wsum_upd A a0 a1 add mul sub opp Rth) by (try rewrite repeat_length; lia).
      rewrite (wsum_repeat_nil A a0 a1 add mul sub opp Rth). simpl. ring.
  - intros j n Hj Hn. change T with (tangents delta P). pose proof (tangents_nth A add delta P j n Hj) as X. unfold EngCore.vec in *. rewrite X.
    destruct n as [[|]|c o]; simpl in *; try discriminate.
    rewrite firstn_length. rewrite tangents_length.
    assert (j < length P) by (apply nth_error_Some; congruence).
    f_equal. lia.
Qed.
End Engine2.

