(* gather / scatter-add over an abstract ring and their adjointness (one lemma serves every
   index-routing operation in both directions), plus pointwise products.  Uses EngCore's dot. *)
From Coq Require Import List Arith Lia Ring.
Import ListNotations.
From MG Require Import Base.EngCore.

Section RingVec.
Variable A : Type.
Variables (a0 a1 : A) (add mul sub : A -> A -> A) (opp : A -> A).
Hypothesis Rth : ring_theory a0 a1 add mul sub opp (@eq A).
Add Ring AringGS : Rth.
Infix "+!" := add (at level 50, left associativity). Infix "*!" := mul (at level 40, left associativity).
Notation dot := (dot A a0 add mul).

Definition gather (src : list nat) (x : list A) : list A := map (fun i => nth i x a0) src.

(* add g at position i (nothing happens when i is out of range) *)
Fixpoint add_at (i : nat) (g : A) (acc : list A) : list A :=
  match i, acc with
  | O, y :: t => (y +! g) :: t
  | S i', y :: t => y :: add_at i' g t
  | _, [] => []
  end.

Fixpoint scatter_add (acc : list A) (src : list nat) (g : list A) : list A :=
  match src, g with
  | i :: src', gi :: g' => scatter_add (add_at i gi acc) src' g'
  | _, _ => acc
  end.

(* pointwise product, truncating to the shorter *)
Fixpoint vmul (u v : list A) : list A :=
  match u, v with x :: u', y :: v' => (x *! y) :: vmul u' v' | _, _ => [] end.

Lemma dot_add_at : forall i g acc dx, i < length acc ->
  dot (add_at i g acc) dx = dot acc dx +! g *! nth i dx a0.
Proof.
  induction i as [|i IH]; intros g acc dx Hi; destruct acc as [|y t]; simpl in *; try lia.
  - destruct dx as [|d dx']; simpl; ring.
  - destruct dx as [|d dx']; simpl; [ring|]. rewrite IH by lia. ring.
Qed.

Lemma length_add_at i g acc : length (add_at i g acc) = length acc.
Proof. revert i; induction acc as [|y t IH]; intros [|i]; simpl; auto. Qed.

Lemma length_scatter_add : forall src g acc, length (scatter_add acc src g) = length acc.
Proof.
  induction src as [|i src IH]; intros g acc; destruct g as [|gi g]; simpl; auto.
  rewrite IH. apply length_add_at.
Qed.

(* <scatter_add acc src g, dx> = <acc, dx> + <g, gather src dx>   for ALL g and dx (any lengths) *)
Theorem gather_scatter_adjoint : forall src g acc dx,
  Forall (fun i => i < length acc) src ->
  dot (scatter_add acc src g) dx = dot acc dx +! dot g (gather src dx).
Proof.
  induction src as [|i src IH]; intros g acc dx Hs; destruct g as [|gi g]; simpl in *; try ring.
  inversion Hs as [|? ? Hi Hs']; subst.
  rewrite IH by (rewrite length_add_at; assumption).
  rewrite dot_add_at by assumption. ring.
Qed.

Lemma dot_repeat0_l n dx : dot (repeat a0 n) dx = a0.
Proof. revert dx; induction n as [|n IH]; intros [|d dx]; simpl; try reflexivity. rewrite IH. ring. Qed.

Corollary scatter0_adjoint n src g dx : Forall (fun i => i < n) src ->
  dot (scatter_add (repeat a0 n) src g) dx = dot g (gather src dx).
Proof.
  intros H. rewrite gather_scatter_adjoint by (rewrite repeat_length; exact H).
  rewrite dot_repeat0_l. ring.
Qed.

Lemma dot_comm u v : dot u v = dot v u.
Proof. revert v; induction u as [|x u IH]; intros [|y v]; simpl; try reflexivity. rewrite IH. ring. Qed.

Lemma dot_vmul c g u : dot (vmul c g) u = dot g (vmul c u).
Proof.
  revert g u; induction c as [|x c IH]; intros [|y g] [|z u]; simpl; try reflexivity.
  rewrite IH. ring.
Qed.
End RingVec.
