(* the DFS of collect_all_tensors_and_clear_grads yields an order in which
   every node precedes its (non-constant) inputs, without duplicates, closed under inputs. *)
From Coq Require Import List Arith Lia Bool.
Import ListNotations.

Section DFS.
Variable inputs : nat -> list nat.       (* creator.variables of node t ([] for leaves) *)
Variable isconst : nat -> bool.
Hypothesis wf : forall t i, In i (inputs t) -> i < t.     (* creation order is topological *)

Definition memb (x : nat) (l : list nat) : bool := existsb (Nat.eqb x) l.
Lemma memb_In x l : memb x l = true <-> In x l.
Proof. unfold memb. rewrite existsb_exists. split.
  - intros (y & Hy & E). apply Nat.eqb_eq in E. now subst.
  - intros H. exists x. split; [exact H|apply Nat.eqb_refl]. Qed.

(* acc is both the deque (head = front) and the `seen` set: they always hold the same elements *)
Fixpoint dfs (fuel t : nat) (acc : list nat) : list nat :=
  match fuel with
  | O => acc
  | S f =>
      if isconst t then acc
      else if memb t acc then acc
      else t :: fold_left (fun a i => dfs f i a) (inputs t) acc
  end.

Definition free (t : nat) := isconst t = false.
(* every node appears strictly before its free inputs, which are all present *)
Definition ordered (acc : list nat) :=
  forall pre k post, acc = pre ++ k :: post -> forall i, In i (inputs k) -> free i -> In i post.
Definition good (acc : list nat) := NoDup acc /\ ordered acc /\ (forall k, In k acc -> free k).

(* result of one dfs call: new elements are pushed on the front, all <= t *)
Definition ext (t : nat) (acc r : list nat) := exists new, r = new ++ acc /\ Forall (fun x => x <= t) new.

Lemma ext_refl t acc : ext t acc acc. Proof. exists []. split; [reflexivity|constructor]. Qed.
Lemma ext_in t acc r x : ext t acc r -> In x acc -> In x r.
Proof. intros (n & -> & _) H. apply in_or_app. now right. Qed.

Lemma ordered_cons t r : ordered r -> (forall i, In i (inputs t) -> free i -> In i r) -> ordered (t :: r).
Proof.
  intros Ho Hi pre k post E i Hin Hf. destruct pre as [|p pre]; simpl in E; inversion E; subst.
  - now apply Hi.
  - eapply Ho; eauto.
Qed.

Lemma dfs_spec : forall fuel t acc, t < fuel -> good acc ->
  good (dfs fuel t acc) /\ (free t -> In t (dfs fuel t acc)) /\ ext t acc (dfs fuel t acc).
Proof.
  induction fuel as [|f IH]; intros t acc Hf Hg; [lia|]. simpl.
  destruct (isconst t) eqn:Hc.
  { split; [exact Hg|]. split; [unfold free; congruence|apply ext_refl]. }
  destruct (memb t acc) eqn:Hm.
  { split; [exact Hg|]. split; [intros _; now apply memb_In|apply ext_refl]. }
  assert (Hfold : forall is acc0, (forall i, In i is -> i < t) -> good acc0 ->
            let r := fold_left (fun a i => dfs f i a) is acc0 in
            good r /\ (forall i, In i is -> free i -> In i r) /\
            (exists new, r = new ++ acc0 /\ Forall (fun x => x < t) new)).
  { induction is as [|i is IHis]; intros acc0 Hlt Hg0; simpl.
    - split; [exact Hg0|]. split; [intros i []|]. exists []. split; [reflexivity|constructor].
    - assert (Hi : i < t) by (apply Hlt; now left).
      destruct (IH i acc0 ltac:(lia) Hg0) as (G1 & I1 & (n1 & E1 & B1)).
      destruct (IHis (dfs f i acc0) (fun j Hj => Hlt j (or_intror Hj)) G1) as (G2 & I2 & (n2 & E2 & B2)).
      split; [exact G2|]. split.
      + intros j [->|Hj] Fj; [|now apply I2].
        simpl in E2. rewrite E2. apply in_or_app. right. now apply I1.
      + exists (n2 ++ n1). split; [simpl in E2; rewrite E2, E1; now rewrite app_assoc|].
        apply Forall_app. split; [exact B2|]. eapply Forall_impl; [|exact B1]. simpl. intros; lia. }
  destruct (Hfold (inputs t) acc (wf t) Hg) as ((ND & Ord & Fr) & I & (new & E & B)).
  set (r := fold_left (fun a i => dfs f i a) (inputs t) acc) in *.
  assert (Hnotin : ~ In t r).
  { rewrite E. intros Hin. apply in_app_or in Hin. destruct Hin as [Hin|Hin].
    - rewrite Forall_forall in B. specialize (B t Hin). lia.
    - apply memb_In in Hin. congruence. }
  split; [|split].
  - split; [constructor; assumption|]. split; [now apply ordered_cons|].
    intros k [<-|Hk]; [exact Hc|now apply Fr].
  - intros _. now left.
  - exists (t :: new). split; [simpl; now rewrite E|]. constructor; [lia|].
    eapply Forall_impl; [|exact B]. simpl. intros; lia.
Qed.

(* the list Tensor.backward iterates over *)
Definition collect (L : nat) : list nat := dfs (S L) L [].

Theorem collect_spec L : free L ->
  let order := collect L in
  NoDup order /\ hd_error order = Some L /\
  (forall pre k post, order = pre ++ k :: post ->
      free k /\ forall i, In i (inputs k) -> free i -> In i post).
Proof.
  intros HL order.
  assert (G0 : good []) by (split; [constructor|split; [intros pre k post E; destruct pre; discriminate|intros k []]]).
  destruct (dfs_spec (S L) L [] ltac:(lia) G0) as ((ND & Ord & Fr) & _ & _).
  split; [exact ND|]. split.
  - unfold order, collect. simpl. unfold free in HL. rewrite HL. simpl. reflexivity.
  - intros pre k post E. split.
    + apply Fr. fold (collect L). fold order. rewrite E. apply in_or_app. right. now left.
    + intros i Hi Fi. eapply Ord; eauto.
Qed.
End DFS.

