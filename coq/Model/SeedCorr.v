(* Comparison functions for the C14 shape lattices. *)
From Coq Require Import List Arith Bool.
Import ListNotations.
From MG Require Import Model.Seed.

(* (L's shape, seed's shape, accepted by the implementation?) *)
Definition scase := (list nat * list nat * bool)%type.
Definition scase_ok (c : scase) : bool := let '(sL, sg, acc) := c in Bool.eqb (seed_accept sL sg) acc.

(* (grad shape, variable shape, result: None = ValueError) ; only compared where the model is specified *)
Definition rcase := (list nat * list nat * option (list nat))%type.
Definition rcase_ok (c : rcase) : bool :=
  let '(g, v, r) := c in
  if broadcasts_into v g || Nat.ltb (length g) (length v) then
    match reduce_shape g v, r with
    | Some a, Some b => shape_eqb a b
    | None, None => true
    | _, _ => false
    end
  else true.

Section Idx.
  Context {A : Type} (f : A -> bool).
  Fixpoint sfailing_from (i : nat) (cs : list A) : list nat :=
    match cs with
    | [] => []
    | c :: cs' => if f c then sfailing_from (S i) cs' else i :: sfailing_from (S i) cs'
    end.
End Idx.
Definition sfailing cs := sfailing_from scase_ok 0 cs.
Definition rfailing cs := sfailing_from rcase_ok 0 cs.
