(* History-level model of MyGrad's graph bookkeeping and backward pass over exact integer data:
   Tensor._op (graph recording part, src/mygrad/tensor_base.py:1163-1212), Tensor.backward (1294-1340),
   collect_all_tensors_and_clear_grads (_utils/__init__.py:36-72), Operation.backward
   (operation_base.py:162-228), Tensor.clear_graph (1461-1498), Tensor.null_grad.
   Tensors are numbered in creation order; values are immutable here (in-place updates are modelled in
   FamiliesE.v).  Definitions only. *)
From Coq Require Import ZArith List Arith Bool.
Import ListNotations.
From MG Require Import Base.EngCore Base.GatherScatter Base.Dfs Base.EngOrder Model.OpsExact.

Notation zvec := (list Z).
Notation zcop := (cop Z).
Notation znode := (node Z).

Record gstate := {
  g_vals : list zvec;             (* value of every tensor ever created *)
  g_nodes : list znode;           (* the recorded graph, linearised at the recorded values (creator + constant flag) *)
  g_cleared : list bool;          (* _creator has been set to None by clear_graph *)
  g_hasops : list bool;           (* the consumer set _ops is non-empty *)
  g_grad : list (option zvec)     (* _grad *)
}.
Definition g_init : gstate := {| g_vals := []; g_nodes := []; g_cleared := []; g_hasops := []; g_grad := [] |}.

Inductive stmt :=
| SLeaf (const : bool) (v : zvec)
| SApp (force_const : option bool) (is_view : bool) (o : zcop)
| SBackward (t : nat) (seed : option zvec)
| SClear (t : nat)
| SNullGrad (t : nat).

Inductive outcome := Ok | InvalidBackprop | BadStmt.

Definition n_const (st : gstate) (k : nat) : bool := nconst Z (nth k (g_nodes st) (Leaf Z true)).

(* the graph as the code sees it now: a tensor whose creator was cleared is a leaf *)
Definition eff_node (n : znode) (cleared : bool) : znode :=
  match n with
  | App _ c o => if cleared then Leaf Z c else App Z c o
  | l => l
  end.
Fixpoint eff_nodes (ns : list znode) (cl : list bool) : list znode :=
  match ns, cl with
  | n :: ns', c :: cl' => eff_node n c :: eff_nodes ns' cl'
  | ns', [] => ns'
  | [], _ => []
  end.
Definition g_eff (st : gstate) : list znode := eff_nodes (g_nodes st) (g_cleared st).

Fixpoint set_nth {X} (l : list X) (i : nat) (x : X) : list X :=
  match l, i with
  | [], _ => []
  | _ :: t, O => x :: t
  | y :: t, S i' => y :: set_nth t i' x
  end.
Definition set_all {X} (l : list X) (is : list nat) (x : X) : list X := fold_left (fun l i => set_nth l i x) is l.

(* ---------- Tensor._op, recording part ---------- *)
Definition do_app (st : gstate) (force_const : option bool) (is_view : bool) (o : zcop) : gstate * outcome :=
  let k := length (g_vals st) in
  let srcs := map c_src (c_args Z o) in
  if negb (forallb (fun i => Nat.ltb i k) srcs) then (st, BadStmt) else
  let c := match force_const with Some b => b | None => forallb (n_const st) srcs end in
  let v := cop_fwd Z 0%Z 1%Z Z.add Z.mul (g_vals st) o in
  let n := App Z c (to_op Z 0%Z Z.add Z.mul (linearize Z 0%Z 1%Z Z.mul (g_vals st) o)) in
  ({| g_vals := g_vals st ++ [v];
      g_nodes := g_nodes st ++ [n];
      g_cleared := g_cleared st ++ [false];
      g_hasops := set_all (g_hasops st) srcs true ++ [false];
      (* a non-view op nulls the gradient of every input tensor *)
      g_grad := (if is_view then g_grad st else set_all (g_grad st) srcs None) ++ [None] |}, Ok).

Definition do_leaf (st : gstate) (c : bool) (v : zvec) : gstate :=
  {| g_vals := g_vals st ++ [v]; g_nodes := g_nodes st ++ [Leaf Z c];
     g_cleared := g_cleared st ++ [false]; g_hasops := g_hasops st ++ [false]; g_grad := g_grad st ++ [None] |}.

(* ---------- clear_graph: _ops.clear(); if creator: creator = None; recurse into creator.variables ---------- *)
Fixpoint clear_from (fuel : nat) (nodes : list znode) (t : nat) (acc : list bool * list bool) : list bool * list bool :=
  match fuel with
  | O => acc
  | S f =>
      let '(cl, ho) := acc in
      let ho := set_nth ho t false in
      match nth t nodes (Leaf Z true) with
      | App _ _ o =>
          if nth t cl true then (cl, ho)
          else fold_left (fun a i => clear_from f nodes i a) (ins Z o) (set_nth cl t true, ho)
      | Leaf _ _ => (cl, ho)
      end
  end.
Definition do_clear (st : gstate) (t : nat) : gstate :=
  let '(cl, ho) := clear_from (S t) (g_nodes st) t (g_cleared st, g_hasops st) in
  {| g_vals := g_vals st; g_nodes := g_nodes st; g_cleared := cl; g_hasops := ho; g_grad := g_grad st |}.

(* ---------- Operation.backward with its InvalidBackprop check, interleaved as in the code ---------- *)
Fixpoint push_chk (P : list znode) (hasops : list bool) (o : op Z) (p : nat) (is : list nat) (g : zvec)
                  (G : list zvec) : list zvec * bool :=
  match is with
  | [] => (G, false)
  | i :: is' =>
      if nconst Z (nth i P (Leaf Z true)) then push_chk P hasops o (S p) is' g G
      else if negb (nth i hasops false) then (G, true)
      else push_chk P hasops o (S p) is' g (upd Z Z.add G i (vjp Z o p g))
  end.
Definition step_chk (P : list znode) (hasops : list bool) (k : nat) (G : list zvec) : list zvec * bool :=
  match nth k P (Leaf Z true) with
  | App _ false o => push_chk P hasops o 0 (ins Z o) (nth k G []) G
  | _ => (G, false)
  end.
Fixpoint sweep_chk (P : list znode) (hasops : list bool) (order : list nat) (G : list zvec) : list zvec * bool :=
  match order with
  | [] => (G, false)
  | k :: rest => let '(G', err) := step_chk P hasops k G in
                 if err then (G', true) else sweep_chk P hasops rest G'
  end.

(* ---------- Tensor.backward ---------- *)
Definition order_of (st : gstate) (t : nat) : list nat :=
  collect (inputs Z (g_eff st)) (isconst Z (g_eff st)) t.

Definition do_backward (st : gstate) (t : nat) (seed : option zvec) : gstate * outcome :=
  if negb (Nat.ltb t (length (g_vals st))) then (st, BadStmt) else
  if n_const st t then (do_clear st t, Ok) else
  let P := g_eff st in
  let order := order_of st t in
  let n := length (g_vals st) in
  let s := match seed with Some g => g | None => repeat 1%Z (length (nth t (g_vals st) [])) end in
  (* collect_all_tensors_and_clear_grads nulls the gradient of every tensor it lists *)
  let grads0 := set_all (g_grad st) order None in
  let '(G, err) := sweep_chk P (g_hasops st) order (upd Z Z.add (repeat [] n) t s) in
  let grads1 := fold_left (fun gr k => match nth k G [] with [] => gr | v => set_nth gr k (Some v) end) order grads0 in
  let st1 := {| g_vals := g_vals st; g_nodes := g_nodes st; g_cleared := g_cleared st;
                g_hasops := g_hasops st; g_grad := grads1 |} in
  if err then (st1, InvalidBackprop) else (do_clear st1 t, Ok).

Definition exec_stmt (st : gstate) (s : stmt) : gstate * outcome :=
  match s with
  | SLeaf c v => (do_leaf st c v, Ok)
  | SApp fc vw o => do_app st fc vw o
  | SBackward t seed => do_backward st t seed
  | SClear t => if Nat.ltb t (length (g_vals st)) then (do_clear st t, Ok) else (st, BadStmt)
  | SNullGrad t => if Nat.ltb t (length (g_vals st))
                   then ({| g_vals := g_vals st; g_nodes := g_nodes st; g_cleared := g_cleared st;
                            g_hasops := g_hasops st; g_grad := set_nth (g_grad st) t None |}, Ok)
                   else (st, BadStmt)
  end.

(* run a history; a statement that raises leaves the state it produced and the history continues
   (the harness catches the exception), outcomes are collected *)
Fixpoint run_hist (st : gstate) (h : list stmt) : gstate * list outcome :=
  match h with
  | [] => (st, [])
  | s :: h' => let '(st1, o) := exec_stmt st s in
               let '(st2, os) := run_hist st1 h' in (st2, o :: os)
  end.
