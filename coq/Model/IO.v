(* Model of mygrad.save / mygrad.load (src/mygrad/_io.py:11-125) on top of the history model.
   numpy.savez / numpy.load are an oracle assumed to round-trip (shape, dtype, values) of real arrays -- checked by the harness.
   Definitions only. *)
From Coq Require Import ZArith List Arith Bool.
Import ListNotations.
From MG Require Import Base.EngCore Model.OpsExact Model.GraphP.

(* what save writes: the data, and the gradient if the tensor has one (save only READS tensor.data and tensor.grad) *)
Record saved := { s_float : bool; s_data : zvec; s_grad : option zvec }.
Definition save_of (is_float : bool) (data : zvec) (grad : option zvec) : saved :=
  {| s_float := is_float; s_data := data; s_grad := grad |}.

(* load: loaded_tensor = tensor(data)  (float -> non-constant, integer/bool -> constant);
         if "grad" in file: loaded_tensor.backward(grad) *)
Definition load_hist (s : saved) : list stmt :=
  SLeaf (negb (s_float s)) (s_data s) :: match s_grad s with Some g => [SBackward 0 (Some g)] | None => [] end.
Definition load_state (s : saved) : gstate := fst (run_hist g_init (load_hist s)).
Definition loaded_data (s : saved) : zvec := nth 0 (g_vals (load_state s)) [].
Definition loaded_grad (s : saved) : option zvec := nth 0 (g_grad (load_state s)) None.
