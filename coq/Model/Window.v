(* Model of mygrad.nnet.layers.utils.sliding_window_view (src/mygrad/nnet/layers/utils.py:123-228)
   and of the acceptance arithmetic of ConvND / MaxPoolND (conv.py:15-80, pooling.py:50-95).
   All quantities are unbounded integers; strides are in ELEMENTS (the code multiplies by the item
   size of the array).  Definitions only. *)
From Coq Require Import ZArith List Bool.
Import ListNotations.
Open Scope Z_scope.

Definition prodZ (l : list Z) : Z := fold_right Z.mul 1 l.

(* element strides of a C-contiguous array: what  np.cumprod(arr.shape[:0:-1])[::-1] + (1,)  computes *)
Fixpoint cstrides (shape : list Z) : list Z :=
  match shape with [] => [] | _ :: s => prodZ s :: cstrides s end.

Fixpoint dotZ (a b : list Z) : Z :=
  match a, b with x :: a', y :: b' => x * y + dotZ a' b' | _, _ => 0 end.

Fixpoint zmul (a b : list Z) : list Z :=
  match a, b with x :: a', y :: b' => x * y :: zmul a' b' | _, _ => [] end.
Fixpoint zadd (a b : list Z) : list Z :=
  match a, b with x :: a', y :: b' => x + y :: zadd a' b' | _, _ => [] end.

(* row-major position of a multi-index *)
Definition ravel (shape idx : list Z) : Z := dotZ idx (cstrides shape).

Fixpoint valid (shape idx : list Z) : Prop :=
  match shape, idx with
  | [], [] => True
  | n :: s, i :: ix => 0 <= i < n /\ valid s ix
  | _, _ => False
  end.

(* ---- one windowed axis: x = axis length, W window, S step, D dilation ---- *)
(* number of placements:  (x - ((W-1)*D + 1)) // S + 1 *)
Definition placements (x W S D : Z) : Z := (x - ((W - 1) * D + 1)) / S + 1.
(* the checks of utils.py:133-197 for one axis: positive ints, W <= x, W*D <= x *)
Definition accepts1 (x W S D : Z) : bool :=
  (0 <? W) && (0 <? S) && (0 <? D) && (W <=? x) && (W * D <=? x).

(* ---- all windowed axes (the lists must have equal lengths: that is part of acceptance) ---- *)
Fixpoint accepts_axes (xs Ws Ss Ds : list Z) : bool :=
  match xs, Ws, Ss, Ds with
  | [], [], [], [] => true
  | x :: xs', W :: Ws', St :: Ss', D :: Ds' => accepts1 x W St D && accepts_axes xs' Ws' Ss' Ds'
  | _, _, _, _ => false
  end.
Fixpoint places (xs Ws Ss Ds : list Z) : list Z :=
  match xs, Ws, Ss, Ds with
  | x :: xs', W :: Ws', St :: Ss', D :: Ds' => placements x W St D :: places xs' Ws' Ss' Ds'
  | _, _, _, _ => []
  end.

(* shape and element strides of the view, for an array of shape  lead ++ xs  made C-contiguous:
     out_shape = (X.., lead.., W..)       strides = (S*cs(xs), cs(lead)*prod xs, D*cs(xs))          *)
Definition lead_strides (lead xs : list Z) : list Z := map (fun c => c * prodZ xs) (cstrides lead).
Definition out_shape (lead xs Ws Ss Ds : list Z) : list Z := places xs Ws Ss Ds ++ lead ++ Ws.
Definition out_strides (lead xs Ss Ds : list Z) : list Z :=
  zmul (cstrides xs) Ss ++ lead_strides lead xs ++ zmul (cstrides xs) Ds.

(* the function itself, on a full shape; None = rejected *)
Definition nonneg_dims (shape : list Z) : bool := forallb (fun n => 0 <=? n) shape.
Definition swv (shape Ws Ss Ds : list Z) : option (list Z * list Z) :=
  let k := length Ws in
  let nd := length shape in
  if (Nat.leb k nd) then
    let lead := firstn (nd - k) shape in
    let xs := skipn (nd - k) shape in
    if accepts_axes xs Ws Ss Ds then Some (out_shape lead xs Ws Ss Ds, out_strides lead xs Ss Ds) else None
  else None.

(* ---- conv_nd / max_pool acceptance (per axis) ---- *)
(* conv.py:61-73:  ((x + 2p - ((W-1)D+1)) / S + 1) is an integer and > 0 *)
Definition conv_shape_ok (x p W S D : Z) : bool :=
  let num := x + 2 * p - ((W - 1) * D + 1) in (0 <=? num) && (num mod S =? 0).
(* ... then sliding_window_view on the padded data applies its own rule *)
Definition conv_accepts1 (x p W S D : Z) : bool :=
  (0 <? W) && (0 <? S) && (0 <? D) && (0 <=? p) && conv_shape_ok x p W S D && accepts1 (x + 2 * p) W S D.
(* the documented rule: the placements tile the padded extent exactly *)
Definition tiles (x p W S D : Z) : Prop :=
  exists G, 1 <= G /\ (G - 1) * S + (W - 1) * D + 1 = x + 2 * p.
(* decidable form of "a valid tiling that conv_nd nevertheless refuses" (known finding, C16) *)
Definition dilated_extent_gap (x p W S D : Z) : bool :=
  (0 <? W) && (0 <? S) && (0 <? D) && (0 <=? p) && conv_shape_ok x p W S D && negb (W * D <=? x + 2 * p).

Fixpoint conv_accepts (xs ps Ws Ss Ds : list Z) : bool :=
  match xs, ps, Ws, Ss, Ds with
  | [], [], [], [], [] => true
  | x :: xs', p :: ps', W :: Ws', St :: Ss', D :: Ds' => conv_accepts1 x p W St D && conv_accepts xs' ps' Ws' Ss' Ds'
  | _, _, _, _, _ => false
  end.
Fixpoint conv_out (xs ps Ws Ss Ds : list Z) : list Z :=
  match xs, ps, Ws, Ss, Ds with
  | x :: xs', p :: ps', W :: Ws', St :: Ss', D :: Ds' => placements (x + 2 * p) W St D :: conv_out xs' ps' Ws' Ss' Ds'
  | _, _, _, _, _ => []
  end.

(* pooling.py:76-84: ((x - P)/S + 1) integer and > 0; window rule with dilation 1 *)
Definition pool_accepts1 (x P S : Z) : bool :=
  (0 <? P) && (0 <? S) && (0 <=? x - P) && ((x - P) mod S =? 0).
