(* Correspondence layer for Model/Heap.v: statements that name tensors by the index of the statement that created them, and a
   canonical rendering of the part of a heap that is strongly reachable from the named tensors (object identities are
   replaced by visit numbers, weak collections are restricted to reachable objects), computed the same way by
   harness/impl/heap_impl.py on the real object graph.  Definitions + the lemma relating [nstep] to [Heap.step]. *)
From Coq Require Import List Arith Bool PeanoNat.
Import ListNotations.
From MG Require Import Model.Heap Model.HeapShape.

Inductive nstmt :=
| NLeaf
| NOp (k : nat) (args : list (option nat))          (* None: an operand that is not a tensor (becomes a fresh constant tensor) *)
| NView (k : nat) (par : nat)
| NInplace (m : nat) (k : nat) (args : list (option nat)) (masked fails : bool)
| NClear (t : nat)
| NSetShape (t : nat) (fails : bool)                (* t.shape = newshape *)
| NBackward (t : nat).                              (* t.backward(): gradients for everything upstream, then clear_graph *)

Definition nth_id (names : list id) (i : nat) : option id := nth_error names i.

(* operands: fresh constant tensors for the raw ones, in order *)
Fixpoint resolve (h : heap) (names : list id) (args : list (option nat)) : option (heap * list id) :=
  match args with
  | [] => Some (h, [])
  | Some i :: r => t <- nth_id names i ;; hr <- resolve h names r ;; Some (fst hr, t :: snd hr)
  | None :: r => let (h1, t) := new_leaf h in hr <- resolve h1 names r ;; Some (fst hr, t :: snd hr)
  end.
(* the tensors [resolve] allocates are constants (Tensor(var, constant=True)) *)
Definition fresh_consts (names ids : list id) : list id := filter (fun t => negb (mem t names)) ids.

(* Tensor.backward() at pointer level, for a non-constant terminal whose graph is intact (the implementation raising
   InvalidBackprop ends the compared history): collect_all_tensors_and_clear_grads visits everything upstream (not going
   through constants), every non-constant tensor visited ends with a gradient, then clear_graph.  _view_grad is cleared for
   the visited tensors; what reading .grad inside clear_graph caches afterwards is not followed (canon ignores _view_grad). *)
Fixpoint collect (fuel : nat) (h : heap) (consts : list id) (t : id) (seen : list id) : list id :=
  match fuel with
  | 0 => seen
  | S f =>
    if mem t seen then seen else
    let seen1 := seen ++ [t] in
    if mem t consts then seen1 else
    match getT h t with
    | Some r => match t_creator r with
                | Some c => match getO h c with
                            | Some oc => fold_left (fun acc v => collect f h consts v acc) (o_vars oc) seen1
                            | None => seen1 end
                | None => seen1 end
    | None => seen1
    end
  end.
Definition backward_model (h : heap) (consts : list id) (t : id) : option heap :=
  let fuel := S (length (h_t h) + length (h_o h)) in
  let vis := collect (fuel * fuel) h consts t [] in
  let h1 := fold_left (fun hh v => match getT hh v with
                                   | Some r => setT hh v (with_grads r (negb (mem v consts)) false)
                                   | None => hh end) vis h in
  clear_graph fuel h1 t.

Definition to_stmt (s : nstmt) (ids : list id) (names : list id) : option stmt :=
  match s with
  | NLeaf => Some SLeaf
  | NOp k _ => Some (SOp k ids)
  | NView k p => t <- nth_id names p ;; Some (SView k t)
  | NInplace m k _ masked fails => t <- nth_id names m ;; Some (SInplace t k ids masked fails)
  | NClear t => x <- nth_id names t ;; Some (SClear x)
  | NBackward _ | NSetShape _ _ => None
  end.

(* result: new heap, new name list, whether the statement raised *)
Definition nstep (h : heap) (names : list id) (s : nstmt) : option (heap * list id * bool) :=
  match s with
  | NLeaf => let (h1, t) := new_leaf h in Some (h1, names ++ [t], false)
  | NOp k args =>
    hr <- resolve h names args ;;
    let (h1, ids) := hr in
    let (h2, a) := new_array h1 None None in
    r <- apply_op h2 k ids [] a ;;
    Some (fst r, names ++ [snd r], false)
  | NView k p =>
    t <- nth_id names p ;;
    r <- apply_view h k t ;;
    Some (fst r, names ++ [snd r], false)
  | NInplace m k args masked fails =>
    t <- nth_id names m ;;
    hr <- resolve h names args ;;
    let (h1, ids) := hr in
    o <- inplace h1 t k ids masked fails ;;
    match o with
    | Done h2 => Some (h2, names, false)
    | Raised h2 => Some (h2, names, true)
    end
  | NClear x =>
    t <- nth_id names x ;;
    h' <- clear_graph (S (length (h_t h) + length (h_o h))) h t ;;
    Some (h', names, false)
  | NSetShape x fails =>
    t <- nth_id names x ;;
    o <- set_shape h t fails ;;
    match o with
    | Done h2 => Some (h2, names, false)
    | Raised h2 => Some (h2, names, true)
    end
  | NBackward _ => None      (* needs the set of constant tensors: see nstep2 *)
  end.

(* state with the constants allocated so far *)
Definition nstep2 (st : heap * list id * list id) (s : nstmt) : option (heap * list id * list id * bool) :=
  let '(h, names, consts) := st in
  match s with
  | NBackward x => t <- nth_id names x ;; h' <- backward_model h consts t ;; Some (h', names, consts, false)
  | NOp _ args | NInplace _ _ args _ _ =>
    r <- nstep h names s ;;
    let '(h', names', raised) := r in
    hr <- resolve h names args ;;
    Some (h', names', consts ++ fresh_consts names (snd hr), raised)
  | _ => r <- nstep h names s ;; let '(h', names', raised) := r in Some (h', names', consts, raised)
  end.

(* ------------------------------------------------------------------ canonical rendering *)
Inductive item := IT (t : id) | IO (o : id) | IA (a : id) | IB (b : id).
Definition item_eqb (x y : item) : bool :=
  match x, y with
  | IT a, IT b | IO a, IO b | IA a, IA b | IB a, IB b => Nat.eqb a b
  | _, _ => false
  end.
Definition seen_in (x : item) (l : list item) : bool := existsb (item_eqb x) l.
Definition opt_item (f : id -> item) (o : option id) : list item := match o with Some x => [f x] | None => [] end.

Definition succs (h : heap) (x : item) : list item :=
  match x with
  | IT t => match getT h t with
            | Some r => opt_item IO (t_creator r) ++ opt_item IT (t_base r) ++ [IA (t_data r)]
            | None => [] end
  | IO o => match getO h o with Some r => map IT (o_vars r) ++ map IT (o_keep r) | None => [] end
  | IA a => match getA h a with Some r => opt_item IA (a_base r) ++ [IB (a_buf r)] | None => [] end
  | IB _ => []
  end.

(* pre-order DFS with an explicit stack; [seen] is in visit order *)
Fixpoint walk (fuel : nat) (h : heap) (stack seen : list item) : list item :=
  match fuel with
  | 0 => seen
  | S f => match stack with
           | [] => seen
           | x :: r => if seen_in x seen then walk f h r seen else walk f h (succs h x ++ r) (seen ++ [x])
           end
  end.

Fixpoint index_of (x : item) (l : list item) (i : nat) : option nat :=
  match l with [] => None | y :: r => if item_eqb x y then Some i else index_of x r (S i) end.
Definition num (order : list item) (x : item) : nat := match index_of x order 0 with Some i => i | None => length order end.
Definition onum (order : list item) (f : id -> item) (o : option id) : nat := match o with Some x => S (num order (f x)) | None => 0 end.

Fixpoint insert (x : nat) (l : list nat) : list nat :=
  match l with [] => [x] | y :: r => if Nat.leb x y then x :: l else y :: insert x r end.
Definition sort (l : list nat) : list nat := fold_right insert [] l.

Definition live (order : list item) (f : id -> item) (l : list id) : list nat :=
  map (fun x => num order (f x)) (filter (fun x => seen_in (f x) order) l).

Definition b2n (b : bool) : nat := if b then 1 else 0.

Definition render (h : heap) (order : list item) (x : item) : list nat :=
  match x with
  | IT t => match getT h t with
            | Some r => let ch := live order IT (lst_of h (t_children r)) in
                        [0; onum order IO (t_creator r); onum order IT (t_base r); num order (IA (t_data r)); b2n (t_grad r); 0 (* _view_grad: not compared *); length ch]
                        ++ ch ++ sort (live order IO (set_of h (t_ops r)))
            | None => [99] end
  | IO o => match getO h o with
            | Some r => [1; o_kind r; length (o_vars r)] ++ map (fun v => num order (IT v)) (o_vars r) ++ map (fun v => num order (IT v)) (o_keep r)
            | None => [99] end
  | IA a => match getA h a with
            | Some r => [2; onum order IA (a_base r); num order (IB (a_buf r))]
            | None => [99] end
  | IB _ => [3]
  end.

(* every stack entry is popped once; entries pushed = roots + successors of each visited object *)
Definition walk_fuel (h : heap) (roots : list id) : nat :=
  S (length roots + 3 * length (h_t h) + 2 * length (h_arr h)
     + fold_left (fun acc o => acc + length (o_vars (snd o)) + length (o_keep (snd o))) (h_o h) 0).
Definition canon (h : heap) (roots : list id) : list (list nat) :=
  let fuel := walk_fuel h roots in
  let order := walk fuel h (map IT roots) [] in
  map (render h order) order.

Fixpoint list_eqb {A} (e : A -> A -> bool) (a b : list A) : bool :=
  match a, b with [], [] => true | x :: a', y :: b' => e x y && list_eqb e a' b' | _, _ => false end.

(* a case: statements with, for each, whether the implementation raised and the canonical rendering it produced afterwards;
   result: index of the first statement after which model and implementation differ (stuck model = differs) *)
Fixpoint run_case (st : heap * list id * list id) (ss : list (nstmt * bool * list (list nat))) (i : nat) : option nat :=
  match ss with
  | [] => None
  | (s, raised, expect) :: r =>
    match nstep2 st s with
    | None => Some i
    | Some (h', names', consts', raised') =>
      if Bool.eqb raised raised' && list_eqb (list_eqb Nat.eqb) (canon h' names') expect
      then run_case (h', names', consts') r (S i) else Some i
    end
  end.

Definition heap_case_ok (ss : list (nstmt * bool * list (list nat))) : bool :=
  match run_case (empty_heap, [], []) ss 0 with None => true | Some _ => false end.
Definition heap_case_first_bad (ss : list (nstmt * bool * list (list nat))) : nat :=
  match run_case (empty_heap, [], []) ss 0 with None => 0 | Some i => S i end.

(* the canonical rendering the model predicts after a history (for the harness's own diagnostics) *)
Fixpoint model_canons (st : heap * list id * list id) (ss : list nstmt) : list (option (bool * list (list nat))) :=
  match ss with
  | [] => []
  | s :: r => match nstep2 st s with
              | None => [None]
              | Some (h', names', consts', raised) => Some (raised, canon h' names') :: model_canons (h', names', consts') r
              end
  end.

(* nstep is Heap.step on the resolved statement (the operands that are not tensors having been allocated first) *)
Lemma nstep_is_step h names s :
  match s with
  | NLeaf | NBackward _ | NSetShape _ _ => True
  | NOp _ args | NInplace _ _ args _ _ =>
    forall h1 ids, resolve h names args = Some (h1, ids) ->
    forall st, to_stmt s ids names = Some st ->
    match nstep h names s, step h1 st with
    | Some (h', _, _), Some o => h' = heap_of o
    | None, None => True
    | _, _ => False
    end
  | NView _ _ | NClear _ =>
    forall st, to_stmt s [] names = Some st ->
    match nstep h names s, step h st with
    | Some (h', _, _), Some o => h' = heap_of o
    | None, None => True
    | _, _ => False
    end
  end.
Proof.
  destruct s as [|k args|k p|m k args masked fails|x|x fl|x]; cbn [nstep to_stmt step]; auto.
  - intros h1 ids Hr st Hst. inversion Hst; subst; clear Hst. rewrite Hr. cbn [bind step].
    destruct (new_array h1 None None) as [h2 a]. destruct (apply_op h2 k ids [] a) as [[h3 t]|]; cbn; auto.
  - intros st Hst. destruct (nth_id names p) as [t|]; cbn in Hst; [|discriminate]. inversion Hst; subst; clear Hst.
    cbn [bind step]. destruct (apply_view h k t) as [[h3 v]|]; cbn; auto.
  - intros h1 ids Hr st Hst. destruct (nth_id names m) as [t|]; cbn in Hst; [|discriminate]. inversion Hst; subst; clear Hst.
    cbn [bind]. rewrite Hr. cbn [bind step]. destruct (inplace h1 t k ids masked fails) as [[h2|h2]|]; cbn; auto.
  - intros st Hst. destruct (nth_id names x) as [t|]; cbn in Hst; [|discriminate]. inversion Hst; subst; clear Hst.
    cbn [bind step].
    destruct (clear_graph _ h t); cbn; auto.
Qed.

Definition hcase := list (nstmt * bool * list (list nat)).
Fixpoint failing_from (cs : list hcase) (i : nat) : list nat :=
  match cs with [] => [] | c :: r => if heap_case_ok c then failing_from r (S i) else i :: failing_from r (S i) end.
Definition heap_failing (cs : list hcase) : list nat := failing_from cs 0.
Definition heap_first_bad (cs : list hcase) : list nat := map heap_case_first_bad cs.
