(* Result-dtype model for binary ufuncs with Python-scalar operands: what Tensor._op does with a non-tensor
   operand (src/mygrad/tensor_base.py:1086-1113) versus NumPy's NEP-50 "weak scalar" promotion.
   NumPy's own tables are generated into Gen/NumpyTables.v on every run.  Definitions only. *)
From Coq Require Import List Arith Bool.
Import ListNotations.

Inductive dt := Bool_ | I8 | I16 | I32 | I64 | U8 | U16 | U32 | U64 | F16 | F32 | F64.
Definition all_dt : list dt := [Bool_; I8; I16; I32; I64; U8; U16; U32; U64; F16; F32; F64].
Inductive pyk := PyBool | PyInt | PyFloat.
Definition all_pyk : list pyk := [PyBool; PyInt; PyFloat].

Definition dt_idx (d : dt) : nat :=
  match d with Bool_ => 0 | I8 => 1 | I16 => 2 | I32 => 3 | I64 => 4 | U8 => 5 | U16 => 6 | U32 => 7 | U64 => 8 | F16 => 9 | F32 => 10 | F64 => 11 end.
Definition pyk_idx (k : pyk) : nat := match k with PyBool => 0 | PyInt => 1 | PyFloat => 2 end.
Definition dt_eqb (a b : dt) : bool := Nat.eqb (dt_idx a) (dt_idx b).
Definition odt_eqb (a b : option dt) : bool :=
  match a, b with Some x, Some y => dt_eqb x y | None, None => true | _, _ => false end.

Definition look2 (tab : list (list (option dt))) (i j : nat) : option dt := nth j (nth i tab []) None.

(* the dtype NumPy gives a Python scalar when it is turned into an array on its own (what MyGrad did before the
   repair: `Tensor(2.0)` is float64 whatever the other operand is) *)
Definition py_default (k : pyk) : dt := match k with PyBool => Bool_ | PyInt => I64 | PyFloat => F64 end.
