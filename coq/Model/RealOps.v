(* Real-number meaning of the NumPy element-wise functions that have no direct counterpart in Coq's Reals (TRUSTED table: it states
   what numpy.<f> computes mathematically; harness/c02.py checks it numerically against NumPy on every run).
   Used by Gen/VjpScalar.v (regenerated from /repo). *)
From Coq Require Import Reals.
Open Scope R_scope.

Definition np_positive (x : R) : R := x.
Definition np_exp2 (x : R) : R := Rpower 2 x.
Definition np_expm1 (x : R) : R := exp x - 1.
Definition np_log2 (x : R) : R := ln x / ln 2.
Definition np_log10 (x : R) : R := ln x / ln 10.
Definition np_log1p (x : R) : R := ln (1 + x).
Definition np_logaddexp (a b : R) : R := ln (exp a + exp b).
Definition np_logaddexp2 (a b : R) : R := ln (Rpower 2 a + Rpower 2 b) / ln 2.
Definition np_arccosh (x : R) : R := ln (x + sqrt (x ^ 2 - 1)).
Definition np_arctanh (x : R) : R := / 2 * ln ((1 + x) / (1 - x)).
(* real cube root, odd *)
Definition np_cbrt (x : R) : R :=
  if Rlt_dec 0 x then Rpower x (/ 3) else if Req_EM_T x 0 then 0 else - Rpower (- x) (/ 3).
(* x ** y: specified for a positive base (and 0 ** y); a negative base (integer exponents only in NumPy) is outside the modelled domain *)
Definition np_power (x y : R) : R :=
  if Rlt_dec 0 x then Rpower x y else if Req_EM_T y 0 then 1 else 0.
Definition np_sinc (x : R) : R := if Req_EM_T x 0 then 1 else sin (PI * x) / (PI * x).
(* arctan2(y, x): the angle of the point (x, y), in (-PI, PI] *)
Definition np_arctan2 (y x : R) : R :=
  if Rlt_dec 0 x then atan (y / x)
  else if Rlt_dec 0 y then PI / 2 - atan (x / y)
  else if Rlt_dec y 0 then - (PI / 2) - atan (x / y)
  else if Rlt_dec x 0 then PI else 0.
