(* Comparison functions for the C10 constant-flag lattice. *)
From Coq Require Import List Arith Bool.
Import ListNotations.
From MG Require Import Model.ConstRule.

Definition res_code (r : init_result) : nat :=
  match r with InitOk false => 0 | InitOk true => 1 | InitTypeError => 2 | InitValueError => 3 end.

(* what: 0 constructor (tensor/Tensor/astensor/astype target kind k)
         1 operation with inputs `ins` and output kind k (tracked: op_const; untracked: the argument goes straight to the constructor)
         2 copy of a tensor with flag (hd ins)
         3 in-place target with flag (hd ins), operand flags (tl ins) *)
Definition ccase := (nat * dkind * bool * option bool * list bool * nat)%type.
Definition model_code (c : ccase) : nat :=
  let '(what, k, track, arg, ins, _) := c in
  match what with
  | 0 => res_code (init_const k track arg)
  | 1 => if track then res_code (op_const k ins arg) else res_code (init_const k false arg)
  | 2 => res_code (copy_const k track (hd true ins) arg)
  | _ => res_code (inplace_const (hd true ins) arg (tl ins))
  end.
Definition ccase_ok (c : ccase) : bool := let '(_, _, _, _, _, e) := c in Nat.eqb (model_code c) e.
Fixpoint cfailing_from (i : nat) (cs : list ccase) : list nat :=
  match cs with
  | [] => []
  | c :: cs' => if ccase_ok c then cfailing_from (S i) cs' else i :: cfailing_from (S i) cs'
  end.
Definition cfailing cs := cfailing_from 0 cs.
