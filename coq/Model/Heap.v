(* Pointer-level model of MyGrad's in-place machinery (the "P" layer): tensors, operations, weak-reference collections and
   arrays are heap objects with identities; the functions below transcribe, statement by statement,
     src/mygrad/_utils/duplicating_graph.py  (mirror_tensor, reroute_ops_through, make_placeholder_tensor, DuplicatingGraph,
                                              restore_old_graph)
     src/mygrad/tensor_base.py               (Tensor._op for tracked non-view / view operations, Tensor._in_place_op,
                                              Tensor.null_grad, Tensor.clear_graph).
   Definitions only; everything is executable (the correspondence check runs it inside Coq against the object graph of the
   real interpreter).  What is abstracted: array contents (only object identity, .base and the owning buffer are kept), the
   kernel of an operation (an oracle flag says whether it raises), lock bookkeeping (Model/LockMgr.v), the constant flag.
   Objects that CPython frees on the spot (their last reference is a local of the modelled function) are freed here too. *)
From Coq Require Import List Arith Bool PeanoNat.
Import ListNotations.

Definition id := nat.

(* operation classes are numbers (index in the harness's class table); two are interpreted by the model *)
Definition K_UNVIEW : nat := 0.
Definition K_APPLYMASK : nat := 1.

Record tens := mkT {
  t_creator : option id;     (* _creator: an operation object *)
  t_base : option id;        (* _base: a tensor object *)
  t_children : id;           (* _view_children: a WeakRefIterable object (its identity matters: mirror_tensor copies the pointer) *)
  t_ops : id;                (* _ops: a set object of weak references to operations *)
  t_data : id;               (* data: an array object *)
  t_grad : bool;             (* _grad is not None *)
  t_vgrad : bool             (* _view_grad is not None *)
}.
Record oper := mkO {
  o_kind : nat;
  o_vars : list id;          (* variables: strong references to tensors *)
  o_keep : list id           (* further strong references (UnView: the placeholders whose bound _replay_op it stores) *)
}.
Record arr := mkA { a_base : option id; a_buf : id }.

Record heap := mkH {
  h_t : list (id * tens);
  h_o : list (id * oper);
  h_set : list (id * list id);     (* set objects: the live referents *)
  h_lst : list (id * list id);     (* WeakRefIterable objects: the live referents, in order *)
  h_arr : list (id * arr);
  h_next : id
}.

Fixpoint get {A} (l : list (id * A)) (k : id) : option A :=
  match l with [] => None | (k', v) :: r => if Nat.eqb k k' then Some v else get r k end.
Fixpoint put {A} (l : list (id * A)) (k : id) (v : A) : list (id * A) :=
  match l with [] => [(k, v)] | (k', v') :: r => if Nat.eqb k k' then (k, v) :: r else (k', v') :: put r k v end.
Fixpoint del {A} (l : list (id * A)) (k : id) : list (id * A) :=
  match l with [] => [] | (k', v') :: r => if Nat.eqb k k' then r else (k', v') :: del r k end.

Definition bind {A B} (o : option A) (f : A -> option B) : option B := match o with Some a => f a | None => None end.
Notation "x <- e ;; k" := (bind e (fun x => k)) (at level 61, e at next level, right associativity).

Definition getT (h : heap) (t : id) := get (h_t h) t.
Definition getO (h : heap) (o : id) := get (h_o h) o.
Definition getA (h : heap) (a : id) := get (h_arr h) a.
Definition set_of (h : heap) (s : id) : list id := match get (h_set h) s with Some l => l | None => [] end.
Definition lst_of (h : heap) (s : id) : list id := match get (h_lst h) s with Some l => l | None => [] end.
Definition setT (h : heap) (t : id) (r : tens) := mkH (put (h_t h) t r) (h_o h) (h_set h) (h_lst h) (h_arr h) (h_next h).
Definition setO (h : heap) (o : id) (r : oper) := mkH (h_t h) (put (h_o h) o r) (h_set h) (h_lst h) (h_arr h) (h_next h).
Definition setS (h : heap) (s : id) (l : list id) := mkH (h_t h) (h_o h) (put (h_set h) s l) (h_lst h) (h_arr h) (h_next h).
Definition setL (h : heap) (s : id) (l : list id) := mkH (h_t h) (h_o h) (h_set h) (put (h_lst h) s l) (h_arr h) (h_next h).
Definition setA (h : heap) (a : id) (r : arr) := mkH (h_t h) (h_o h) (h_set h) (h_lst h) (put (h_arr h) a r) (h_next h).
Definition delT (h : heap) (t : id) := mkH (del (h_t h) t) (h_o h) (h_set h) (h_lst h) (h_arr h) (h_next h).
Definition delL (h : heap) (s : id) := mkH (h_t h) (h_o h) (h_set h) (del (h_lst h) s) (h_arr h) (h_next h).
Definition fresh (h : heap) : id * heap := (h_next h, mkH (h_t h) (h_o h) (h_set h) (h_lst h) (h_arr h) (S (h_next h))).

Definition mem (x : id) (l : list id) : bool := existsb (Nat.eqb x) l.
Definition repl (a b : id) (l : list id) : list id := map (fun v => if Nat.eqb v a then b else v) l.
Definition isSome {A} (o : option A) : bool := match o with Some _ => true | None => false end.

Definition with_base (r : tens) (b : option id) := mkT (t_creator r) b (t_children r) (t_ops r) (t_data r) (t_grad r) (t_vgrad r).
Definition with_children (r : tens) (c : id) := mkT (t_creator r) (t_base r) c (t_ops r) (t_data r) (t_grad r) (t_vgrad r).
Definition with_grads (r : tens) (g v : bool) := mkT (t_creator r) (t_base r) (t_children r) (t_ops r) (t_data r) g v.
Definition with_creator (r : tens) (c : option id) := mkT c (t_base r) (t_children r) (t_ops r) (t_data r) (t_grad r) (t_vgrad r).

(* ---------------------------------------------------------------- duplicating_graph.py *)

(* reroute_ops_through(target=tgt, source=src): every operation in src._ops has src replaced by tgt among its variables *)
Definition reroute (h : heap) (src tgt : id) : option heap :=
  ts <- getT h src ;;
  Some (fold_left (fun h o => match getO h o with
                              | Some r => setO h o (mkO (o_kind r) (repl src tgt (o_vars r)) (o_keep r))
                              | None => h end)
                  (set_of h (t_ops ts)) h).

(* mirror_tensor(target=tgt, source=src): target.__dict__ = source.__dict__.copy()  (a shallow copy: the set / list / array
   objects become shared) *)
Definition mirror (h : heap) (tgt src : id) : option heap := ts <- getT h src ;; Some (setT h tgt ts).

(* make_placeholder_tensor(original, base=b): None = the assertion "original._grad is None" fails *)
Definition make_placeholder (h : heap) (orig : id) (b : option id) : option (heap * id) :=
  ts <- getT h orig ;;
  if t_grad ts then None else
  let (p, h1) := fresh h in
  let h2 := setT h1 p (with_base ts b) in
  h3 <- reroute h2 orig p ;;
  Some (h3, p).

(* a Node: (tensor, placeholder, parent); DuplicatingGraph.mappings is keyed by id(tensor) and id(placeholder) *)
Definition node := (id * id * option id)%type.
Definition n_t (n : node) : id := fst (fst n).
Definition n_p (n : node) : id := snd (fst n).
Definition n_parent (n : node) : option id := snd n.
Definition gfind (g : list node) (x : id) : option node := find (fun n => Nat.eqb x (n_t n) || Nat.eqb x (n_p n)) g.

(* DuplicatingGraph._duplicate_graph(tensor) *)
Fixpoint dup_rec (fuel : nat) (bph : id) (t : id) (st : heap * list node) : option (heap * list node) :=
  match fuel with
  | 0 => None
  | S f =>
    let (h, g) := st in
    rt <- getT h t ;;
    (* children = [child for child in tensor._view_children if child._base is not None] *)
    let cs := filter (fun c => match getT h c with Some rc => isSome (t_base rc) | None => false end) (lst_of h (t_children rt)) in
    match cs with
    | [] =>
      (* self[tensor].placeholder._view_children = WeakRefIterable() *)
      nt <- gfind g t ;;
      tp <- getT h (n_p nt) ;;
      let (l, h1) := fresh h in
      Some (setT (setL h1 l []) (n_p nt) (with_children tp l), g)
    | _ =>
      st' <- fold_left (fun acc c => match acc with
                                     | None => None
                                     | Some (h1, g1) =>
                                       match make_placeholder h1 c (Some bph) with
                                       | None => None
                                       | Some (h2, p) => dup_rec f bph c (h2, g1 ++ [(c, p, Some t)])
                                       end
                                     end) cs (Some st) ;;
      let (h', g') := st' in
      nt <- gfind g' t ;;
      phs <- fold_right (fun c acc => match acc, gfind g' c with Some l, Some n => Some (n_p n :: l) | _, _ => None end) (Some []) cs ;;
      tp <- getT h' (n_p nt) ;;
      let (l, h1) := fresh h' in
      Some (setT (setL h1 l phs) (n_p nt) (with_children tp l), g')
    end
  end.

(* DuplicatingGraph(base) *)
Definition dup (h : heap) (b : id) : option (heap * list node) :=
  tb <- getT h b ;;
  hp <- make_placeholder h b (t_base tb) ;;
  let (h1, p) := hp in
  dup_rec (S (length (h_t h))) p b (h1, [(b, p, None)]).

(* DuplicatingGraph.__iter__: DFS over the placeholders' view-children *)
Fixpoint nodes_from (fuel : nat) (h : heap) (g : list node) (p : id) : option (list node) :=
  match fuel with
  | 0 => None
  | S f =>
    n <- gfind g p ;;
    tp <- getT h p ;;
    rest <- fold_left (fun acc c => match acc with None => None | Some l =>
                                    match nodes_from f h g c with Some l' => Some (l ++ l') | None => None end end)
                      (lst_of h (t_children tp)) (Some []) ;;
    Some (n :: rest)
  end.
Definition nodes (h : heap) (g : list node) : option (list node) :=
  match g with [] => None | b :: _ => nodes_from (S (length g)) h g (n_p b) end.

(* DuplicatingGraph.restore_old_graph *)
Definition restore (h : heap) (g : list node) : option heap :=
  ns <- nodes h g ;;
  fold_left (fun acc n => match acc with None => None | Some h1 => reroute h1 (n_p n) (n_t n) end) ns (Some h).

(* DuplicatingGraph.get_path_to_base(tensor): [leaf, parent, ..., base]; None = KeyError *)
Fixpoint path_from (fuel : nat) (g : list node) (n : node) : option (list node) :=
  match fuel with
  | 0 => None
  | S f => match n_parent n with
           | None => match g with b :: _ => Some [b] | [] => None end
           | Some par => np <- gfind g par ;; rest <- path_from f g np ;; Some (n :: rest)
           end
  end.
Definition path_to_base (g : list node) (t : id) : option (list node) := n <- gfind g t ;; path_from (S (length g)) g n.

(* the graph object dies: its placeholders (and the list objects made for them) are freed unless something refers to them;
   used on the failure paths, after the operations have been routed back *)
Definition free_placeholders (h : heap) (g : list node) : heap :=
  fold_left (fun h1 n => match getT h1 (n_p n), getT h1 (n_t n) with
                         | Some tp, Some rt => let h2 := delT h1 (n_p n) in
                                               if Nat.eqb (t_children tp) (t_children rt) then h2 else delL h2 (t_children tp)
                         | _, _ => h1 end) g h.

(* ---------------------------------------------------------------- tensor_base.py *)

(* Tensor.null_grad(_clear_view_info=clear) *)
Definition null_grad (h : heap) (t : id) (clear : bool) : option heap :=
  rt <- getT h t ;;
  let b := if clear && isSome (t_base rt) && negb (isSome (t_creator rt)) then None else t_base rt in
  Some (setT h t (with_grads (with_base rt b) false false)).

(* the loop of Tensor._op over its tensor inputs: "graph cleared but base lingers" rule; non-view operations clear gradients *)
Definition touch_inputs (h : heap) (vars : list id) (is_view : bool) : option heap :=
  fold_left (fun acc v => match acc with None => None | Some h1 =>
      tv <- getT h1 v ;;
      let b := if isSome (t_base tv) && negb (isSome (t_creator tv)) then None else t_base tv in
      let r := with_base tv b in
      Some (setT h1 v (if is_view then r else with_grads r false false)) end) vars (Some h).

Definition register (h : heap) (o : id) (vars : list id) : option heap :=
  fold_left (fun acc v => match acc with None => None | Some h1 =>
      tv <- getT h1 v ;;
      let s := set_of h1 (t_ops tv) in
      Some (if mem o s then h1 else setS h1 (t_ops tv) (s ++ [o])) end) vars (Some h).

Definition new_tensor (h : heap) (creator base : option id) (data : id) : heap * id :=
  let (t, h1) := fresh h in let (l, h2) := fresh h1 in let (s, h3) := fresh h2 in
  (setT (setS (setL h3 l []) s []) t (mkT creator base l s data false false), t).

(* a tracked operation that does not return a view, writing into / returning the array object [data] *)
Definition apply_op (h : heap) (k : nat) (vars keep : list id) (data : id) : option (heap * id) :=
  h1 <- touch_inputs h vars false ;;
  let (o, h2) := fresh h1 in
  let h3 := setO h2 o (mkO k vars keep) in
  h4 <- register h3 o vars ;;
  Some (new_tensor h4 (Some o) None data).

(* a fresh array object *)
Definition new_array (h : heap) (base : option id) (buf : option id) : heap * id :=
  let (a, h1) := fresh h in
  match buf with
  | Some b => (setA h1 a (mkA base b), a)
  | None => let (b, h2) := fresh h1 in (setA h2 a (mkA base b), a)
  end.
(* numpy: a view of array a has .base = a if a owns its memory, otherwise a.base; same buffer *)
Definition view_array (h : heap) (a : id) : option (heap * id) :=
  ra <- getA h a ;;
  Some (new_array h (Some (match a_base ra with Some b => b | None => a end)) (Some (a_buf ra))).

(* a tracked view operation of class k applied to tensor par (Tensor._op with can_return_view and a result that is a view) *)
Definition apply_view (h : heap) (k : nat) (par : id) : option (heap * id) :=
  tp0 <- getT h par ;;
  (* "if parent_var._base is not None and parent_var._creator is None: parent_var._base = None" *)
  let bp := if isSome (t_base tp0) && negb (isSome (t_creator tp0)) then None else t_base tp0 in
  let h0 := setT h par (with_base tp0 bp) in
  ha <- view_array h0 (t_data tp0) ;;
  let (h1, a) := ha in
  let base := match bp with Some b => b | None => par end in
  h2 <- touch_inputs h1 [par] true ;;
  let (o, h3) := fresh h2 in
  let h4 := setO h3 o (mkO k [par] []) in
  h5 <- register h4 o [par] ;;
  let (h6, v) := new_tensor h5 (Some o) (Some base) a in
  tp <- getT h6 par ;;
  Some (setL h6 (t_children tp) (lst_of h6 (t_children tp) ++ [v]), v).

(* Tensor.clear_graph *)
Fixpoint clear_graph (fuel : nat) (h : heap) (t : id) : option heap :=
  match fuel with
  | 0 => None
  | S f =>
    rt <- getT h t ;;
    let h1 := setS (setL h (t_children rt) []) (t_ops rt) [] in
    match t_creator rt with
    | None => Some h1
    | Some c =>
      let h2 := setT h1 t (with_creator rt None) in
      match getO h2 c with
      | None => None
      | Some oc => fold_left (fun acc v => match acc with None => None | Some h3 => clear_graph f h3 v end) (o_vars oc) (Some h2)
      end
    end
  end.

(* outcome of a statement that may raise *)
Inductive outcome := Done (h : heap) | Raised (h : heap).

(* get_placeholder_if_exists *)
Definition ph_if_exists (g : list node) (t : id) : id := match gfind g t with Some n => n_p n | None => t end.

(* Tensor._in_place_op with graph tracking on.
     m        the target tensor (self)
     inputs   the tensor operands of the operation (operands that are not tensors become fresh constant tensors: the
              harness passes them as tensors created by [new_leaf] just before)
     k        the operation class
     masked   the operation is called with a where= mask (creator.where is not True)
     fails    the kernel raises (oracle: read-only target, shapes that do not broadcast, ...)
   None = the model is stuck (a lookup of an object that does not exist: excluded by well-formedness). *)
Definition restore_prior (h : heap) (m : id) (prior : bool * bool * option id) (prior_b : option (bool * bool)) : option heap :=
  tm <- getT h m ;;
  let '(g0, v0, b0) := prior in
  let h1 := setT h m (with_grads (with_base tm b0) g0 v0) in
  match prior_b, b0 with
  | Some (gb, vb), Some b => tb <- getT h1 b ;; Some (setT h1 b (with_grads tb gb vb))
  | _, _ => Some h1
  end.

Definition inplace (h : heap) (m : id) (k : nat) (inputs : list id) (masked fails : bool) : option outcome :=
  tm0 <- getT h m ;;
  let prior := (t_grad tm0, t_vgrad tm0, t_base tm0) in
  h1 <- null_grad h m true ;;
  tm1 <- getT h1 m ;;
  (* if self._base is not None and not self._base._view_children: self._base = None *)
  h2 <- match t_base tm1 with
        | Some b => tb <- getT h1 b ;;
                    Some (match lst_of h1 (t_children tb) with [] => setT h1 m (with_base tm1 None) | _ => h1 end)
        | None => Some h1 end ;;
  tm2 <- getT h2 m ;;
  hb <- match t_base tm2 with
        | Some b => tb <- getT h2 b ;; h' <- null_grad h2 b false ;; Some (h', Some (t_grad tb, t_vgrad tb))
        | None => Some (h2, None) end ;;
  let (h3, prior_b) := hb in
  let root := match t_base tm2 with Some b => b | None => m end in
  match dup h3 root with
  | None =>
    (* DuplicatingGraph(...) itself raised (the placeholder assertion): graph is None, only the prior state is restored.
       Whatever was re-routed before the assertion stays re-routed; the model does not follow that state. *)
    None
  | Some (h4, g) =>
    match path_to_base g m with
    | None => hr <- restore h4 g ;; hr' <- restore_prior (free_placeholders hr g) m prior prior_b ;; Some (Raised hr')
    | Some path =>
      (* mutant_base = graph.base.tensor.copy(): a fresh owning array; the tensor object itself is a local *)
      let (h5, am) := new_array h4 None None in
      (* replay of the path's view operations under no_autodiff: only the final array is kept *)
      h6a <- (if Nat.eqb m root then Some (h5, am) else view_array h5 am) ;;
      let (h6, at_) := h6a in
      (* every placeholder on the path below the base must still have its creator (DisconnectedView otherwise, raised
         outside the guarded section: excluded by well-formedness, the model is stuck) *)
      if negb (forallb (fun n => match getT h6 (n_p n) with Some tp => isSome (t_creator tp) || Nat.eqb (n_t n) root | None => false end) path)
      then None else
      (* the copy and its view are locals: a failing kernel leaves no array behind *)
      if fails then hr <- restore h4 g ;; hr' <- restore_prior (free_placeholders hr g) m prior prior_b ;; Some (Raised hr')
      else
      let ins := map (ph_if_exists g) inputs in
      r1 <- apply_op h6 k ins [] at_ ;;
      let (h7, pmv) := r1 in
      nm <- gfind g m ;;
      r2 <- (if masked then apply_op h7 K_APPLYMASK [pmv; n_p nm] [] at_ else Some (h7, pmv)) ;;
      let (h8, pmv2) := r2 in
      tmc <- getT h8 m ;;
      r3 <- (match t_base tmc with
             | None => Some (h8, pmv2)
             | Some _ =>
               match g with
               | [] => None
               | nb :: _ =>
                 (* view_fn_sequence holds the bound _replay_op of the placeholders on the path below the base *)
                 let keep := map n_p (tl (rev path)) in
                 apply_op h8 K_UNVIEW [n_p nb; pmv2] keep am
               end
             end) ;;
      let (h9, mutant) := r3 in
      h10 <- mirror h9 root mutant ;;
      let h11 := delT h10 mutant in          (* "del mutant_base": the husk dies, its dictionary lives on in the base *)
      ns <- nodes h11 g ;;
      h12 <- fold_left (fun acc n => match acc with None => None | Some hh =>
                 match n_parent n with
                 | None => Some hh
                 | Some par =>
                   rt <- getT hh (n_t n) ;;
                   c <- t_creator rt ;;                  (* DisconnectedView if the husk lost its creator *)
                   oc <- getO hh c ;;
                   rv <- apply_view hh (o_kind oc) par ;;
                   let (hv, v) := rv in
                   hm <- mirror hv (n_t n) v ;;
                   tpar <- getT hm par ;;
                   (* the temporary view dies (its dictionary lives on in the husk); the husk is appended to the parent's views *)
                   let l := lst_of hm (t_children tpar) in
                   Some (setL (delT hm v) (t_children tpar) (filter (fun x => negb (Nat.eqb x v)) l ++ [n_t n]))
                 end end) ns (Some h11) ;;
      Some (Done h12)
    end
  end.

(* user-level statements, for histories *)
Definition new_leaf (h : heap) : heap * id :=
  let (h1, a) := new_array h None None in new_tensor h1 None None a.

Inductive stmt :=
| SLeaf                                           (* t = mg.tensor(...)        : result id = the new tensor *)
| SOp (k : nat) (vars : list id)                  (* t = f(vars)               : non-view operation *)
| SView (k : nat) (par : id)                      (* t = view-op(par) *)
| SInplace (m : id) (k : nat) (inputs : list id) (masked fails : bool)
| SClear (t : id).                                (* t.clear_graph() (what backward does to the graph) *)

Definition step (h : heap) (s : stmt) : option outcome :=
  match s with
  | SLeaf => Some (Done (fst (new_leaf h)))
  | SOp k vars => let (h1, a) := new_array h None None in r <- apply_op h1 k vars [] a ;; Some (Done (fst r))
  | SView k par => r <- apply_view h k par ;; Some (Done (fst r))
  | SInplace m k inputs masked fails => inplace h m k inputs masked fails
  | SClear t => h' <- clear_graph (S (length (h_t h) + length (h_o h))) h t ;; Some (Done h')
  end.

Definition heap_of (o : outcome) : heap := match o with Done h => h | Raised h => h end.
Fixpoint run (h : heap) (ss : list stmt) : option heap :=
  match ss with [] => Some h | s :: r => o <- step h s ;; run (heap_of o) r end.

Definition empty_heap : heap := mkH [] [] [] [] [] 0.
