(* C11 -- which Operation class, operand order and mode every public spelling of an operation reaches, and what
   Tensor.__array_ufunc__ does with a NumPy ufunc.  The tables come from Gen/Routes.v (regenerated from /repo on every run);
   the families below are the Python data model's and NumPy's own naming (x + y <-> __add__/__radd__/__iadd__ <-> numpy.add). *)
From Coq Require Import List String Bool Arith.
Import ListNotations.
From MG Require Import Gen.Routes.
Open Scope string_scope.

Fixpoint assoc {B} (k : string) (l : list (string * B)) : option B :=
  match l with [] => None | (k', v) :: l' => if String.eqb k k' then Some v else assoc k l' end.
Definition mem (k : string) (l : list string) : bool := existsb (String.eqb k) l.

(* ---- a route: operation class, operand order (0 = self/first, 1 = other/second), in-place? ---- *)
Definition route := (string * list nat * bool)%type.
Definition route_eqb (a b : route) : bool :=
  let '(c1, o1, i1) := a in let '(c2, o2, i2) := b in
  String.eqb c1 c2 && (if list_eq_dec Nat.eq_dec o1 o2 then true else false) && Bool.eqb i1 i2.

Inductive spelling :=
| SpMg (f : string)        (* mygrad.f(a, b) *)
| SpNp (f : string)        (* numpy.f(a, b) on tensors: __array_ufunc__ *)
| SpDunder (d : string)    (* Python operator *)
| SpMethod (m : string)    (* Tensor.m(...) *)
| SpNpFunc (f : string).   (* numpy.f(tensor, ...) through __array_function__ *)

(* routes of a spelling: for operators there may be several (the ** shortcuts) *)
Definition routes_of (s : spelling) (arity : nat) : list route :=
  let ord := seq 0 arity in
  match s with
  | SpMg f => match assoc f mg_public_ufunc with Some c => [(c, ord, false)]
              | None => match assoc f function_routes with Some c => [(c, ord, false)] | None => [] end end
  | SpNp f => match assoc f np_ufunc_override with Some (_, c) => [(c, ord, false)] | None => [] end
  | SpDunder d => match assoc d dunder_routes with Some l => l | None => [] end
  | SpMethod m => match assoc m method_routes with Some c => [(c, ord, false)] | None => [] end
  | SpNpFunc f => match assoc f np_func_override with
                  | Some g => match assoc g function_routes with Some c => [(c, ord, false)] | None => [] end
                  | None => [] end
  end.

(* ---- families ---- *)
(* binary operators: ufunc name, NumPy's registered name, dunder, reflected dunder, augmented dunder (or "" when Python/MyGrad has none) *)
Definition binary_families : list (string * string * string * string * string) :=
  [("add", "add", "__add__", "__radd__", "__iadd__");
   ("subtract", "subtract", "__sub__", "__rsub__", "__isub__");
   ("multiply", "multiply", "__mul__", "__rmul__", "__imul__");
   ("divide", "divide", "__truediv__", "__rtruediv__", "__itruediv__");
   ("true_divide", "divide", "__truediv__", "__rtruediv__", "__itruediv__");
   ("matmul", "matmul", "__matmul__", "__rmatmul__", "");
   ("power", "power", "__pow__", "__rpow__", "__ipow__")].
Definition unary_families : list (string * string * string) :=
  [("negative", "negative", "__neg__"); ("positive", "positive", "__pos__")].

(* the declared shortcut of ** : exponent literally 1 or 2 *)
Definition pow_shortcuts (inplace : bool) : list route := [("Positive", [0], inplace); ("Square", [0], inplace)].

Definition has_route (r : route) (l : list route) : bool := existsb (route_eqb r) l.
Definition only_routes (allowed l : list route) : bool := forallb (fun r => has_route r allowed) l && negb (Nat.eqb (List.length l) 0).

Definition binary_family_ok (fam : string * string * string * string * string) : bool :=
  let '(f, npf, d, rd, idd) := fam in
  match routes_of (SpMg f) 2 with
  | [(c, _, _)] =>
      only_routes [(c, [0; 1], false)] (routes_of (SpNp npf) 2) &&
      (if String.eqb d "__pow__"
       then has_route (c, [0; 1], false) (routes_of (SpDunder d) 2) && only_routes ((c, [0; 1], false) :: pow_shortcuts false) (routes_of (SpDunder d) 2)
       else only_routes [(c, [0; 1], false)] (routes_of (SpDunder d) 2)) &&
      only_routes [(c, [1; 0], false)] (routes_of (SpDunder rd) 2) &&
      (if String.eqb idd "" then true
       else if String.eqb idd "__ipow__"
       then has_route (c, [0; 1], true) (routes_of (SpDunder idd) 2) && only_routes ((c, [0; 1], true) :: pow_shortcuts true) (routes_of (SpDunder idd) 2)
       else only_routes [(c, [0; 1], true)] (routes_of (SpDunder idd) 2))
  | _ => false
  end.

Definition unary_family_ok (fam : string * string * string) : bool :=
  let '(f, npf, d) := fam in
  match routes_of (SpMg f) 1 with
  | [(c, _, _)] => only_routes [(c, [0], false)] (routes_of (SpNp npf) 1) && only_routes [(c, [0], false)] (routes_of (SpDunder d) 1)
  | _ => false
  end.

(* a Tensor method and the mygrad function of the same name reach the same class *)
Definition method_ok (m : string * string) : bool :=
  let '(name, c) := m in
  match assoc name function_routes with
  | Some c' => String.eqb c c'
  | None => mem name ["T"; "flatten"]        (* no function namesake: the .T property and Tensor.flatten *)
  end.

(* numpy function overrides: the mygrad function a NumPy function is replaced by carries NumPy's name for it
   (amax/amin being NumPy's aliases of max/min) *)
Definition np_name_ok (p : string * string) : bool :=
  let '(npname, mgname) := p in
  String.eqb npname mgname || (String.eqb npname "amax" && String.eqb mgname "max") || (String.eqb npname "amin" && String.eqb mgname "min").

(* every ufunc override maps numpy.<u> to the mygrad ufunc of the same name, whose class is the class @ufunc_creator names in the source *)
Definition ufunc_override_ok (p : string * (string * string)) : bool :=
  let '(u, (f, c)) := p in
  (String.eqb u f || (String.eqb u "divide" && String.eqb f "true_divide")) &&
  match assoc f ufunc_routes with Some c' => String.eqb c c' | None => false end.
Definition public_ufunc_ok (p : string * string) : bool :=
  let '(name, c) := p in
  match assoc name ufunc_routes with
  | Some c' => String.eqb c c'
  | None => (* public aliases of a ufunc object: abs = absolute, divide = true_divide *)
      match name with
      | "abs" => match assoc "absolute" ufunc_routes with Some c' => String.eqb c c' | None => false end
      | "divide" => match assoc "true_divide" ufunc_routes with Some c' => String.eqb c c' | None => false end
      | _ => false
      end
  end.

(* ---- Tensor.__array_ufunc__ ---- *)
(* registry first; otherwise the first fallback table (in source order) that lists the ufunc decides the caster applied to every operand:
   `asarray` unwraps any tensor, `_as_constant_array` raises for a non-constant one (if the source says so), and that exception is
   re-raised as ValueError (if the source says so); no table: NotImplemented. *)
Inductive dispatch := DTensor (c : string) | DArray | DRaise | DNotImplemented | DUnknown.
Definition table_of (t : string) : list string :=
  if String.eqb t "_REGISTERED_BOOL_ONLY_UFUNC" then bool_only_set
  else if String.eqb t "_REGISTERED_CONST_ONLY_UFUNC" then const_only_set else [].
Fixpoint fallback (u : string) (nonconstant_operand : bool) (cs : list (string * string)) : dispatch :=
  match cs with
  | [] => if au_else_notimplemented then DNotImplemented else DUnknown
  | (t, caster) :: cs' =>
      if mem u (table_of t) then
        (* casters that only unwrap tensors (asarray before /repo 's comparison fix, _as_array_operand since): the NumPy ufunc then returns an array *)
        if String.eqb caster "asarray" || String.eqb caster "_as_array_operand" then DArray
        else if String.eqb caster "_as_constant_array" then
          (if nonconstant_operand then (if const_caster_raises_on_nonconstant && au_constonly_becomes_valueerror then DRaise else DUnknown) else DArray)
        else DUnknown
      else fallback u nonconstant_operand cs'
  end.
Definition array_ufunc (u : string) (nonconstant_operand : bool) : dispatch :=
  match assoc u np_ufunc_override with
  | Some (_, c) => DTensor c
  | None => fallback u nonconstant_operand au_fallback_casters
  end.
Inductive fdispatch := FTensor (c : option string) | FArray | FNotImplemented.
Definition array_function (f : string) : fdispatch :=
  match assoc f np_func_override with
  | Some g => FTensor (assoc g function_routes)
  | None => if mem f no_diff_set then FArray else FNotImplemented
  end.

(* the rounding / modulo family of NumPy ufuncs (np.mod is np.remainder, np.fix is not a ufunc) *)
Definition rounding_modulo_family : list string :=
  ["ceil"; "floor"; "rint"; "trunc"; "floor_divide"; "remainder"; "fmod"; "divmod"; "sign"].
Definition comparison_family : list string :=
  ["equal"; "not_equal"; "less"; "less_equal"; "greater"; "greater_equal"; "logical_and"; "logical_or"; "logical_not"; "logical_xor";
   "isnan"; "isinf"; "isfinite"; "signbit"].

Definition shortcut_types_ok (p : string * list string) : bool :=
  forallb (fun k => mem k ["Number"; "np.ndarray"]) (snd p).

Fixpoint nodupb (l : list string) : bool := match l with [] => true | x :: l' => negb (mem x l') && nodupb l' end.
