(* The two casting rules for a Python-scalar operand next to an array/tensor of dtype d, evaluated on NumPy's generated
   tables, and the comparison functions of the C03 correspondence. *)
From Coq Require Import List Arith Bool.
Import ListNotations.
From MG Require Import Model.Dtype Gen.NumpyTables.

(* Tensor._op (after the repair): Python scalars are cast to np.result_type of all operands *)
Definition mg_cast (d : dt) (k : pyk) : option dt := look2 rt_tab (dt_idx d) (pyk_idx k).
(* before the repair *)
Definition mg_cast_strong (d : dt) (k : pyk) : option dt := Some (py_default k).

Definition strong (f : bufunc) (a b : dt) : option dt := look2 (strong_tab f) (dt_idx a) (dt_idx b).
(* result dtype of f(tensor d, scalar k) resp. f(scalar k, tensor d) under a casting rule *)
Definition mg_result_r (cast : dt -> pyk -> option dt) (f : bufunc) (d : dt) (k : pyk) : option dt :=
  match cast d k with Some c => strong f d c | None => None end.
Definition mg_result_l (cast : dt -> pyk -> option dt) (f : bufunc) (k : pyk) (d : dt) : option dt :=
  match cast d k with Some c => strong f c d | None => None end.
Definition np_result_r (f : bufunc) (d : dt) (k : pyk) : option dt := look2 (weak_r_tab f) (dt_idx d) (pyk_idx k).
Definition np_result_l (f : bufunc) (k : pyk) (d : dt) : option dt := look2 (weak_l_tab f) (dt_idx d) (pyk_idx k).

(* parity on one cell; a cell where np.result_type itself refuses the scalar is outside the rule *)
Definition parity_cell (cast : dt -> pyk -> option dt) (f : bufunc) (d : dt) (k : pyk) : bool :=
  match cast d k with
  | None => true
  | Some _ => odt_eqb (mg_result_r cast f d k) (np_result_r f d k) && odt_eqb (mg_result_l cast f k d) (np_result_l f k d)
  end.
Definition parity_all (cast : dt -> pyk -> option dt) : bool :=
  forallb (fun f => forallb (fun d => forallb (fun k => parity_cell cast f d k) all_pyk) all_dt) all_bufunc.

(* correspondence: (dtype of the tensor operand, kind of the scalar, dtype MyGrad cast the scalar to) *)
Definition castcase := (dt * pyk * dt)%type.
Definition castcase_ok (c : castcase) : bool :=
  let '(d, k, got) := c in odt_eqb (mg_cast d k) (Some got).
Fixpoint castfailing_from (i : nat) (cs : list castcase) : list nat :=
  match cs with
  | [] => []
  | c :: cs' => if castcase_ok c then castfailing_from (S i) cs' else i :: castfailing_from (S i) cs'
  end.
Definition castfailing cs := castfailing_from 0 cs.
