(* C02, reductions over one lane (the elements MyGrad reduces together for one output element): real-number meaning of the forward
   functions and, transcribed by hand from /repo/src/mygrad/math/sequential/ops.py, nnet/activations/softmax.py and
   nnet/losses/softmax_crossentropy.py, what backward_var sends to element i of the lane.  harness/c02.py compares these formulas
   with the implementation's gradients lane by lane for every axis / keepdims / ddof option (correspondence for a hand-written model). *)
From Coq Require Import Reals List.
Import ListNotations.
Open Scope R_scope.

Definition vsum (l : list R) : R := fold_right Rplus 0 l.
Definition vprod (l : list R) : R := fold_right Rmult 1 l.
Definition vlen (l : list R) : R := INR (length l).
Definition vmean (l : list R) : R := vsum l / vlen l.
Definition vvar (ddof : R) (l : list R) : R := vsum (map (fun x => (x - vmean l) ^ 2) l) / (vlen l - ddof).
Definition vstd (ddof : R) (l : list R) : R := sqrt (vvar ddof l).
Definition dot (g l : list R) : R := vsum (map (fun p => fst p * snd p) (combine g l)).
Definition vsoftmax (l : list R) : list R := map (fun x => exp x / vsum (map exp l)) l.
Definition vlogsoftmax (l : list R) : list R := map (fun x => x - ln (vsum (map exp l))) l.
(* cross entropy of one datum with true class y, scaled by c (= 1/N in a batch of N) *)
Definition vxent (c : R) (y : nat) (l : list R) : R := - c * nth y (vlogsoftmax l) 0.

(* the lane with element i replaced by t *)
Fixpoint upd (l : list R) (i : nat) (t : R) : list R :=
  match l, i with
  | [], _ => []
  | _ :: l', O => t :: l'
  | x :: l', S i' => x :: upd l' i' t
  end.

(* number of zeros, product with zeros replaced by 1: the bookkeeping of Prod.backward_var *)
Definition nzeros (l : list R) : nat := length (filter (fun x => if Req_EM_T x 0 then true else false) l).
Definition ones_for_zeros (l : list R) : list R := map (fun x => if Req_EM_T x 0 then 1 else x) l.

(* ---- what backward_var returns for element i (g: the incoming gradient of the lane's output element) ---- *)
Definition sum_bwd (g : R) (l : list R) (i : nat) : R := g.
Definition mean_bwd (g : R) (l : list R) (i : nat) : R := g / vlen l.
Definition var_bwd (ddof g : R) (l : list R) (i : nat) : R := (2 / (vlen l - ddof)) * (nth i l 0 - vmean l) * g.
Definition std_bwd (ddof g : R) (l : list R) (i : nat) : R :=
  (2 / (vlen l - ddof)) * (nth i l 0 - vmean l) * (g / (2 * sqrt (vvar ddof l))).
(* Prod: prod/x_i when the lane has no zero; 0 everywhere when it has >= 2 zeros; with exactly one zero, the product of the
   others at the zero and prod/x_j = 0 elsewhere *)
Definition prod_bwd (g : R) (l : list R) (i : nat) : R :=
  g * match nzeros l with
      | O => vprod l / nth i l 0
      | S O => if Req_EM_T (nth i l 0) 0 then vprod (ones_for_zeros l) / 1 else vprod l / nth i l 0
      | _ => 0
      end.
(* Softmax: sg = soft * grad;  sg - soft * sum(sg) *)
Definition softmax_bwd (g l : list R) (i : nat) : R :=
  let s := vsoftmax l in
  nth i s 0 * nth i g 0 - nth i s 0 * dot s g.
(* LogSoftmax: grad - softmax * sum(grad) *)
Definition logsoftmax_bwd (g l : list R) (i : nat) : R :=
  nth i g 0 - nth i (vsoftmax l) 0 * vsum g.
(* SoftmaxCrossEntropy: grad * (softmax - onehot(y)) * c *)
Definition xent_bwd (g c : R) (y : nat) (l : list R) (i : nat) : R :=
  g * ((nth i (vsoftmax l) 0 - (if Nat.eqb i y then 1 else 0)) * c).

(* ---- batch normalisation of one channel (lane = all elements of that channel), nnet/layers/batchnorm.py ---- *)
Definition bn_std (eps : R) (l : list R) : R := sqrt (vvar 0 l + eps).
Definition bn_xnorm (eps : R) (l : list R) : list R := map (fun x => (x - vmean l) / bn_std eps l) l.
Definition vbatchnorm (gamma beta eps : R) (l : list R) : list R := map (fun y => gamma * y + beta) (bn_xnorm eps l).
(* backward_var index 0:  (grad - mean(grad) - x_norm * (x_norm . grad) / N) / std * gamma *)
Definition bn_x_bwd (g : list R) (gamma eps : R) (l : list R) (i : nat) : R :=
  (nth i g 0 - vmean g - nth i (bn_xnorm eps l) 0 * dot g (bn_xnorm eps l) / vlen l) / bn_std eps l * gamma.
(* index 1 (gamma): einsum(grad, x_norm);  index 2 (beta): grad.sum() *)
Definition bn_gamma_bwd (g : list R) (eps : R) (l : list R) : R := dot g (bn_xnorm eps l).
Definition bn_beta_bwd (g : list R) : R := vsum g.

(* ---- vector p-norm of one lane, linalg/ops.py (Norm) ---- *)
Definition sgn (x : R) : R := if Rlt_dec 0 x then 1 else if Rlt_dec x 0 then -1 else 0.
(* |x| ** p with NumPy's 0 ** p = 0 for p > 0 (for p < 0 NumPy gives inf: lanes containing zeros are then outside the model; the harness uses zero-free lanes) *)
Definition abspow (x p : R) : R := if Req_EM_T x 0 then (if Req_EM_T p 0 then 1 else 0) else Rpower (Rabs x) p.
Definition vnorm1 (l : list R) : R := vsum (map Rabs l).
Definition vnorm2 (l : list R) : R := sqrt (vsum (map (fun x => x ^ 2) l)).
Definition vnormp (p : R) (l : list R) : R := Rpower (vsum (map (fun x => abspow x p) l)) (/ p).
Definition norm1_bwd (g : R) (l : list R) (i : nat) : R := sgn (nth i l 0) * g.
Definition norm2_bwd (g : R) (l : list R) (i : nat) : R := nth i l 0 / vnorm2 l * g.
(* general ord: |x|**(ord-1) * sign(x) * (norm / sum(|x|**ord)) * grad *)
Definition normp_bwd (p g : R) (l : list R) (i : nat) : R :=
  abspow (nth i l 0) (p - 1) * sgn (nth i l 0) * (vnormp p l / vsum (map (fun x => abspow x p) l)) * g.

(* ---- losses (nnet/losses): one datum (row of scores l, true class y), c = 1/N ---- *)
Definition relu0 (m : R) : R := if Rlt_dec 0 m then m else 0.           (* max(0, m); M <= 0 is thresholded to 0 *)
Definition step0 (m : R) : R := if Rlt_dec 0 m then 1 else 0.
(* multiclass hinge: c * sum_{j <> y} max(0, l_j - l_y + h) *)
Fixpoint hinge_sum (h ly : R) (y : nat) (j : nat) (l : list R) : R :=
  match l with
  | [] => 0
  | x :: l' => (if Nat.eqb j y then 0 else relu0 (x - ly + h)) + hinge_sum h ly y (S j) l'
  end.
Definition vhinge (c h : R) (y : nat) (l : list R) : R := c * hinge_sum h (nth y l 0) y 0 l.
Fixpoint hinge_count (h ly : R) (y : nat) (j : nat) (l : list R) : R :=
  match l with
  | [] => 0
  | x :: l' => (if Nat.eqb j y then 0 else step0 (x - ly + h)) + hinge_count h ly y (S j) l'
  end.
(* TMP = 1 where margin > 0 (0 at the label); TMP[label] = - sum(TMP); back = TMP / N *)
Definition hinge_bwd (g c h : R) (y : nat) (l : list R) (i : nat) : R :=
  g * (c * (if Nat.eqb i y then - hinge_count h (nth y l 0) y 0 l else step0 (nth i l 0 - nth y l 0 + h))).
(* margin ranking, one element pair: c * max(0, m - y (a - b)) *)
Definition vmargin (c m y a b : R) : R := c * relu0 (m - y * (a - b)).
Definition margin_bwd_a (g c m y a b : R) : R := g * ((- y) * (c * step0 (m - y * (a - b)))).
Definition margin_bwd_b (g c m y a b : R) : R := g * (y * (c * step0 (m - y * (a - b)))).
(* focal loss of one datum as a function of the probability p of its true class: - alpha (1-p)^gamma ln p  (0 < p < 1) *)
Definition vfocal (alpha gamma p : R) : R := - (alpha * Rpower (1 - p) gamma * ln p).
Definition focal_bwd (g alpha gamma p : R) : R :=
  g * (if Req_EM_T gamma 0 then - (alpha / p) else - alpha * (Rpower (1 - p) gamma / p - gamma * Rpower (1 - p) (gamma - 1) * ln p)).

(* ---- cumulative product along one lane (math/sequential/ops.py, CumProd): out_k = x_0 * ... * x_k ---- *)
Definition vcumprod (l : list R) : list R := map (fun k => vprod (firstn (S k) l)) (seq 0 (length l)).
(* dldx = reverse_cumsum(g * cumprod(x)) / x   (the branch for lanes without zeros; the patched branches for zeros are checked numerically only) *)
Definition cumprod_bwd (g l : list R) (i : nat) : R :=
  vsum (map (fun k => nth k g 0 * nth k (vcumprod l) 0) (seq i (length l - i))) / nth i l 0.
