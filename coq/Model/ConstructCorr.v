(* Comparison functions for the C17 lattice. *)
From Coq Require Import List Arith Bool.
Import ListNotations.
From MG Require Import Model.ConstRule Model.ConstCorr Model.Construct.

(* which: 0 tensor, 1 Tensor, 2 astensor, 3 copy, 4 astype ; observed: same, shares, float?, constant code (0/1/2/3), detached *)
Definition kcase17 := (nat * cin * (bool * bool * bool * nat * bool))%type.
Definition model17 (which : nat) (i : cin) : cout :=
  match which with 0 => m_tensor i | 1 => m_Tensor i | 2 => m_astensor i | 3 => m_copy i | _ => m_astype i end.
Definition case17_ok (c : kcase17) : bool :=
  let '(which, i, (same, shares, fl, code, det)) := c in
  let o := model17 which i in
  match o_const o with
  | InitOk _ =>
      Nat.eqb (res_code (o_const o)) code && Bool.eqb (o_same o) same && Bool.eqb (o_shares o) shares &&
      Bool.eqb (o_float o) fl && (o_same o || Bool.eqb (o_detached o) det)
  | _ => Nat.eqb (res_code (o_const o)) code      (* an error: nothing else to compare *)
  end.
Fixpoint failing17_from (n : nat) (cs : list kcase17) : list nat :=
  match cs with
  | [] => []
  | c :: cs' => if case17_ok c then failing17_from (S n) cs' else n :: failing17_from (S n) cs'
  end.
Definition failing17 cs := failing17_from 0 cs.
