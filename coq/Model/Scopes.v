(* Model of mygrad._utils.ContextTracker (src/mygrad/_utils/__init__.py:171-215), of the three
   manager objects no_autodiff / mem_guard_off / mem_guard_on and of turn_memory_guarding_on/off
   (src/mygrad/_utils/graph_tracking.py, src/mygrad/_utils/lock_management.py:194-340).
   Definitions only; proofs are in Proofs/ScopesP.v.  *)
From Coq Require Import List Arith Bool.
Import ListNotations.

Inductive mgr := NoAutodiff | GuardOff | GuardOn.

(* _depth and _depth_tracker (a dict, modelled as an association list, newest binding first) *)
Record mstate := { depth : nat; saved : list (nat * bool) }.

(* TRACK_GRAPH, MEM_GUARD and the three manager objects *)
Record st := { track : bool; guard : bool; m_na : mstate; m_off : mstate; m_on : mstate }.

Definition init_m : mstate := {| depth := 0; saved := [] |}.
Definition init_st : st := {| track := true; guard := true; m_na := init_m; m_off := init_m; m_on := init_m |}.

Definition get_m (s : st) (m : mgr) :=
  match m with NoAutodiff => m_na s | GuardOff => m_off s | GuardOn => m_on s end.
Definition set_m (s : st) (m : mgr) (x : mstate) : st :=
  match m with
  | NoAutodiff => {| track := track s; guard := guard s; m_na := x; m_off := m_off s; m_on := m_on s |}
  | GuardOff   => {| track := track s; guard := guard s; m_na := m_na s; m_off := x; m_on := m_on s |}
  | GuardOn    => {| track := track s; guard := guard s; m_na := m_na s; m_off := m_off s; m_on := x |}
  end.
(* the `state` property of each manager class *)
Definition get_flag (s : st) (m : mgr) := match m with NoAutodiff => track s | _ => guard s end.
Definition set_flag (s : st) (m : mgr) (b : bool) : st :=
  match m with
  | NoAutodiff => {| track := b; guard := guard s; m_na := m_na s; m_off := m_off s; m_on := m_on s |}
  | _          => {| track := track s; guard := b; m_na := m_na s; m_off := m_off s; m_on := m_on s |}
  end.
(* _enter_set_value *)
Definition enter_value (m : mgr) := match m with NoAutodiff => false | GuardOff => false | GuardOn => true end.

(* __enter__:  self._depth_tracker[self._depth] = self.state; self._depth += 1; self.state = value *)
Fixpoint dict_set (k : nat) (v : bool) (l : list (nat * bool)) : list (nat * bool) :=
  match l with
  | [] => [(k, v)]
  | (k', v') :: t => if Nat.eqb k k' then (k, v) :: t else (k', v') :: dict_set k v t
  end.
Definition enter (m : mgr) (s : st) : st :=
  let ms := get_m s m in
  let s1 := set_m s m {| depth := S (depth ms); saved := dict_set (depth ms) (get_flag s m) (saved ms) |} in
  set_flag s1 m (enter_value m).

(* dict.pop(key) ; None = KeyError *)
Fixpoint pop (k : nat) (l : list (nat * bool)) : option (bool * list (nat * bool)) :=
  match l with
  | [] => None
  | (k', v) :: t => if Nat.eqb k k' then Some (v, t)
                    else match pop k t with Some (v', t') => Some (v', (k', v) :: t') | None => None end
  end.

(* __exit__:  self._depth -= 1; self.state = self._depth_tracker.pop(self._depth) *)
Definition exit (m : mgr) (s : st) : option st :=
  let ms := get_m s m in
  let d := pred (depth ms) in
  match pop d (saved ms) with
  | Some (v, rest) => Some (set_flag (set_m s m {| depth := d; saved := rest |}) m v)
  | None => None
  end.

(* Programs: any nesting of with-blocks and decorated calls (a decorated call IS `with self: f()`),
   exceptions, try/except, the two global switches, and an observation point. *)
Inductive prog :=
| Skip
| Seq (p q : prog)
| With (m : mgr) (p : prog)        (* `with m: p`  and  `m(f)()` with body p *)
| Raise
| Try (p : prog)                   (* try: p  except: pass *)
| TurnOn | TurnOff                 (* turn_memory_guarding_on() / _off() *)
| Obs.                             (* an explicit observation point (the harness runs real ops here) *)

(* What Tensor._op does with the two switches (src/mygrad/tensor_base.py:1094-1128, 1204-1211):
   locks are taken iff TRACK_GRAPH and MEM_GUARD; the graph is recorded iff TRACK_GRAPH. *)
Record op_effect := { records_graph : bool; locks_arrays : bool }.
Definition op_gate (s : st) : op_effect :=
  {| records_graph := track s; locks_arrays := track s && guard s |}.

(* (TRACK_GRAPH, MEM_GUARD, depths, sizes of the saved tables, what an operation run here would do) *)
Definition obs := (bool * bool * (nat * nat * nat) * (nat * nat * nat) * (bool * bool))%type.
Definition observe (s : st) : obs :=
  (track s, guard s, (depth (m_na s), depth (m_off s), depth (m_on s)),
   (length (saved (m_na s)), length (saved (m_off s)), length (saved (m_on s))),
   (records_graph (op_gate s), locks_arrays (op_gate s))).

(* result: final state, raised?, trace ; None = failure inside __exit__ (KeyError).
   The trace is ghost instrumentation: one observation right after every __enter__, one right after
   every __exit__, and one per explicit Obs. *)
Fixpoint exec (p : prog) (s : st) : option (st * bool * list obs) :=
  match p with
  | Skip => Some (s, false, [])
  | Seq p q => match exec p s with
               | Some (s1, false, t1) =>
                   match exec q s1 with Some (s2, r, t2) => Some (s2, r, t1 ++ t2) | None => None end
               | r => r
               end
  | With m p => match exec p (enter m s) with
                | Some (s1, r, t) =>
                    match exit m s1 with
                    | Some s2 => Some (s2, r, observe (enter m s) :: t ++ [observe s2])
                    | None => None
                    end
                | None => None
                end
  | Raise => Some (s, true, [])
  | Try p => match exec p s with Some (s1, _, t) => Some (s1, false, t) | None => None end
  | TurnOn => Some (set_flag s GuardOn true, false, [])
  | TurnOff => Some (set_flag s GuardOn false, false, [])
  | Obs => Some (s, false, [observe s])
  end.

Fixpoint no_turn (p : prog) : bool :=
  match p with
  | Skip | Raise | Obs => true
  | Seq p q => no_turn p && no_turn q
  | With _ p | Try p => no_turn p
  | TurnOn | TurnOff => false
  end.

(* every saved binding lies below the current depth: true initially, preserved by enter/exit *)
Definition wf_m (ms : mstate) := forall k v, In (k, v) (saved ms) -> k < depth ms.
Definition wf (s : st) := wf_m (m_na s) /\ wf_m (m_off s) /\ wf_m (m_on s).

(* For the correspondence check: run a program from the initial state and also report the final observation. *)
Definition run (p : prog) : option (bool * list obs * obs) :=
  match exec p init_st with
  | Some (s, r, t) => Some (r, t, observe s)
  | None => None
  end.
