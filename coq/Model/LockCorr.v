(* Comparison functions for the C08 correspondence (primitive level). *)
From Coq Require Import List Arith Bool.
Import ListNotations.
From MG Require Import Model.LockMgr.

Fixpoint insert_sorted (x : nat) (l : list nat) : list nat :=
  match l with [] => [x] | y :: t => if Nat.leb x y then x :: l else y :: insert_sorted x t end.
Definition sort_nat (l : list nat) : list nat := fold_right insert_sorted [] l.
Fixpoint nl_eqb (a b : list nat) : bool :=
  match a, b with [], [] => true | x :: a', y :: b' => Nat.eqb x y && nl_eqb a' b' | _, _ => false end.

Definition aobs := option (bool * nat * bool * list nat).
Definition aobs_ok (s : lstate) (i : nat) (e : aobs) : bool :=
  match e with
  | None => true
  | Some (wr, cnt, trk, wt) =>
      let '(mwr, mcnt, mtrk, mwt) := obs_arr s i in
      Bool.eqb wr mwr && Nat.eqb cnt mcnt && Bool.eqb trk mtrk && nl_eqb (sort_nat wt) (sort_nat mwt)
  end.
Fixpoint snap_ok (s : lstate) (i : nat) (es : list aobs) : bool :=
  match es with [] => true | e :: es' => aobs_ok s i e && snap_ok s (S i) es' end.

(* table sizes: (#nonzero counters, #tracker entries, #waiting entries) *)
Definition sizes (s : lstate) : nat * nat * nat :=
  (length (filter (fun kv => Nat.ltb 0 (snd kv)) (counter s)), length (tracker s), length (waiting s)).

Definition kcase := (list event * list (list aobs * (nat * nat * nat)))%type.
Fixpoint run_cmp (s : lstate) (es : list event) (obs : list (list aobs * (nat * nat * nat))) : bool :=
  match es, obs with
  | [], [] => true
  | e :: es', (o, (c, t, w)) :: obs' =>
      let s1 := step s e in
      let '(mc, mt, mw) := sizes s1 in
      snap_ok s1 0 o && Nat.eqb c mc && Nat.eqb t mt && Nat.eqb w mw && run_cmp s1 es' obs'
  | _, _ => false
  end.
Definition kcase_ok (c : kcase) : bool := run_cmp l_init (fst c) (snd c).
Fixpoint kfailing_from (i : nat) (cs : list kcase) : list nat :=
  match cs with
  | [] => []
  | c :: cs' => if kcase_ok c then kfailing_from (S i) cs' else i :: kfailing_from (S i) cs'
  end.
Definition kfailing cs := kfailing_from 0 cs.
