(* Constant-flag decisions: Tensor.__init__ (src/mygrad/tensor_base.py:823-843) and Tensor._op (1181-1186).
   Definitions only. *)
From Coq Require Import List Bool.
Import ListNotations.

Inductive dkind := KBool | KInt | KFloat | KOther.          (* bool_, integer, floating, anything else (complex, object..) *)
Inductive init_result := InitOk (constant : bool) | InitTypeError | InitValueError.

Definition is_float (k : dkind) : bool := match k with KFloat => true | _ => false end.
Definition const_only (k : dkind) : bool := match k with KBool | KInt => true | _ => false end.

(* if not is_float and TRACK_GRAPH: non int/bool -> TypeError; constant is False -> ValueError.
   constant None -> not is_float *)
Definition init_const (k : dkind) (track : bool) (arg : option bool) : init_result :=
  if negb (is_float k) && track then
    if negb (const_only k) then InitTypeError
    else match arg with
         | Some false => InitValueError
         | Some true => InitOk true
         | None => InitOk true
         end
  else InitOk (match arg with None => negb (is_float k) | Some b => b end).

(* Tensor._op: the `constant` argument handed to the output tensor's constructor *)
Definition op_const_arg (inputs_const : list bool) (arg : option bool) : option bool :=
  match arg with
  | Some b => Some b
  | None => if forallb (fun c => c) inputs_const then Some true else None
  end.
(* ... and the resulting flag for an output of kind k (tracking on) *)
Definition op_const (k : dkind) (inputs_const : list bool) (arg : option bool) : init_result :=
  init_const k true (op_const_arg inputs_const arg).

(* Tensor.astype / Tensor.copy: `constant` argument, None = inherit *)
Definition copy_const (k : dkind) (track : bool) (self_const : bool) (arg : option bool) : init_result :=
  init_const k track (Some (match arg with None => self_const | Some b => b end)).

(* Tensor._in_place_op (tensor_base.py:1741): the target keeps its own flag, whatever constant= says and whatever
   the flags of the operands are *)
Definition inplace_const (target_const : bool) (arg : option bool) (inputs_const : list bool) : init_result :=
  InitOk target_const.
