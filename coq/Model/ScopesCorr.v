(* Comparison functions used by the C15 correspondence check (evaluated with vm_compute on the
   traces the implementation produced). *)
From Coq Require Import List Arith Bool.
Import ListNotations.
From MG Require Import Model.Scopes.

Definition obs_x := (bool * bool * (nat * nat * nat) * (nat * nat * nat) * option (bool * bool))%type.

Definition nat3_eqb (a b : nat * nat * nat) : bool :=
  let '(a1, a2, a3) := a in let '(b1, b2, b3) := b in Nat.eqb a1 b1 && Nat.eqb a2 b2 && Nat.eqb a3 b3.

Definition obs_match (e : obs_x) (o : obs) : bool :=
  let '(et, eg, ed, en, egate) := e in
  let '(ot, og, od, on, (orec, olock)) := o in
  Bool.eqb et ot && Bool.eqb eg og && nat3_eqb ed od && nat3_eqb en on &&
  match egate with None => true | Some (r, l) => Bool.eqb r orec && Bool.eqb l olock end.

Fixpoint trace_match (e : list obs_x) (o : list obs) : bool :=
  match e, o with
  | [], [] => true
  | x :: e', y :: o' => obs_match x y && trace_match e' o'
  | _, _ => false
  end.

(* expected = what the implementation did: None = an exception escaped from the managers *)
Definition case_ok (c : prog * option (bool * list obs_x * obs_x)) : bool :=
  let '(p, expected) := c in
  match run p, expected with
  | Some (r, t, o), Some (er, et, eo) => Bool.eqb r er && trace_match et t && obs_match eo o
  | None, None => true
  | _, _ => false
  end.

Fixpoint failing_from (i : nat) (cs : list (prog * option (bool * list obs_x * obs_x))) : list nat :=
  match cs with
  | [] => []
  | c :: cs' => if case_ok c then failing_from (S i) cs' else i :: failing_from (S i) cs'
  end.
Definition failing cs := failing_from 0 cs.
