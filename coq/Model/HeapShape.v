(* Pointer-level model of the Tensor.shape setter (src/mygrad/tensor_base.py, "@shape.setter"), on top of Model/Heap.v.
   Definitions only.  The NumPy check "self.data.shape = newshape" (raises for an incompatible shape, before anything is
   touched) is an oracle flag, like the kernel of an in-place operation. *)
From Coq Require Import List Arith Bool PeanoNat.
Import ListNotations.
From MG Require Import Model.Heap.

Definition K_RESHAPE : nat := 5.
Definition delO (h : heap) (o : id) := mkH (h_t h) (del (h_o h) o) (h_set h) (h_lst h) (h_arr h) (h_next h).

(* replay node.tensor's creator on [parent]; the result's dictionary goes into node.tensor, which is appended to the parent's
   views; the temporary dies *)
Definition replay_into (h : heap) (t parent : id) : option heap :=
  rt <- getT h t ;;
  c <- t_creator rt ;;
  oc <- getO h c ;;
  rv <- apply_view h (o_kind oc) parent ;;
  let (hv, v) := rv in
  hm <- mirror hv t v ;;
  hr <- reroute hm v t ;;
  tpar <- getT hr parent ;;
  let l := lst_of hr (t_children tpar) in
  Some (setL (delT hr v) (t_children tpar) (filter (fun x => negb (Nat.eqb x v)) l ++ [t])).

Definition set_shape (h : heap) (m : id) (fails : bool) : option outcome :=
  if fails then Some (Raised h) else
  h0 <- null_grad h m false ;;
  dg <- dup h0 m ;;
  let (h1, g) := dg in
  ns <- nodes h1 g ;;
  nb <- match g with b :: _ => Some b | [] => None end ;;
  let p := n_p nb in
  (* out = placeholder.reshape(newshape) *)
  ro <- apply_view h1 K_RESHAPE p ;;
  let (h2, out) := ro in
  tp <- getT h2 p ;;
  tout <- getT h2 out ;;
  (* out._base = placeholder.base; mirror into self; reroute (out has no consumers); del out *)
  let h3 := setT h2 out (with_base tout (t_base tp)) in
  h4 <- mirror h3 m out ;;
  h5 <- reroute h4 out m ;;
  let h6 := delT h5 out in
  (* placeholder._view_children.append(self)  (the temporary [out] is gone) *)
  let lp := filter (fun x => negb (Nat.eqb x out)) (lst_of h6 (t_children tp)) ++ [m] in
  let h7 := setL h6 (t_children tp) lp in
  (* if self was a view: its parent lists the placeholder instead of self (a new list object) *)
  h8 <- match t_base tp with
        | None => Some h7
        | Some _ =>
          c <- t_creator tp ;;
          oc <- getO h7 c ;;
          par <- hd_error (o_vars oc) ;;
          tpar <- getT h7 par ;;
          let (l, hh) := fresh h7 in
          Some (setT (setL hh l (map (fun w => if Nat.eqb w m then p else w) (lst_of h7 (t_children tpar)))) par (with_children tpar l))
        end ;;
  (* unshaped = self.reshape(old_shape) *)
  ru <- apply_view h8 K_RESHAPE m ;;
  let (h9, unshaped) := ru in
  h10 <- fold_left (fun acc n => match acc with None => None | Some hh =>
            match n_parent n with
            | None => Some hh
            | Some par => replay_into hh (n_t n) (if Nat.eqb par m then unshaped else par)
            end end) ns (Some h9) ;;
  (* [unshaped] is a local: it survives only if a re-created view refers to it (as the variable of its creator) *)
  let used := existsb (fun n => match n_parent n with Some par => Nat.eqb par m | None => false end) ns in
  if used then Some (Done h10) else
  tu <- getT h10 unshaped ;;
  tm <- getT h10 m ;;
  let h11 := delT h10 unshaped in
  let h12 := setL h11 (t_children tm) (filter (fun x => negb (Nat.eqb x unshaped)) (lst_of h11 (t_children tm))) in
  match t_creator tu with
  | Some c => Some (Done (delO (setS h12 (t_ops tm) (filter (fun x => negb (Nat.eqb x c)) (set_of h12 (t_ops tm)))) c))
  | None => Some (Done h12)
  end.
