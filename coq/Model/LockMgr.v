(* Model of mygrad._utils.lock_management (src/mygrad/_utils/lock_management.py:17-190): the three tables
   _array_counter / _array_tracker / _views_waiting_for_unlock, lock_arr_writeability,
   _release_lock_on_arr_writeability, unique_arrs_and_bases, release_writeability_lock_on_op, and NumPy's rules
   for the writeable flag (a new view inherits the current flag of the array it is taken from; its base is the
   memory owner).  Arrays are numbered in creation order; the tables are keyed by the *observed* id (`a_key`), so
   id re-use after an array died is representable.  Definitions only. *)
From Coq Require Import List Arith Bool.
Import ListNotations.

Record arr := { a_key : nat;              (* id(arr) as observed *)
                a_wr : bool;              (* arr.flags.writeable *)
                a_base : option nat;      (* index of the memory owner, None for owners *)
                a_alive : bool;           (* the ndarray object still exists *)
                a_orig : bool;            (* ghost: original flag (for a view: its owner's original flag) *)
                a_used : bool }.          (* ghost: entered at least one operation *)

Record lstate := { arrs : list arr;
                   counter : list (nat * nat);        (* _array_counter: key -> number of live ops *)
                   tracker : list (nat * nat);        (* _array_tracker: key -> index of the array the weakref points to *)
                   waiting : list (nat * list nat);   (* _views_waiting_for_unlock: key of base -> keys of views *)
                   ops : list (list nat) }.           (* ghost: arrays (indices) listed by each live operation *)

Definition l_init : lstate := {| arrs := []; counter := []; tracker := []; waiting := []; ops := [] |}.
Definition dead : arr := {| a_key := 0; a_wr := false; a_base := None; a_alive := false; a_orig := false; a_used := false |}.
Definition get (s : lstate) (i : nat) : arr := nth i (arrs s) dead.

(* ---- association lists keyed by nat ---- *)
Fixpoint aget {V} (k : nat) (l : list (nat * V)) : option V :=
  match l with [] => None | (k', v) :: t => if Nat.eqb k k' then Some v else aget k t end.
Fixpoint adel {V} (k : nat) (l : list (nat * V)) : list (nat * V) :=
  match l with [] => [] | (k', v) :: t => if Nat.eqb k k' then adel k t else (k', v) :: adel k t end.
Definition aset {V} (k : nat) (v : V) (l : list (nat * V)) : list (nat * V) := (k, v) :: adel k l.
Definition cget (k : nat) (c : list (nat * nat)) : nat := match aget k c with Some n => n | None => 0 end.

Fixpoint upd_arr (l : list arr) (i : nat) (f : arr -> arr) : list arr :=
  match l, i with
  | [], _ => []
  | a :: t, O => f a :: t
  | a :: t, S j => a :: upd_arr t j f
  end.
Definition set_wr (b : bool) (a : arr) : arr :=
  {| a_key := a_key a; a_wr := b; a_base := a_base a; a_alive := a_alive a; a_orig := a_orig a; a_used := a_used a |}.
Definition set_used (a : arr) : arr :=
  {| a_key := a_key a; a_wr := a_wr a; a_base := a_base a; a_alive := a_alive a; a_orig := a_orig a; a_used := true |}.
Definition set_dead (a : arr) : arr :=
  {| a_key := a_key a; a_wr := a_wr a; a_base := a_base a; a_alive := false; a_orig := a_orig a; a_used := a_used a |}.

Definition with_arrs (s : lstate) (l : list arr) : lstate :=
  {| arrs := l; counter := counter s; tracker := tracker s; waiting := waiting s; ops := ops s |}.

(* array_is_tracked: arr_id in _array_tracker and _array_tracker[arr_id]() is not None *)
Definition tracked (s : lstate) (i : nat) : bool :=
  match aget (a_key (get s i)) (tracker s) with
  | Some j => a_alive (get s j)
  | None => false
  end.

(* lock_arr_writeability(arr, force_lock) *)
Definition lock (s : lstate) (i : nat) (force : bool) : lstate :=
  let a := get s i in
  let k := a_key a in
  if negb (tracked s i) &&
     (negb force && negb (a_wr a) && match a_base a with None => true | Some b => negb (tracked s b) end)
  then s   (* natively read-only: do nothing *)
  else
    let '(trk, cnt) :=
      if negb (tracked s i) then (aset k i (tracker s), aset k 1 (counter s))
      else (tracker s, aset k (S (cget k (counter s))) (counter s)) in
    {| arrs := upd_arr (arrs s) i (set_wr false); counter := cnt; tracker := trk; waiting := waiting s; ops := ops s |}.

(* the loop over the views waiting for the base with index ib: an entry is acted upon only if the tracked array is alive and really is a view
   of that base; an entry whose array has died is dropped; an entry whose id now belongs to an unrelated array (id re-use) is skipped and that
   array's tracking information is left alone *)
Definition opt_nat_eqb (o : option nat) (n : nat) : bool := match o with Some m => Nat.eqb m n | None => false end.
Fixpoint wake_views (ib : nat) (vs : list nat) (arrs0 : list arr) (cnt : list (nat * nat)) (trk : list (nat * nat)) (rest : list nat)
  : list arr * list (nat * nat) * list nat :=
  match vs with
  | [] => (arrs0, trk, rest)
  | v :: vs' =>
      if Nat.ltb 0 (cget v cnt) then wake_views ib vs' arrs0 cnt trk (rest ++ [v])      (* view involved in a new op: stays *)
      else
        match aget v trk with
        | None => wake_views ib vs' arrs0 cnt trk rest                                  (* no longer tracked *)
        | Some j =>
            let aj := nth j arrs0 dead in
            if a_alive aj then
              if opt_nat_eqb (a_base aj) ib then wake_views ib vs' (upd_arr arrs0 j (set_wr true)) cnt (adel v trk) rest
              else wake_views ib vs' arrs0 cnt trk rest                                 (* id re-used by an unrelated array *)
            else wake_views ib vs' arrs0 cnt (adel v trk) rest                          (* the waiting view has died *)
        end
  end.

(* _release_lock_on_arr_writeability(arr) *)
Definition release (s : lstate) (i : nat) : lstate :=
  let a := get s i in
  let k := a_key a in
  let n := cget k (counter s) in
  let s1 :=
    if Nat.eqb n 1 then
      let cnt := adel k (counter s) in
      match a_base a with
      | Some b =>
          if negb (a_wr (get s b)) then
            (* view must wait until its base is released *)
            let kb := a_key (get s b) in
            let cur := match aget kb (waiting s) with Some l => l | None => [] end in
            let cur' := if existsb (Nat.eqb k) cur then cur else cur ++ [k] in
            {| arrs := arrs s; counter := cnt; tracker := tracker s; waiting := aset kb cur' (waiting s); ops := ops s |}
          else
            let trk := adel k (tracker s) in
            {| arrs := upd_arr (arrs s) i (set_wr true); counter := cnt; tracker := trk;
               waiting := (match trk with [] => [] | _ => waiting s end); ops := ops s |}
      | None =>
          let trk := adel k (tracker s) in
          {| arrs := upd_arr (arrs s) i (set_wr true); counter := cnt; tracker := trk;
             waiting := (match trk with [] => [] | _ => waiting s end); ops := ops s |}
      end
    else if Nat.ltb 0 n then
      {| arrs := arrs s; counter := aset k (n - 1) (counter s); tracker := tracker s; waiting := waiting s; ops := ops s |}
    else s in
  let a1 := get s1 i in
  match a_base a1, a_wr a1, aget k (waiting s1) with
  | None, true, Some vs =>
      let '(arrs2, trk2, rest) := wake_views i vs (arrs s1) (counter s1) (tracker s1) [] in
      {| arrs := arrs2; counter := counter s1; tracker := trk2;
         waiting := (match rest with [] => adel k (waiting s1) | _ => aset k rest (waiting s1) end); ops := ops s1 |}
  | _, _, _ => s1
  end.

(* unique_arrs_and_bases over a list of arrays: bases first, no repetition *)
Fixpoint uniq_bases_then (s : lstate) (l : list nat) (seen : list nat) : list nat :=
  match l with
  | [] => []
  | i :: t =>
      if existsb (Nat.eqb i) seen then uniq_bases_then s t seen
      else match a_base (get s i) with
           | Some b => if existsb (Nat.eqb b) seen then i :: uniq_bases_then s t (i :: seen)
                       else b :: i :: uniq_bases_then s t (i :: b :: seen)
           | None => i :: uniq_bases_then s t (i :: seen)
           end
  end.

Inductive event :=
| ENew (key : nat) (ro : bool)                 (* a fresh array that owns its memory *)
| EView (src key : nat)                        (* a NumPy view of array src *)
| ELock (i : nat) (force : bool)               (* lock_arr_writeability *)
| ERelease (i : nat)                           (* _release_lock_on_arr_writeability *)
| EOp (inputs : list nat) (out : option (option nat * nat))
      (* an operation is recorded: its inputs are locked (bases first); then its output array comes into being --
         Some (None, key): a fresh array, Some (Some src, key): a NumPy view of input src -- and is locked *)
| EOpDie (n : nat)                             (* the n-th live operation is finalized *)
| EDie (i : nat).                              (* the ndarray object is deallocated *)

Definition owner_of (s : lstate) (i : nat) : nat := match a_base (get s i) with Some b => b | None => i end.

Fixpoint remove_nth {X} (l : list X) (n : nat) : list X :=
  match l, n with [] , _ => [] | _ :: t, O => t | x :: t, S m => x :: remove_nth t m end.

Definition step (s : lstate) (e : event) : lstate :=
  match e with
  | ENew key ro =>
      with_arrs s (arrs s ++ [{| a_key := key; a_wr := negb ro; a_base := None; a_alive := true; a_orig := negb ro; a_used := false |}])
  | EView src key =>
      let o := owner_of s src in
      with_arrs s (arrs s ++ [{| a_key := key; a_wr := a_wr (get s src); a_base := Some o; a_alive := true;
                                 a_orig := a_orig (get s o); a_used := false |}])
  | ELock i force => lock s i force
  | ERelease i => release s i
  | EOp inputs out =>
      let order := uniq_bases_then s inputs [] in
      let s1 := fold_left (fun st i => lock st i false) order s in
      let s1' := match out with
                 | None => s1
                 | Some (None, key) =>
                     with_arrs s1 (arrs s1 ++ [{| a_key := key; a_wr := true; a_base := None; a_alive := true; a_orig := true; a_used := false |}])
                 | Some (Some src, key) =>
                     let o := owner_of s1 src in
                     with_arrs s1 (arrs s1 ++ [{| a_key := key; a_wr := a_wr (get s1 src); a_base := Some o; a_alive := true;
                                                  a_orig := a_orig (get s1 o); a_used := false |}])
                 end in
      let oidx := length (arrs s1) in
      let s2 := match out with Some _ => lock s1' oidx false | None => s1' end in
      let listed := order ++ (match out with Some _ => [oidx] | None => [] end) in
      {| arrs := fold_left (fun l i => upd_arr l i set_used) listed (arrs s2); counter := counter s2; tracker := tracker s2;
         waiting := waiting s2; ops := ops s2 ++ [listed] |}
  | EOpDie n =>
      let listed := nth n (ops s) [] in
      let s1 := fold_left (fun st i => if a_alive (get st i) then release st i else st) listed s in
      {| arrs := arrs s1; counter := counter s1; tracker := tracker s1; waiting := waiting s1; ops := remove_nth (ops s1) n |}
  | EDie i => with_arrs s (upd_arr (arrs s) i set_dead)
  end.

Definition run (es : list event) : lstate := fold_left step es l_init.

(* ---- what the correspondence check observes after every event (alive arrays only) ---- *)
Definition obs_arr (s : lstate) (i : nat) : bool * nat * bool * list nat :=
  let a := get s i in
  (a_wr a, cget (a_key a) (counter s), tracked s i,
   match aget (a_key a) (waiting s) with Some l => l | None => [] end).
