(* The exact operation registry: every operation of the exact-arithmetic fragment of MyGrad is
      out = segment_sum ( kernel ( gather map_1 x_1, ..., gather map_n x_n ) )
   with kernel either a linear combination with constant coefficient vectors plus a constant offset
   (add, subtract, negative, positive, indexing, reshaping, transposing, broadcasting, repeat, where,
   maximum/minimum/abs/relu/clip with the selection frozen at the evaluation point, sum/cumsum ...) or
   the pointwise product of the gathered operands (multiply, square, matmul, einsum, conv, prod of a
   fixed arity).  The index maps are computed by the harness with NumPy itself on labelled arrays.
   At a fixed evaluation point such an operation is, operand by operand, the linear map
      dx |-> segment_sum ( coef_p (.) gather map_p dx )
   (`lop`), which is what the engine differentiates.  Definitions only; generic in the ring. *)
From Coq Require Import List Arith Bool.
Import ListNotations.
From MG Require Import Base.EngCore Base.GatherScatter.

Section Ops.
Variable A : Type.
Variables (a0 a1 : A) (add mul : A -> A -> A).
Notation vec := (list A).
Notation gather := (gather A a0).
Notation scatter_add := (scatter_add A add).
Notation vmul := (vmul A mul).
Notation vadd := (vadd A add).

(* ---------- the linearised form ---------- *)
Record larg := { a_src : nat;            (* operand: index of the input tensor in the program *)
                 a_len : nat;            (* number of elements of that tensor *)
                 a_map : list nat;       (* working position -> operand position *)
                 a_coef : vec }.         (* working position -> coefficient *)
Record lop := { l_args : list larg; l_seg : option (nat * list nat) }.

Definition no_arg : larg := {| a_src := 0; a_len := 0; a_map := []; a_coef := [] |}.
Definition seg_fwd (s : option (nat * list nat)) (w : vec) : vec :=
  match s with None => w | Some (n, key) => scatter_add (repeat a0 n) key w end.
Definition seg_bwd (s : option (nat * list nat)) (g : vec) : vec :=
  match s with None => g | Some (_, key) => gather key g end.

Definition lop_jvp (o : lop) (p : nat) (dx : vec) : vec :=
  let a := nth p (l_args o) no_arg in seg_fwd (l_seg o) (vmul (a_coef a) (gather (a_map a) dx)).
Definition lop_vjp (o : lop) (p : nat) (g : vec) : vec :=
  let a := nth p (l_args o) no_arg in
  scatter_add (repeat a0 (a_len a)) (a_map a) (vmul (a_coef a) (seg_bwd (l_seg o) g)).

Definition to_op (o : lop) : op A :=
  {| ins := map a_src (l_args o); jvp := lop_jvp o; vjp := lop_vjp o |}.

Definition larg_wf (a : larg) : bool := forallb (fun i => Nat.ltb i (a_len a)) (a_map a).
Definition lop_wf (o : lop) : bool :=
  forallb larg_wf (l_args o) &&
  match l_seg o with None => true | Some (n, key) => forallb (fun i => Nat.ltb i n) key end.

(* ---------- concrete operations and their forward pass ---------- *)
Inductive kernel := KLin (coefs : list vec) (offset : vec) | KMul.
Record carg := { c_src : nat; c_map : list nat }.
Record cop := { c_work : nat; c_args : list carg; c_kern : kernel; c_seg : option (nat * list nat) }.

Definition gathered (vals : list vec) (o : cop) : list vec :=
  map (fun a => gather (c_map a) (nth (c_src a) vals [])) (c_args o).

Fixpoint lin_comb (coefs xs : list vec) (acc : vec) : vec :=
  match coefs, xs with
  | c :: coefs', x :: xs' => lin_comb coefs' xs' (vadd acc (vmul c x))
  | _, _ => acc
  end.
Fixpoint prod_all (xs : list vec) (acc : vec) : vec :=
  match xs with [] => acc | x :: xs' => prod_all xs' (vmul acc x) end.

Definition cop_fwd (vals : list vec) (o : cop) : vec :=
  let xs := gathered vals o in
  let w := match c_kern o with
           | KLin coefs off => lin_comb coefs xs off
           | KMul => prod_all xs (repeat a1 (c_work o))
           end in
  seg_fwd (c_seg o) w.

(* product of all gathered operands except the one at position p *)
Fixpoint prod_except (p : nat) (xs : list vec) (acc : vec) : vec :=
  match xs with
  | [] => acc
  | x :: xs' => match p with O => prod_all xs' acc | S p' => prod_except p' xs' (vmul acc x) end
  end.

(* the operation linearised at the point `vals` *)
Definition linearize (vals : list vec) (o : cop) : lop :=
  let xs := gathered vals o in
  let coef_of (p : nat) : vec :=
    match c_kern o with
    | KLin coefs _ => nth p coefs []
    | KMul => prod_except p xs (repeat a1 (c_work o))
    end in
  {| l_args := map (fun pa => let '(p, a) := pa in
                      {| a_src := c_src a; a_len := length (nth (c_src a) vals []);
                         a_map := c_map a; a_coef := coef_of p |})
                   (combine (seq 0 (length (c_args o))) (c_args o));
     l_seg := c_seg o |}.

(* ---------- programs ---------- *)
Inductive cnode :=
| CLeaf (const : bool) (v : vec)
| CApp (const : bool) (o : cop).

(* forward evaluation of a program, left to right *)
Definition eval_step (vals : list vec) (n : cnode) : list vec :=
  vals ++ [match n with CLeaf _ v => v | CApp _ o => cop_fwd vals o end].
Definition eval (P : list cnode) : list vec := fold_left eval_step P [].

(* the abstract (linearised) program the engine of EngCore works on *)
Fixpoint abstract_from (vals : list vec) (P : list cnode) : list (node A) :=
  match P with
  | [] => []
  | CLeaf c v :: P' => Leaf A c :: abstract_from (vals ++ [v]) P'
  | CApp c o :: P' => App A c (to_op (linearize vals o)) :: abstract_from (vals ++ [cop_fwd vals o]) P'
  end.
Definition abstract (P : list cnode) : list (node A) := abstract_from [] P.

Definition cop_wf_at (vals : list vec) (k : nat) (o : cop) : bool :=
  forallb (fun a => Nat.ltb (c_src a) k) (c_args o) && lop_wf (linearize vals o).
Fixpoint prog_wf_from (vals : list vec) (P : list cnode) : bool :=
  match P with
  | [] => true
  | CLeaf c v :: P' => prog_wf_from (vals ++ [v]) P'
  | CApp c o :: P' => cop_wf_at vals (length vals) o && prog_wf_from (vals ++ [cop_fwd vals o]) P'
  end.
Definition prog_wf (P : list cnode) : bool := prog_wf_from [] P.
End Ops.
