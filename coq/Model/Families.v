(* Buffer semantics of views and in-place updates (the "N" layer): a family is a flat buffer; a member reads the buffer
   through an index map; a write through a member stores values at the mapped positions, in order (later wins).
   Definitions only. *)
From Coq Require Import ZArith List Arith Bool.
Import ListNotations.
From MG Require Import Base.EngCore Base.GatherScatter Model.OpsExact.

Notation zvec := (list Z).

Fixpoint set_at (buf : zvec) (i : nat) (x : Z) : zvec :=
  match buf, i with
  | [], _ => []
  | _ :: t, O => x :: t
  | y :: t, S j => y :: set_at t j x
  end.
(* arr[positions] = values, element by element in order *)
Fixpoint write (buf : zvec) (pos : list nat) (vals : zvec) : zvec :=
  match pos, vals with
  | p :: pos', v :: vals' => write (set_at buf p v) pos' vals'
  | _, _ => buf
  end.
Definition read (buf : zvec) (map : list nat) : zvec := gather Z 0%Z map buf.

(* two members share memory iff their maps have a common position *)
Definition shares (m1 m2 : list nat) : bool := existsb (fun p => existsb (Nat.eqb p) m2) m1.

(* last writer of base position p among pos (index into the written values), if any *)
Fixpoint last_writer (pos : list nat) (p : nat) (i : nat) (acc : option nat) : option nat :=
  match pos with
  | [] => acc
  | q :: pos' => last_writer pos' p (S i) (if Nat.eqb q p then Some i else acc)
  end.

(* the functional meaning emitted by harness/inplace.py: one cop over (old base, written values) *)
Definition update_cop (n : nat) (pos : list nat) : cop Z :=
  let lw := map (fun p => last_writer pos p 0 None) (seq 0 n) in
  {| c_work := n;
     c_args := [ {| c_src := 0; c_map := seq 0 n |};
                 {| c_src := 1; c_map := map (fun o => match o with Some i => i | None => 0 end) lw |} ];
     c_kern := KLin Z [ map (fun o => match o with Some _ => 0%Z | None => 1%Z end) lw;
                        map (fun o => match o with Some _ => 1%Z | None => 0%Z end) lw ]
                      (repeat 0%Z n);
     c_seg := None |}.
