(* Decision model of tensor() / Tensor() / astensor() / asarray() / Tensor.copy / Tensor.astype
   (src/mygrad/tensor_base.py:93-357, 805-843, 950-1020, 2071-2138): which combination copies, which returns its
   argument, which dtype / constant flag results.  Definitions only. *)
From Coq Require Import List Arith Bool.
Import ListNotations.
From MG Require Import Model.ConstRule.

Inductive src_kind := SList | SArr | STen.          (* python sequence / ndarray / Tensor *)
Inductive dtarg := DNone | DSame | DOther.          (* dtype argument: absent, equal to the source dtype, different *)

Record cin := { i_kind : src_kind;
                i_float : bool;            (* source dtype is floating (else integer) *)
                i_const : bool;            (* for a Tensor source: its flag *)
                i_dt : dtarg;
                i_dt_float : bool;         (* when i_dt = DOther: is the requested dtype floating *)
                i_constant : option bool;  (* constant= *)
                i_copy : bool;
                i_ndmin_grows : bool }.    (* ndmin > ndim of the source *)

Record cout := { o_same : bool;            (* result `is` the argument *)
                 o_shares : bool;          (* result.data shares memory with the source array *)
                 o_float : bool;           (* result dtype is floating *)
                 o_const : init_result;    (* constant flag or error *)
                 o_detached : bool }.      (* creator is None (a returned-as-is tensor keeps whatever it had) *)

Definition res_float (i : cin) : bool :=
  match i_dt i with DOther => i_dt_float i | _ => i_float i end.
Definition dtype_ok (i : cin) : bool := match i_dt i with DOther => false | _ => true end.
Definition kind_of (b : bool) : dkind := if b then KFloat else KInt.

(* mygrad.tensor(x, dtype, constant=, copy=, ndmin=) with graph tracking on *)
Definition m_tensor (i : cin) : cout :=
  let pass := match i_kind i with
              | STen => negb (i_copy i) && (match i_constant i with None => true | Some c => Bool.eqb c (i_const i) end) && dtype_ok i
              | _ => false
              end in
  if pass then
    (* returned as is -- unless ndmin adds axes, which is an indexing operation producing a view *)
    if i_ndmin_grows i
    then {| o_same := false; o_shares := true; o_float := i_float i; o_const := InitOk (i_const i); o_detached := false |}
    else {| o_same := true; o_shares := true; o_float := i_float i; o_const := InitOk (i_const i); o_detached := false |}
  else
    let shares := match i_kind i with SList => false | _ => negb (i_copy i) && dtype_ok i end in
    {| o_same := false; o_shares := shares; o_float := res_float i;
       o_const := init_const (kind_of (res_float i)) true (i_constant i); o_detached := true |}.

(* Tensor(x, ...) : never passes through *)
Definition m_Tensor (i : cin) : cout :=
  let shares := match i_kind i with SList => false | _ => negb (i_copy i) && dtype_ok i end in
  {| o_same := false; o_shares := shares; o_float := res_float i;
     o_const := init_const (kind_of (res_float i)) true (i_constant i); o_detached := true |}.

(* astensor(x, dtype, constant=) = tensor(x, dtype, constant=constant, copy=False, ndmin=0) *)
Definition with_copy_false (i : cin) : cin :=
  {| i_kind := i_kind i; i_float := i_float i; i_const := i_const i; i_dt := i_dt i; i_dt_float := i_dt_float i;
     i_constant := i_constant i; i_copy := false; i_ndmin_grows := false |}.
Definition m_astensor (i : cin) : cout := m_tensor (with_copy_false i).

(* t.copy(constant=) *)
Definition m_copy (i : cin) : cout :=
  {| o_same := false; o_shares := false; o_float := i_float i;
     o_const := init_const (kind_of (i_float i)) true (Some (match i_constant i with None => i_const i | Some c => c end));
     o_detached := true |}.

(* t.astype(dtype, copy=, constant=) *)
Definition m_astype (i : cin) : cout :=
  let same_data := negb (i_copy i) && dtype_ok i in
  if same_data && (match i_constant i with None => true | Some c => Bool.eqb c (i_const i) end)
  then {| o_same := true; o_shares := true; o_float := i_float i; o_const := InitOk (i_const i); o_detached := false |}
  else {| o_same := false; o_shares := same_data; o_float := res_float i;
          o_const := init_const (kind_of (res_float i)) true (i_constant i); o_detached := true |}.

(* documented defaults of the creation routines that differ from NumPy *)
Inductive creator_fn := CZeros | COnes | CEmpty | CFull | CArange | CLinspace | CEye | CIdentity | CLike.
Definition default_is_float32 (f : creator_fn) : bool := match f with CZeros | COnes | CEmpty => true | _ => false end.
