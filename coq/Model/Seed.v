(* Shape-level model of (a) the seed check of Tensor.backward (src/mygrad/tensor_base.py:1308-1334) and
   (b) reduce_broadcast (src/mygrad/_utils/__init__.py:131-168) / grad_post_process_fn.  Shapes are lists of nat.
   Definitions only. *)
From Coq Require Import List Arith Bool.
Import ListNotations.

Fixpoint shape_eqb (a b : list nat) : bool :=
  match a, b with
  | [], [] => true
  | x :: a', y :: b' => Nat.eqb x y && shape_eqb a' b'
  | _, _ => false
  end.

(* NumPy broadcasting of two shapes, on REVERSED shapes (trailing axes first); None = not broadcastable *)
Fixpoint np_bshape_rev (a b : list nat) : option (list nat) :=
  match a, b with
  | [], _ => Some b
  | _, [] => Some a
  | x :: a', y :: b' =>
      match np_bshape_rev a' b' with
      | None => None
      | Some r => if Nat.eqb x y then Some (x :: r)
                  else if Nat.eqb x 1 then Some (y :: r)
                  else if Nat.eqb y 1 then Some (x :: r)
                  else None
      end
  end.
Definition np_bshape (a b : list nat) : option (list nat) :=
  match np_bshape_rev (rev a) (rev b) with Some r => Some (rev r) | None => None end.

(* Tensor.backward(grad): grad is accepted iff  np.multiply(ones_like(self), grad)  succeeds AND has self's shape *)
Definition seed_accept (sL sg : list nat) : bool :=
  shape_eqb sg sL ||
  match np_bshape sL sg with Some r => shape_eqb r sL | None => false end.

(* "g broadcasts INTO L": at most as many axes, every (trailing-aligned) axis of g equal to L's or 1 *)
Fixpoint into_rev (g L : list nat) : bool :=
  match g, L with
  | [], _ => true
  | _ :: _, [] => false
  | a :: g', b :: L' => (Nat.eqb a b || Nat.eqb a 1) && into_rev g' L'
  end.
Definition broadcasts_into (sg sL : list nat) : bool := into_rev (rev sg) (rev sL).

(* reduce_broadcast on shapes.  grad has shape g, the variable has shape v.
   None = the ValueError ("dimensionality of the gradient ... is less than that of its variable") *)
Definition reduce_shape (g v : list nat) : option (list nat) :=
  if shape_eqb g v then Some g else
  if Nat.ltb (length g) (length v) then None else
  let g1 := skipn (length g - length v) g in         (* grad.sum(axis = leading axes) *)
  (* keepdims-sum over the axes where g1[i] != v[i] : those axes become 1 *)
  Some (map (fun p => if Nat.eqb (fst p) (snd p) then fst p else 1) (combine g1 v)).
