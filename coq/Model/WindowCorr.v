(* Comparison functions for the C16 correspondence check. *)
From Coq Require Import ZArith List Bool.
Import ListNotations.
From MG Require Import Model.Window.
Open Scope Z_scope.

Fixpoint zlist_eqb (a b : list Z) : bool :=
  match a, b with
  | [], [] => true
  | x :: a', y :: b' => (x =? y) && zlist_eqb a' b'
  | _, _ => false
  end.

(* (shape, window, step, dilation, what the implementation returned: None = raised) *)
Definition swv_case := (list Z * list Z * list Z * list Z * option (list Z * list Z))%type.
Definition swv_ok (c : swv_case) : bool :=
  let '(shape, Ws, Ss, Ds, expected) := c in
  match swv shape Ws Ss Ds, expected with
  | Some (sh, st), Some (esh, est) => zlist_eqb sh esh && zlist_eqb st est
  | None, None => true
  | _, _ => false
  end.

(* (xs, ps, Ws, Ss, Ds, accepted?, spatial output shape) -> 0 agree | 1 known gap | 2 disagree *)
Definition conv_case := (list Z * list Z * list Z * list Z * list Z * bool * list Z)%type.
Fixpoint any_gap (xs ps Ws Ss Ds : list Z) : bool :=
  match xs, ps, Ws, Ss, Ds with
  | x :: xs', p :: ps', W :: Ws', St :: Ss', D :: Ds' => dilated_extent_gap x p W St D || any_gap xs' ps' Ws' Ss' Ds'
  | _, _, _, _, _ => false
  end.
(* every axis either accepted by the code's rule or a refused valid tiling *)
Fixpoint all_tile (xs ps Ws Ss Ds : list Z) : bool :=
  match xs, ps, Ws, Ss, Ds with
  | [], [], [], [], [] => true
  | x :: xs', p :: ps', W :: Ws', St :: Ss', D :: Ds' =>
      (conv_accepts1 x p W St D || dilated_extent_gap x p W St D) && all_tile xs' ps' Ws' Ss' Ds'
  | _, _, _, _, _ => false
  end.
Definition conv_class (c : conv_case) : nat :=
  let '(xs, ps, Ws, Ss, Ds, acc, osh) := c in
  let m := conv_accepts xs ps Ws Ss Ds in
  if Bool.eqb m acc then
    (if acc then (if zlist_eqb (conv_out xs ps Ws Ss Ds) osh then 0 else 2)
     else (if all_tile xs ps Ws Ss Ds && any_gap xs ps Ws Ss Ds then 1 else 0))%nat
  else 2%nat.

Fixpoint pool_accepts (xs Ps Ss : list Z) : bool :=
  match xs, Ps, Ss with
  | [], [], [] => true
  | x :: xs', P :: Ps', St :: Ss' => pool_accepts1 x P St && pool_accepts xs' Ps' Ss'
  | _, _, _ => false
  end.
Fixpoint pool_out (xs Ps Ss : list Z) : list Z :=
  match xs, Ps, Ss with
  | x :: xs', P :: Ps', St :: Ss' => placements x P St 1 :: pool_out xs' Ps' Ss'
  | _, _, _ => []
  end.
Definition pool_case := (list Z * list Z * list Z * bool * list Z)%type.
Definition pool_ok (c : pool_case) : bool :=
  let '(xs, Ps, Ss, acc, osh) := c in
  Bool.eqb (pool_accepts xs Ps Ss) acc && (if acc then zlist_eqb (pool_out xs Ps Ss) osh else true).

Section Idx.
  Context {A : Type} (f : A -> bool).
  Fixpoint failing_from (i : nat) (cs : list A) : list nat :=
    match cs with
    | [] => []
    | c :: cs' => if f c then failing_from (S i) cs' else i :: failing_from (S i) cs'
    end.
End Idx.
Definition swv_failing cs := failing_from swv_ok 0 cs.
Definition pool_failing cs := failing_from pool_ok 0 cs.
Definition conv_classes (cs : list conv_case) : list nat := map conv_class cs.
