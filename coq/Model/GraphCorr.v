(* Comparison functions for the correspondence of Model/GraphP.v with the implementation. *)
From Coq Require Import ZArith List Arith Bool.
Import ListNotations.
From MG Require Import Base.EngCore Base.GatherScatter Base.Dfs Base.EngOrder Model.OpsExact Model.GraphP.

Fixpoint zvec_eqb (a b : zvec) : bool :=
  match a, b with
  | [], [] => true
  | x :: a', y :: b' => Z.eqb x y && zvec_eqb a' b'
  | _, _ => false
  end.

Definition ograd_eqb (a b : option zvec) : bool :=
  match a, b with
  | None, None => true
  | Some x, Some y => zvec_eqb x y
  | _, _ => false
  end.

(* states after every statement *)
Fixpoint run_states (st : gstate) (h : list stmt) : list (gstate * outcome) :=
  match h with
  | [] => []
  | s :: h' => let '(st1, o) := exec_stmt st s in (st1, o) :: run_states st1 h'
  end.

Definition outcome_code (o : outcome) : nat :=
  match o with Ok => 0 | InvalidBackprop => 1 | BadStmt => 2 end.

(* per tensor: None = not observed; Some (grad, const, creator_is_none, hasops, value) *)
Definition tobs := option (option zvec * bool * bool * bool * zvec).
Definition creator_none (st : gstate) (k : nat) : bool :=
  match nth k (g_nodes st) (Leaf Z true) with
  | App _ _ _ => nth k (g_cleared st) true
  | Leaf _ _ => true
  end.
Definition tobs_ok (st : gstate) (k : nat) (e : tobs) : bool :=
  match e with
  | None => true
  | Some (g, c, cn, ho, v) =>
      ograd_eqb (nth k (g_grad st) None) g && Bool.eqb (n_const st k) c &&
      Bool.eqb (creator_none st k) cn && Bool.eqb (nth k (g_hasops st) false) ho &&
      zvec_eqb (nth k (g_vals st) []) v
  end.
Fixpoint snap_ok_from (st : gstate) (k : nat) (es : list tobs) : bool :=
  match es with [] => true | e :: es' => tobs_ok st k e && snap_ok_from st (S k) es' end.

(* a case: history, expected outcome codes, snapshots (index of the statement after which it was taken, observations) *)
Definition gcase := (list stmt * list nat * list (nat * list tobs))%type.

Definition state_after (sts : list (gstate * outcome)) (i : nat) : gstate :=
  match i with O => g_init | S j => fst (nth j sts (g_init, Ok)) end.

Fixpoint nat_list_eqb (a b : list nat) : bool :=
  match a, b with
  | [], [] => true
  | x :: a', y :: b' => Nat.eqb x y && nat_list_eqb a' b'
  | _, _ => false
  end.

Definition gcase_ok (c : gcase) : bool :=
  let '(h, outs, snaps) := c in
  let sts := run_states g_init h in
  nat_list_eqb (map (fun so => outcome_code (snd so)) sts) outs &&
  forallb (fun sn => snap_ok_from (state_after sts (fst sn)) 0 (snd sn)) snaps.

Fixpoint gfailing_from (i : nat) (cs : list gcase) : list nat :=
  match cs with
  | [] => []
  | c :: cs' => if gcase_ok c then gfailing_from (S i) cs' else i :: gfailing_from (S i) cs'
  end.
Definition gfailing cs := gfailing_from 0 cs.

(* for replays: what the model computes *)
Definition model_view (h : list stmt) : list (nat * list (option zvec)) :=
  map (fun so => (outcome_code (snd so), g_grad (fst so))) (run_states g_init h).

(* ------------------------------------------------------------------------------------------------
   C07: which tensors are kept alive by strong references.  Strong edges: tensor -> its creator -> the
   creator's input tensors, as long as the creator has not been cleared.  (Consumers and view children are
   weak references.)  alive = closure of the caller's roots under those edges. *)
(* Tensor._base: the memory owner of a view.  Rules of Tensor._op (tensor_base.py:1155-1167): a view's base is its
   parent's base (or the parent); a tensor whose creator is gone loses its base the next time it enters an operation. *)
Definition view_parent (o : zcop) : nat := match c_args Z o with a :: _ => c_src a | [] => 0 end.
Definition step_bases (st : gstate) (bases : list (option nat)) (s : stmt) : list (option nat) :=
  match s with
  | SLeaf _ _ => bases ++ [None]
  | SApp _ vw o =>
      let srcs := map c_src (c_args Z o) in
      if negb (forallb (fun i => Nat.ltb i (length (g_vals st))) srcs) then bases else
      let drop (b : list (option nat)) (i : nat) :=
        match nth i b None with
        | Some _ => if creator_none st i then set_nth b i None else b
        | None => b
        end in
      let bases1 := fold_left drop srcs bases in
      let p := view_parent o in
      bases1 ++ [if vw then Some (match nth p bases1 None with Some b => b | None => p end) else None]
  | _ => bases
  end.
Fixpoint bases_after (st : gstate) (bases : list (option nat)) (h : list stmt) : list (option nat) :=
  match h with
  | [] => bases
  | s :: h' => bases_after (fst (exec_stmt st s)) (step_bases st bases s) h'
  end.

Fixpoint mark_alive (fuel : nat) (P : list znode) (bases : list (option nat)) (k : nat) (acc : list bool) : list bool :=
  match fuel with
  | O => acc
  | S f =>
      if nth k acc false then acc
      else let acc := set_nth acc k true in
           let acc := fold_left (fun a i => mark_alive f P bases i a) (inputs Z P k) acc in
           match nth k bases None with Some b => mark_alive f P bases b acc | None => acc end
  end.
Definition alive_set (st : gstate) (bases : list (option nat)) (roots : list nat) : list bool :=
  let n := length (g_vals st) in
  fold_left (fun a r => mark_alive (S (S n)) (g_eff st) bases r a) roots (repeat false n).

(* (history, roots kept by the caller, expected liveness per tensor: None = not observed) *)
Definition lcase := (list stmt * list nat * list (option bool))%type.
Fixpoint live_ok_from (alive : list bool) (k : nat) (es : list (option bool)) : bool :=
  match es with
  | [] => true
  | None :: es' => live_ok_from alive (S k) es'
  | Some b :: es' => Bool.eqb (nth k alive false) b && live_ok_from alive (S k) es'
  end.
Definition lcase_ok (c : lcase) : bool :=
  let '(h, roots, es) := c in
  let st := fst (run_hist g_init h) in
  live_ok_from (alive_set st (bases_after g_init [] h) roots) 0 es.
Fixpoint lfailing_from (i : nat) (cs : list lcase) : list nat :=
  match cs with
  | [] => []
  | c :: cs' => if lcase_ok c then lfailing_from (S i) cs' else i :: lfailing_from (S i) cs'
  end.
Definition lfailing cs := lfailing_from 0 cs.

(* ------------------------------------------------------------------------------------------------
   C09: the property oracle evaluated with the proved model.  For a backward statement (the i-th model
   statement, on tensor t) that returned normally in the implementation: the gradients the implementation
   holds afterwards, for every tensor in L's cone of the graph AS RECORDED, must be those of a backward pass
   over the recorded computation alone (all earlier backward / clear_graph / null_grad statements removed). *)
Definition is_build (s : stmt) : bool := match s with SLeaf _ _ | SApp _ _ _ => true | _ => false end.
Definition recorded (h : list stmt) : list stmt := filter is_build h.

(* the finding predicate of C09 (the exact negation of the side condition of C09's partial theorem):
   a tensor whose creator was cleared is in L's traversal and has been re-used (consumer set refilled) *)
Definition stale_refill (st : gstate) (t : nat) : bool :=
  existsb (fun k => negb (Nat.eqb k t) && nth k (g_cleared st) false &&
                    match nth k (g_nodes st) (Leaf Z true) with App _ _ _ => true | Leaf _ _ => false end &&
                    nth k (g_hasops st) false)
          (order_of st t).
(* L's own creator was cleared before (L.backward() twice, or clear_graph on L): outside the property *)
Definition own_graph_cleared (st : gstate) (t : nat) : bool :=
  nth t (g_cleared st) false &&
  match nth t (g_nodes st) (Leaf Z true) with App _ _ _ => true | Leaf _ _ => false end.

(* (history, index i of the backward statement, its tensor, its seed, observed gradients after it) ->
   0 = consistent with "exact as recorded", 1 = not exact and stale_refill holds (known finding class),
   2 = not exact, no stale refill (a different violation), 3 = out of scope (own graph cleared / constant) *)
Definition c9case := (list stmt * nat * nat * option zvec * list (option (option zvec)))%type.
Fixpoint grads_match_on (order : list nat) (ref : list (option zvec)) (obs : list (option (option zvec))) : bool :=
  match order with
  | [] => true
  | k :: rest =>
      match nth k obs None with
      | None => true
      | Some g => ograd_eqb (nth k ref None) g
      end && grads_match_on rest ref obs
  end.
Definition c9class (c : c9case) : nat :=
  let '(h, i, t, seed, obs) := c in
  let pre := firstn i h in
  let st := fst (run_hist g_init pre) in
  if n_const st t || own_graph_cleared st t then 3
  else
    let rst := fst (run_hist g_init (recorded pre)) in
    let '(rst', ro) := do_backward rst t seed in
    match ro with
    | Ok => if grads_match_on (order_of rst t) (g_grad rst') obs then 0
            else if stale_refill st t then 1 else 2
    | _ => 2
    end.
Definition c9classes (cs : list c9case) : list nat := map c9class cs.

(* ------------------------------------------------------------------------------------------------
   C04 / C05: histories with in-place updates are run by the model as their functional meaning (see
   harness/inplace.py); a named tensor denotes its latest node.  Per node: None = not observed;
   Some (grad, const, value) with grad = None meaning "do not compare the gradient" (view members, see C06). *)
Definition vobs := option (option (option zvec) * bool * zvec).
(* "no gradient" and "an all-zero gradient" are identified here: whether a FULLY overwritten tensor is still formally an
   operand of the update (zero gradient) or not (no gradient) is an implementation detail of the in-place machinery, and
   the property only says that overwritten elements pass nothing to their old contents *)
Definition all_zero (v : zvec) : bool := forallb (Z.eqb 0%Z) v.
Definition ograd_eqz (a b : option zvec) : bool :=
  match a, b with
  | None, None => true
  | Some x, Some y => zvec_eqb x y
  | None, Some y => all_zero y
  | Some x, None => all_zero x
  end.
Definition vobs_ok (st : gstate) (k : nat) (e : vobs) : bool :=
  match e with
  | None => true
  | Some (g, c, v) =>
      match g with None => true | Some g' => ograd_eqz (nth k (g_grad st) None) g' end &&
      Bool.eqb (n_const st k) c && zvec_eqb (nth k (g_vals st) []) v
  end.
Fixpoint vsnap_ok_from (st : gstate) (k : nat) (es : list vobs) : bool :=
  match es with [] => true | e :: es' => vobs_ok st k e && vsnap_ok_from st (S k) es' end.
Definition fcase := (list stmt * list (nat * list vobs))%type.
Definition fcase_ok (c : fcase) : bool :=
  let '(h, snaps) := c in
  let sts := run_states g_init h in
  forallb (fun so => Nat.eqb (outcome_code (snd so)) 0) sts &&
  forallb (fun sn => vsnap_ok_from (state_after sts (fst sn)) 0 (snd sn)) snaps.
Fixpoint ffailing_from (i : nat) (cs : list fcase) : list nat :=
  match cs with
  | [] => []
  | c :: cs' => if fcase_ok c then ffailing_from (S i) cs' else i :: ffailing_from (S i) cs'
  end.
Definition ffailing cs := ffailing_from 0 cs.
