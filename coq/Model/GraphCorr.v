(* Comparison functions for the correspondence of Model/GraphP.v with the implementation. *)
From Coq Require Import ZArith List Arith Bool.
Import ListNotations.
From MG Require Import Base.EngCore Base.GatherScatter Base.Dfs Base.EngOrder Model.OpsExact Model.GraphP.

Fixpoint zvec_eqb (a b : zvec) : bool :=
  match a, b with
  | [], [] => true
  | x :: a', y :: b' => Z.eqb x y && zvec_eqb a' b'
  | _, _ => false
  end.

Definition ograd_eqb (a b : option zvec) : bool :=
  match a, b with
  | None, None => true
  | Some x, Some y => zvec_eqb x y
  | _, _ => false
  end.

(* states after every statement *)
Fixpoint run_states (st : gstate) (h : list stmt) : list (gstate * outcome) :=
  match h with
  | [] => []
  | s :: h' => let '(st1, o) := exec_stmt st s in (st1, o) :: run_states st1 h'
  end.

Definition outcome_code (o : outcome) : nat :=
  match o with Ok => 0 | InvalidBackprop => 1 | BadStmt => 2 end.

(* per tensor: None = not observed; Some (grad, const, creator_is_none, hasops, value) *)
Definition tobs := option (option zvec * bool * bool * bool * zvec).
Definition creator_none (st : gstate) (k : nat) : bool :=
  match nth k (g_nodes st) (Leaf Z true) with
  | App _ _ _ => nth k (g_cleared st) true
  | Leaf _ _ => true
  end.
Definition tobs_ok (st : gstate) (k : nat) (e : tobs) : bool :=
  match e with
  | None => true
  | Some (g, c, cn, ho, v) =>
      ograd_eqb (nth k (g_grad st) None) g && Bool.eqb (n_const st k) c &&
      Bool.eqb (creator_none st k) cn && Bool.eqb (nth k (g_hasops st) false) ho &&
      zvec_eqb (nth k (g_vals st) []) v
  end.
Fixpoint snap_ok_from (st : gstate) (k : nat) (es : list tobs) : bool :=
  match es with [] => true | e :: es' => tobs_ok st k e && snap_ok_from st (S k) es' end.

(* a case: history, expected outcome codes, snapshots (index of the statement after which it was taken, observations) *)
Definition gcase := (list stmt * list nat * list (nat * list tobs))%type.

Definition state_after (sts : list (gstate * outcome)) (i : nat) : gstate :=
  match i with O => g_init | S j => fst (nth j sts (g_init, Ok)) end.

Fixpoint nat_list_eqb (a b : list nat) : bool :=
  match a, b with
  | [], [] => true
  | x :: a', y :: b' => Nat.eqb x y && nat_list_eqb a' b'
  | _, _ => false
  end.

Definition gcase_ok (c : gcase) : bool :=
  let '(h, outs, snaps) := c in
  let sts := run_states g_init h in
  nat_list_eqb (map (fun so => outcome_code (snd so)) sts) outs &&
  forallb (fun sn => snap_ok_from (state_after sts (fst sn)) 0 (snd sn)) snaps.

Fixpoint gfailing_from (i : nat) (cs : list gcase) : list nat :=
  match cs with
  | [] => []
  | c :: cs' => if gcase_ok c then gfailing_from (S i) cs' else i :: gfailing_from (S i) cs'
  end.
Definition gfailing cs := gfailing_from 0 cs.

(* for replays: what the model computes *)
Definition model_view (h : list stmt) : list (nat * list (option zvec)) :=
  map (fun so => (outcome_code (snd so), g_grad (fst so))) (run_states g_init h).
