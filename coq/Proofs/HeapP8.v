(* HeapP8: wf is stable under changes of _base / gradient flags; T3 inplace_failure_noop. *)
From Coq Require Import List Arith Bool PeanoNat Lia.
Import ListNotations.
From MG Require Import Model.Heap.
From MG.Proofs Require Import HeapP1 HeapWfb HeapP2 HeapP3 HeapP4 HeapP5 HeapP6 HeapP7.

Lemma map_put_same {A B} (F : id * A -> B) (l : list (id * A)) t r r' :
  get l t = Some r -> F (t, r') = F (t, r) -> map F (put l t r') = map F l.
Proof. induction l as [|[k v] l IH]; simpl; [discriminate|].
  destruct (Nat.eqb t k) eqn:E; intros H HF; simpl.
  - apply Nat.eqb_eq in E; subst k. inversion H; subst v. now rewrite HF.
  - f_equal. auto. Qed.

Lemma flat_map_put_same {A B} (F : id * A -> list B) (l : list (id * A)) t r r' :
  get l t = Some r -> F (t, r') = F (t, r) -> flat_map F (put l t r') = flat_map F l.
Proof. intros H HF. rewrite !flat_map_concat_map. f_equal. eapply map_put_same; eauto. Qed.

(* a tensor record is replaced by one with the same creator / list / set pointers, a _base that is the old one or None,
   gradient flags that are the old ones or cleared *)
Definition weaker (r r' : tens) : Prop :=
  t_creator r' = t_creator r /\ t_children r' = t_children r /\ t_ops r' = t_ops r /\
  (t_base r' = t_base r \/ t_base r' = None) /\ (t_grad r' = t_grad r \/ t_grad r' = false).

Lemma wf_setT_weaker h t r r' : wf h -> getT h t = Some r -> weaker r r' -> wf (setT h t r').
Proof. intros W Ht (Hc & Hl & Ho & Hb & Hg).
  assert (Hk : keys (h_t (setT h t r')) = keys (h_t h)).
  { simpl. apply keys_put_in. eapply get_keys; eauto. }
  assert (HgetT : forall q, getT (setT h t r') q = if Nat.eqb t q then Some r' else getT h q).
  { intros q. unfold getT, setT; simpl. apply get_put. }
  assert (Hchild : forall t1 c, child_wf h t1 c -> child_wf (setT h t r') t1 c).
  { intros t1 c (H1 & rc & Erc & H2). split; auto. rewrite HgetT.
    destruct (Nat.eqb t c) eqn:E.
    - apply Nat.eqb_eq in E; subst c. rewrite Ht in Erc. inversion Erc; subst rc.
      exists r'. split; auto. intros HB.
      assert (t_base r <> None) as HB' by (destruct Hb as [Hb|Hb]; congruence).
      destruct (H2 HB') as (G & o & ro & Eo & Ego). split.
      + destruct Hg; congruence.
      + exists o, ro. split; [congruence|exact Ego].
    - exists rc. split; auto. }
  constructor.
  - rewrite Hk. apply (wf_nd_t _ W).
  - apply (wf_nd_o _ W).
  - apply (wf_nd_set _ W).
  - apply (wf_nd_lst _ W).
  - apply (wf_nd_arr _ W).
  - intros k Hkk. rewrite Hk in Hkk. now apply (wf_lt_t _ W).
  - apply (wf_lt_o _ W).
  - apply (wf_lt_set _ W).
  - apply (wf_lt_lst _ W).
  - apply (wf_lt_arr _ W).
  - intros t1 r1 H1. rewrite HgetT in H1. destruct (Nat.eqb t t1) eqn:E.
    + apply Nat.eqb_eq in E; subst t1. inversion H1; subst r1.
      destruct (wf_tens _ W _ _ Ht) as (A & B & C & D).
      split; [simpl; lia|]. split; [simpl; lia|]. split.
      * intros b0 Hb0. destruct (C b0) as (C1 & rb0 & C2); [destruct Hb as [Hb|Hb]; congruence|]. split; auto.
        rewrite HgetT. destruct (Nat.eqb t b0); eauto.
      * intros c Hcin. apply Hchild. apply D. unfold lst_of in *. simpl in Hcin. now rewrite Hl in Hcin.
    + destruct (wf_tens _ W _ _ H1) as (A & B & C & D).
      split; [exact A|]. split; [exact B|]. split.
      { intros b0 Hb0. destruct (C b0 Hb0) as (C1 & rb0 & C2). split; auto. rewrite HgetT. destruct (Nat.eqb t b0); eauto. }
      intros c Hcin. apply Hchild. apply D. exact Hcin.
  - apply (wf_oper _ W).
  - simpl. unfold getT in Ht.
    rewrite (flat_map_put_same (fun p => lst_of (setT h t r') (t_children (snd p))) (h_t h) t r r' Ht).
    + apply (wf_par _ W).
    + simpl. now rewrite Hl.
  - simpl. unfold getT in Ht. rewrite (map_put_same (fun p => t_children (snd p)) (h_t h) t r r' Ht); [apply W|simpl; auto].
  - simpl. unfold getT in Ht. rewrite (map_put_same (fun p => t_ops (snd p)) (h_t h) t r r' Ht); [apply W|simpl; auto]. Qed.

Lemma null_grad_spec h t c h' : null_grad h t c = Some h' ->
  exists r, getT h t = Some r /\
    h' = setT h t (with_grads (with_base r (if c && isSome (t_base r) && negb (isSome (t_creator r)) then None else t_base r)) false false).
Proof. unfold null_grad. intros H. apply bind_Some in H. destruct H as (r & E & H). inversion H. eauto. Qed.

Lemma getT_setT h t r q : getT (setT h t r) q = if Nat.eqb t q then Some r else getT h q.
Proof. unfold getT, setT; simpl. apply get_put. Qed.

Lemma getT_setT_eq h t r : getT (setT h t r) t = Some r.
Proof. now rewrite getT_setT, Nat.eqb_refl. Qed.

Lemma keys_setT_in h t r r0 : getT h t = Some r0 -> keys (h_t (setT h t r)) = keys (h_t h).
Proof. intros H. simpl. apply keys_put_in. eapply get_keys; eauto. Qed.

(* the heap after the preamble of _in_place_op, before DuplicatingGraph *)
Record Preamble (h : heap) (m : id) (tm0 : tens) (h3 : heap) (r2 : tens) (prior_b : option (bool * bool)) : Prop := mkPre {
  pr_wf : wf h3;
  pr_o : h_o h3 = h_o h; pr_set : h_set h3 = h_set h; pr_lst : h_lst h3 = h_lst h; pr_arr : h_arr h3 = h_arr h;
  pr_next : h_next h3 = h_next h;
  pr_keys : keys (h_t h3) = keys (h_t h);
  pr_r2 : weaker tm0 r2 /\ t_data r2 = t_data tm0 /\ t_grad r2 = false /\ t_vgrad r2 = false;
  pr_m : getT h3 m = Some r2;
  pr_b : match prior_b with
         | None => t_base r2 = None /\ forall q, q <> m -> getT h3 q = getT h q
         | Some (gb, vb) => exists b tb, t_base r2 = Some b /\ t_base tm0 = Some b /\ b < m /\ getT h b = Some tb /\
                            gb = t_grad tb /\ vb = t_vgrad tb /\
                            getT h3 b = Some (with_grads tb false false) /\
                            forall q, q <> m -> q <> b -> getT h3 q = getT h q
         end
}.

Definition pre_h2 (h1 : heap) (m : id) (tm1 : tens) : option heap :=
  match t_base tm1 with
  | Some b => tb <- getT h1 b ;;
              Some (match lst_of h1 (t_children tb) with [] => setT h1 m (with_base tm1 None) | _ => h1 end)
  | None => Some h1 end.

Definition pre_hb (h2 : heap) (tm2 : tens) : option (heap * option (bool * bool)) :=
  match t_base tm2 with
  | Some b => tb <- getT h2 b ;; h' <- null_grad h2 b false ;; Some (h', Some (t_grad tb, t_vgrad tb))
  | None => Some (h2, None) end.

Lemma preamble_spec h m tm0 h1 tm1 h2 tm2 h3 pb : wf h -> getT h m = Some tm0 ->
  null_grad h m true = Some h1 -> getT h1 m = Some tm1 -> pre_h2 h1 m tm1 = Some h2 -> getT h2 m = Some tm2 ->
  pre_hb h2 tm2 = Some (h3, pb) -> Preamble h m tm0 h3 tm2 pb.
Proof. intros W Hm NG Hm1 H2 Hm2 HB.
  apply null_grad_spec in NG. destruct NG as (r & Er & ->). rewrite Hm in Er. inversion Er; subst r. clear Er.
  remember (with_grads (with_base tm0 (if true && isSome (t_base tm0) && negb (isSome (t_creator tm0)) then None else t_base tm0)) false false) as r1 eqn:Er1.
  rewrite getT_setT_eq in Hm1. inversion Hm1; subst tm1. clear Hm1.
  assert (Wk1 : weaker tm0 r1).
  { unfold weaker. subst r1; simpl. repeat split; auto. destruct (isSome (t_base tm0) && negb (isSome (t_creator tm0))); auto. }
  assert (Hd1 : t_data r1 = t_data tm0 /\ t_grad r1 = false /\ t_vgrad r1 = false) by (subst r1; simpl; auto).
  assert (W1 : wf (setT h m r1)) by (eapply wf_setT_weaker; eauto).
  (* h2 *)
  assert (exists r2, h2 = setT h m r2 /\ weaker tm0 r2 /\ t_data r2 = t_data tm0 /\ t_grad r2 = false /\ t_vgrad r2 = false /\ wf h2 /\ tm2 = r2)
    as (r2 & -> & Wk2 & Hd2 & Hg2 & Hv2 & W2 & ->).
  { unfold pre_h2 in H2. destruct (t_base r1) as [b|] eqn:Eb1.
    - apply bind_Some in H2. destruct H2 as (tb & Etb & H2). inversion H2; subst h2. clear H2.
      destruct (lst_of (setT h m r1) (t_children tb)).
      + rewrite getT_setT_eq in Hm2. inversion Hm2; subst tm2.
        exists (with_base r1 None). split.
        { unfold setT; simpl. f_equal. clear. induction (h_t h) as [|[k v] l IH]; simpl.
          - now rewrite Nat.eqb_refl.
          - destruct (Nat.eqb m k) eqn:E; simpl; rewrite ?Nat.eqb_refl, ?E; auto. now rewrite IH. }
        assert (weaker tm0 (with_base r1 None)).
        { destruct Wk1 as (A1 & A2 & A3 & A4 & A5). unfold weaker; simpl. repeat split; auto. }
        destruct Hd1 as (D1 & D2 & D3).
        split; [exact H|]. split; [exact D1|]. split; [exact D2|]. split; [exact D3|]. split; [|reflexivity].
        eapply wf_setT_weaker; [exact W1|apply getT_setT_eq|]. unfold weaker; simpl; repeat split; auto.
      + rewrite getT_setT_eq in Hm2. inversion Hm2; subst tm2. exists r1. destruct Hd1 as (D1 & D2 & D3).
        split; [reflexivity|]. split; [exact Wk1|]. split; [exact D1|]. split; [exact D2|]. split; [exact D3|]. split; [exact W1|reflexivity].
    - inversion H2; subst h2. rewrite getT_setT_eq in Hm2. inversion Hm2; subst tm2. exists r1. destruct Hd1 as (D1 & D2 & D3).
        split; [reflexivity|]. split; [exact Wk1|]. split; [exact D1|]. split; [exact D2|]. split; [exact D3|]. split; [exact W1|reflexivity]. }
  assert (Hk2 : keys (h_t (setT h m r2)) = keys (h_t h)) by (eapply keys_setT_in; eauto).
  unfold pre_hb in HB. destruct (t_base r2) as [b|] eqn:Eb2.
  - apply bind_Some in HB. destruct HB as (tb & Etb & HB). apply bind_Some in HB. destruct HB as (h' & NG & HB).
    inversion HB; subst h' pb. clear HB.
    apply null_grad_spec in NG. destruct NG as (r & Er & ->). rewrite Etb in Er. inversion Er; subst r. clear Er.
    simpl. rewrite with_base_id.
    assert (Hb0 : t_base tm0 = Some b).
    { destruct Wk2 as (_ & _ & _ & [Hb|Hb] & _); congruence. }
    assert (Hbm : b < m) by (apply (proj1 (proj2 (proj2 (wf_tens _ W _ _ Hm))) b); auto).
    assert (Etb0 : getT h b = Some tb).
    { rewrite getT_setT in Etb. destruct (Nat.eqb m b) eqn:E; auto. apply Nat.eqb_eq in E; lia. }
    constructor; auto.
    + eapply wf_setT_weaker; [exact W2|exact Etb|]. unfold weaker; simpl; repeat split; auto.
    + rewrite (keys_setT_in _ _ _ _ Etb). exact Hk2.
    + rewrite getT_setT. destruct (Nat.eqb b m) eqn:E; [apply Nat.eqb_eq in E; lia|]. apply getT_setT_eq.
    + exists b, tb. repeat split; auto.
      * apply getT_setT_eq.
      * intros q Hq1 Hq2. rewrite !getT_setT.
        destruct (Nat.eqb b q) eqn:E1; [apply Nat.eqb_eq in E1; congruence|].
        destruct (Nat.eqb m q) eqn:E2; [apply Nat.eqb_eq in E2; congruence|]. reflexivity.
  - inversion HB; subst h3 pb. clear HB. constructor; auto.
    split; auto. intros q Hq. rewrite getT_setT. destruct (Nat.eqb m q) eqn:E; auto. apply Nat.eqb_eq in E; congruence. Qed.

(* restore_prior after the tables have been put back *)
Lemma restore_prior_spec h m tm0 h3 r2 pb hf hr' : wf h -> getT h m = Some tm0 -> Preamble h m tm0 h3 r2 pb ->
  same_tables h3 hf ->
  restore_prior hf m (t_grad tm0, t_vgrad tm0, t_base tm0) pb = Some hr' ->
  same_tables h hr' /\ h_next hr' = h_next hf.
Proof. intros W Hm P (S1 & S2 & S3 & S4 & S5) RP.
  unfold restore_prior in RP. apply bind_Some in RP. destruct RP as (tm & Etm & RP).
  assert (HgetT : forall q, getT hf q = getT h3 q) by (intros q; unfold getT; now rewrite S1).
  rewrite HgetT, (pr_m _ _ _ _ _ _ P) in Etm. inversion Etm; subst tm. clear Etm.
  destruct (pr_r2 _ _ _ _ _ _ P) as ((Wc & Wl & Wo & _) & Wd & _).
  assert (Erec : with_grads (with_base r2 (t_base tm0)) (t_grad tm0) (t_vgrad tm0) = tm0).
  { clear - Wc Wl Wo Wd. destruct tm0, r2; unfold with_grads, with_base; simpl in *. congruence. }
  rewrite Erec in RP.
  assert (Hfin : forall hr, (forall q, getT hr q = getT h q) -> keys (h_t hr) = keys (h_t h) ->
                 h_o hr = h_o hf -> h_set hr = h_set hf -> h_lst hr = h_lst hf -> h_arr hr = h_arr hf -> same_tables h hr).
  { intros hr G K O1 O2 O3 O4. unfold same_tables. split.
    - apply table_ext; auto. rewrite K. apply (wf_nd_t _ W). intros q _. apply G.
    - rewrite O1, O2, O3, O4, S2, S3, S4, S5.
      rewrite (pr_o _ _ _ _ _ _ P), (pr_set _ _ _ _ _ _ P), (pr_lst _ _ _ _ _ _ P), (pr_arr _ _ _ _ _ _ P). auto. }
  assert (Kf : keys (h_t hf) = keys (h_t h)) by (rewrite S1; apply (pr_keys _ _ _ _ _ _ P)).
  assert (Hmf : getT hf m = Some r2) by (rewrite HgetT; apply (pr_m _ _ _ _ _ _ P)).
  pose proof (pr_b _ _ _ _ _ _ P) as PB. destruct pb as [[gb vb]|].
  - destruct PB as (b & tb & B1 & B2 & B3 & B4 & -> & -> & B5 & B6). rewrite B2 in RP.
    apply bind_Some in RP. destruct RP as (tb' & Etb' & RP). inversion RP; subst hr'. clear RP.
    rewrite getT_setT in Etb'. destruct (Nat.eqb m b) eqn:E; [apply Nat.eqb_eq in E; lia|].
    rewrite HgetT, B5 in Etb'. inversion Etb'; subst tb'. clear Etb'.
    assert (with_grads (with_grads tb false false) (t_grad tb) (t_vgrad tb) = tb) as -> by (now destruct tb).
    split; [|reflexivity]. apply Hfin; auto.
    + intros q. rewrite !getT_setT. destruct (Nat.eqb b q) eqn:E1.
      * apply Nat.eqb_eq in E1; subst q. auto.
      * destruct (Nat.eqb m q) eqn:E2.
        -- apply Nat.eqb_eq in E2; subst q. auto.
        -- rewrite HgetT. apply Nat.eqb_neq in E1, E2. apply B6; auto.
    + simpl. rewrite keys_put_in; [rewrite keys_put_in; auto|].
      * eapply get_keys; exact Hmf.
      * rewrite keys_put_in by (eapply get_keys; exact Hmf). rewrite Kf. eapply get_keys; exact B4.
  - destruct PB as (B1 & B6).
    assert (hr' = setT hf m tm0) as -> by (destruct (t_base tm0); now inversion RP).
    split; [|reflexivity]. apply Hfin; auto.
    + intros q. rewrite getT_setT. destruct (Nat.eqb m q) eqn:E2.
      * apply Nat.eqb_eq in E2; subst q. auto.
      * rewrite HgetT. apply B6. apply Nat.eqb_neq in E2; auto.
    + simpl. rewrite keys_put_in; auto. eapply get_keys; exact Hmf. Qed.

(* ------------------------------------------------------------------ the body of _in_place_op, cut into pieces *)
Definition inplace_fail (h4 : heap) (g : list node) (m : id) (prior : bool * bool * option id) (prior_b : option (bool * bool)) : option outcome :=
  hr <- restore h4 g ;; hr' <- restore_prior (free_placeholders hr g) m prior prior_b ;; Some (Raised hr').

Definition rebuild_step (acc : option heap) (n : node) : option heap :=
  match acc with None => None | Some hh =>
    match n_parent n with
    | None => Some hh
    | Some par =>
      rt <- getT hh (n_t n) ;;
      c <- t_creator rt ;;
      oc <- getO hh c ;;
      rv <- apply_view hh (o_kind oc) par ;;
      let (hv, v) := rv in
      hm <- mirror hv (n_t n) v ;;
      tpar <- getT hm par ;;
      let l := lst_of hm (t_children tpar) in
      Some (setL (delT hm v) (t_children tpar) (filter (fun x => negb (Nat.eqb x v)) l ++ [n_t n]))
    end end.

Definition inplace_success (h6 : heap) (g : list node) (m : id) (k : nat) (inputs : list id) (masked : bool)
           (am at_ root : id) (path : list node) : option outcome :=
  let ins := map (ph_if_exists g) inputs in
  r1 <- apply_op h6 k ins [] at_ ;;
  let (h7, pmv) := r1 in
  nm <- gfind g m ;;
  r2 <- (if masked then apply_op h7 K_APPLYMASK [pmv; n_p nm] [] at_ else Some (h7, pmv)) ;;
  let (h8, pmv2) := r2 in
  tmc <- getT h8 m ;;
  r3 <- (match t_base tmc with
         | None => Some (h8, pmv2)
         | Some _ =>
           match g with
           | [] => None
           | nb :: _ =>
             let keep := map n_p (tl (rev path)) in
             apply_op h8 K_UNVIEW [n_p nb; pmv2] keep am
           end
         end) ;;
  let (h9, mutant) := r3 in
  h10 <- mirror h9 root mutant ;;
  let h11 := delT h10 mutant in
  ns <- nodes h11 g ;;
  h12 <- fold_left rebuild_step ns (Some h11) ;;
  Some (Done h12).

Definition path_check (h6 : heap) (root : id) (path : list node) : bool :=
  forallb (fun n => match getT h6 (n_p n) with Some tp => isSome (t_creator tp) || Nat.eqb (n_t n) root | None => false end) path.

Lemma inplace_unfold h m k inputs masked fails :
  inplace h m k inputs masked fails =
  (tm0 <- getT h m ;;
   h1 <- null_grad h m true ;;
   tm1 <- getT h1 m ;;
   h2 <- pre_h2 h1 m tm1 ;;
   tm2 <- getT h2 m ;;
   hb <- pre_hb h2 tm2 ;;
   let (h3, prior_b) := hb in
   let prior := (t_grad tm0, t_vgrad tm0, t_base tm0) in
   let root := match t_base tm2 with Some b => b | None => m end in
   match dup h3 root with
   | None => None
   | Some (h4, g) =>
     match path_to_base g m with
     | None => inplace_fail h4 g m prior prior_b
     | Some path =>
       let (h5, am) := new_array h4 None None in
       h6a <- (if Nat.eqb m root then Some (h5, am) else view_array h5 am) ;;
       let (h6, at_) := h6a in
       if negb (path_check h6 root path) then None else
       if fails then inplace_fail h4 g m prior prior_b
       else inplace_success h6 g m k inputs masked am at_ root path
     end
   end).
Proof. reflexivity. Qed.

(* ------------------------------------------------------------------ T3 *)
Lemma inplace_fail_noop h m tm0 h3 r2 pb root h4 g out : wf h -> getT h m = Some tm0 -> Preamble h m tm0 h3 r2 pb ->
  dup h3 root = Some (h4, g) ->
  inplace_fail h4 g m (t_grad tm0, t_vgrad tm0, t_base tm0) pb = Some out ->
  exists h', out = Raised h' /\ same_tables h h' /\ h_next h <= h_next h'.
Proof. intros W Hm P D F. unfold inplace_fail in F.
  apply bind_Some in F. destruct F as (hr & R & F). apply bind_Some in F. destruct F as (hr' & RP & F).
  inversion F; subst out. exists hr'. split; auto.
  destruct (dup_restore_given h3 root h4 g (pr_wf _ _ _ _ _ _ P) D) as (hr2 & R2 & ST & N1 & N2).
  rewrite R in R2. inversion R2; subst hr2.
  destruct (restore_prior_spec h m tm0 h3 r2 pb _ hr' W Hm P ST RP) as (A & B). split; auto.
  rewrite B, N1. rewrite <- (pr_next _ _ _ _ _ _ P). exact N2. Qed.

(* every raising outcome of an in-place statement (failing kernel, or stale view: path_to_base = None) leaves the five tables untouched *)
Theorem inplace_raised_noop_next h m k inputs masked fails h' : wf h ->
  inplace h m k inputs masked fails = Some (Raised h') -> same_tables h h' /\ h_next h <= h_next h'.
Proof. intros W H. rewrite inplace_unfold in H.
  apply bind_Some in H. destruct H as (tm0 & Hm & H).
  apply bind_Some in H. destruct H as (h1 & NG & H).
  apply bind_Some in H. destruct H as (tm1 & Hm1 & H).
  apply bind_Some in H. destruct H as (h2 & H2 & H).
  apply bind_Some in H. destruct H as (tm2 & Hm2 & H).
  apply bind_Some in H. destruct H as ([h3 pb] & HB & H).
  pose proof (preamble_spec h m tm0 h1 tm1 h2 tm2 h3 pb W Hm NG Hm1 H2 Hm2 HB) as P.
  simpl in H.
  destruct (dup h3 (match t_base tm2 with Some b => b | None => m end)) as [[h4 g]|] eqn:D; [|discriminate].
  destruct (path_to_base g m) as [path|].
  - destruct (new_array h4 None None) as [h5 am].
    apply bind_Some in H. destruct H as ([h6 at_] & _ & H).
    destruct (negb (path_check h6 _ path)); [discriminate|].
    destruct fails.
    + destruct (inplace_fail_noop h m tm0 h3 tm2 pb _ h4 g _ W Hm P D H) as (h'' & E & ST). inversion E; subst. exact ST.
    + unfold inplace_success in H.
      repeat (match type of H with
              | bind _ _ = Some _ => apply bind_Some in H; destruct H as (? & _ & H)
              | (let (_, _) := ?x in _) = Some _ => destruct x
              end).
      discriminate.
  - destruct (inplace_fail_noop h m tm0 h3 tm2 pb _ h4 g _ W Hm P D H) as (h'' & E & ST). inversion E; subst. exact ST. Qed.

Theorem inplace_raised_noop h m k inputs masked fails h' : wf h ->
  inplace h m k inputs masked fails = Some (Raised h') -> same_tables h h'.
Proof. intros W H. apply (inplace_raised_noop_next h m k inputs masked fails h' W H). Qed.

Theorem inplace_failure_noop h m k inputs masked out : wf h ->
  inplace h m k inputs masked true = Some out -> exists h', out = Raised h' /\ same_tables h h'.
Proof. intros W H. assert (exists h', out = Raised h') as (h' & ->).
  { rewrite inplace_unfold in H.
    repeat (match type of H with
            | bind _ _ = Some _ => apply bind_Some in H; destruct H as (? & _ & H)
            | (let (_, _) := ?x in _) = Some _ => destruct x
            end).
    simpl in H.
    destruct (dup _ _) as [[h4 g]|]; [|discriminate].
    assert (forall pr pb, inplace_fail h4 g m pr pb = Some out -> exists h', out = Raised h') as K.
    { intros pr pb F. unfold inplace_fail in F.
      apply bind_Some in F. destruct F as (? & _ & F). apply bind_Some in F. destruct F as (? & _ & F). inversion F; eauto. }
    destruct (path_to_base g m); [|eapply K; eauto].
    destruct (new_array h4 None None). apply bind_Some in H. destruct H as ([? ?] & _ & H).
    destruct (negb _); [discriminate|]. eapply K; eauto. }
  exists h'. split; auto. eapply inplace_raised_noop; eauto. Qed.
