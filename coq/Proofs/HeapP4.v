(* HeapP4: reroute, gfind / ph_if_exists, the duplication invariant and its two elementary steps
   (make a placeholder for one more tensor; give a placeholder its list of children). *)
From Coq Require Import List Arith Bool PeanoNat Lia.
Import ListNotations.
From MG Require Import Model.Heap.
From MG.Proofs Require Import HeapP1 HeapWfb HeapP2 HeapP3.

(* ------------------------------------------------------------------ reroute *)

Lemma repl_idem a b l : repl a b (repl a b l) = repl a b l.
Proof. unfold repl. rewrite map_map. apply map_ext. intros v.
  destruct (Nat.eqb v a) eqn:E; auto.
  - destruct (Nat.eqb b a); auto.
  - now rewrite E. Qed.

Definition rr_fun (src tgt : id) (S : list id) (o : id) (r : oper) : oper :=
  if mem o S then mkO (o_kind r) (repl src tgt (o_vars r)) (o_keep r) else r.

Definition rr_step (src tgt : id) (h : heap) (o : id) : heap :=
  match getO h o with
  | Some r => setO h o (mkO (o_kind r) (repl src tgt (o_vars r)) (o_keep r))
  | None => h end.

Lemma rr_step_spec src tgt h o1 :
  let h1 := rr_step src tgt h o1 in
  h_t h1 = h_t h /\ h_set h1 = h_set h /\ h_lst h1 = h_lst h /\ h_arr h1 = h_arr h /\ h_next h1 = h_next h /\
  keys (h_o h1) = keys (h_o h) /\
  forall o, getO h1 o = option_map (rr_fun src tgt [o1] o) (getO h o).
Proof. unfold rr_step. destruct (getO h o1) as [r1|] eqn:E1; simpl.
  - repeat split; auto.
    + unfold getO in E1. apply keys_put_in. eapply get_keys; eauto.
    + intros o. unfold getO in *; simpl. rewrite get_put. unfold rr_fun; simpl.
      destruct (Nat.eqb o1 o) eqn:E.
      * apply Nat.eqb_eq in E; subst o. rewrite E1. simpl. rewrite Nat.eqb_refl. reflexivity.
      * rewrite Nat.eqb_sym, E. simpl. now destruct (get (h_o h) o).
  - repeat split; auto. intros o. unfold rr_fun; simpl.
    destruct (Nat.eqb o o1) eqn:E; simpl.
    + apply Nat.eqb_eq in E; subst o. now rewrite E1.
    + now destruct (getO h o). Qed.

Lemma rr_fun_cons src tgt o1 S o r : rr_fun src tgt S o (rr_fun src tgt [o1] o r) = rr_fun src tgt (o1 :: S) o r.
Proof. unfold rr_fun; simpl. destruct (Nat.eqb o o1) eqn:E; simpl.
  - destruct (mem o S); simpl; auto. now rewrite repl_idem.
  - reflexivity. Qed.

Lemma rr_fold src tgt S : forall h,
  let h' := fold_left (rr_step src tgt) S h in
  h_t h' = h_t h /\ h_set h' = h_set h /\ h_lst h' = h_lst h /\ h_arr h' = h_arr h /\ h_next h' = h_next h /\
  keys (h_o h') = keys (h_o h) /\
  forall o, getO h' o = option_map (rr_fun src tgt S o) (getO h o).
Proof. induction S as [|o1 S IH]; intros h; simpl.
  - repeat split; auto. intros o. unfold rr_fun; simpl. now destruct (getO h o).
  - specialize (IH (rr_step src tgt h o1)). simpl in IH.
    destruct IH as (I1 & I2 & I3 & I4 & I5 & I6 & I7).
    destruct (rr_step_spec src tgt h o1) as (J1 & J2 & J3 & J4 & J5 & J6 & J7).
    repeat split; try congruence.
    intros o. rewrite I7, J7. destruct (getO h o); simpl; auto. now rewrite rr_fun_cons. Qed.

Lemma reroute_spec h src tgt h' : reroute h src tgt = Some h' ->
  exists ts, getT h src = Some ts /\
  h_t h' = h_t h /\ h_set h' = h_set h /\ h_lst h' = h_lst h /\ h_arr h' = h_arr h /\ h_next h' = h_next h /\
  keys (h_o h') = keys (h_o h) /\
  forall o, getO h' o = option_map (rr_fun src tgt (set_of h (t_ops ts)) o) (getO h o).
Proof. unfold reroute. intros H. apply bind_Some in H. destruct H as (ts & E & H). inversion H; subst h'. clear H.
  change (fun (h1 : heap) (o : id) => match getO h1 o with Some r => setO h1 o (mkO (o_kind r) (repl src tgt (o_vars r)) (o_keep r)) | None => h1 end) with (rr_step src tgt).
  exists ts; split; auto. apply (rr_fold src tgt (set_of h (t_ops ts)) h). Qed.

Lemma reroute_some h src tgt ts : getT h src = Some ts -> exists h', reroute h src tgt = Some h'.
Proof. unfold reroute. intros ->. simpl. eauto. Qed.

(* ------------------------------------------------------------------ gfind *)

Lemma find_app {A} (f : A -> bool) l1 l2 :
  find f (l1 ++ l2) = match find f l1 with Some x => Some x | None => find f l2 end.
Proof. induction l1; simpl; auto. destruct (f a); auto. Qed.

Lemma gfind_app g1 g2 x : gfind (g1 ++ g2) x = match gfind g1 x with Some n => Some n | None => gfind g2 x end.
Proof. apply find_app. Qed.

Lemma gfind_In g x n : gfind g x = Some n -> In n g /\ (x = n_t n \/ x = n_p n).
Proof. unfold gfind. intros H. apply find_some in H. destruct H as [H1 H2]. split; auto.
  apply orb_true_iff in H2. destruct H2 as [H2|H2]; apply Nat.eqb_eq in H2; auto. Qed.

Lemma gfind_None g x : gfind g x = None -> ~ In x (map n_t g) /\ ~ In x (map n_p g).
Proof. unfold gfind. intros H. split; intros Hin; apply in_map_iff in Hin; destruct Hin as (n & E & Hn);
  apply (find_none _ _ H) in Hn; apply orb_false_iff in Hn; destruct Hn as [H1 H2];
  subst x; rewrite Nat.eqb_refl in *; discriminate. Qed.

Lemma NoDup_map_inj {A B} (f : A -> B) l a b : NoDup (map f l) -> In a l -> In b l -> f a = f b -> a = b.
Proof. induction l; simpl; [tauto|]. intros ND; inversion ND; subst. intros [<-|Ha] [<-|Hb] E; auto.
  - exfalso; apply H1. rewrite E. now apply in_map.
  - exfalso; apply H1. rewrite <- E. now apply in_map. Qed.

(* looking up an original: the tensor ids are pairwise distinct and no original is a placeholder *)
Lemma gfind_t g n : NoDup (map n_t g) -> (forall n', In n' g -> n_p n' <> n_t n) -> In n g -> gfind g (n_t n) = Some n.
Proof. intros ND HP Hin. destruct (gfind g (n_t n)) as [n'|] eqn:E.
  - apply gfind_In in E. destruct E as [H1 [H2|H2]].
    + f_equal. symmetry. eapply NoDup_map_inj; eauto.
    + exfalso. eapply HP; eauto.
  - apply gfind_None in E. exfalso. apply (proj1 E). now apply in_map. Qed.

(* ------------------------------------------------------------------ the duplication invariant *)

Definition tp (n : node) : id * option id := (n_t n, n_parent n).

Definition ops_of (h : heap) (v : id) : list id :=
  match getT h v with Some r => set_of h (t_ops r) | None => [] end.

(* what the variables of operation o have become: an original whose set lists o is replaced by its placeholder *)
Definition sigma (h0 : heap) (g : list node) (o : id) (v : id) : id :=
  if mem o (ops_of h0 v) then ph_if_exists g v else v.

(* the _base of the placeholder of a node *)
Definition bb (bph : id) (rb : option id) (n : node) : option id :=
  match n_parent n with None => rb | Some _ => Some bph end.

Definition ph_rec (h0 : heap) (bph : id) (rb : option id) (h : heap) (g : list node) (L : list id) (n : node) : Prop :=
  exists r0 rp, getT h0 (n_t n) = Some r0 /\ getT h (n_p n) = Some rp /\ t_grad r0 = false /\
    (rp = with_base r0 (bb bph rb n) \/
     exists l, In l L /\ rp = with_children (with_base r0 (bb bph rb n)) l /\
               get (h_lst h) l = Some (map (ph_if_exists g) (fkids h0 (n_t n))) /\
               forall x, In x (fkids h0 (n_t n)) -> In x (map n_t g)).

Record Inv (h0 : heap) (bph : id) (rb : option id) (h : heap) (g : list node) (L : list id) : Prop := mkInv {
  i_set : h_set h = h_set h0;
  i_arr : h_arr h = h_arr h0;
  i_next : h_next h0 <= h_next h;
  i_tkeys : keys (h_t h) = keys (h_t h0) ++ map n_p g;
  i_tget : forall t, t < h_next h0 -> getT h t = getT h0 t;
  i_p : forall n, In n g -> h_next h0 <= n_p n < h_next h;
  i_pnd : NoDup (map n_p g);
  i_tnd : NoDup (map n_t g);
  i_tlt : forall n, In n g -> n_t n < h_next h0;
  i_lkeys : keys (h_lst h) = keys (h_lst h0) ++ L;
  i_lget : forall l, l < h_next h0 -> get (h_lst h) l = get (h_lst h0) l;
  i_L : forall l, In l L -> h_next h0 <= l < h_next h /\
                  exists n rp, In n g /\ getT h (n_p n) = Some rp /\ t_children rp = l;
  i_Lnd : NoDup L;
  i_okeys : keys (h_o h) = keys (h_o h0);
  i_oget : forall o, getO h o = option_map (fun r0 => mkO (o_kind r0) (map (sigma h0 g o) (o_vars r0)) (o_keep r0)) (getO h0 o);
  i_ph : forall n, In n g -> ph_rec h0 bph rb h g L n;
  (* the placeholder of a parent is older than the placeholders of its children *)
  i_pord : forall n q, In n g -> n_parent n = Some q -> exists nq, In nq g /\ n_t nq = q /\ n_p nq < n_p n;
  (* the graph lists the nodes in the order of creation of their placeholders *)
  i_psort : forall g1 n g2, g = g1 ++ n :: g2 -> forall n', In n' g2 -> n_p n < n_p n';
  (* different placeholders own different fresh lists *)
  i_ldist : forall n n' rp rp', In n g -> In n' g -> getT h (n_p n) = Some rp -> getT h (n_p n') = Some rp' ->
            h_next h0 <= t_children rp -> t_children rp = t_children rp' -> n = n'
}.

Definition finished (h0 h : heap) (n : node) : Prop :=
  exists rp, getT h (n_p n) = Some rp /\ h_next h0 <= t_children rp.

Lemma Inv_init h0 bph rb : Inv h0 bph rb h0 [] [].
Proof. constructor; simpl; auto; try tauto; try constructor; try (intros; tauto).
  - now rewrite app_nil_r.
  - now rewrite app_nil_r.
  - intros o. destruct (getO h0 o) as [r|]; simpl; auto. f_equal.
    destruct r; simpl. f_equal. rewrite <- (map_id o_vars) at 1. apply map_ext.
    intros v. unfold sigma, ph_if_exists. simpl. now destruct (mem o (ops_of h0 v)).
  - intros [|] ? ? E; discriminate. Qed.

Section Steps.
Variables (h0 : heap) (bph : id) (rb : option id).
Hypothesis W : wf h0.

Lemma Inv_nd_t h g L : Inv h0 bph rb h g L -> NoDup (keys (h_t h)).
Proof. intros I. rewrite (i_tkeys _ _ _ _ _ _ I). apply NoDup_app_intro.
  - apply (wf_nd_t _ W). - apply (i_pnd _ _ _ _ _ _ I).
  - intros x H1 H2. apply (wf_lt_t _ W) in H1. apply in_map_iff in H2. destruct H2 as (n & <- & Hn).
    apply (i_p _ _ _ _ _ _ I) in Hn. lia. Qed.

Lemma Inv_nd_lst h g L : Inv h0 bph rb h g L -> NoDup (keys (h_lst h)).
Proof. intros I. rewrite (i_lkeys _ _ _ _ _ _ I). apply NoDup_app_intro.
  - apply (wf_nd_lst _ W). - apply (i_Lnd _ _ _ _ _ _ I).
  - intros x H1 H2. apply (wf_lt_lst _ W) in H1. apply (i_L _ _ _ _ _ _ I) in H2. lia. Qed.

Lemma Inv_lst_of h g L l : Inv h0 bph rb h g L -> l < h_next h0 -> lst_of h l = lst_of h0 l.
Proof. intros I Hl. unfold lst_of. now rewrite (i_lget _ _ _ _ _ _ I). Qed.

(* the list that dup_rec iterates is the list of the starting heap *)
Lemma Inv_cs h g L t rt : Inv h0 bph rb h g L -> getT h0 t = Some rt ->
  filter (fun c => match getT h c with Some rc => isSome (t_base rc) | None => false end) (lst_of h (t_children rt)) = fkids h0 t.
Proof. intros I Ht. unfold fkids, kids. rewrite Ht.
  destruct (wf_tens _ W _ _ Ht) as (Hc & _ & _ & Hk).
  rewrite (Inv_lst_of _ _ _ _ I Hc).
  apply filter_ext_in. intros c Hcin. unfold hasbase.
  destruct (Hk c Hcin) as (_ & rc & Erc & _).
  rewrite (i_tget _ _ _ _ _ _ I); auto. eapply getT_lt; eauto. Qed.

(* ph_if_exists on originals *)
Lemma phx_notin h g L v : Inv h0 bph rb h g L -> v < h_next h0 -> ~ In v (map n_t g) -> gfind g v = None.
Proof. intros I Hv Hn. destruct (gfind g v) as [n|] eqn:E; auto. exfalso.
  apply gfind_In in E. destruct E as [Hin [->| ->]].
  - apply Hn. now apply in_map.
  - apply (i_p _ _ _ _ _ _ I) in Hin. lia. Qed.

Lemma phx_in h g L n : Inv h0 bph rb h g L -> In n g -> gfind g (n_t n) = Some n.
Proof. intros I Hin. apply gfind_t; auto.
  - apply (i_tnd _ _ _ _ _ _ I).
  - intros n' Hn' E. apply (i_p _ _ _ _ _ _ I) in Hn'. apply (i_tlt _ _ _ _ _ _ I) in Hin. lia. Qed.

Lemma phx_val h g L v : Inv h0 bph rb h g L -> v < h_next h0 -> ph_if_exists g v = v \/ h_next h0 <= ph_if_exists g v.
Proof. intros I Hv. unfold ph_if_exists. destruct (gfind g v) as [n|] eqn:E; auto.
  right. apply gfind_In in E. destruct E as [Hin _]. apply (i_p _ _ _ _ _ _ I) in Hin. lia. Qed.

Lemma phx_app_in g g2 v : In v (map n_t g) -> ph_if_exists (g ++ g2) v = ph_if_exists g v.
Proof. intros Hin. unfold ph_if_exists. rewrite gfind_app. destruct (gfind g v) eqn:E; auto.
  apply gfind_None in E. tauto. Qed.

(* -------- step A: one more placeholder *)
Lemma step_placeholder h g L c r0 par bbv h2 p :
  Inv h0 bph rb h g L -> getT h0 c = Some r0 -> ~ In c (map n_t g) ->
  make_placeholder h c bbv = Some (h2, p) -> bbv = bb bph rb (c, p, par) ->
  (forall q, par = Some q -> In q (map n_t g)) ->
  p = h_next h /\ h_next h2 = S (h_next h) /\ h_lst h2 = h_lst h /\
  Inv h0 bph rb h2 (g ++ [(c, p, par)]) L /\
  getT h2 p = Some (with_base r0 bbv) /\
  (forall q, q <> p -> getT h2 q = getT h q).
Proof. intros I Hc Hnin MP Hbb Hparin.
  assert (Hclt : c < h_next h0) by (eapply getT_lt; eauto).
  unfold make_placeholder in MP. rewrite (i_tget _ _ _ _ _ _ I), Hc in MP by auto. simpl in MP.
  destruct (t_grad r0) eqn:Eg; [discriminate|].
  unfold fresh in MP.
  remember (setT _ _ _) as h1 eqn:Eh1.
  apply bind_Some in MP. destruct MP as (h3 & RR & MP). inversion MP; subst h3 p. clear MP.
  apply reroute_spec in RR. destruct RR as (ts & Ets & R1 & R2 & R3 & R4 & R5 & R6 & R7).
  assert (Hpn : forall n, In n g -> n_p n <> h_next h) by (intros n Hn; apply (i_p _ _ _ _ _ _ I) in Hn; lia).
  assert (Hcp : c <> h_next h) by (pose proof (i_next _ _ _ _ _ _ I); lia).
  assert (Ets' : ts = r0).
  { subst h1. unfold getT, setT in Ets; simpl in Ets. rewrite get_put_ne in Ets by auto.
    fold (getT h c) in Ets. rewrite (i_tget _ _ _ _ _ _ I), Hc in Ets by auto. congruence. }
  subst ts.
  assert (Hset1 : set_of h1 (t_ops r0) = ops_of h0 c).
  { unfold ops_of. rewrite Hc. unfold set_of. subst h1; simpl. now rewrite (i_set _ _ _ _ _ _ I). }
  assert (Hnk : ~ In (h_next h) (keys (h_t h))).
  { rewrite (i_tkeys _ _ _ _ _ _ I), in_app_iff. intros [H|H].
    - apply (wf_lt_t _ W) in H. pose proof (i_next _ _ _ _ _ _ I). lia.
    - apply in_map_iff in H. destruct H as (n & E & Hn). apply Hpn in Hn. congruence. }
  assert (HgetT : forall q, getT h2 q = if Nat.eqb (h_next h) q then Some (with_base r0 bbv) else getT h q).
  { intros q. unfold getT. rewrite R1. subst h1; simpl. apply get_put. }
  split; [reflexivity|]. split; [rewrite R5; subst h1; reflexivity|].
  split; [rewrite R3; subst h1; reflexivity|].
  split; [|split].
  2:{ rewrite HgetT, Nat.eqb_refl. reflexivity. }
  2:{ intros q Hq. rewrite HgetT. destruct (Nat.eqb (h_next h) q) eqn:E; auto. apply Nat.eqb_eq in E. congruence. }
  constructor.
  - rewrite R2; subst h1; simpl. apply (i_set _ _ _ _ _ _ I).
  - rewrite R4; subst h1; simpl. apply (i_arr _ _ _ _ _ _ I).
  - rewrite R5; subst h1; simpl. pose proof (i_next _ _ _ _ _ _ I). lia.
  - rewrite R1; subst h1; simpl. rewrite keys_put_notin by auto. rewrite (i_tkeys _ _ _ _ _ _ I), map_app, app_assoc. reflexivity.
  - intros t Ht. rewrite HgetT. destruct (Nat.eqb (h_next h) t) eqn:E.
    + apply Nat.eqb_eq in E. pose proof (i_next _ _ _ _ _ _ I). lia.
    + apply (i_tget _ _ _ _ _ _ I); auto.
  - intros n Hn. rewrite R5; subst h1; simpl. apply in_app_or in Hn. destruct Hn as [Hn|[<-|[]]].
    + apply (i_p _ _ _ _ _ _ I) in Hn. lia.
    + unfold n_p; simpl. pose proof (i_next _ _ _ _ _ _ I). lia.
  - rewrite map_app. simpl. apply NoDup_snoc; [apply (i_pnd _ _ _ _ _ _ I)|].
    intros H. apply in_map_iff in H. destruct H as (n & E & Hn). apply Hpn in Hn. unfold n_p in *; simpl in *. congruence.
  - rewrite map_app. simpl. apply NoDup_snoc; [apply (i_tnd _ _ _ _ _ _ I)|]. exact Hnin.
  - intros n Hn. apply in_app_or in Hn. destruct Hn as [Hn|[<-|[]]]; [apply (i_tlt _ _ _ _ _ _ I); auto|exact Hclt].
  - rewrite R3; subst h1; simpl. apply (i_lkeys _ _ _ _ _ _ I).
  - intros l Hl. rewrite R3; subst h1; simpl. apply (i_lget _ _ _ _ _ _ I); auto.
  - intros l Hl. destruct (i_L _ _ _ _ _ _ I l Hl) as (B & n & rp & Hn & Hrp & Hl2). split.
    + rewrite R5; subst h1; simpl. lia.
    + exists n, rp. split; [apply in_or_app; auto|]. split; auto.
      rewrite HgetT. destruct (Nat.eqb (h_next h) (n_p n)) eqn:E; auto. apply Nat.eqb_eq in E. apply Hpn in Hn. congruence.
  - apply (i_Lnd _ _ _ _ _ _ I).
  - rewrite R6; subst h1; simpl. apply (i_okeys _ _ _ _ _ _ I).
  - (* the operations *)
    intros o. rewrite R7. rewrite Hset1.
    assert (getO h1 o = getO h o) as -> by (subst h1; reflexivity).
    rewrite (i_oget _ _ _ _ _ _ I). destruct (getO h0 o) as [ro|] eqn:Eo; simpl; auto. f_equal.
    pose proof (proj1 (wf_oper _ W _ _ Eo)) as Hvars.
    unfold rr_fun. simpl.
    assert (Hg : gfind g c = None) by (eapply phx_notin; eauto).
    destruct (mem o (ops_of h0 c)) eqn:Em.
    + f_equal. unfold repl. rewrite map_map. apply map_ext_in. intros v Hv. apply Hvars in Hv.
      unfold sigma. destruct (Nat.eq_dec v c) as [->|Nvc].
      * rewrite Em. unfold ph_if_exists at 1. rewrite Hg, Nat.eqb_refl.
        unfold ph_if_exists. rewrite gfind_app, Hg. simpl. unfold n_t; simpl. now rewrite Nat.eqb_refl.
      * assert (forall x, x = v \/ x = ph_if_exists g v -> Nat.eqb x c = false) as K.
        { intros x [->| ->]; apply Nat.eqb_neq; auto.
          destruct (phx_val _ _ _ v I Hv) as [->|Hge]; auto. lia. }
        assert (ph_if_exists (g ++ [(c, h_next h, par)]) v = ph_if_exists g v) as EQ.
        { unfold ph_if_exists. rewrite gfind_app. destruct (gfind g v); auto. simpl. unfold n_t, n_p; simpl.
          assert (Nat.eqb v c = false) as -> by (apply Nat.eqb_neq; auto).
          assert (Nat.eqb v (h_next h) = false) as -> by (apply Nat.eqb_neq; pose proof (i_next _ _ _ _ _ _ I); lia).
          reflexivity. }
        rewrite EQ. destruct (mem o (ops_of h0 v)); rewrite K; auto.
    + f_equal. apply map_ext_in. intros v Hv. apply Hvars in Hv. unfold sigma.
      destruct (mem o (ops_of h0 v)) eqn:Emv; auto.
      assert (v <> c) by (intros ->; congruence).
      unfold ph_if_exists. rewrite gfind_app. destruct (gfind g v); auto. simpl. unfold n_t, n_p; simpl.
      assert (Nat.eqb v c = false) as -> by (apply Nat.eqb_neq; auto).
      assert (Nat.eqb v (h_next h) = false) as -> by (apply Nat.eqb_neq; pose proof (i_next _ _ _ _ _ _ I); lia).
      reflexivity.
  - (* placeholder records *)
    intros n Hn. apply in_app_or in Hn. destruct Hn as [Hn|[<-|[]]].
    + destruct (i_ph _ _ _ _ _ _ I n Hn) as (r1 & rp & E1 & E2 & E3 & E4).
      exists r1, rp. split; auto. split.
      { rewrite HgetT. destruct (Nat.eqb (h_next h) (n_p n)) eqn:E; auto. apply Nat.eqb_eq in E. apply Hpn in Hn. congruence. }
      split; auto. destruct E4 as [E4|(l & Hl & E4 & E5 & E6)]; [left; auto|right].
      exists l. split; auto. split; auto. split.
      * rewrite R3; subst h1; simpl. rewrite E5. f_equal. apply map_ext_in. intros x Hx.
        symmetry. apply phx_app_in. auto.
      * intros x Hx. rewrite map_app, in_app_iff. left; auto.
    + exists r0, (with_base r0 bbv). unfold n_t, n_p; simpl. split; auto. split.
      { rewrite HgetT, Nat.eqb_refl. reflexivity. }
      split; auto. left. now rewrite Hbb.
  - intros n q Hn Hq. apply in_app_or in Hn. destruct Hn as [Hn|[<-|[]]].
    + destruct (i_pord _ _ _ _ _ _ I n q Hn Hq) as (nq & A & B & C). exists nq. split; [apply in_or_app; auto|auto].
    + unfold n_parent in Hq; simpl in Hq. apply Hparin in Hq. apply in_map_iff in Hq. destruct Hq as (nq & A & B).
      exists nq. split; [apply in_or_app; auto|]. split; auto. unfold n_p at 2; simpl.
      apply (i_p _ _ _ _ _ _ I) in B. lia.
  - intros g1 n g2 EG n' Hn'.
    destruct (@exists_last _ g2) as (g2' & nl & ->). { intros ->. destruct Hn'. }
    rewrite app_comm_cons, app_assoc in EG. apply app_inj_tail in EG. destruct EG as [EG <-].
    apply in_app_or in Hn'. destruct Hn' as [Hn'|[<-|[]]].
    + eapply (i_psort _ _ _ _ _ _ I); eauto.
    + unfold n_p at 2; simpl. assert (In n g) by (rewrite EG; apply in_or_app; simpl; auto).
      apply (i_p _ _ _ _ _ _ I) in H. lia.
  - intros n n' rp rp' Hn Hn' E E' Hge Heq.
    assert (Hold : forall m, In m g -> getT h2 (n_p m) = getT h (n_p m)).
    { intros m Hm. rewrite HgetT. destruct (Nat.eqb (h_next h) (n_p m)) eqn:Eq; auto. apply Nat.eqb_eq in Eq. apply Hpn in Hm. congruence. }
    assert (Hnew : forall rq, getT h2 (n_p (c, h_next h, par)) = Some rq -> t_children rq < h_next h0).
    { intros rq Eq. unfold n_p in Eq; simpl in Eq. rewrite HgetT, Nat.eqb_refl in Eq. inversion Eq. simpl.
      apply (wf_tens _ W _ _ Hc). }
    apply in_app_or in Hn. apply in_app_or in Hn'. destruct Hn as [Hn|[<-|[]]]; destruct Hn' as [Hn'|[<-|[]]]; auto.
    + rewrite (Hold n Hn) in E. rewrite (Hold n' Hn') in E'. eapply (i_ldist _ _ _ _ _ _ I); eauto.
    + apply Hnew in E'. lia.
    + apply Hnew in E. lia. Qed.

End Steps.
