(* Task F, part 2: the harder element-wise VJP lemmas (inverse trig / hyperbolic, power, cbrt, arctan2, sinc). *)
From Coq Require Import Reals Lra Psatz.
From Coquelicot Require Import Coquelicot.
From MG Require Import Model.RealOps Gen.VjpScalar.
Open Scope R_scope.

(* ------------------------------------------------------------------ *)
(* 1. stdlib derivatives that auto_derive does not know, registered as UnaryDiff instances *)

Lemma is_derive_asin x : -1 < x < 1 -> is_derive asin x (/ sqrt (1 - x ^ 2)).
Proof.
  intros H. apply is_derive_Reals.
  apply (derive_pt_eq_1 asin x _ (derivable_pt_asin x H)).
  rewrite derive_pt_asin. unfold Rsqr. replace (x * x) with (x ^ 2) by ring.
  apply Rmult_1_l.
Qed.

Lemma is_derive_acos x : -1 < x < 1 -> is_derive acos x (- / sqrt (1 - x ^ 2)).
Proof.
  intros H. apply is_derive_Reals.
  apply (derive_pt_eq_1 acos x _ (derivable_pt_acos x H)).
  rewrite derive_pt_acos. unfold Rsqr. replace (x * x) with (x ^ 2) by ring.
  unfold Rdiv. ring.
Qed.

Lemma is_derive_arcsinh x : is_derive arcsinh x (/ sqrt (x ^ 2 + 1)).
Proof. apply is_derive_Reals, derivable_pt_lim_arcsinh. Qed.

Global Instance UnaryDiff_asin : UnaryDiff' asin.
Proof. exists (fun x => / sqrt (1 - x ^ 2)) (fun x => -1 < x < 1). exact is_derive_asin. Defined.
Global Instance UnaryDiff_acos : UnaryDiff' acos.
Proof. exists (fun x => - / sqrt (1 - x ^ 2)) (fun x => -1 < x < 1). exact is_derive_acos. Defined.
Global Instance UnaryDiff_arcsinh : UnaryDiff arcsinh.
Proof. exists (fun x => / sqrt (x ^ 2 + 1)). exact is_derive_arcsinh. Defined.

(* ------------------------------------------------------------------ *)
(* 2. locality: replace a function by another one that agrees with it on an open set around the point *)

Lemma is_derive_loc_open (D : R -> Prop) (f h : R -> R) a l :
  open D -> D a -> (forall y, D y -> f y = h y) -> is_derive f a l -> is_derive h a l.
Proof.
  intros HO Ha He Hf. apply (is_derive_ext_loc f h); [|exact Hf].
  apply (filter_imp D); [exact He | apply HO, Ha].
Qed.

Lemma open_interval lo hi : open (fun u : R => lo < u < hi).
Proof. apply open_and; [apply open_gt | apply open_lt]. Qed.

(* decide every `if` of the goal from the hypotheses (both branches are kept when undecidable) *)
Ltac absurd_hyp := exfalso; first [ contradiction | lra | nra ].
Ltac decide_ifs :=
  repeat match goal with
  | |- context [if ?c then _ else _] => destruct c; try absurd_hyp
  end.

Ltac unfold_np :=
  unfold np_positive, np_exp2, np_expm1, np_log2, np_log10, np_log1p, np_logaddexp, np_logaddexp2,
         np_arccosh, np_arctanh, np_cbrt, np_power, np_sinc, np_arctan2 in *.

(* `localize D` : D is an open predicate (shape recognised by `open_tac`) holding at the point; the
   if-expressions of the differentiated function are decided under D and the function is replaced by the
   selected branch (found by unification, so that it does not depend on how the definition is written). *)
Ltac open_tac :=
  repeat first [ apply open_gt | apply open_lt | apply open_neq | apply open_interval
               | apply open_and | apply open_or | apply open_true ].
Lemma eq_via (x y z : R) : z = y -> x = y -> x = z.
Proof. intros -> ->. reflexivity. Qed.
(* goal `?f y = rhs` : simplify rhs with `tac` (the evar is kept out of its sight), then instantiate ?f *)
Ltac inst_by tac := eapply eq_via; [ tac; reflexivity | reflexivity ].
Ltac localize_with D tac :=
  eapply (is_derive_loc_open D);
  [ open_tac
  | cbv beta; first [ assumption | lra | (split; assumption) | tauto ]
  | let y := fresh "y" in let Hy := fresh "Hy" in
    intros y Hy; cbv beta in Hy |- *; inst_by ltac:(tac y Hy)
  | cbv beta ].
Ltac localize D := localize_with D ltac:(fun y Hy => decide_ifs).
(* same idea with an identity valid everywhere *)
Ltac globalize_with tac :=
  eapply is_derive_ext; [ let t := fresh "t" in intros t; inst_by ltac:(tac t) | cbv beta ].

(* ------------------------------------------------------------------ *)
(* 3. side conditions and algebra *)

(* norm_args: arguments of sqrt/sin/cos/exp/ln/atan that are equal as ring expressions (`x*x` vs `x^2`,
   `PI*a` vs `a*PI`, ...) are made syntactically equal, so that field/nra see a single atom.
   sqrt_facts: 0 < sqrt e and sqrt e * sqrt e = e for every `sqrt e` of the goal with provably positive e. *)
Ltac unify_fun f :=
  repeat match goal with
  | |- context [f ?e1] =>
      match goal with
      | |- context [f ?e2] =>
          lazymatch e1 with
          | e2 => fail
          | _ => replace (f e2) with (f e1) by (apply f_equal; ring)
          end
      end
  end.
Ltac norm_args :=
  unify_fun sqrt; unify_fun sin; unify_fun cos; unify_fun exp; unify_fun ln; unify_fun atan.
Ltac sqrt_facts :=
  repeat match goal with
  | |- context [sqrt ?e] =>
      lazymatch goal with
      | _ : 0 < sqrt e |- _ => fail
      | _ => idtac
      end;
      let Hp := fresh "Hp" in
      assert (Hp : 0 < e) by nra;
      pose proof (sqrt_lt_R0 e Hp); pose proof (sqrt_sqrt e (Rlt_le _ _ Hp))
  end.

Ltac gen_sqrt :=
  repeat match goal with
  | |- context [sqrt ?e] => let s := fresh "s" in set (s := sqrt e) in *; clearbody s
  end.
Ltac nz := repeat (first [ assumption | apply Rmult_integral_contrapositive_currified | apply Rinv_neq_0_compat
                         | apply Rgt_not_eq; assumption | apply Rlt_not_eq; assumption ]).
(* inverses as atoms: e * / e = 1 for every `/ e` of the goal with provably non-zero e, then `/ e` is generalised *)
Ltac inv_facts :=
  repeat match goal with
  | |- context [/ ?e] =>
      lazymatch goal with
      | _ : e * / e = 1 |- _ => fail
      | _ => idtac
      end;
      let Hn := fresh "Hn" in
      assert (Hn : e <> 0) by first [ assumption | lra | nra | apply Rgt_not_eq; nra | apply Rlt_not_eq; nra ];
      pose proof (Rinv_r e Hn)
  end.
Ltac gen_inv :=
  repeat match goal with
  | |- context [/ ?e] => let t := fresh "t" in set (t := / e) in *; clearbody t
  end.
Ltac arith := first [ assumption | lra | nra | solve [inv_facts; gen_inv; nra] ].
Ltac pos :=
  unfold Rdiv;
  lazymatch goal with
  | |- 0 < exp _ => apply exp_pos
  | |- 0 < _ * _ => first [ solve [apply Rmult_lt_0_compat; pos] | arith ]
  | |- 0 < / _ => apply Rinv_0_lt_compat; pos
  | |- _ => arith
  end.
Ltac dom1 :=
  first [ assumption | exact I | lra | apply Rgt_not_eq; lra | apply Rlt_not_eq; lra | solve [nz] | nra
        | apply Rgt_not_eq; nra | apply Rlt_not_eq; nra | solve [pos] | apply Rgt_not_eq; solve [pos]
        | arith | apply Rgt_not_eq; arith | apply Rlt_not_eq; arith ].
Ltac dom :=
  cbv beta; repeat (match goal with |- _ /\ _ => split end);
  try solve [dom1]; norm_args; sqrt_facts; gen_sqrt; try solve [dom1].
Ltac alg :=
  norm_args; sqrt_facts; gen_sqrt;
  first [ solve [field; dom] | solve [field_simplify_eq; [nra | dom]] | nra ].
Ltac case_abs a := unfold Rabs in *; destruct (Rcase_abs a).
(* the uniform script: derivative by auto_derive, its side conditions by `dom`, then decide the `if`s of the
   backward formula and close the algebraic residue *)
Ltac vjp := auto_derive; [ dom | decide_ifs; alg ].

(* ------------------------------------------------------------------ *)
(* 4. the VJP lemmas *)

Lemma Arcsin_vjp_0 : forall g a : R, -1 < a -> a < 1 -> is_derive (fun x => g * Arcsin_fwd x) a (Arcsin_bwd_0 g a).
Proof.
  intros g a H1 H2. unfold Arcsin_fwd, Arcsin_bwd_0. case_abs a; vjp.
Qed.

Lemma Arccos_vjp_0 : forall g a : R, -1 < a -> a < 1 -> is_derive (fun x => g * Arccos_fwd x) a (Arccos_bwd_0 g a).
Proof.
  intros g a H1 H2. unfold Arccos_fwd, Arccos_bwd_0. case_abs a; vjp.
Qed.

Lemma Arctan_vjp_0 : forall g a : R, is_derive (fun x => g * Arctan_fwd x) a (Arctan_bwd_0 g a).
Proof.
  intros g a. unfold Arctan_fwd, Arctan_bwd_0. vjp.
Qed.

Lemma Arcsinh_vjp_0 : forall g a : R, is_derive (fun x => g * Arcsinh_fwd x) a (Arcsinh_bwd_0 g a).
Proof.
  intros g a. unfold Arcsinh_fwd, Arcsinh_bwd_0. vjp.
Qed.

Lemma Arccosh_vjp_0 : forall g a : R, 1 < a -> is_derive (fun x => g * Arccosh_fwd x) a (Arccosh_bwd_0 g a).
Proof.
  intros g a H. unfold Arccosh_fwd, Arccosh_bwd_0. unfold_np. vjp.
Qed.

Lemma Arctanh_vjp_0 : forall g a : R, -1 < a -> a < 1 -> is_derive (fun x => g * Arctanh_fwd x) a (Arctanh_bwd_0 g a).
Proof.
  intros g a H1 H2. unfold Arctanh_fwd, Arctanh_bwd_0. unfold_np. vjp.
Qed.

Lemma Power_vjp_1 : forall g a b : R, 0 < a -> is_derive (fun y => g * Power_fwd a y) b (Power_bwd_1 g a b).
Proof.
  intros g a b H. unfold Power_fwd, Power_bwd_1. unfold_np. decide_ifs. unfold Rpower. vjp.
Qed.

Lemma Arccot_vjp_0 : forall g a : R, a <> 0 -> is_derive (fun x => g * Arccot_fwd x) a (Arccot_bwd_0 g a).
Proof.
  intros g a H. unfold Arccot_fwd, Arccot_bwd_0. 
  localize (fun y : R => y <> 0). vjp.
Qed.

Lemma Sinc_vjp_0 : forall g a : R, a <> 0 -> is_derive (fun x => g * Sinc_fwd x) a (Sinc_bwd_0 g a).
Proof.
  intros g a H. unfold Sinc_fwd, Sinc_bwd_0. unfold_np.
  localize (fun y : R => y <> 0). pose proof PI_RGT_0. vjp.
Qed.

Lemma Rpower_pred_eq a b d : 0 < a -> d = b - 1 -> Rpower a d = Rpower a b * / a.
Proof.
  intros Ha ->. unfold Rminus. rewrite Rpower_plus, Rpower_Ropp, Rpower_1 by assumption. reflexivity.
Qed.

Lemma Power_vjp_0 : forall g a b : R, 0 < a -> is_derive (fun x => g * Power_fwd x b) a (Power_bwd_0 g a b).
Proof.
  intros g a b H. unfold Power_fwd, Power_bwd_0. unfold_np.
  localize (fun y : R => 0 < y).
  decide_ifs.
  - (* b = 0 : both sides vanish *)
    subst b. unfold Rpower. vjp.
  - repeat match goal with
    | |- context [Rpower a ?d] =>
        lazymatch d with
        | b => fail
        | _ => rewrite (Rpower_pred_eq a b d) by first [ assumption | ring ]
        end
    end.
    unfold Rpower. vjp.
Qed.
(* ------------------------------------------------------------------ *)
(* real cube root: algebraic characterisation and derivative, then registered for auto_derive *)

Lemma Rpower_third_cube x : 0 < x -> Rpower x (/ 3) ^ 3 = x.
Proof.
  intros Hx. rewrite <- (Rpower_pow 3) by (unfold Rpower; apply exp_pos).
  rewrite Rpower_mult. replace (/ 3 * INR 3) with 1 by (simpl; field). apply Rpower_1, Hx.
Qed.

Lemma np_cbrt_cube x : np_cbrt x ^ 3 = x.
Proof.
  unfold np_cbrt. decide_ifs.
  - apply Rpower_third_cube; assumption.
  - subst x; ring.
  - assert (Hx : 0 < - x) by lra. pose proof (Rpower_third_cube (- x) Hx). nra.
Qed.

Lemma np_cbrt_pos x : 0 < x -> 0 < np_cbrt x.
Proof. intros Hx. unfold np_cbrt. decide_ifs. unfold Rpower; apply exp_pos. Qed.

Lemma np_cbrt_neg x : x < 0 -> np_cbrt x < 0.
Proof.
  intros Hx. unfold np_cbrt. decide_ifs.
  assert (0 < Rpower (- x) (/ 3)) by (unfold Rpower; apply exp_pos). lra.
Qed.

Lemma np_cbrt_neq_0 x : x <> 0 -> np_cbrt x <> 0.
Proof.
  intros Hx. destruct (Rtotal_order x 0) as [H | [H | H]].
  - apply Rlt_not_eq, np_cbrt_neg, H.
  - contradiction.
  - apply Rgt_not_eq, np_cbrt_pos, H.
Qed.

(* uniqueness of real cube roots *)
Lemma cube_inj u v : u ^ 3 = v ^ 3 -> u = v.
Proof.
  intros H. destruct (Req_dec u v) as [E | NE]; [exact E | exfalso].
  assert (Hf : (u - v) * (u ^ 2 + u * v + v ^ 2) = 0) by (ring_simplify; lra).
  apply Rmult_integral in Hf. destruct Hf as [Hf | Hf]; [lra |].
  pose proof (pow2_ge_0 (2 * u + v)). pose proof (pow2_ge_0 v).
  assert (Hv2 : v ^ 2 = 0) by nra.
  assert (Hv : v = 0) by (destruct (Rtotal_order v 0) as [?|[?|?]]; nra).
  assert (Hu2 : u ^ 2 = 0) by (subst v; nra).
  assert (Hu : u = 0) by (destruct (Rtotal_order u 0) as [?|[?|?]]; nra).
  apply NE; rewrite Hu, Hv; reflexivity.
Qed.

Lemma np_cbrt_unique x c : c ^ 3 = x -> np_cbrt x = c.
Proof. intros H. apply cube_inj. rewrite np_cbrt_cube. symmetry; exact H. Qed.

(* np_cbrt e = (np_cbrt a)^2 whenever e = a^2 (whatever way e is written) *)
Lemma np_cbrt_sq_eq a e : e = a ^ 2 -> np_cbrt e = np_cbrt a ^ 2.
Proof.
  intros ->. apply np_cbrt_unique.
  replace ((np_cbrt a ^ 2) ^ 3) with ((np_cbrt a ^ 3) ^ 2) by ring. rewrite np_cbrt_cube. reflexivity.
Qed.

Lemma is_derive_np_cbrt x : x <> 0 -> is_derive np_cbrt x (/ (3 * np_cbrt x ^ 2)).
Proof.
  intros Hx. pose proof (np_cbrt_cube x) as Hc. pose proof (np_cbrt_neq_0 x Hx) as Hn.
  destruct (Rtotal_order x 0) as [H | [H | H]]; [| contradiction |].
  - apply (is_derive_loc_open (fun y => y < 0) (fun y => - Rpower (- y) (/ 3))); [apply open_lt | exact H | |].
    + intros y Hy. unfold np_cbrt. decide_ifs. reflexivity.
    + assert (E : np_cbrt x = - Rpower (- x) (/ 3)) by (unfold np_cbrt; decide_ifs; reflexivity).
      rewrite E in *. unfold Rpower in *. auto_derive; [lra |].
      set (c := exp (/ 3 * ln (- x))) in *. field_simplify_eq; [nra | split; nra].
  - apply (is_derive_loc_open (fun y => 0 < y) (fun y => Rpower y (/ 3))); [apply open_gt | exact H | |].
    + intros y Hy. unfold np_cbrt. decide_ifs. reflexivity.
    + assert (E : np_cbrt x = Rpower x (/ 3)) by (unfold np_cbrt; decide_ifs; reflexivity).
      rewrite E in *. unfold Rpower in *. auto_derive; [lra |].
      set (c := exp (/ 3 * ln x)) in *. field_simplify_eq; [nra | split; nra].
Qed.

Global Instance UnaryDiff_np_cbrt : UnaryDiff' np_cbrt.
Proof. exists (fun x => / (3 * np_cbrt x ^ 2)) (fun x => x <> 0). exact is_derive_np_cbrt. Defined.

Lemma Cbrt_vjp_0 : forall g a : R, a <> 0 -> is_derive (fun x => g * Cbrt_fwd x) a (Cbrt_bwd_0 g a).
Proof.
  intros g a H. unfold Cbrt_fwd, Cbrt_bwd_0.
  pose proof (np_cbrt_neq_0 a H).
  (* every np_cbrt of the backward formula whose argument is a^2 (however written) is (np_cbrt a)^2 *)
  repeat match goal with
  | |- context [np_cbrt ?e] =>
      lazymatch e with
      | a => fail
      | _ => rewrite (np_cbrt_sq_eq a e) by ring
      end
  end.
  vjp.
Qed.

Lemma sqrt_scale e e' k : 0 < k -> 0 <= e' -> e = e' * (k * k) -> sqrt e = sqrt e' * k.
Proof.
  intros Hk He ->. rewrite sqrt_mult by nra. rewrite sqrt_square by lra. reflexivity.
Qed.
(* among the two square roots of the goal, express one as k times the other *)
Ltac sqrt_scale_by k :=
  match goal with
  | |- context [sqrt ?e1] =>
      match goal with
      | |- context [sqrt ?e2] =>
          lazymatch e1 with
          | e2 => fail
          | _ => replace (sqrt e1) with (sqrt e2 * k)
                   by (symmetry; apply sqrt_scale; [ solve [pos] | nra | field; dom ])
          end
      end
  end.

Lemma Arccsc_vjp_0 : forall g a : R, 1 < Rabs a -> is_derive (fun x => g * Arccsc_fwd x) a (Arccsc_bwd_0 g a).
Proof.
  intros g a H. unfold Arccsc_fwd, Arccsc_bwd_0. case_abs a.
  - auto_derive; [dom | decide_ifs; norm_args; sqrt_scale_by (/ - a); alg].
  - auto_derive; [dom | decide_ifs; norm_args; sqrt_scale_by (/ a); alg].
Qed.

Lemma Arcsec_vjp_0 : forall g a : R, 1 < Rabs a -> is_derive (fun x => g * Arcsec_fwd x) a (Arcsec_bwd_0 g a).
Proof.
  intros g a H. unfold Arcsec_fwd, Arcsec_bwd_0. case_abs a.
  - auto_derive; [dom | decide_ifs; norm_args; sqrt_scale_by (/ - a); alg].
  - auto_derive; [dom | decide_ifs; norm_args; sqrt_scale_by (/ a); alg].
Qed.

Lemma Arccsch_vjp_0 : forall g a : R, a <> 0 -> is_derive (fun x => g * Arccsch_fwd x) a (Arccsch_bwd_0 g a).
Proof.
  intros g a H. unfold Arccsch_fwd, Arccsch_bwd_0. case_abs a.
  - auto_derive; [dom | decide_ifs; norm_args; sqrt_scale_by (/ - a); alg].
  - assert (0 < a) by lra.
    auto_derive; [dom | decide_ifs; norm_args; sqrt_scale_by (/ a); alg].
Qed.

Lemma Arccoth_vjp_0 : forall g a : R, 1 < Rabs a -> is_derive (fun x => g * Arccoth_fwd x) a (Arccoth_bwd_0 g a).
Proof.
  intros g a H. unfold Arccoth_fwd, Arccoth_bwd_0. unfold_np. case_abs a; vjp.
Qed.
(* ------------------------------------------------------------------ *)
(* arctan2: closed forms on the three regions that cover the plane minus the non-positive x half-axis *)

Lemma np_arctan2_xpos y x : 0 < x -> np_arctan2 y x = atan (y / x).
Proof. intros H. unfold np_arctan2. decide_ifs. reflexivity. Qed.

Lemma np_arctan2_ypos y x : 0 < y -> np_arctan2 y x = PI / 2 - atan (x / y).
Proof.
  intros H. unfold np_arctan2. decide_ifs; [| reflexivity].
  replace (y / x) with (/ (x / y)) by (field; lra).
  apply atan_inv. apply Rdiv_lt_0_compat; assumption.
Qed.

Lemma np_arctan2_yneg y x : y < 0 -> np_arctan2 y x = - (PI / 2) - atan (x / y).
Proof.
  intros H. unfold np_arctan2. decide_ifs; [| reflexivity].
  assert (Hu : 0 < x / - y) by (apply Rdiv_lt_0_compat; lra).
  pose proof (atan_inv _ Hu) as Hi.
  replace (y / x) with (- / (x / - y)) by (field; lra).
  replace (x / y) with (- (x / - y)) by (field; lra).
  rewrite !atan_opp, Hi. ring.
Qed.

Lemma Arctan2_vjp_0 : forall g a b : R, (0 < b \/ a <> 0) ->
  is_derive (fun x => g * Arctan2_fwd x b) a (Arctan2_bwd_0 g a b).
Proof.
  intros g a b H. unfold Arctan2_fwd, Arctan2_bwd_0.
  destruct (Rtotal_order a 0) as [Ha | [Ha | Ha]].
  - localize_with (fun y : R => y < 0) ltac:(fun y Hy => rewrite (np_arctan2_yneg y b) by exact Hy). vjp.
  - assert (Hb : 0 < b) by (destruct H; [assumption | contradiction]).
    globalize_with ltac:(fun t => rewrite (np_arctan2_xpos t b) by exact Hb). vjp.
  - localize_with (fun y : R => 0 < y) ltac:(fun y Hy => rewrite (np_arctan2_ypos y b) by exact Hy). vjp.
Qed.

Lemma Arctan2_vjp_1 : forall g a b : R, (0 < b \/ a <> 0) ->
  is_derive (fun y => g * Arctan2_fwd a y) b (Arctan2_bwd_1 g a b).
Proof.
  intros g a b H. unfold Arctan2_fwd, Arctan2_bwd_1.
  destruct (Rtotal_order a 0) as [Ha | [Ha | Ha]].
  - globalize_with ltac:(fun t => rewrite (np_arctan2_yneg a t) by exact Ha). vjp.
  - assert (Hb : 0 < b) by (destruct H; [assumption | contradiction]).
    localize_with (fun y : R => 0 < y) ltac:(fun y Hy => rewrite (np_arctan2_xpos a y) by exact Hy). vjp.
  - globalize_with ltac:(fun t => rewrite (np_arctan2_ypos a t) by exact Ha). vjp.
Qed.
(* ------------------------------------------------------------------ *)
(* conventions at the boundary points *)

Ltac conv := intros; unfold Rabs; repeat destruct Rcase_abs; decide_ifs; first [ reflexivity | ring | lra ].

Lemma Arcsin_conv_1 : forall g : R, Arcsin_bwd_0 g 1 = 0.
Proof. unfold Arcsin_bwd_0. conv. Qed.

Lemma Arcsin_conv_m1 : forall g : R, Arcsin_bwd_0 g (-1) = 0.
Proof. unfold Arcsin_bwd_0. conv. Qed.

Lemma Arccos_conv_1 : forall g : R, Arccos_bwd_0 g 1 = 0.
Proof. unfold Arccos_bwd_0. conv. Qed.

Lemma Arccos_conv_m1 : forall g : R, Arccos_bwd_0 g (-1) = 0.
Proof. unfold Arccos_bwd_0. conv. Qed.

Lemma Arccsc_conv_1 : forall g : R, Arccsc_bwd_0 g 1 = 0.
Proof. unfold Arccsc_bwd_0. conv. Qed.

Lemma Arccsc_conv_m1 : forall g : R, Arccsc_bwd_0 g (-1) = 0.
Proof. unfold Arccsc_bwd_0. conv. Qed.

Lemma Arcsec_conv_1 : forall g : R, Arcsec_bwd_0 g 1 = 0.
Proof. unfold Arcsec_bwd_0. conv. Qed.

Lemma Arcsec_conv_m1 : forall g : R, Arcsec_bwd_0 g (-1) = 0.
Proof. unfold Arcsec_bwd_0. conv. Qed.

Lemma Sinc_conv_0 : forall g : R, Sinc_bwd_0 g 0 = 0.
Proof. unfold Sinc_bwd_0. conv. Qed.
