From Coq Require Import List Arith Bool Lia Ring.
Import ListNotations.
From MG Require Import Base.EngCore Base.GatherScatter Model.OpsExact.

Section OpsP.
Variable A : Type.
Variables (a0 a1 : A) (add mul sub : A -> A -> A) (opp : A -> A).
Hypothesis Rth : ring_theory a0 a1 add mul sub opp (@eq A).
Add Ring AringOps : Rth.
Notation dot := (dot A a0 add mul).
Notation gather := (gather A a0).
Notation scatter_add := (scatter_add A add).
Notation vmul := (vmul A mul).

Lemma forallb_ltb_Forall n l : forallb (fun i => Nat.ltb i n) l = true -> Forall (fun i => i < n) l.
Proof.
  rewrite forallb_forall, Forall_forall. intros H x Hx. apply Nat.ltb_lt. apply H; exact Hx.
Qed.

Lemma seg_adjoint s g w :
  match s with None => True | Some (n, key) => Forall (fun i => i < n) key end ->
  dot (seg_bwd A a0 s g) w = dot g (seg_fwd A a0 add s w).
Proof.
  destruct s as [[n key]|]; simpl; intros H; [|reflexivity].
  rewrite (dot_comm A a0 a1 add mul sub opp Rth g).
  rewrite (scatter0_adjoint A a0 a1 add mul sub opp Rth) by exact H.
  apply (dot_comm A a0 a1 add mul sub opp Rth).
Qed.

(* every operation of the registry, linearised at any point, has an exact VJP: <vjp_p g, dx> = <g, jvp_p dx> *)
Theorem lop_ok (o : lop A) : lop_wf A o = true -> op_ok A a0 add mul (to_op A a0 add mul o).
Proof.
  unfold lop_wf. intros H. apply andb_prop in H. destruct H as [Hargs Hseg].
  intros p g dx. simpl. unfold lop_vjp, lop_jvp.
  set (a := nth p (l_args A o) (no_arg A)).
  assert (Hmap : Forall (fun i => i < a_len A a) (a_map A a)).
  { destruct (nth_in_or_default p (l_args A o) (no_arg A)) as [Hin|Hd]; [fold a in Hin | fold a in Hd].
    - rewrite forallb_forall in Hargs. specialize (Hargs a Hin). apply forallb_ltb_Forall. exact Hargs.
    - rewrite Hd. simpl. constructor. }
  rewrite (scatter0_adjoint A a0 a1 add mul sub opp Rth) by exact Hmap.
  rewrite (dot_vmul A a0 a1 add mul sub opp Rth).
  apply seg_adjoint. destruct (l_seg A o) as [[n key]|]; [|exact I].
  apply forallb_ltb_Forall. exact Hseg.
Qed.

(* a well-formed concrete program yields a well-formed abstract program whose ops are all exact *)
Lemma abstract_from_length vals P : length (abstract_from A a0 a1 add mul vals P) = length P.
Proof. revert vals; induction P as [|[c v|c o] P IH]; intros vals; simpl; auto. Qed.

Lemma abstract_from_spec : forall P vals k c o,
  prog_wf_from A a0 a1 add mul vals P = true ->
  nth_error (abstract_from A a0 a1 add mul vals P) k = Some (App A c o) ->
  Forall (fun i => i < length vals + k) (ins A o) /\ op_ok A a0 add mul o.
Proof.
  induction P as [|[c' v|c' o'] P IH]; intros vals k c o Hwf Hk; simpl in *.
  - destruct k; discriminate.
  - destruct k as [|k]; simpl in Hk; [discriminate|].
    destruct (IH _ k c o Hwf Hk) as [H1 H2]. rewrite app_length in H1. simpl in H1.
    split; [|exact H2]. eapply Forall_impl; [|exact H1]. simpl. intros; lia.
  - apply andb_prop in Hwf. destruct Hwf as [Hop Hwf].
    destruct k as [|k]; simpl in Hk.
    + inversion Hk; subst. unfold cop_wf_at in Hop. apply andb_prop in Hop. destruct Hop as [Hsrc Hl].
      split; [|apply lop_ok; exact Hl].
      simpl. rewrite Nat.add_0_r. rewrite map_map.
      rewrite Forall_forall. intros i Hi. apply in_map_iff in Hi. destruct Hi as ((p & a) & <- & Hin).
      simpl. apply in_combine_r in Hin. rewrite forallb_forall in Hsrc. apply Nat.ltb_lt. apply Hsrc. exact Hin.
    + destruct (IH _ k c o Hwf Hk) as [H1 H2]. rewrite app_length in H1. simpl in H1.
      split; [|exact H2]. eapply Forall_impl; [|exact H1]. simpl. intros; lia.
Qed.

Theorem abstract_wf P : prog_wf A a0 a1 add mul P = true ->
  wf A (abstract A a0 a1 add mul P) /\ ops_ok A a0 add mul (abstract A a0 a1 add mul P).
Proof.
  intros H. split; intros k c o Hk; destruct (abstract_from_spec P [] k c o H Hk) as [H1 H2]; assumption.
Qed.
End OpsP.
