(* HeapBuf: buffers are allocated below h_next in every reachable heap (needed to say that a buffer is "new"). *)
From Coq Require Import List Arith Bool PeanoNat Lia.
Import ListNotations.
From MG Require Import Model.Heap.
From MG.Proofs Require Import HeapP1 HeapWfb HeapP2 HeapP3 HeapP4 HeapP5 HeapP6 HeapP7 HeapP8 HeapP9 HeapP10 HeapP11 HeapP12 HeapP13 HeapP14
               HeapP21.

Definition AB (h : heap) : Prop := forall a ra, getA h a = Some ra -> a_buf ra < h_next h.

Lemma AB_frame h h' : AB h -> h_arr h' = h_arr h -> h_next h <= h_next h' -> AB h'.
Proof. intros A E L a ra G. unfold getA in G. rewrite E in G. apply A in G. lia. Qed.

Lemma AB_new_array h base buf h' a : AB h -> (forall b, buf = Some b -> b < h_next h) -> new_array h base buf = (h', a) -> AB h'.
Proof. unfold new_array, fresh. intros A Hb. destruct buf as [b|]; intros H; inversion H; subst; intros a0 ra G;
  unfold getA in G; simpl in G; rewrite get_put in G; destruct (Nat.eqb (h_next h) a0).
  - inversion G; subst. simpl. specialize (Hb b eq_refl). lia.
  - apply A in G. simpl. lia.
  - inversion G; subst. simpl. lia.
  - apply A in G. simpl. lia. Qed.

Lemma AB_view_array h a0 h' a : AB h -> view_array h a0 = Some (h', a) -> AB h'.
Proof. unfold view_array. intros A H. apply bind_Some in H. destruct H as (ra & E & H).
  match type of H with Some ?XX = _ => assert (NA : XX = (h', a)) by congruence end.
  eapply AB_new_array; [exact A| |exact NA]. intros b Eb. inversion Eb; subst. apply (A _ _ E). Qed.

Lemma AB_apply_op h k vars keep d h' t : AB h -> apply_op h k vars keep d = Some (h', t) -> AB h'.
Proof. intros A H. apply apply_op_spec in H. eapply AB_frame; [exact A|apply (ao_arr _ _ _ _ _ _ _ H)|rewrite (ao_next _ _ _ _ _ _ _ H); lia]. Qed.

Lemma AB_apply_view h k par h' v : AB h -> apply_view h k par = Some (h', v) -> AB h'.
Proof. unfold apply_view. intros A H. apply bind_Some in H. destruct H as (tp0 & Hp & H). cbv zeta in H.
  apply bind_Some in H. destruct H as ([h1 a] & VA & H).
  apply bind_Some in H. destruct H as (h2 & TI & H).
  unfold fresh in H. apply bind_Some in H. destruct H as (h5 & RG & H).
  match type of H with context [new_tensor ?hh ?c ?b ?d] => destruct (new_tensor hh c b d) as [h6 v6] eqn:NT end.
  apply bind_Some in H. destruct H as (tp & Etp & H). inversion H; subst h' v6. clear H.
  assert (A1 : AB h1) by (eapply AB_view_array; [|exact VA]; eapply AB_frame; [exact A|reflexivity|simpl; lia]).
  apply touch_inputs_spec in TI. destruct TI as (T1 & T2 & T3 & T4 & T5 & _).
  apply (register_spec []) in RG. destruct RG as (B1 & B2 & B3 & B4 & B5 & _). simpl in B4, B5.
  apply new_tensor_spec in NT. destruct NT as (Et & Hn & Ho & Ha & Ht & Hl & Hs).
  eapply AB_frame; [exact A1| |]; simpl.
  - rewrite Ha, B4. exact T4.
  - rewrite Hn, B5, T5. lia. Qed.

Lemma AB_rebuild_step hh n hh' : AB hh -> rebuild_step (Some hh) n = Some hh' -> AB hh'.
Proof. intros A H. unfold rebuild_step in H. destruct (n_parent n) as [par|]; [|inversion H; subst; auto].
  apply bind_Some in H. destruct H as (rt & _ & H). apply bind_Some in H. destruct H as (c & _ & H).
  apply bind_Some in H. destruct H as (oc & _ & H). apply bind_Some in H. destruct H as ([hv v] & AV & H).
  apply bind_Some in H. destruct H as (hm & M & H). apply bind_Some in H. destruct H as (tpar & _ & H).
  inversion H; subst hh'. clear H.
  unfold mirror in M. apply bind_Some in M. destruct M as (ts & _ & M). inversion M; subst hm.
  eapply AB_frame; [eapply AB_apply_view; eauto|reflexivity|simpl; lia]. Qed.

Lemma AB_rebuild_fold ns : forall hh hh', AB hh -> fold_left rebuild_step ns (Some hh) = Some hh' -> AB hh'.
Proof. induction ns as [|n ns IH]; intros hh hh' A H; cbn [fold_left] in H.
  - inversion H; subst; auto.
  - destruct (rebuild_step (Some hh) n) as [h1|] eqn:E.
    + eapply IH; [eapply AB_rebuild_step; eauto|exact H].
    + clear - H. exfalso. induction ns; cbn [fold_left] in H; [discriminate|auto]. Qed.

Lemma AB_inplace_success h6 g m k inputs masked am at_ root path h12 : AB h6 ->
  inplace_success h6 g m k inputs masked am at_ root path = Some (Done h12) -> AB h12.
Proof. intros A H. unfold inplace_success in H.
  apply bind_Some in H. destruct H as ([h7 pmv] & AO1 & H).
  apply bind_Some in H. destruct H as (nm & _ & H).
  apply bind_Some in H. destruct H as ([h8 pmv2] & AO2 & H).
  apply bind_Some in H. destruct H as (tmc & _ & H).
  apply bind_Some in H. destruct H as ([h9 mutant] & AO3 & H).
  apply bind_Some in H. destruct H as (h10 & M & H).
  apply bind_Some in H. destruct H as (ns & _ & H).
  apply bind_Some in H. destruct H as (h12' & F & H). inversion H; subst h12'. clear H.
  assert (A7 : AB h7) by (eapply AB_apply_op; eauto).
  assert (A8 : AB h8).
  { destruct masked; [eapply AB_apply_op; eauto|]. inversion AO2; subst; auto. }
  assert (A9 : AB h9).
  { destruct (t_base tmc); [|inversion AO3; subst; auto]. destruct g; [discriminate|]. eapply AB_apply_op; eauto. }
  unfold mirror in M. apply bind_Some in M. destruct M as (ts & _ & M). inversion M; subst h10.
  eapply AB_rebuild_fold; [|exact F]. eapply AB_frame; [exact A9|reflexivity|simpl; lia]. Qed.

Lemma AB_inplace h m k inputs masked fails out : wf h -> AB h -> inplace h m k inputs masked fails = Some out -> AB (heap_of out).
Proof. intros W A H. destruct out as [h'|h'].
  2:{ destruct (inplace_raised_noop_next h m k inputs masked fails h' W H) as ((_ & _ & _ & _ & S5) & N). simpl.
      eapply AB_frame; eauto. }
  simpl. rewrite inplace_unfold in H.
  apply bind_Some in H. destruct H as (tm0 & Hm & H).
  apply bind_Some in H. destruct H as (h1 & NG & H).
  apply bind_Some in H. destruct H as (tm1 & Hm1 & H).
  apply bind_Some in H. destruct H as (h2 & H2 & H).
  apply bind_Some in H. destruct H as (tm2 & Hm2 & H).
  apply bind_Some in H. destruct H as ([h3 pb] & HB & H).
  pose proof (preamble_spec h m tm0 h1 tm1 h2 tm2 h3 pb W Hm NG Hm1 H2 Hm2 HB) as P.
  cbv zeta in H.
  destruct (dup h3 _) as [[h4 g]|] eqn:D; [|discriminate].
  assert (Hfail : forall pr pb', inplace_fail h4 g m pr pb' = Some (Done h') -> False).
  { intros pr pb' F. unfold inplace_fail in F.
    apply bind_Some in F. destruct F as (? & _ & F). apply bind_Some in F. destruct F as (? & _ & F). discriminate. }
  destruct (path_to_base g m) as [path|] eqn:EP; [|exfalso; eapply Hfail; eauto].
  destruct (new_array h4 None None) as [h5 am] eqn:NA.
  apply bind_Some in H. destruct H as ([h6 at_] & E6 & H).
  destruct (negb (path_check h6 _ path)); [discriminate|].
  destruct fails; [exfalso; eapply Hfail; eauto|].
  destruct (dup_spec h3 _ h4 g (pr_wf _ _ _ _ _ _ P) D) as (tb & L & DS).
  pose proof (ds_inv _ _ _ _ _ _ DS) as I.
  assert (A3 : AB h3) by (eapply AB_frame; [exact A|apply (pr_arr _ _ _ _ _ _ P)|rewrite (pr_next _ _ _ _ _ _ P); lia]).
  assert (A4 : AB h4) by (eapply AB_frame; [exact A3|apply (i_arr _ _ _ _ _ _ I)|apply (i_next _ _ _ _ _ _ I)]).
  assert (A5 : AB h5) by (eapply AB_new_array; [exact A4| |exact NA]; intros b Q; discriminate).
  assert (A6 : AB h6).
  { destruct (Nat.eqb m _); [inversion E6; subst; auto|eapply AB_view_array; eauto]. }
  eapply AB_inplace_success; eauto. Qed.

Lemma AB_step h s o : wf h -> AB h -> stmt_ok h s -> step h s = Some o -> AB (heap_of o).
Proof. intros W A OK H. destruct s as [|k vars|k par|m k inputs masked fails|t].
  - unfold step in H. assert (o = Done (fst (new_leaf h))) by congruence. subst o. clear H. unfold heap_of, new_leaf.
    destruct (new_array h None None) as [h1 a] eqn:NA. destruct (new_tensor h1 None None a) as [h2 t] eqn:NT. cbn [fst].
    apply new_tensor_spec in NT. destruct NT as (_ & Hn & _ & Ha & _).
    eapply AB_frame; [eapply AB_new_array; [exact A| |exact NA]; intros b Q; discriminate|exact Ha|lia].
  - unfold step in H. destruct (new_array h None None) as [h1 a] eqn:NA.
    apply bind_Some in H. destruct H as ([h2 t] & AO & H). inversion H; subst. simpl.
    eapply AB_apply_op; [|exact AO]. eapply AB_new_array; [exact A| |exact NA]. intros b Q; discriminate.
  - unfold step in H. apply bind_Some in H. destruct H as ([h2 t] & AV & H). inversion H; subst. simpl.
    eapply AB_apply_view; eauto.
  - simpl in H. eapply AB_inplace; eauto.
  - destruct OK. Qed.

Theorem AB_run ss : forall h h', wf h -> AB h -> run_ok h ss -> run h ss = Some h' -> AB h'.
Proof. induction ss as [|s r IH]; intros h h' W A OK H; simpl in H.
  - now inversion H; subst.
  - destruct OK as (OK1 & OK2). apply bind_Some in H. destruct H as (o & E & H).
    eapply (IH (heap_of o)); eauto. + eapply wf_step; eauto. + eapply AB_step; eauto. Qed.

Corollary AB_reachable ss h : run_ok empty_heap ss -> run empty_heap ss = Some h -> AB h.
Proof. apply AB_run. apply wf_empty. intros a ra G. discriminate. Qed.
