(* HeapP20: the success path of _in_place_op never gets stuck and ends in a well-formed heap. *)
From Coq Require Import List Arith Bool PeanoNat Lia.
Import ListNotations.
From MG Require Import Model.Heap.
From MG.Proofs Require Import HeapP1 HeapWfb HeapP2 HeapP3 HeapP4 HeapP5 HeapP6 HeapP7 HeapP8 HeapP10 HeapP11 HeapP12 HeapP13 HeapP14 HeapP15 HeapP16 HeapP17 HeapP18 HeapP19.

Section Finish.
Variables (h3 : heap) (root : id) (h4 : heap) (g : list node) (tb : tens) (L : list id).
Hypothesis W3 : wf h3.
Hypothesis DS : DupSpec h3 root h4 g tb L.

Let X := map n_t g.
Let I : Inv h3 (h_next h3) (t_base tb) h4 g L := ds_inv _ _ _ _ _ _ DS.

Local Notation FZ := (FZ root h4 g).
Local Notation LI := (LI h3 h4 g).

Lemma rebuild_fold : forall gs g1 hh, g = g1 ++ gs -> (forall n, In n gs -> n_parent n <> None) -> LI gs hh ->
  exists hh', fold_left rebuild_step gs (Some hh) = Some hh' /\ LI [] hh'.
Proof. induction gs as [|n gs IH]; intros g1 hh Eg Hnr Li.
  - simpl. eauto.
  - destruct (n_parent n) as [par|] eqn:Ep; [|exfalso; apply (Hnr n); simpl; auto].
    destruct (rebuild_one h3 root h4 g tb L W3 DS g1 n gs par hh Eg Ep Li) as (hh' & E & Li').
    cbn [fold_left]. rewrite E. apply (IH (g1 ++ [n]) hh'); auto.
    + rewrite <- app_assoc. exact Eg.
    + intros n' Hn'. apply Hnr. simpl; auto. Qed.

(* the tensor produced by the last operation: referenced by nobody, with an empty list *)
Definition Last (hh : heap) (t d : id) : Prop :=
  FreshT hh t /\ h_next h4 <= t /\
  (exists o ro, getT hh t = Some (mkT (Some o) None (S t) (S (S t)) d false false) /\ getO hh o = Some ro) /\
  lst_of hh (S t) = [].

Lemma FZ_apply_op_last hh k vars keep d hh' t : FZ hh ->
  (forall v, In v vars -> ~ In v X) -> (forall v, In v vars -> v < h_next hh) -> (forall v, In v keep -> v < h_next hh) ->
  apply_op hh k vars keep d = Some (hh', t) ->
  FZ hh' /\ Last hh' t d /\ Ext X hh hh'.
Proof. intros F H1 H2 H3 H.
  destruct (FZ_apply_op h3 root h4 g tb L DS hh k vars keep d hh' t F H1 H2 H3 H) as (F' & Fr & S & E).
  split; auto. split; auto. split; auto. split.
  - pose proof F as (_ & _ & E4). pose proof (e_next _ _ _ E4). rewrite (ao_t _ _ _ _ _ _ _ S). lia.
  - split; [|apply (ao_lnew _ _ _ _ _ _ _ S)]. eexists. eexists. split; [apply (ao_tnew _ _ _ _ _ _ _ S)|apply (ao_o _ _ _ _ _ _ _ S)]. Qed.

Lemma FZ_tlt hh q r : FZ hh -> getT hh q = Some r -> q < h_next hh.
Proof. intros (W & _) E. apply (x_lt_t _ _ W). eapply get_keys; exact E. Qed.

Lemma ph_tree_ext hh : Ext X h4 hh -> ph_tree h3 g hh.
Proof. intros E n Hn. destruct (ph_final h3 root h4 g tb L W3 DS n Hn) as (r0 & l & E1 & E2 & E3 & E4 & E5 & E6).
  destruct (e_alloc _ _ _ E _ _ E3) as (rp & Erp & (_ & Hc & _) & _). exists rp. split; auto.
  rewrite Hc. simpl. rewrite (e_lst _ _ _ E).
  - unfold lst_of. now rewrite E6.
  - apply (i_L _ _ _ _ _ _ I) in E5. lia. Qed.

Theorem success_ok h6 m r2 k inputs masked am at_ path nm :
  FZ h6 -> getA h6 at_ <> None -> getA h6 am <> None ->
  getT h3 m = Some r2 -> root = (match t_base r2 with Some b => b | None => m end) ->
  gfind g m = Some nm -> In m X ->
  (forall i, In i inputs -> getT h3 i <> None) ->
  (forall x, In x path -> In x g) ->
  exists h12, inplace_success h6 g m k inputs masked am at_ root path = Some (Done h12) /\ wf h12.
Proof. intros F6 Hat Ham Hm Hroot Hnm HmX Hin Hpath.
  destruct (ds_head _ _ _ _ _ _ DS) as (g2 & Eg).
  assert (Hrootnode : In (root, h_next h3, None) g) by (rewrite Eg; simpl; auto).
  assert (Hnm_in : In nm g) by (apply gfind_In in Hnm; tauto).
  unfold inplace_success.
  (* the in-place operation itself *)
  assert (Hins : forall v, In v (map (ph_if_exists g) inputs) -> getT h6 v <> None /\ v < h_next h6 /\ ~ In v X).
  { intros v Hv. apply in_map_iff in Hv. destruct Hv as (i & <- & Hi). specialize (Hin i Hi).
    destruct (getT h3 i) as [ri|] eqn:Ei; [|congruence].
    destruct (phx_alloc h3 root h4 g tb L W3 DS h6 i ri F6 Ei). split; auto. split; auto.
    apply (phx_notX h3 root h4 g tb L DS). eapply getT_lt; eauto. }
  destruct (apply_op_ex h6 k (map (ph_if_exists g) inputs) [] at_ (fun v Hv => proj1 (Hins v Hv))) as (h7 & pmv & AO1).
  rewrite AO1. cbn [bind].
  destruct (FZ_apply_op_last h6 k _ [] at_ h7 pmv F6 (fun v Hv => proj2 (proj2 (Hins v Hv))) (fun v Hv => proj1 (proj2 (Hins v Hv))) (fun v (Hv : In v []) => match Hv with end) AO1)
    as (F7 & L7 & E67).
  rewrite Hnm. cbn [bind].
  (* ApplyMask *)
  assert (exists h8 pmv2, (if masked then apply_op h7 K_APPLYMASK [pmv; n_p nm] [] at_ else Some (h7, pmv)) = Some (h8, pmv2) /\
            FZ h8 /\ Last h8 pmv2 at_ /\ Ext X h6 h8) as (h8 & pmv2 & E8 & F8 & L8 & E68).
  { destruct masked; [|exists h7, pmv; auto].
    destruct L7 as (Fr7 & Hge7 & (o7 & ro7 & Et7 & Eo7) & Hl7).
    assert (Hnp7 : exists rp, getT h7 (n_p nm) = Some rp).
    { destruct (ph_final h3 root h4 g tb L W3 DS nm Hnm_in) as (r0 & l & _ & _ & E3 & _).
      destruct (FZ_alloc root h4 g h7 _ _ F7 E3) as (rp & Erp & _). eauto. }
    destruct Hnp7 as (rp7 & Erp7).
    assert (Hv : forall v, In v [pmv; n_p nm] -> getT h7 v <> None /\ v < h_next h7 /\ ~ In v X).
    { intros v [<-|[<-|[]]].
      - split; [congruence|]. split; [eapply FZ_tlt; eauto|]. intros Hx. apply (X_lt h3 root h4 g tb L DS) in Hx. pose proof (next34 h3 root h4 g tb L DS). lia.
      - split; [congruence|]. split; [eapply FZ_tlt; eauto|]. apply (np_notX h3 root h4 g tb L DS); auto. }
    destruct (apply_op_ex h7 K_APPLYMASK [pmv; n_p nm] [] at_ (fun v Hv' => proj1 (Hv v Hv'))) as (h8 & pmv2 & AO2).
    exists h8, pmv2. split; [exact AO2|].
    destruct (FZ_apply_op_last h7 K_APPLYMASK _ [] at_ h8 pmv2 F7 (fun v Hv' => proj2 (proj2 (Hv v Hv'))) (fun v Hv' => proj1 (proj2 (Hv v Hv'))) (fun v (Hv' : In v []) => match Hv' with end) AO2)
      as (F8 & L8 & E78).
    split; [exact F8|]. split; [exact L8|]. eapply Ext_trans; eauto. }
  rewrite E8. cbn [bind].
  (* UnView *)
  assert (Em8 : getT h8 m = Some r2).
  { pose proof F8 as (_ & _ & E48). rewrite (e_X _ _ _ E48 m HmX). rewrite (i_tget _ _ _ _ _ _ I); auto. eapply getT_lt; eauto. }
  rewrite Em8. cbn [bind].
  assert (exists h9 mutant d, (match t_base r2 with
             | None => Some (h8, pmv2)
             | Some _ => match g with [] => None | nb :: _ => apply_op h8 K_UNVIEW [n_p nb; pmv2] (map n_p (tl (rev path))) am end
             end) = Some (h9, mutant) /\ FZ h9 /\ Last h9 mutant d /\ Ext X h6 h9 /\ getA h6 d <> None)
    as (h9 & mutant & d & E9 & F9 & L9 & E69 & Hd).
  { destruct (t_base r2) as [bb|]; [|exists h8, pmv2, at_; auto 10].
    destruct L8 as (Fr8 & Hge8 & (o8 & ro8 & Et8 & Eo8) & Hl8).
    assert (Hnp8 : forall n, In n g -> exists rp, getT h8 (n_p n) = Some rp).
    { intros n Hn. destruct (ph_final h3 root h4 g tb L W3 DS n Hn) as (r0 & l & _ & _ & E3 & _).
      destruct (FZ_alloc root h4 g h8 _ _ F8 E3) as (rp & Erp & _). eauto. }
    assert (Hv : forall v, In v [n_p (root, h_next h3, None); pmv2] -> getT h8 v <> None /\ v < h_next h8 /\ ~ In v X).
    { intros v [<-|[<-|[]]].
      - destruct (Hnp8 _ Hrootnode) as (rp & Erp). split; [congruence|]. split; [eapply FZ_tlt; eauto|]. apply (np_notX h3 root h4 g tb L DS); auto.
      - split; [congruence|]. split; [eapply FZ_tlt; eauto|]. intros Hx. apply (X_lt h3 root h4 g tb L DS) in Hx. pose proof (next34 h3 root h4 g tb L DS). lia. }
    assert (Hk : forall v, In v (map n_p (tl (rev path))) -> v < h_next h8).
    { intros v Hv'. apply in_map_iff in Hv'. destruct Hv' as (n & <- & Hn).
      assert (In n path). { apply in_rev. destruct (rev path); simpl in Hn; [destruct Hn|simpl; auto]. }
      destruct (Hnp8 n (Hpath n H)) as (rp & Erp). eapply FZ_tlt; eauto. }
    destruct (apply_op_ex h8 K_UNVIEW [n_p (root, h_next h3, None); pmv2] (map n_p (tl (rev path))) am (fun v Hv' => proj1 (Hv v Hv'))) as (h9 & mutant & AO3).
    exists h9, mutant, am. split; [rewrite Eg; exact AO3|].
    destruct (FZ_apply_op_last h8 K_UNVIEW _ _ am h9 mutant F8 (fun v Hv' => proj2 (proj2 (Hv v Hv'))) (fun v Hv' => proj1 (proj2 (Hv v Hv'))) Hk AO3)
      as (F9 & L9 & E89).
    split; [exact F9|]. split; [exact L9|]. split; [eapply Ext_trans; eauto|exact Ham]. }
  rewrite E9. cbn [bind].
  (* the base is re-populated *)
  destruct L9 as (Fr9 & Hge9 & (o9 & ro9 & Et9 & Eo9) & Hl9).
  set (rs := mkT (Some o9) None (S mutant) (S (S mutant)) d false false) in *.
  unfold mirror. rewrite Et9. cbn [bind].
  pose proof F9 as (W9 & U9 & E49).
  assert (HrootX : In root X) by (change root with (n_t (root, h_next h3, None)); now apply in_map).
  assert (Hroot9 : exists rt, getT h9 root = Some rt).
  { destruct (i_ph _ _ _ _ _ _ I _ Hrootnode) as (rt & _ & E1 & _). unfold n_t in E1; simpl in E1.
    exists rt. rewrite (e_X _ _ _ E49 root HrootX). rewrite (i_tget _ _ _ _ _ _ I); auto. eapply getT_lt; eauto. }
  destruct Hroot9 as (rt & Ert).
  assert (Hmr : mutant <> root) by (apply (X_lt h3 root h4 g tb L DS) in HrootX; pose proof (next34 h3 root h4 g tb L DS); lia).
  assert (W11 : wfx (rm root X) (delT (setT h9 root rs) mutant)).
  { apply (wfx_move X h9 root mutant rt rs); auto.
    - discriminate.
    - apply (f_unl _ _ Fr9).
    - apply (f_nobase _ _ Fr9).
    - intros Hx. apply (X_lt h3 root h4 g tb L DS) in Hx. pose proof (next34 h3 root h4 g tb L DS). lia. }
  set (h11 := delT (setT h9 root rs) mutant) in *.
  assert (NDt : NoDup (root :: map n_t g2)).
  { pose proof (i_tnd _ _ _ _ _ _ I) as Q. rewrite Eg in Q. exact Q. }
  assert (ND1 : ~ In root (map n_t g2)) by (inversion NDt; assumption).
  assert (EX : rm root X = map n_t g2).
  { unfold X. rewrite Eg. simpl. unfold n_t at 1; simpl. now apply rm_head_nodup. }
  rewrite EX in W11.
  assert (Hget11 : forall q, getT h11 q = if Nat.eqb mutant q then None else if Nat.eqb root q then Some rs else getT h9 q).
  { intros q. unfold h11, getT, delT, setT; simpl. rewrite get_del by (apply NoDup_keys_put, (x_nd_t _ _ W9)). now rewrite get_put. }
  (* iteration order *)
  assert (PT : ph_tree h3 g h11).
  { intros n Hn. destruct (ph_tree_ext h9 E49 n Hn) as (rp & Erp & Elst). exists rp. split; auto.
    rewrite Hget11. pose proof (i_p _ _ _ _ _ _ I n Hn).
    destruct (Nat.eqb mutant (n_p n)) eqn:Q1; [apply Nat.eqb_eq in Q1; lia|].
    destruct (Nat.eqb root (n_p n)) eqn:Q2; auto.
    apply Nat.eqb_eq in Q2. apply (X_lt h3 root h4 g tb L DS) in HrootX. lia. }
  rewrite (nodes_eq h3 root h4 g tb L DS h11 PT). cbn [bind].
  (* the views are re-created *)
  assert (Li : LI g2 h11).
  { split; [exact W11|]. split; [|split; [|split; [|split; [|split]]]].
    - intros t r c E Hc Hcg. rewrite Hget11 in E.
      destruct (Nat.eqb mutant t) eqn:Q1; [discriminate|].
      destruct (Nat.eqb root t) eqn:Q2.
      + inversion E; subst r. simpl in Hc. change (lst_of h11 (S mutant)) with (lst_of h9 (S mutant)) in Hc. rewrite Hl9 in Hc. destruct Hc.
      + apply Nat.eqb_neq in Q2.
        assert (In t X).
        { eapply (U9 t r c); eauto.
          - unfold X. rewrite Eg. simpl. auto.
          - intros ->. tauto. }
        unfold X in H. rewrite Eg in H. simpl in H. destruct H as [H|H]; [unfold n_t in H; simpl in H; congruence|exact H].
    - intros n Hn. assert (HnX : In (n_t n) X) by (unfold X; rewrite Eg; simpl; right; now apply in_map).
      rewrite Hget11.
      destruct (Nat.eqb mutant (n_t n)) eqn:Q1.
      { apply Nat.eqb_eq in Q1. apply (X_lt h3 root h4 g tb L DS) in HnX. pose proof (next34 h3 root h4 g tb L DS). lia. }
      destruct (Nat.eqb root (n_t n)) eqn:Q2.
      { apply Nat.eqb_eq in Q2. exfalso. apply ND1. rewrite Q2. now apply in_map. }
      rewrite (e_X _ _ _ E49 _ HnX). apply (i_tget _ _ _ _ _ _ I). apply (X_lt h3 root h4 g tb L DS); auto.
    - intros n Hn Hn2. rewrite Eg in Hn. destruct Hn as [<-|Hn]; [|tauto].
      exists rs. unfold n_t; simpl. split.
      + rewrite Hget11. destruct (Nat.eqb mutant root) eqn:Q; [apply Nat.eqb_eq in Q; congruence|]. now rewrite Nat.eqb_refl.
      + simpl. change (getA h11 d) with (getA h9 d). rewrite (e_arr _ _ _ E69); auto.
    - intros o r E. change (getO h11 o) with (getO h9 o). apply (e_ops _ _ _ E49). exact E.
    - intros n r0 Hn Er0. change (lst_of h11 (t_children r0)) with (lst_of h9 (t_children r0)).
      pose proof (proj1 (wf_tens _ W3 _ _ Er0)) as Hp. rewrite (e_lst _ _ _ E49) by (pose proof (next34 h3 root h4 g tb L DS); lia).
      apply (h1_lst_old h3 root h4 g tb L DS). exact Hp.
    - change (h_next h11) with (h_next h9). apply (e_next _ _ _ E49). }
  rewrite Eg. cbn [fold_left rebuild_step n_parent snd].
  destruct (rebuild_fold g2 [(root, h_next h3, None)] h11 Eg) as (h12 & E12 & Li12); auto.
  - intros n Hn Hp. assert (Hng : In n g) by (rewrite Eg; simpl; auto).
    pose proof (g_parent h3 root h4 g tb L DS n Hng) as Q. rewrite Hp in Q. subst n.
    apply ND1. change root with (n_t (root, h_next h3, None)). now apply in_map.
  - rewrite E12. cbn [bind]. exists h12. split; auto. apply wfx_nil. apply Li12. Qed.

End Finish.
