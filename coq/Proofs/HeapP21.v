(* HeapP21: T6 (the in-place statement is never stuck) and T5 (wf is preserved by every clear-free statement). *)
From Coq Require Import List Arith Bool PeanoNat Lia.
Import ListNotations.
From MG Require Import Model.Heap.
From MG.Proofs Require Import HeapP1 HeapWfb HeapP2 HeapP3 HeapP4 HeapP5 HeapP6 HeapP7 HeapP8 HeapP9 HeapP10 HeapP11 HeapP12 HeapP13 HeapP14
               HeapP15 HeapP16 HeapP17 HeapP18 HeapP19 HeapP20.

Lemma wf_same_tables h h' : wf h -> same_tables h h' -> h_next h <= h_next h' -> wf h'.
Proof. intros W (S1 & S2 & S3 & S4 & S5) L. apply wfx_nil. apply wfx_nil in W.
  destruct h' as [a b c d e n]. simpl in *. subst. apply (wfx_bump [] h n W L). Qed.

Lemma success_from_dup h m tm0 h3 r2 pb (root : id) h4 g path h5 am h6 at_ k inputs masked :
  wf h -> getT h m = Some tm0 -> Preamble h m tm0 h3 r2 pb ->
  root = (match t_base r2 with Some b => b | None => m end) ->
  dup h3 root = Some (h4, g) ->
  path_to_base g m = Some path -> new_array h4 None None = (h5, am) ->
  (if Nat.eqb m root then Some (h5, am) else view_array h5 am) = Some (h6, at_) ->
  (forall i, In i inputs -> getT h i <> None) ->
  exists h12, inplace_success h6 g m k inputs masked am at_ root path = Some (Done h12) /\ wf h12.
Proof. intros W Hm P Hroot D EP NA E6 Hin.
  pose proof (pr_wf _ _ _ _ _ _ P) as W3.
  destruct (dup_spec h3 root h4 g W3 D) as (tb & L & DS).
  pose proof (FZ_h4 h3 root h4 g tb L W3 DS) as F4.
  pose proof (FZ_new_array root h4 g h4 None None h5 am F4 NA) as F5.
  pose proof (new_array_spec _ _ _ _ _ NA) as (N1 & N2 & N3 & N4 & N5 & N6 & N7 & N8).
  assert (F6 : FZ root h4 g h6 /\ getA h6 at_ <> None /\ getA h6 am <> None).
  { destruct (Nat.eqb m root).
    - inversion E6; subst h6 at_. auto.
    - split; [eapply FZ_view_array; eauto|].
      pose proof (view_array_spec _ _ _ _ E6) as (V1 & V2 & V3 & V4 & V5 & V6 & V7 & V8). split; auto.
      rewrite V8; auto. rewrite V5, N5. lia. }
  destruct F6 as (F6 & Hat & Ham).
  pose proof EP as EP'. unfold path_to_base in EP'. apply bind_Some in EP'. destruct EP' as (nm & Hnm & _).
  assert (Hm3 : getT h3 m = Some r2) by apply (pr_m _ _ _ _ _ _ P).
  assert (HmX : In m (map n_t g)).
  { destruct (gfind_In _ _ _ Hnm) as (Hn & [->|Ep]); [now apply in_map|].
    exfalso. apply (getT_lt _ _ _ W3) in Hm3. pose proof (i_p _ _ _ _ _ _ (ds_inv _ _ _ _ _ _ DS) nm Hn). lia. }
  apply (success_ok h3 root h4 g tb L W3 DS h6 m r2 k inputs masked am at_ path nm); auto.
  - intros i Hi. specialize (Hin i Hi). destruct (getT h i) as [ri|] eqn:Ei; [|congruence].
    assert (In i (keys (h_t h3))) by (rewrite (pr_keys _ _ _ _ _ _ P); eapply get_keys; exact Ei).
    apply keys_get in H. destruct H as (ri3 & E3). unfold getT. congruence.
  - apply (path_to_base_in g m path EP). Qed.

(* T6 *)
Theorem inplace_not_stuck h m k inputs masked fails tm0 : wf h -> getT h m = Some tm0 ->
  (forall i, In i inputs -> getT h i <> None) ->
  exists out, inplace h m k inputs masked fails = Some out.
Proof. intros W Hm Hin. destruct fails; [eapply inplace_fail_not_stuck; eauto|].
  rewrite inplace_unfold.
  destruct (preamble_ex h m tm0 W Hm) as (h1 & tm1 & h2 & tm2 & h3 & pb & E1 & E2 & E3 & E4 & E5).
  pose proof (preamble_spec h m tm0 h1 tm1 h2 tm2 h3 pb W Hm E1 E2 E3 E4 E5) as P.
  rewrite Hm. cbn [bind]. rewrite E1. cbn [bind]. rewrite E2. cbn [bind]. rewrite E3. cbn [bind]. rewrite E4. cbn [bind]. rewrite E5. cbn [bind].
  destruct (Preamble_root_nograd _ _ _ _ _ _ P) as (rr & Err & Hgr).
  set (root := match t_base tm2 with Some b => b | None => m end) in *.
  destruct (dup_exists h3 root rr (pr_wf _ _ _ _ _ _ P) Err Hgr) as (h4 & g & D). rewrite D.
  destruct (path_to_base g m) as [path|] eqn:EP; [|eapply inplace_fail_ex; eauto].
  destruct (new_array h4 None None) as [h5 am] eqn:NA.
  pose proof (new_array_spec _ _ _ _ _ NA) as (N1 & N2 & N3 & N4 & N5 & N6 & N7 & N8).
  assert (exists h6 at_, (if Nat.eqb m root then Some (h5, am) else view_array h5 am) = Some (h6, at_) /\ h_t h6 = h_t h4)
    as (h6 & at_ & E6 & Ht6).
  { destruct (Nat.eqb m root); [eauto|]. destruct (view_array_ex h5 am N7) as (h6 & a' & E). exists h6, a'. split; auto.
    apply view_array_spec in E. destruct E as (V1 & _). congruence. }
  rewrite E6. cbn [bind].
  destruct (dup_spec h3 root h4 g (pr_wf _ _ _ _ _ _ P) D) as (tb & L & DS).
  assert (path_check h6 root path = true) as ->.
  { unfold path_check. apply forallb_forall. intros n Hn. apply (path_to_base_in g m path EP) in Hn.
    destruct (g_path_check h3 root h4 g tb L (pr_wf _ _ _ _ _ _ P) DS n Hn) as (rp & Erp & Hc).
    unfold getT. rewrite Ht6. fold (getT h4 (n_p n)). rewrite Erp. exact Hc. }
  cbn [negb].
  destruct (success_from_dup h m tm0 h3 tm2 pb _ h4 g path h5 am h6 at_ k inputs masked W Hm P eq_refl D EP NA E6 Hin) as (h12 & E12 & _).
  eauto. Qed.

(* T5, in-place statement *)
Theorem wf_inplace h m k inputs masked fails out : wf h -> (forall i, In i inputs -> getT h i <> None) ->
  inplace h m k inputs masked fails = Some out -> wf (heap_of out).
Proof. intros W Hin H. destruct out as [h'|h'].
  2:{ destruct (inplace_raised_noop_next h m k inputs masked fails h' W H). eapply wf_same_tables; eauto. }
  simpl. rewrite inplace_unfold in H.
  apply bind_Some in H. destruct H as (tm0 & Hm & H).
  apply bind_Some in H. destruct H as (h1 & NG & H).
  apply bind_Some in H. destruct H as (tm1 & Hm1 & H).
  apply bind_Some in H. destruct H as (h2 & H2 & H).
  apply bind_Some in H. destruct H as (tm2 & Hm2 & H).
  apply bind_Some in H. destruct H as ([h3 pb] & HB & H).
  pose proof (preamble_spec h m tm0 h1 tm1 h2 tm2 h3 pb W Hm NG Hm1 H2 Hm2 HB) as P.
  cbv zeta in H.
  destruct (dup h3 (match t_base tm2 with Some b => b | None => m end)) as [[h4 g]|] eqn:D; [|discriminate].
  assert (Hfail : forall pr pb', inplace_fail h4 g m pr pb' = Some (Done h') -> False).
  { intros pr pb' F. unfold inplace_fail in F.
    apply bind_Some in F. destruct F as (? & _ & F). apply bind_Some in F. destruct F as (? & _ & F). discriminate. }
  destruct (path_to_base g m) as [path|] eqn:EP; [|exfalso; eapply Hfail; eauto].
  destruct (new_array h4 None None) as [h5 am] eqn:NA.
  apply bind_Some in H. destruct H as ([h6 at_] & E6 & H).
  destruct (negb (path_check h6 _ path)); [discriminate|].
  destruct fails; [exfalso; eapply Hfail; eauto|].
  destruct (success_from_dup h m tm0 h3 tm2 pb _ h4 g path h5 am h6 at_ k inputs masked W Hm P eq_refl D EP NA E6 Hin) as (h12 & E12 & W12).
  rewrite E12 in H. inversion H; subst. exact W12. Qed.

(* ------------------------------------------------------------------ T5, the other statements *)
Lemma wf_new_leaf h : wf h -> wf (fst (new_leaf h)).
Proof. intros W. apply wfx_nil in W. apply wfx_nil. unfold new_leaf.
  destruct (new_array h None None) as [h1 a] eqn:NA.
  destruct (new_tensor h1 None None a) as [h2 t] eqn:NT. simpl.
  eapply wfx_new_tensor; [eapply wfx_new_array; eauto|exact NT|discriminate]. Qed.

Lemma wf_op h k vars h' : wf h -> step h (SOp k vars) = Some (Done h') -> wf h'.
Proof. intros W H. apply wfx_nil in W. apply wfx_nil. unfold step in H.
  destruct (new_array h None None) as [h1 a] eqn:NA.
  apply bind_Some in H. destruct H as ([h2 t] & AO & H). inversion H; subst. simpl.
  pose proof (wfx_new_array [] _ _ _ _ _ W NA) as W1.
  pose proof (apply_op_spec _ _ _ _ _ _ _ AO) as S.
  eapply wfx_apply_op; [exact W1| | |exact AO].
  - intros v Hv. pose proof (ao_vars _ _ _ _ _ _ _ S v Hv). destruct (getT h1 v) eqn:E; [|congruence].
    apply (x_lt_t _ _ W1). eapply get_keys; exact E.
  - intros v []. Qed.

Lemma wf_view h k par h' : wf h -> step h (SView k par) = Some (Done h') -> wf h'.
Proof. intros W H. apply wfx_nil in W. apply wfx_nil. unfold step in H.
  apply bind_Some in H. destruct H as ([h2 t] & AV & H). inversion H; subst. simpl.
  eapply wfx_apply_view; eauto. Qed.

(* the statement mentions allocated tensors (only the operands of an in-place statement matter); clear_graph is excluded *)
Definition stmt_ok (h : heap) (s : stmt) : Prop :=
  match s with
  | SInplace m k inputs _ _ => forall i, In i inputs -> getT h i <> None
  | SClear _ => False
  | _ => True
  end.

Theorem wf_step h s o : wf h -> stmt_ok h s -> step h s = Some o -> wf (heap_of o).
Proof. intros W OK H. destruct s as [|k vars|k par|m k inputs masked fails|t].
  - unfold step in H. inversion H; subst. simpl. now apply wf_new_leaf.
  - assert (exists h', o = Done h') as (h' & ->).
    { unfold step in H. destruct (new_array h None None). apply bind_Some in H. destruct H as (? & _ & H). inversion H; eauto. }
    simpl. eapply wf_op; eauto.
  - assert (exists h', o = Done h') as (h' & ->).
    { unfold step in H. apply bind_Some in H. destruct H as (? & _ & H). inversion H; eauto. }
    simpl. eapply wf_view; eauto.
  - simpl in H, OK. eapply wf_inplace; eauto.
  - destruct OK. Qed.

Fixpoint run_ok (h : heap) (ss : list stmt) : Prop :=
  match ss with
  | [] => True
  | s :: r => stmt_ok h s /\ forall o, step h s = Some o -> run_ok (heap_of o) r
  end.

Theorem wf_run ss : forall h h', wf h -> run_ok h ss -> run h ss = Some h' -> wf h'.
Proof. induction ss as [|s r IH]; intros h h' W OK H; simpl in H.
  - now inversion H; subst.
  - destruct OK as (OK1 & OK2). apply bind_Some in H. destruct H as (o & E & H).
    eapply (IH (heap_of o)); eauto. eapply wf_step; eauto. Qed.

Corollary wf_reachable ss h' : run_ok empty_heap ss -> run empty_heap ss = Some h' -> wf h'.
Proof. apply wf_run. apply wf_empty. Qed.
